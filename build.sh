#!/bin/sh
# Builds the Coq development (full .vo build) and the extracted OCaml model.
# Usage: build.sh [make targets...]   (no targets = everything)
set -e
cd "$(dirname "$0")"
mkdir -p _build/extract
cd coq
# _CoqProject is regenerated from the files present (sorted), so adding a .v file needs no edit
{ echo "-Q . Labella"; find . -name '*.v' -not -name '.*' | sed 's|^\./||' | LC_ALL=C sort; } > _CoqProject.new
if [ ! -f _CoqProject ] || ! cmp -s _CoqProject _CoqProject.new; then mv _CoqProject.new _CoqProject; else rm _CoqProject.new; fi
if [ ! -f Makefile ] || [ _CoqProject -nt Makefile ]; then
  coq_makefile -f _CoqProject -o Makefile >/dev/null
fi
timeout 3000 make -j"${VERIF_JOBS:-16}" "$@" > ../_build/make.log 2>&1 || { tail -40 ../_build/make.log; exit 2; }
cd ..
if [ ! -x _build/model_main ] || [ _build/extract/model.ml -nt _build/model_main ] || [ ocaml/driver.ml -nt _build/model_main ]; then
  cp ocaml/driver.ml _build/extract/driver.ml
  ( cd _build/extract && timeout 900 ocamlfind ocamlopt -O2 -w -a -package zarith -linkpkg model.mli model.ml driver.ml -o ../model_main 2>/dev/null \
    || timeout 900 ocamlfind ocamlopt -w -a -package zarith -linkpkg model.mli model.ml driver.ml -o ../model_main )
fi
