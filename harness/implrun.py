"""Runs inside a subprocess started from /repo's working tree:
implrun.py <property module> <cases.jsonl> <out.jsonl>.
Each line of the input is the 'py' part of a case; the property module's
impl(py) is called under a per-case alarm; exceptions become
{"exc": <class name>}."""
import importlib
import json
import signal
import sys


class CaseTimeout(BaseException):
    pass


def _alarm(signum, frame):
    raise CaseTimeout()


def main():
    modname, fin, fout = sys.argv[1:4]
    mod = importlib.import_module("harness.props." + modname)
    signal.signal(signal.SIGALRM, _alarm)
    limit = float(getattr(mod, "CASE_TIMEOUT", 20))
    with open(fin) as f, open(fout, "w") as g:
        for line in f:
            py = json.loads(line)
            try:
                signal.setitimer(signal.ITIMER_REAL, limit)
                try:
                    out = mod.impl(py)
                finally:
                    signal.setitimer(signal.ITIMER_REAL, 0)
            except CaseTimeout:
                out = {"exc": "Timeout"}
            except RecursionError as e:
                out = {"exc": "RecursionError"}
            except Exception as e:  # noqa
                out = {"exc": type(e).__name__, "msg": str(e)[:200]}
            g.write(json.dumps(out) + "\n")
            g.flush()


main()
