"""Shared helpers for timeline-level properties (C10, C11): JSON-able dataset
and option specs -> real labella objects.  Imported inside the implementation
subprocess (labella is imported lazily)."""
import datetime


def mk_time(t):
    """t: number | "D:2020-01-31" (date) | "T:2020-01-31T12:30:00.250" (datetime) | "C:12:30:00" (time)"""
    if isinstance(t, (int, float)):
        return t
    kind, v = t.split(":", 1)
    if kind == "D":
        return datetime.date.fromisoformat(v)
    if kind == "T":
        return datetime.datetime.fromisoformat(v)
    if kind == "C":
        return datetime.time.fromisoformat(v)
    raise ValueError(t)


def mk_data(spec):
    out = []
    for it in spec:
        d = {"time": mk_time(it["time"])}
        if "width" in it:
            d["width"] = it["width"]
        if "text" in it:
            d["text"] = it["text"]
        out.append(d)
    return out


def mk_options(spec, scale=None):
    """spec: JSON dict of plain option values; None -> options omitted."""
    if spec is None:
        return None if scale is None else {"scale": scale}
    o = {}
    for k, v in spec.items():
        o[k] = dict(v) if isinstance(v, dict) else v
    if scale is not None:
        o["scale"] = scale
    return o


def mk_scale(kind):
    from labella.scale import LinearScale, TimeScale
    return LinearScale() if kind == "linear" else TimeScale()


def mk_timeline(kind, data, options):
    from labella.timeline import TimelineSVG, TimelineTex
    return (TimelineSVG if kind == "svg" else TimelineTex)(data, options)


def export_text(tl):
    out = tl.export()
    return out.decode("utf-8") if isinstance(out, bytes) else out
