"""Common machinery for every property check.

run(prop, tier, seed):
  1. build   : full .vo build of the Coq development + extracted OCaml model
  2. proofs  : re-compile coq/Props/<id>.v, parse Print Assumptions, scan the
               tree for forbidden constructs
  3. tie     : corpus + generated cases; implementation (subprocess, /repo's
               working tree) vs extracted model; a slice re-checked by
               vm_compute inside coqc (no extraction involved)
  4. oracle  : the property statement itself, evaluated on the
               implementation's outputs (search for failing inputs)
  5. verdict : violation protocol of DESIGN.md section 3.3
"""
import hashlib
import json
import os
import random
import re
import subprocess
import sys
import time

VERIF = os.path.dirname(os.path.dirname(os.path.abspath(__file__)))
REPO = os.environ.get("VERIF_REPO", "/repo")
COQ = os.path.join(VERIF, "coq")
BUILD = os.path.join(VERIF, "_build")
PY = "/venv/bin/python"
GUARD = "GJJVDBURG_LABELLA_PY_VERIF"

FORBIDDEN = re.compile(
    r"\b(Admitted|admit|Axiom|Axioms|Parameter|Parameters|Conjecture|Conjectures|"
    r"Admit Obligations|bypass_check|Unset Guard Checking|Unset Positivity Checking|"
    r"Unset Universe Checking|type-in-type|impredicative-set|native_compute|Program Fixpoint|Program Definition|"
    r"Program Lemma|Function|funelim|Equations|Obligation|give_up)\b"
)
TOPLEVEL_VAR = re.compile(r"^\s*(Variable|Variables|Hypothesis|Hypotheses|Context)\b")

TRUSTED_BASE = [
    "Coq 8.16.1 kernel (coqc, full .vo build; vm_compute used; native_compute not used)",
    "axioms: none (every property theorem must print 'Closed under the global context'; the check fails otherwise)",
    "extraction: ExtrOcamlBasic + ExtrOcamlZBigInt (stdlib directives mapping positive/N/Z to zarith Big_int_Z), OCaml 4.13.1, zarith 1.12; no hand-written Extract Constant; a slice of every run is re-evaluated by vm_compute in coqc and compared",
    "correspondence check (harness/*.py): generators, implementation runner, canonicalisation and tolerances; it is differential testing and bounded by the generators",
    "modelled rather than verified: all of labella/*.py; doubles are modelled by exact rationals (gap measured by the tie on every run)",
]


class Ambiguous(Exception):
    pass


def sh(cmd, timeout, cwd=VERIF, env=None, inp=None):
    e = dict(os.environ)
    if env:
        e.update(env)
    t0 = time.time()
    try:
        p = subprocess.run(cmd, cwd=cwd, env=e, input=inp, capture_output=True,
                           text=True, timeout=timeout, shell=isinstance(cmd, str))
        return p.returncode, p.stdout, p.stderr, time.time() - t0
    except subprocess.TimeoutExpired as ex:
        return 124, (ex.stdout or b"").decode() if isinstance(ex.stdout, bytes) else (ex.stdout or ""), "timeout", time.time() - t0


# ---------------------------------------------------------------- build ---
def build(targets):
    """Build model + extraction (always) and the given proof targets.
    Returns (model_ok, proofs_ok, log)."""
    os.makedirs(os.path.join(BUILD, "extract"), exist_ok=True)
    rc, out, err, _ = sh([os.path.join(VERIF, "build.sh"), "Extract/Extract.vo"], 3200)
    if rc != 0:
        return False, False, out + err
    rc, out, err, _ = sh([os.path.join(VERIF, "build.sh")] + list(targets), 3200)
    return True, rc == 0, out + err


def scan_forbidden():
    bad = []
    for root, _, files in os.walk(COQ):
        for f in files:
            if not f.endswith(".v"):
                continue
            path = os.path.join(root, f)
            depth = 0
            in_comment = 0
            for ln, line in enumerate(open(path, encoding="utf-8"), 1):
                # strip comments (nesting aware, line granular is enough here)
                txt = ""
                i = 0
                while i < len(line):
                    if line.startswith("(*", i):
                        in_comment += 1
                        i += 2
                    elif line.startswith("*)", i) and in_comment:
                        in_comment -= 1
                        i += 2
                    else:
                        if not in_comment:
                            txt += line[i]
                        i += 1
                if re.match(r"^\s*Section\b", txt):
                    depth += 1
                if re.match(r"^\s*End\b", txt) and depth:
                    depth -= 1
                if FORBIDDEN.search(txt):
                    bad.append("%s:%d: %s" % (os.path.relpath(path, VERIF), ln, txt.strip()))
                if depth == 0 and TOPLEVEL_VAR.match(txt):
                    bad.append("%s:%d: top-level %s" % (os.path.relpath(path, VERIF), ln, txt.strip()))
    return bad


def check_props_file(pid):
    """Re-compile Props/<id>.v, return dict(theorems, closed, axioms, ok, log)."""
    vfile = os.path.join("Props", pid + ".v")
    src = open(os.path.join(COQ, vfile), encoding="utf-8").read()
    theorems = re.findall(r"^\s*(?:Theorem|Corollary)\s+(\w+)", src, re.M)
    examples = re.findall(r"^\s*Example\s+(\w+)", src, re.M)
    printed = re.findall(r"^\s*Print Assumptions\s+(\w+)", src, re.M)
    # compile to a scratch .vo so that the output is captured on every run
    pdir = os.path.join(BUILD, "props" + ("_" + os.environ["VERIF_RUN_TAG"] if os.environ.get("VERIF_RUN_TAG") else ""))
    os.makedirs(pdir, exist_ok=True)
    outvo = os.path.join(pdir, pid + ".vo")
    rc, out, err, wall = sh(["coqc", "-Q", ".", "Labella", "-o", outvo, vfile], 900, cwd=COQ)
    closed = out.count("Closed under the global context")
    axioms = []
    if "Axioms:" in out:
        for blk in out.split("Axioms:")[1:]:
            for l in blk.splitlines():
                m = re.match(r"^(\S+)\s*:", l)
                if m:
                    axioms.append(m.group(1))
    missing = [t for t in theorems if t not in printed]
    ok = rc == 0 and closed == len(printed) and not axioms and not missing
    return dict(theorems=theorems, examples=examples, printed=printed, closed=closed,
                axioms=sorted(set(axioms)), unprinted=missing, ok=ok, rc=rc,
                log=(out + err)[-3000:], wall=wall)


# ------------------------------------------------------------------ tie ---
def run_impl(modname, cases, workdir, tz="UTC", shards=None, timeout=3000):
    """Run the implementation on the cases (their 'py' part) in subprocesses
    started from /repo's working tree.  Returns list of outputs."""
    os.makedirs(workdir, exist_ok=True)
    n = len(cases)
    if shards is None:
        per = 200
        try:
            import importlib
            per = int(getattr(importlib.import_module("harness.props." + modname), "CASES_PER_SHARD", 200))
        except Exception:
            pass
        shards = max(1, min(12, (n + per - 1) // per))
    procs = []
    for s in range(shards):
        part = cases[s::shards]
        fin = os.path.join(workdir, "impl_in_%s_%d.jsonl" % (tz.replace("/", "_"), s))
        fout = os.path.join(workdir, "impl_out_%s_%d.jsonl" % (tz.replace("/", "_"), s))
        with open(fin, "w") as f:
            for c in part:
                f.write(json.dumps(c["py"]) + "\n")
        env = dict(os.environ)
        env.update({"PYTHONPATH": REPO + os.pathsep + VERIF, "PYTHONHASHSEED": "0",
                    "TZ": tz, GUARD: "1", "PYTHONDONTWRITEBYTECODE": "1"})
        cmd = [PY, "-W", "ignore"]
        if os.environ.get("VERIF_COVERAGE"):
            # measure which lines/branches of labella/*.py the tie's cases actually execute
            covdir = os.environ["VERIF_COVERAGE"]
            os.makedirs(covdir, exist_ok=True)
            cmd += ["-m", "coverage", "run", "--branch", "--source=" + os.path.join(REPO, "labella"),
                    "--data-file=" + os.path.join(covdir, ".coverage.%s.%s.%d.%d" % (modname, tz.replace("/", "_"), s, os.getpid()))]
        p = subprocess.Popen(cmd + [os.path.join(VERIF, "harness", "implrun.py"),
                              modname, fin, fout], cwd=REPO, env=env,
                             stdout=subprocess.PIPE, stderr=subprocess.PIPE, text=True)
        procs.append((p, fout, len(part), s))
    outs = [None] * n
    for p, fout, cnt, s in procs:
        try:
            so, se = p.communicate(timeout=timeout)
        except subprocess.TimeoutExpired:
            p.kill()
            so, se = p.communicate()
        res = []
        if os.path.exists(fout):
            for line in open(fout):
                res.append(json.loads(line))
        while len(res) < cnt:
            res.append({"exc": "RunnerDied", "msg": (se or "")[-300:]})
        outs[s::shards] = res
    return outs


def run_model(cases, workdir, timeout=3000):
    """cases[i]['model'] is a list of int lists (one per model call).
    Returns list of lists of int lists."""
    os.makedirs(workdir, exist_ok=True)
    fin = os.path.join(workdir, "model_in.txt")
    fout = os.path.join(workdir, "model_out.txt")
    with open(fin, "w") as f:
        for c in cases:
            for call in c["model"]:
                f.write(" ".join(str(int(x)) for x in call) + "\n")
    rc, out, err, _ = sh(["/bin/sh", "-c", "ulimit -s unlimited 2>/dev/null; exec %s %s %s" % (
        os.path.join(BUILD, "model_main"), fin, fout)], timeout)
    lines = open(fout).read().split("\n") if os.path.exists(fout) else []
    res = []
    k = 0
    for c in cases:
        r = []
        for _ in c["model"]:
            if k < len(lines) and lines[k].strip() != "":
                r.append([int(x) for x in lines[k].split()])
            else:
                r.append(None)
            k += 1
        res.append(r)
    return res


def vm_crosscheck(calls, workdir, timeout=900):
    """calls: list of (int list in, int list out) as produced by the OCaml
    model.  Re-evaluates them with vm_compute inside coqc.  Returns
    (n_checked, ok, log)."""
    if not calls:
        return 0, True, ""
    os.makedirs(workdir, exist_ok=True)
    path = os.path.join(workdir, "vmcheck.v")

    def zl(l):
        return "[" + "; ".join("(%d)" % x for x in l) + "]"
    with open(path, "w") as f:
        f.write("From Coq Require Import ZArith List.\nFrom Labella Require Import Extract.Api.\n"
                "Import ListNotations.\nOpen Scope Z_scope.\n")
        for i, (a, b) in enumerate(calls):
            f.write("Goal api (%d) %s = %s.\nProof. vm_compute. reflexivity. Qed.\n" % (a[0], zl(a[1:]), zl(b)))
    rc, out, err, _ = sh(["coqc", "-Q", COQ, "Labella", "-o", os.path.join(workdir, "vmcheck.vo"), path],
                         timeout, cwd=workdir)
    return len(calls), rc == 0, (out + err)[-1500:]


# ------------------------------------------------------------- findings ---
def load_findings():
    p = os.path.join(VERIF, "known_findings.json")
    if not os.path.exists(p):
        return []
    return json.load(open(p))["findings"]


def write_replay(pid, payload):
    os.makedirs(os.path.join(VERIF, "replays"), exist_ok=True)
    blob = json.dumps(payload, sort_keys=True, default=str)
    h = hashlib.sha1(blob.encode()).hexdigest()[:12]
    path = os.path.join(VERIF, "replays", "%s-%s.json" % (pid, h))
    with open(path, "w") as f:
        f.write(json.dumps(payload, indent=1, default=str))
    return path


def load_corpus(pid):
    d = os.path.join(VERIF, "corpus", pid)
    res = []
    if os.path.isdir(d):
        for f in sorted(os.listdir(d)):
            if f.endswith(".json"):
                try:
                    obj = json.load(open(os.path.join(d, f)))
                except Exception:
                    continue
                for c in (obj if isinstance(obj, list) else [obj]):
                    res.append(c)
    return res


# ------------------------------------------------------------------ run ---
def run(prop, tier, seed, replay=None):
    t0 = time.time()
    pid = prop.ID
    # VERIF_RUN_TAG lets several runs of the same check work side by side (mutation campaigns)
    tag = os.environ.get("VERIF_RUN_TAG", "")
    workdir = os.path.join(BUILD, "run", pid + ("_" + tag if tag else ""))
    os.makedirs(workdir, exist_ok=True)
    rng = random.Random("%s-%d" % (pid, seed))
    violations = []      # (message, replay payload)
    notes = []

    # 1. build
    targets = ["Props/%s.vo" % pid] + list(getattr(prop, "EXTRA_TARGETS", []))
    model_ok, proofs_ok, blog = build(targets)
    if not model_ok:
        print("FRAMEWORK-ERROR: model/extraction build failed\n" + blog[-2000:])
        payload = {"property": pid, "kind": "model-build-broken", "log": blog[-3000:]}
        path = write_replay(pid, payload)
        print("VIOLATION property=%s replay=%s no-failing-input-found" % (pid, path))
        return 1

    # 2. proofs
    pinfo = check_props_file(pid) if proofs_ok else dict(
        theorems=[], examples=[], printed=[], closed=0, axioms=[], unprinted=[], ok=False, rc=2, log=blog[-3000:], wall=0)
    if not proofs_ok:
        # still count the statements
        src = open(os.path.join(COQ, "Props", pid + ".v"), encoding="utf-8").read()
        pinfo["theorems"] = re.findall(r"^\s*(?:Theorem|Corollary)\s+(\w+)", src, re.M)
    forbidden = scan_forbidden()
    # thorough tier: re-check the compiled theory with the independent checker
    chk = None
    if tier == "thorough" and pinfo["ok"] and os.environ.get("VERIF_NO_COQCHK") != "1":
        rc, out, err, w = sh(["coqchk", "-silent", "-o", "-Q", ".", "Labella", "Labella.Props." + pid], 3000, cwd=COQ)
        txt = out + err
        ax = ""
        if "* Axioms:" in txt:
            ax = txt.split("* Axioms:")[1].split("* Constants")[0].strip()
        chk = {"rc": rc, "axioms": ax, "wall_s": round(w, 1)}
        if rc != 0 or ax not in ("<none>", ""):
            pinfo["ok"] = False
            pinfo["log"] = "coqchk: rc=%s axioms=%s\n%s" % (rc, ax, txt[-1500:])
    proof_broken = (not pinfo["ok"]) or bool(forbidden)

    # 3. cases
    if replay is not None:
        rp = json.load(open(replay))
        cases = [prop.rebuild(c) for c in rp.get("cases", [])] if hasattr(prop, "rebuild") else rp.get("cases", [])
        corpus_n = 0
    else:
        corpus = [prop.rebuild(c) if hasattr(prop, "rebuild") else c for c in load_corpus(pid)]
        corpus_n = len(corpus)
        cases = corpus + list(prop.gen(rng, tier))
    tzs = getattr(prop, "TZS", ["UTC"])
    impl_by_tz = {}
    for tz in tzs:
        impl_by_tz[tz] = run_impl(prop.MODNAME, cases, workdir, tz=tz)
    impl_out = impl_by_tz[tzs[0]]
    model_out = run_model(cases, workdir)

    if hasattr(prop, "prepare_compare"):
        prop.prepare_compare(cases, impl_out, model_out, workdir)
    mism = []
    ambiguous = 0
    oracle_fail = []
    nontrivial = set()
    kinds = {}
    for i, c in enumerate(cases):
        kinds[c.get("kind", "?")] = kinds.get(c.get("kind", "?"), 0) + 1
        # zone independence (only when several zones were requested)
        for tz in tzs[1:]:
            if impl_by_tz[tz][i] != impl_out[i]:
                oracle_fail.append((i, "output differs between TZ=%s and TZ=%s" % (tzs[0], tz)))
                break
        try:
            why = prop.compare(c, impl_out[i], model_out[i])
        except Ambiguous:
            ambiguous += 1
            why = None
        except Exception as e:  # noqa  -- an output the comparison cannot even digest is a disagreement
            why = "comparison raised %s: %s (implementation output malformed?)" % (type(e).__name__, str(e)[:200])
        if why:
            mism.append((i, why))
        try:
            ofail = prop.oracle(c, impl_out[i]) if hasattr(prop, "oracle") else None
        except Exception as e:  # noqa  -- fail closed: the property cannot be confirmed on this output
            ofail = None
            mism.append((i, "property oracle raised %s: %s on the implementation's output" % (type(e).__name__, str(e)[:200])))
        if ofail:
            oracle_fail.append((i, ofail))
        try:
            if prop.nontrivial(c, impl_out[i]):
                nontrivial.add(json.dumps(c["py"], sort_keys=True, default=str))
        except Exception:
            pass

    # an ambiguity band must stay a narrow exception: if it swallows more than a small share of the
    # cases the comparison is no longer a comparison (default ceiling 8 %, a property may set its own)
    amb_max = float(getattr(prop, "AMBIGUOUS_MAX_FRACTION", 0.08))
    if cases and ambiguous > amb_max * len(cases) and ambiguous > 5:
        mism.append((0, "ambiguity band too wide: %d of %d cases were counted ambiguous (ceiling %.0f %%)" % (
            ambiguous, len(cases), 100 * amb_max)))
    # static ties (e.g. C18: no zone-dependent API is called) are part of the correspondence
    static_fail = list(prop.static_checks(REPO)) if hasattr(prop, "static_checks") else []

    # 4. extraction cross-check on a slice
    flat = []
    elig = getattr(prop, "vm_eligible", None)   # optional: restrict the slice (e.g. to small instances)
    for c, mo in zip(cases, model_out):
        if elig is not None and not elig(c):
            continue
        for call, out in zip(c["model"], mo):
            if out is not None and len(call) + len(out) < 4000:
                flat.append((call, out))
    rng2 = random.Random(seed)
    slice_n = min(len(flat), 40 if tier == "quick" else 300)
    sl = rng2.sample(flat, slice_n) if flat else []
    vm_n, vm_ok, vm_log = vm_crosscheck(sl, workdir)
    if not vm_ok:
        notes.append("vm_compute cross-check of the extracted model failed: " + vm_log[-500:])

    # 5. verdict
    findings = load_findings()
    known_lines = []

    def is_known(case, failure):
        for f in findings:
            if f.get("property") == pid and f.get("status") == "open":
                sigf = getattr(prop, "matches_finding", None)
                if sigf and sigf(f, case, failure):
                    return f
        return None

    unexplained = []
    for i, why in oracle_fail:
        f = is_known(cases[i], why)
        if f:
            known_lines.append("KNOWN-FINDING: property=%s %s" % (pid, f["what"]))
        else:
            unexplained.append((i, why))
    if unexplained:
        i, why = unexplained[0]
        small = shrink(prop, cases[i], workdir, lambda c, w: is_known(c, w) is not None) if hasattr(prop, "shrink_candidates") else cases[i]
        small_out = impl_out[i] if small is cases[i] else run_impl(prop.MODNAME, [small], workdir, shards=1)[0]
        payload = {"property": pid, "kind": "failing-input", "why": prop.oracle(small, small_out) or why,
                   "cases": [strip_case(small)], "impl_out": small_out,
                   "n_failing": len(unexplained)}
        violations.append(("", payload))
    elif mism or proof_broken or not vm_ok or static_fail:
        # the property is no longer shown to hold; search for a failing input
        found = None
        if hasattr(prop, "search") and replay is None:
            extra = list(prop.search(rng, tier, [cases[i] for i, _ in mism[:50]]))
            if extra:
                eo = run_impl(prop.MODNAME, extra, workdir)
                for c, o in zip(extra, eo):
                    w = prop.oracle(c, o) if hasattr(prop, "oracle") else None
                    if w and not is_known(c, w):
                        found = (c, o, w)
                        break
        if found:
            c, o, w = found
            payload = {"property": pid, "kind": "failing-input", "why": w,
                       "cases": [strip_case(c)], "impl_out": o,
                       "broken": broken_names(pinfo, forbidden, mism, vm_ok, static_fail)}
            violations.append(("", payload))
        else:
            first = None
            if mism:
                i, why = mism[0]
                first = {"case": strip_case(cases[i]), "impl_out": impl_out[i],
                         "model_out": model_out[i], "why": why}
            payload = {"property": pid, "kind": "no-failing-input-found",
                       "broken": broken_names(pinfo, forbidden, mism, vm_ok, static_fail),
                       "first_disagreement": first, "n_disagreements": len(mism),
                       "cases": [strip_case(cases[i]) for i, _ in mism[:5]],
                       "coq_log": pinfo["log"] if not pinfo["ok"] else "",
                       "forbidden": forbidden}
            violations.append((" no-failing-input-found", payload))

    # 6. evidence
    wall = time.time() - t0
    samples = [strip_case(c) for c in cases[corpus_n:corpus_n + 3]] or [strip_case(c) for c in cases[:3]]
    ev = {
        "property_id": pid, "tier": tier, "seed": seed, "level": "proof",
        "coverage": {
            "obligations": max(1, len(pinfo["theorems"])),
            "discharged": (len(pinfo["theorems"]) if (pinfo["ok"] and not forbidden) else 0),
            "theorems": pinfo["theorems"], "examples": pinfo.get("examples", []),
            "print_assumptions_closed": pinfo["closed"], "axioms": pinfo["axioms"],
            "forbidden_constructs_found": forbidden,
            "coqchk": chk,
            "checker_cmd": "cd /verif/coq && make Props/%s.vo && coqc -Q . Labella Props/%s.v" % (pid, pid),
            "trusted_base": TRUSTED_BASE + list(getattr(prop, "TRUSTED_EXTRA", [])),
            "evaluations": len(cases),
            "distinct_nontrivial": len(nontrivial),
            "rule": getattr(prop, "RULE", ""),
            "samples": samples,
            "case_kinds": kinds,
            "corpus_cases": corpus_n,
            "tie_mismatches": len(mism),
            "static_tie_failures": static_fail,
            "ambiguous": ambiguous,
            "oracle_failures": len(oracle_fail),
            "extraction_crosschecked": vm_n,
            "extraction_crosscheck_ok": vm_ok,
            "time_zones": tzs,
            "explanation": getattr(prop, "EXPLANATION", ""),
            "notes": notes,
        },
        "assumptions": list(getattr(prop, "ASSUMPTIONS", [])),
        "wall_s": round(wall, 2),
        "violations": len(violations),
    }
    if hasattr(prop, "extra_evidence"):
        ev["coverage"].update(prop.extra_evidence(cases, impl_out, model_out))
    if replay is None:
        # VERIF_EVIDENCE_DIR is set by tools/run_seeded.py so that runs against a
        # deliberately broken /repo never overwrite the evidence of the real tree
        evdir = os.environ.get("VERIF_EVIDENCE_DIR") or os.path.join(VERIF, "evidence")
        os.makedirs(evdir, exist_ok=True)
        with open(os.path.join(evdir, pid + ".json"), "w") as f:
            json.dump(ev, f, indent=1, default=str)

    for l in sorted(set(known_lines)):
        print(l)
    print("%s tier=%s seed=%d: theorems=%d closed=%d cases=%d nontrivial=%d mismatches=%d ambiguous=%d oracle_failures=%d vmcheck=%d/%s wall=%.1fs" % (
        pid, tier, seed, len(pinfo["theorems"]), pinfo["closed"], len(cases), len(nontrivial),
        len(mism), ambiguous, len(oracle_fail), vm_n, "ok" if vm_ok else "FAIL", wall))
    if violations:
        for suffix, payload in violations:
            path = write_replay(pid, payload)
            print("VIOLATION property=%s replay=%s%s" % (pid, path, suffix))
        return 1
    return 0


def broken_names(pinfo, forbidden, mism, vm_ok, static_fail):
    b = []
    if not pinfo["ok"]:
        b.append("proof: coq/Props file does not check (rc=%s, closed=%d of %d, axioms=%s, unprinted=%s)" % (
            pinfo["rc"], pinfo["closed"], len(pinfo["printed"]), pinfo["axioms"], pinfo.get("unprinted")))
    if forbidden:
        b.append("forbidden constructs: %s" % forbidden[:3])
    if mism:
        b.append("correspondence: %d disagreement(s) between the extracted model and the implementation; first: %s" % (
            len(mism), mism[0][1]))
    if not vm_ok:
        b.append("extraction cross-check (vm_compute vs OCaml) failed")
    for m in static_fail:
        b.append("static tie: " + m)
    return b


def strip_case(c):
    return {k: v for k, v in c.items() if k != "model"} | ({"model": c["model"]} if len(json.dumps(c.get("model", []))) < 2000 else {})


def shrink(prop, case, workdir, known=None, budget=60):
    """Greedy shrinking with the property's own candidates and oracle; a candidate whose
    failure is a listed open finding is not a smaller instance of THIS violation."""
    cur = case
    for _ in range(budget):
        cands = list(prop.shrink_candidates(cur))[:12]
        if not cands:
            break
        outs = run_impl(prop.MODNAME, cands, workdir, shards=1)
        nxt = None
        for c, o in zip(cands, outs):
            try:
                w = prop.oracle(c, o)
            except Exception:  # noqa
                w = None
            if w and not (known and known(c, w)):
                nxt = c
                break
        if nxt is None:
            break
        cur = nxt
    return cur


def main(prop):
    import argparse
    ap = argparse.ArgumentParser()
    ap.add_argument("--tier", default=os.environ.get("VERIF_TIER", "quick"))
    ap.add_argument("--replay", default=None)
    a = ap.parse_args(sys.argv[2:])
    seed = int(os.environ.get("VERIF_SEED", "0"))
    sys.exit(run(prop, a.tier, seed, a.replay))
