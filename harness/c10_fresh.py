"""Fresh-process reference for C10: reads {"pool":…, "ops":[…]} on stdin,
runs the history, prints the sha1 of every export (one per line)."""
import hashlib
import json
import os
import sys

sys.path.insert(0, os.getcwd())
sys.path.insert(1, os.path.dirname(os.path.dirname(os.path.abspath(__file__))))
from harness.props.c10 import run_history  # noqa

py = json.load(sys.stdin)
for doc in run_history(py)["docs"]:
    print(hashlib.sha1(doc.encode("utf-8")).hexdigest() if doc is not None else "NONE")
