"""C08: drawn label boxes are pairwise disjoint and sit on the chosen side of the axis."""
from harness.props import render_common as rc

ID = "C08"
MODNAME = "c08"
CASE_TIMEOUT = 60
impl = rc.impl
compare = rc.compare
oracle = rc.oracle_c08
shrink_candidates = rc.shrink_candidates


def rebuild(case):
    c = {"kind": case.get("kind", "corpus"), "py": case["py"]}
    rc.attach_models(MODNAME, [c], "rebuild")
    return c


def _cases(rng, n):
    cases = []
    for k in range(n):
        r = k % 10
        if r < 5:
            # dense data pushed into several layers
            c = rc.gen_case(rng, "dense", n=rng.choice([8, 12, 15, 20, 25, 30, 40]), min_spacing=3, min_gap=1,
                            force_layers=True, algorithm=rng.choice(["overlap", "simple"]))
        elif r < 7:
            c = rc.gen_case(rng, "single-layer", min_spacing=3, min_gap=1, algorithm="none")
        else:
            c = rc.gen_case(rng, "random", min_spacing=3, min_gap=1)
        cases.append(c)
    return cases


def _engine_cases(rng, n):
    """end-to-end family: the model gets the timeline input only (per datum the
    axis position the implementation computed, width, text; options) and must
    reproduce layers, positions, stub chains, sizes, nodeHeight and the drawn
    boxes through Compose.v -> Force.layout -> scene_labels (command 800)"""
    cases = []
    for c in _cases(rng, n):
        c["kind"] = "engine:" + c["kind"].split("/")[0]
        c["py"]["engine"] = True
        cases.append(c)
    return cases


def gen(rng, tier):
    import os
    only = os.environ.get("VERIF_C08_ONLY")      # diagnostic switch: "engine" or "classic" family alone
    cases = [] if only == "engine" else _cases(rng, 1600 if tier == "quick" else 7000)
    if only != "classic":
        cases += _engine_cases(rng, 400 if tier == "quick" else 5000)
    rc.attach_models(MODNAME, cases)
    for c in cases:
        yield c


def nontrivial(case, io):
    """at least two labels in one layer and at least two layers"""
    if not isinstance(io, dict) or "layout" not in io:
        return False
    ls = [n["layer"] for n in io["layout"]["nodes"]]
    return len(set(ls)) > 1 and len(ls) > len(set(ls))


def extra_evidence(cases, impl_out, model_out):
    """Supporting evidence only: how often the hypothesis the theorems take from
    property C01 (same-layer centres at least (w_a+w_b)/2 + nodeSpacing - 1
    apart) holds on the layouts the implementation produced."""
    pairs = bad = 0
    for c, io in zip(cases, impl_out):
        if not isinstance(io, dict) or "layout" not in io:
            continue
        o = rc.effective(c["py"])
        sp = ((c["py"].get("opts") or {}).get("labella") or {}).get("nodeSpacing", 3)
        side = o["direction"] in ("left", "right")
        ns = io["layout"]["nodes"]
        for i in range(len(ns)):
            for j in range(i + 1, len(ns)):
                if ns[i]["layer"] != ns[j]["layer"]:
                    continue
                wa = ns[i]["h"] if side else ns[i]["w"]
                wb = ns[j]["h"] if side else ns[j]["w"]
                pairs += 1
                if abs(ns[i]["chain"][-1] - ns[j]["chain"][-1]) < (wa + wb) / 2 + sp - 1 - 1e-9:
                    bad += 1
    ev = rc.histograms(cases, impl_out)
    ev.update({"c01_hypothesis_pairs_checked": pairs, "c01_hypothesis_pairs_violated": bad})
    return ev


def search(rng, tier, mism):
    for c in mism:
        yield c
    extra = _cases(rng, 300) + _engine_cases(rng, 100)
    rc.attach_models(MODNAME, extra, "search")
    for c in extra:
        yield c


RULE = ("Random datasets of 1-40 labels (numeric times on a LinearScale, date/datetime/time values on the default scale; "
        "dyadic and decimal explicit widths, texts present/absent) x 4 directions x {overlap, simple, none} x nodeSpacing >= 3 x "
        "layerGap >= 1 (down to exactly 1) x paddings, sizes, bounds, density, stub width; half of the cases are dense data "
        "with bounds so that several layers arise. A case is one dataset exported by both back-ends; non-trivial = at least two "
        "layers and two labels sharing a layer; distinct by input.")
EXPLANATION = ("Geometry theorems (coq/Render/Geometry.v): given the separation of rounded centres, the truncated boxes are "
               "disjoint, on the named side and ordered by layer, for every label list, chain depth, size and direction. "
               "Composition (coq/Render/Compose.v): for the scene built from the ENGINE's layout of the timeline's items that "
               "separation is a theorem (C01_pairwise_labels + C01_all_layers), so C08_engine_disjoint/_side/_layers carry no "
               "hypothesis. Two ties: the document model on the implementation's own layout result, and the end-to-end family "
               "engine:* (API 800) in which the model computes layers, positions, chains and boxes from items and options alone.")
LEVEL_TEXT = ("Machine-checked Coq theorems (all label lists, sizes, layer gaps >= 1, four directions) on a Gallina model of "
              "renderer.py/timeline.py geometry; composed with the engine model (distributor + per-layer solver) and the C01 "
              "theorems into C08_engine_disjoint, C08_engine_side, C08_engine_layers, C08_engine_disjoint_drawn for label spacing "
              ">= 3 and layer gap >= 1 with no separation hypothesis left; tied to the code by differential execution of both "
              "exports and by an end-to-end family that takes nothing of the layout from the implementation.")
LEVEL_NOTE = ("Trusted: Coq kernel; extraction re-checked on a slice by vm_compute; the correspondence harness (SVG/TikZ parsers, "
              "generators). The geometry-level theorems C08_same_layer/C08_disjoint take the separation of rounded centres as a "
              "hypothesis; the engine-level theorems discharge it. Modelled, not verified: labella/*.py; doubles as exact "
              "rationals (truncations that fall within 1e-7 of an integer on non-dyadic inputs are counted as ambiguous).")
TECHNIQUE = "Coq proof (trunc bounds + linear arithmetic over Q, one lemma per axis role) + model/implementation correspondence on parsed SVG and TikZ"
ASSUMPTIONS = ["axis positions scale(time) of the items are inputs of the engine:* family (the scale is tied by C11/C12/C15)"]
