"""C09: the SVG and TikZ back-ends draw the same picture."""
from harness.props import render_common as rc

ID = "C09"
MODNAME = "c09"
CASE_TIMEOUT = 60
impl = rc.impl
compare = rc.compare
oracle = rc.oracle_c09
shrink_candidates = rc.shrink_candidates


def rebuild(case):
    c = {"kind": case.get("kind", "corpus"), "py": case["py"]}
    if case["py"].get("pipeline"):
        return rc.pipeline_models(c)
    rc.attach_models(MODNAME, [c], "rebuild")
    return c


prepare_compare = rc.prepare_pipeline


def _cases(rng, n):
    cases = []
    for k in range(n):
        r = k % 8
        if r == 0:
            c = rc.gen_case(rng, "hex3", colour_forms=("c3",))
        elif r == 1:
            c = rc.gen_case(rng, "hex6", colour_forms=("c6",))
        elif r == 2:
            c = rc.gen_case(rng, "colour-lists", colour_forms=("l",))
        elif r == 3:
            c = rc.gen_case(rng, "colour-functions", colour_forms=("f",))
        elif r == 4:
            c = rc.gen_case(rng, "mixed-colours", force_layers=True)
        else:
            c = rc.gen_case(rng, "random")
        if k % 16 == 13:
            c["py"]["noopts"] = True          # options omitted entirely (time data only)
            c["py"]["scale"] = "time"
            c["kind"] = "no-options"
            if not isinstance(c["py"]["data"][0]["t"], list):
                c = rc.gen_case(rng, "random")
        cases.append(c)
    return cases


def gen(rng, tier):
    cases = _cases(rng, 1600 if tier == "quick" else 7000)
    rc.attach_models(MODNAME, cases)
    for c in cases:
        yield c
    # the whole-pipeline family: raw input -> both documents (command 850), no pre-pass;
    # colour options in all four forms, border on/off
    for k in range(300 if tier == "quick" else 1500):
        forms = [("c3",), ("c6",), ("l",), ("f",), None, None][k % 6]
        for c in rc.pipeline_cases(rng, 1, colour_forms=forms):
            yield c


def nontrivial(case, io):
    """some stub chain, and some colour option that is not a plain default"""
    if not isinstance(io, dict) or "layout" not in io:
        return False
    return any(len(n["chain"]) > 1 for n in io["layout"]["nodes"]) and bool(case["py"].get("colors"))


def extra_evidence(cases, impl_out, model_out):
    ev = rc.histograms(cases, impl_out)
    ev.update(rc.pipeline_evidence())
    return ev


def search(rng, tier, mism):
    for c in mism:
        yield c
    extra = _cases(rng, 300)
    rc.attach_models(MODNAME, extra, "search")
    for c in extra:
        yield c


RULE = ("Random datasets (as C07) with colour options for the five roles given as 3-digit hex, 6-digit hex (with and without "
        "'#', mixed case), lists cycled by index, and functions of the datum; showBorder on/off; ticks on/off; tickCross; "
        "4 directions; all layering algorithms; options omitted entirely. A case is one dataset exported by BOTH back-ends from "
        "separately built identical inputs; non-trivial = some label has a stub chain and some colour option is not the default; "
        "distinct by input.")
EXPLANATION = ("C09_same_geometry is about two separately written emitter models (coq/Render/Scene.v svg_doc_of / tikz_doc_of, "
               "line for line after timeline.py) and says their drawn geometry agrees; the tie checks that each emitter model "
               "reproduces the corresponding real export field by field (integers, strings and printed decimals exactly; "
               "str() numbers and non-dyadic path coordinates to the printed precision).")
LEVEL_TEXT = ("Machine-checked Coq theorem: for every scene (options, ticks, laid-out labels with valid colour codes) the geometry "
              "read from the SVG document equals the geometry read from the TikZ document: box origins, sizes, link segments "
              "point for point, dot centres and diameters, main-layer shift, colours (as RGB triples, via the C20 lemmas and "
              "injectivity of int2name for the macro look-up) and texts are equal; axis end and tick positions agree within the "
              "1-unit %i truncation. Both emitter models are tied to the code by differential execution on every run."
              " C09_pipeline_same_geometry: the same for the two documents the whole-pipeline model computes from raw input; the pipeline:* family ties that model to both real exports.")
LEVEL_NOTE = ("Trusted: Coq kernel; extraction re-checked on a slice by vm_compute; the correspondence harness (SVG/TikZ parsers, "
              "generators). The decimal rounding of %.8f/%.16f/%f is modelled (half-even) and tied digit for digit (for %.8f when "
              "all sizes are dyadic, else to the printed precision); partial: the digit string of str() is not modelled, only "
              "its value; uni2tex (applied to TikZ label texts) is property C19's subject and is applied by the harness when "
              "comparing. Margins are excluded as the property says. Modelled, not verified: labella/*.py.")
TECHNIQUE = "Coq proof (structural induction over the label list / path steps; colour agreement from C20) + model/implementation correspondence on parsed SVG and TikZ"


# ---- the whole-pipeline family (added with coq/Render/Pipeline.v) ----
RULE += (" [pipeline:*: as the random family with colour options cycling through 3-digit, 6-digit, list and function forms, "
         "but the model gets the RAW input only and produces BOTH documents (command 850); both are compared with the parsed "
         "real exports.]")
EXPLANATION += (" C09_pipeline_same_geometry is about the two documents of timeline_docs (coq/Render/Pipeline.v) computed from "
                "one raw input; the pipeline:* family ties that composed model to both real exports end to end (ambiguity "
                "classes as described in the C07 check, counted separately in the evidence).")
LEVEL_TEXT += (" C09_pipeline_same_geometry: the same statement for the two documents the composed pipeline model computes "
               "from one raw input, under a validity condition on the colour OPTIONS only.")
