"""C15: the time scale is affine in elapsed time and invertible (labella/scale.py TimeScale)."""
import datetime as _d
from fractions import Fraction

from harness.props import c17

ID = "C15"
MODNAME = "c15"
to_us, of_us = c17.to_us, c17.of_us
RULE = ("(ranges are kept wide enough that one ulp of the range resolves less than 0.05 ms of the domain; "
        "otherwise no double can carry the instant to within a millisecond) " +
        "pairs of distinct naive datetimes of millisecond resolution in years 1900-2200, either order, spans from 1 ms to "
        "300 years (also: both ends on month ends / leap days / year ends); ranges of either orientation "
        "([0,1000], [0,1], [500,-500], random finite doubles, r0 != r1); per scale 8..12 query instants: the two domain "
        "ends, instants inside, instants outside (up to one span beyond either end), two pairs of equal duration; "
        "invert on 7 positions inside the range. non-trivial = at least one query strictly inside and one outside "
        "the domain; distinct by input.")
EXPLANATION = ("Theorems are about coq/Time/TimeScale.v over exact rationals (ts = lin o to_ms, end points, equal durations, "
               "strict monotonicity, invert o ts = id); the tie checks that TimeScale.__call__ agrees with the exact model "
               "to 1e-9 relative and TimeScale.invert to 10 microseconds (a few ulps of the double holding epoch "
               "milliseconds; the property grants 1 ms), and that it equals LinearScale on epoch milliseconds.")
TOL_US = 10


def _q(x):
    f = Fraction(x)
    return [f.numerator, f.denominator]


def impl(py):
    from labella.scale import TimeScale, LinearScale
    from labella.d3_time import dt2milli
    a, b = of_us(py["dom"][0]), of_us(py["dom"][1])
    s = TimeScale()
    s.domain([a, b])
    s.range(list(py["rng"]))
    # another scale object is configured and used in between: scale objects share nothing
    import datetime as _dt
    _o = TimeScale().domain([_dt.datetime(2001, 2, 3, 4, 5), _dt.datetime(2031, 7, 9)]).range([7, 1234])
    _o.ticks(7)
    _o.nice()
    ls = LinearScale().domain([dt2milli(a), dt2milli(b)]).range(list(py["rng"]))
    out = {"scale": [s(of_us(q)) for q in py["qs"]],
           "linear": [ls(dt2milli(of_us(q))) for q in py["qs"]],
           "domain": [to_us(x) for x in s.domain()],
           "range": list(s.range())}
    inv = []
    for y in py["ys"]:
        try:
            inv.append(to_us(s.invert(y)))
        except (ValueError, OverflowError) as e:
            inv.append("raise:" + type(e).__name__)
    out["invert"] = inv
    # round trip of the query instants inside the domain
    lo, hi = min(py["dom"]), max(py["dom"])
    out["roundtrip"] = [to_us(s.invert(s(of_us(q)))) if lo <= q <= hi else None for q in py["qs"]]
    return out


def _mk(py, kind="ts"):
    a, b = py["dom"]
    head = [a, b] + _q(py["rng"][0]) + _q(py["rng"][1])
    ys = []
    for y in py["ys"]:
        ys += _q(y)
    model = [[140] + head + [len(py["qs"])] + list(py["qs"]),
             [141] + head + [len(py["ys"])] + ys,
             [142] + head + [len(py["ys"])] + ys]
    return {"kind": kind, "py": py, "model": model}


def rebuild(c):
    return _mk(c["py"], c.get("kind", "ts"))


def _close(x, y, scale=1.0):
    return abs(x - y) <= 1e-9 * max(scale, abs(x), abs(y))


def compare(case, io, mo):
    if isinstance(io, dict) and "exc" in io:
        return "implementation raised %s %s" % (io["exc"], io.get("msg", ""))
    py = case["py"]
    mag = max(abs(py["rng"][0]), abs(py["rng"][1]), 1e-300)
    m = mo[0]
    if m is None or m[0] != 1:
        return "model rejected the scale"
    for i in range(m[1]):
        want = Fraction(m[2 + 2 * i], m[3 + 2 * i])
        # positions far outside the range carry the extrapolation factor in their magnitude
        if not _close(io["scale"][i], float(want), mag):
            return "scale(%s): impl %r model %r" % (of_us(py["qs"][i]).isoformat(), io["scale"][i], float(want))
    if io["domain"] != list(py["dom"]):
        return "domain(): impl %r, set %r" % (io["domain"], py["dom"])
    m = mo[1]
    if m is None or m[0] != 1:
        return "model rejected invert"
    for i in range(m[1]):
        want = Fraction(m[2 + 2 * i], m[3 + 2 * i])
        got = io["invert"][i]
        if isinstance(got, str):
            return "invert(%r) raised" % py["ys"][i]
        if abs(got - want) > TOL_US:
            return "invert(%r): impl %d us, model %s us" % (py["ys"][i], got, float(want))
    return None


def oracle(case, io):
    """the property statement, on the implementation's output; exact arithmetic on
    timedeltas (Fraction), tolerances: 1e-9 relative for positions, 1 ms for instants"""
    if isinstance(io, dict) and "exc" in io:
        return "raised %s" % io["exc"]
    py = case["py"]
    a, b = py["dom"]
    r0, r1 = Fraction(py["rng"][0]), Fraction(py["rng"][1])
    mag = float(max(abs(r0), abs(r1)))
    pos = dict(zip(py["qs"], io["scale"]))
    # end points
    if a in pos and not _close(pos[a], float(r0), mag):
        return "the first domain instant maps to %r, not to the range start %r" % (pos[a], float(r0))
    if b in pos and not _close(pos[b], float(r1), mag):
        return "the second domain instant maps to %r, not to the range end %r" % (pos[b], float(r1))
    # proportional to elapsed time
    for q, v in zip(py["qs"], io["scale"]):
        want = r0 + (r1 - r0) * Fraction(q - a, b - a)
        if not _close(v, float(want), mag):
            return "scale(%s) = %r is not proportional to elapsed time (%r)" % (of_us(q).isoformat(), v, float(want))
    # agreement with the linear scale on epoch milliseconds
    for q, v, w in zip(py["qs"], io["scale"], io["linear"]):
        if not _close(v, w, mag):
            return "scale(%s) = %r but LinearScale on epoch milliseconds gives %r" % (of_us(q).isoformat(), v, w)
    # later instants strictly farther along the range (orientation of domain and range)
    sgn = (1 if b > a else -1) * (1 if r1 > r0 else -1)
    srt = sorted(zip(py["qs"], io["scale"]))
    span = abs(b - a)
    for (q1, v1), (q2, v2) in zip(srt, srt[1:]):
        if q2 == q1:
            continue
        # strict only where the gap exceeds what a double can resolve at the extrapolated magnitude
        resolvable = Fraction(q2 - q1, span) * abs(r1 - r0) > 1e-13 * max(abs(v1), abs(v2), mag)
        if (v2 - v1) * sgn < 0 or (resolvable and (v2 - v1) * sgn <= 0):
            return "not monotone: scale(%s) = %r, scale(%s) = %r" % (of_us(q1).isoformat(), v1, of_us(q2).isoformat(), v2)
    # equal durations -> equal lengths
    for (i, j, k, l) in py.get("eq", []):
        d1 = io["scale"][j] - io["scale"][i]
        d2 = io["scale"][l] - io["scale"][k]
        big = max(abs(x) for x in (io["scale"][i], io["scale"][j], io["scale"][k], io["scale"][l], mag))
        if abs(d1 - d2) > 1e-9 * big:
            return "equal durations map to lengths %r and %r" % (d1, d2)
    # round trip inside the domain, to within a millisecond
    for q, rt in zip(py["qs"], io["roundtrip"]):
        if rt is not None and abs(rt - q) > 1000:
            return "invert(scale(%s)) = %s" % (of_us(q).isoformat(), of_us(rt).isoformat())
    return None


def nontrivial(case, io):
    py = case["py"]
    lo, hi = min(py["dom"]), max(py["dom"])
    return any(lo < q < hi for q in py["qs"]) and any(q < lo or q > hi for q in py["qs"])


def _case(rng, a, b):
    lo, hi = min(a, b), max(a, b)
    span = hi - lo
    rngs = [(0.0, 1000.0), (0.0, 1.0), (500.0, -500.0), (10.5, 823.25), (-3.0, 3.0e6),
            (rng.uniform(-1e4, 1e4), rng.uniform(-1e4, 1e4)), (float(rng.randrange(0, 100)), float(rng.randrange(101, 5000)))]
    import math
    r0, r1 = rng.choice(rngs)
    if r0 == r1:
        r1 = r0 + 1.0
    # the round-trip clause ("to within a millisecond") presupposes that a double in the range can
    # RESOLVE a millisecond of the domain: one ulp of the larger range end corresponds to
    # ulp * span / |r1 - r0| of domain time.  Ranges so narrow relative to their offset that this
    # exceeds 0.05 ms (no computation in doubles could then return the instant) are widened.
    while math.ulp(max(abs(r0), abs(r1))) * (span / 1000.0) / abs(r1 - r0) > 0.05:
        r1 = r0 + (r1 - r0) * 16 if abs(r1 - r0) * 16 > abs(r1 - r0) else r0 + 1.0
    ins = [lo + rng.randrange(0, span // 1000 + 1) * 1000 for _ in range(4)]
    out = [max(c17.LO, lo - rng.randrange(1, span // 1000 + 2) * 1000), min(c17.HI, hi + rng.randrange(1, span // 1000 + 2) * 1000)]
    qs = [a, b] + ins + out
    # two pairs of equal duration
    d = rng.randrange(0, span // 1000 + 1) * 1000
    p, q = (lo + rng.randrange(0, span // 1000 + 1) * 1000 for _ in range(2))
    if p + d <= c17.HI and q + d <= c17.HI:
        i = len(qs)
        qs += [p, p + d, q, q + d]
        eq = [[i, i + 1, i + 2, i + 3]]
    else:
        eq = []
    ys = [r0, r1, (r0 + r1) / 2] + [r0 + (r1 - r0) * rng.random() for _ in range(4)]
    return _mk({"dom": [a, b], "rng": [r0, r1], "qs": qs, "ys": ys, "eq": eq})


def gen(rng, tier):
    n = 3000 if tier == "quick" else 50000
    spans_ms = [1, 2, 10, 999, 1000, 60000, 3600000, 86400000, 7 * 86400000, 30 * 86400000, 365 * 86400000,
                10 * 365 * 86400000, 100 * 365 * 86400000, 300 * 365 * 86400000]
    specials = [to_us(d) for d in c17.special_days()]
    for i in range(n):
        r = rng.random()
        if r < 0.5:
            a = c17.rand_instant(rng)
            span = int(rng.choice(spans_ms) * (0.5 + rng.random())) or 1
            b = a + span * 1000
            if b > c17.HI:
                b = a - span * 1000
            if b < c17.LO:
                continue
        elif r < 0.8:
            a, b = c17.rand_instant(rng), c17.rand_instant(rng)
        else:
            a = rng.choice(specials) + rng.choice([0, c17.DAY - 1000, c17.rand_ms(rng)])
            b = rng.choice(specials) + rng.choice([0, c17.DAY - 1000, c17.rand_ms(rng)])
        if a == b:
            continue
        if rng.random() < 0.3 and a < b:
            a, b = b, a
        yield _case(rng, a, b)


def search(rng, tier, mism_cases):
    for c in mism_cases:
        yield c
    for c in gen(rng, "quick"):
        yield c


LEVEL_TEXT = ("Machine-checked Coq theorems over exact rationals for ALL instants and ALL non-degenerate domains and ranges (the property's own hypothesis): the time scale is "
              "lin o to_ms (to_ms additive and strictly monotone in the calendar order), maps the domain instants to the "
              "range ends, every instant proportionally to elapsed time (equal durations -> equal lengths), strictly "
              "monotonically, and invert(scale(t)) = t exactly; the model is tied to labella/scale.py by differential "
              "execution (positions 1e-9 relative, inverted instants 10 microseconds).")
LEVEL_NOTE = ("Trusted: Coq kernel; extraction re-checked on a slice by vm_compute; the correspondence harness. Modelled, not "
              "verified: labella/scale.py; doubles are modelled by exact rationals, the gap is measured by the tie.")
TECHNIQUE = "Coq proof (field/lra over Q on the affine map; calendar from C17) + model/implementation correspondence"
