"""C20: TeX names unique (int2name), colour conversions agree."""
ID = "C20"
MODNAME = "c20"
RULE = ("documents: 150/1500 small timelines (list colours, all layering algorithms incl. none, unsorted data) exported by both "
        "back-ends: TeX colour and text macro names distinct, every dot has the same colour in the SVG and in TeX; int2name: indices 0..N (all below 20000 quick / 10^6 thorough, in blocks) plus random large ones; "
        "hex: every 3-digit code over the 22 hex characters (with and without '#'), random and boundary 6-digit codes. "
        "A case is one index block or one colour code; non-trivial = a name of >=2 letters / a code containing a letter digit or '#'; "
        "distinct by input.")
EXPLANATION = ("Theorems are about coq/Text/Utils.v for ALL indices and ALL valid codes; the tie checks that "
               "labella/utils.py computes the same names, triples, rgb() strings and HTML codes.")
HEX = "0123456789abcdefABCDEF"


def _impl_doc(py):
    """Names and colours as they reach the two documents: every label's TeX macro names are
    distinct, and a label's dot has the same colour in the SVG (rgb()) and in TeX (HTML code)."""
    import re
    from labella.scale import LinearScale
    from labella.timeline import TimelineSVG, TimelineTex
    def build():
        data = [{"time": t, "width": w, "text": "L%d" % i} for i, (t, w) in enumerate(py["data"])]
        opts = {"scale": LinearScale(), "direction": py["dir"], "labella": dict(py["labella"])}
        for role, col in py["colors"].items():
            opts[role] = list(col) if isinstance(col, list) else col
        return data, opts
    svg = TimelineSVG(*build()).export().decode("utf-8")
    tex = TimelineTex(*build()).export()
    names = re.findall(r"\\definecolor\{dotColor([A-Z]+)\}\{HTML\}\{([0-9A-Fa-f]+)\}", tex)
    tex_col = {n: c for n, c in names}
    tex_dots = re.findall(r"fill=dotColor([A-Z]+)\] at \(([-0-9.eE+]+), ([-0-9.eE+]+)\)", tex)
    svg_dots = re.findall(r'<circle [^>]*style="fill: rgb\((\d+), (\d+), (\d+)\);"[^>]*?c[xy]="([-0-9.eE+]+)"', svg)
    text_names = re.findall(r"\\def\\text([A-Z]+)\{", tex)
    return {"names": [n for n, _ in names], "text_names": text_names,
            "tex_dots": [[round(float(x) + float(y), 4), tex_col.get(n, "?")] for n, x, y in tex_dots],
            "svg_dots": [[round(float(c), 4), [int(r), int(g), int(b)]] for r, g, b, c in svg_dots]}


def impl(py):
    from labella import utils
    if py["k"] == "doc":
        return _impl_doc(py)
    if py["k"] == "names":
        return [utils.int2name(i) for i in range(py["lo"], py["hi"])]
    if py["k"] == "name1":
        return [utils.int2name(int(py["i"]))]
    if py["k"] == "hex":
        c = py["code"]
        return {"rgb": list(utils.hex2rgb(c)), "str": utils.hex2rgbstr(c), "html": utils.hex2html(c)}


def _names_case(lo, hi):
    return {"kind": "names", "py": {"k": "names", "lo": lo, "hi": hi},
            "model": [[1, i] for i in range(lo, hi)]}


def _hex_case(code):
    cps = [ord(ch) for ch in code]
    return {"kind": "hex3" if len(code.lstrip("#")) == 3 else "hex6",
            "py": {"k": "hex", "code": code}, "model": [[2, len(cps)] + cps]}


def rebuild(c):
    py = c["py"]
    if py["k"] == "doc":
        return {"kind": "doc", "py": py, "model": []}
    if py["k"] == "names":
        return _names_case(py["lo"], py["hi"])
    if py["k"] == "name1":
        return {"kind": "name1", "py": py, "model": [[1, int(py["i"])]]}
    return _hex_case(py["code"])


def _doc_case(rng):
    n = rng.randrange(2, 30)
    data = [[rng.randrange(0, 400) / 4.0, rng.choice([20, 35, 50])] for _ in range(n)]
    pal = ["#" * rng.randrange(2) + "".join(rng.choice(HEX) for _ in range(rng.choice([3, 6]))) for _ in range(rng.randrange(2, 7))]
    colors = {"dotColor": pal}
    if rng.random() < 0.5:
        colors["linkColor"] = list(reversed(pal))
    lab = rng.choice([{"algorithm": "none"}, {"algorithm": "none"}, {}, {"maxPos": 200}, {"algorithm": "simple", "maxPos": 150}])
    return {"kind": "doc", "py": {"k": "doc", "data": data, "colors": colors, "labella": lab,
                                  "dir": rng.choice(["up", "down", "left", "right"])}, "model": []}


def gen(rng, tier):
    for _ in range(150 if tier == "quick" else 1500):
        yield _doc_case(rng)
    top = 20000 if tier == "quick" else 1000000
    blk = 500 if tier == "quick" else 5000
    for lo in range(0, top, blk):
        yield _names_case(lo, min(top, lo + blk))
    for _ in range(200 if tier == "quick" else 2000):
        i = rng.randrange(10 ** rng.randrange(1, 30))
        yield {"kind": "name1", "py": {"k": "name1", "i": str(i)}, "model": [[1, i]]}
    # boundaries of the letter-count classes
    for n in range(1, 9):
        g = sum(26 ** k for k in range(1, n + 1))
        for i in (g - 1, g, g + 1):
            yield {"kind": "name1", "py": {"k": "name1", "i": str(i)}, "model": [[1, i]]}
    if tier == "quick":
        for _ in range(1500):
            yield _hex_case(rng.choice(["", "#"]) + "".join(rng.choice(HEX) for _ in range(3)))
    else:
        for a in HEX:
            for b in HEX:
                for c in HEX:
                    yield _hex_case(rng.choice(["", "#"]) + a + b + c)
    for _ in range(1500 if tier == "quick" else 100000):
        yield _hex_case(rng.choice(["", "#"]) + "".join(rng.choice(HEX) for _ in range(6)))
    for code in ["000000", "ffffff", "FFFFFF", "#000", "#fff", "#FFF", "00ff00", "#0f0", "#1f77b4", "222", "#222"]:
        yield _hex_case(code)


def _dec_list(ints, k):
    n = ints[k]
    return ints[k + 1:k + 1 + n], k + 1 + n


def compare(case, io, mo):
    if isinstance(io, dict) and "exc" in io:
        return "implementation raised %s" % io["exc"]
    py = case["py"]
    if py["k"] == "doc":
        return None
    if py["k"] in ("names", "name1"):
        for name, m in zip(io, mo):
            if m is None or m[0] != 1:
                return "model failed"
            letters, _ = _dec_list(m, 1)
            if "".join(chr(x) for x in letters) != name:
                return "name differs: impl %r model %r" % (name, "".join(chr(x) for x in letters))
        return None
    m = mo[0]
    if m is None or m[0] != 1:
        return "model rejects code %r" % py["code"]
    if list(m[1:4]) != list(io["rgb"]):
        return "rgb differs: impl %r model %r" % (io["rgb"], m[1:4])
    s, k = _dec_list(m, 4)
    h, _ = _dec_list(m, k)
    if "".join(map(chr, s)) != io["str"]:
        return "rgb string differs: impl %r model %r" % (io["str"], "".join(map(chr, s)))
    if "".join(map(chr, h)) != io["html"]:
        return "html differs: impl %r model %r" % (io["html"], "".join(map(chr, h)))
    return None


def _name_value(s):
    v = 0
    for ch in s:
        v = v * 26 + (ord(ch) - 64)
    return v - 1


def oracle(case, io):
    """The property statement on the implementation's own output."""
    import re
    if isinstance(io, dict) and "exc" in io:
        return "raised %s" % io["exc"]
    py = case["py"]
    if py["k"] == "doc":
        n = len(py["data"])
        if len(io["names"]) != n or len(set(io["names"])) != n:
            return "the %d labels do not have %d distinct TeX colour names: %r" % (n, n, io["names"][:8])
        if len(set(io["text_names"])) != len(io["text_names"]):
            return "two labels share a TeX text macro: %r" % (io["text_names"][:8],)
        if len(io["svg_dots"]) != n or len(io["tex_dots"]) != n:
            return "dots: %d in the SVG, %d in TeX, %d labels" % (len(io["svg_dots"]), len(io["tex_dots"]), n)
        import re as _re
        for p_, h in io["tex_dots"]:
            if not _re.fullmatch(r"[0-9A-F]{6}", h or ""):
                return "the TeX colour of the dot at %s is %r, not six upper-case hex digits" % (p_, h)
        a = sorted((p, tuple(c)) for p, c in io["svg_dots"])
        b = sorted((p, (int(h[0:2], 16), int(h[2:4], 16), int(h[4:6], 16))) for p, h in io["tex_dots"])
        if a != b:
            bad = next((x, y) for x, y in zip(a, b) if x != y)
            return ("the dot at %s is rgb%s in the SVG but its TeX colour denotes %s: the two documents give a label "
                    "different colours" % (bad[0][0], bad[0][1], bad[1][1]))
        return None
    if py["k"] in ("names", "name1"):
        idx = list(range(py["lo"], py["hi"])) if py["k"] == "names" else [int(py["i"])]
        prev = None
        for i, name in zip(idx, io):
            if not re.fullmatch(r"[A-Z]+", name):
                return "name %r of index %d is not letters-only" % (name, i)
            if _name_value(name) != i:
                return "name %r of index %d is the shortlex name of %d: two indices share a name or order is broken" % (
                    name, i, _name_value(name))
            if prev is not None and not ((len(prev), prev) < (len(name), name)):
                return "names not in length-then-alphabetical order at %d" % i
            prev = name
        return None
    code = py["code"].lstrip("#") if py["code"].startswith("#") else py["code"]
    if len(code) == 3:
        code = "".join(ch * 2 for ch in code)
    want = [int(code[0:2], 16), int(code[2:4], 16), int(code[4:6], 16)]
    if list(io["rgb"]) != want:
        return "triple %r != %r" % (io["rgb"], want)
    m = re.fullmatch(r"rgb\((\d+), (\d+), (\d+)\)", io["str"])
    if not m or [int(x) for x in m.groups()] != want:
        return "rgb string %r does not denote %r" % (io["str"], want)
    if not re.fullmatch(r"[0-9A-F]{6}", io["html"]) or [int(io["html"][k:k + 2], 16) for k in (0, 2, 4)] != want:
        return "html code %r does not denote %r" % (io["html"], want)
    return None


def nontrivial(case, io):
    py = case["py"]
    if py["k"] == "doc":
        return len(py["data"]) > 2
    if py["k"] == "names":
        return py["hi"] > 26
    if py["k"] == "name1":
        return int(py["i"]) >= 26
    return any(ch in "abcdefABCDEF#" for ch in py["code"])


def search(rng, tier, mism_cases):
    for c in mism_cases:
        yield c
    for c in gen(rng, "quick"):
        yield c


def shrink_candidates(case):
    py = case["py"]
    if py["k"] == "doc":
        d = py["data"]
        for i in range(len(d)):
            if len(d) > 2:
                q = dict(py)
                q["data"] = d[:i] + d[i + 1:]
                yield {"kind": "doc", "py": q, "model": []}
        return
    if py["k"] == "names" and py["hi"] - py["lo"] > 1:
        mid = (py["lo"] + py["hi"]) // 2
        yield _names_case(py["lo"], mid)
        yield _names_case(mid, py["hi"])
        if py["lo"] > 0:
            yield _names_case(py["lo"] - 1, mid)

LEVEL_TEXT = ("Machine-checked Coq theorems for ALL indices (name2int (int2name i) = i, hence injectivity; letters only; "
              "shortlex order) and ALL valid 3-/6-digit codes (triple, rgb() string and HTML code denote the same colour; "
              "3-digit doubling), on a Gallina model of labella/utils.py that is tied to the code by differential execution "
              "on every run.")
LEVEL_NOTE = ("Trusted: Coq kernel; extraction (ExtrOcamlBasic, ExtrOcamlZBigInt) re-checked on a slice by vm_compute; the "
              "correspondence harness and its generators. Modelled, not verified: labella/utils.py (Python str/int/upper "
              "semantics on hex digits).")
TECHNIQUE = "Coq proof (induction + loop invariant; finite 0..255 sweep by vm_compute lifted by forallb) + model/implementation correspondence"
