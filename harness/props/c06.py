"""C06: a layout is a pure function of the labels and options."""
from fractions import Fraction

ID = "C06"
MODNAME = "c06"
CASES_PER_SHARD = 60
CASE_TIMEOUT = 60
RULE = ("random histories of set-labels / set-options / compute / re-compute on ONE engine over pools of 1-3 label sets "
        "(ties, half-integers, dense clusters, the same labels permuted, stale Node objects reused across layouts); after every "
        "compute the per-label (layer, position) is compared with the extracted model of a FRESH layout of the current labels "
        "and effective options. Non-trivial = a history with at least two computes of which one is multi-layer; distinct by history.")
ALGS = ["overlap", "simple", "none"]


# ------------------------------------------------------------------ impl ---
def _layout_of(force, nodes):
    res = []
    for n in nodes:
        res.append([n.getLayerIndex(), n.currentPos])
    layers = force.getLayers()
    shape = None
    if layers is not None:
        shape = [[[id(x.getRoot() if False else x) and 0, 1 if x.isStub() else 0] for x in lay] for lay in layers]
        shape = [[s[1] for s in lay] for lay in shape]
    return res, shape


def impl(py):
    from labella.force import Force
    from labella.node import Node
    sets = [[Node(p, w, data=i) for i, (p, w) in enumerate(s)] for s in py["sets"]]
    force = Force(py.get("init_opts"))
    eff = dict(py.get("init_opts") or {})
    cur = None
    outs = []
    for op in py["ops"]:
        if op[0] == "opts":
            force.set_options(op[1])
            eff.update(op[1])
        elif op[0] == "nodes":
            cur = [sets[op[1]][k] for k in op[2]]
            force.nodes(cur)
        elif op[0] == "compute":
            force.compute()
            hist, shape = _layout_of(force, force.nodes())
            # reference: fresh engine, fresh Node objects, same order, effective options
            fresh_nodes = [Node(n.idealPos, n.width, data=n.data) for n in cur]
            f2 = Force(dict(eff))
            f2.nodes(fresh_nodes)
            f2.compute()
            fresh, fshape = _layout_of(f2, f2.nodes())
            outs.append({"labels": [[n.idealPos, n.width] for n in force.nodes()], "hist": hist,
                         "fresh_labels": [[n.idealPos, n.width] for n in f2.nodes()], "fresh": fresh,
                         "shape": shape, "fresh_shape": fshape, "eff": {k: eff[k] for k in sorted(eff)}})
    return outs


# ------------------------------------------------------------- generator ---
def _label_set(rng):
    n = rng.choice([1, 2, 3, 5, 8, 12, 20, 35])
    style = rng.choice(["uniform", "cluster", "ties", "half"])
    res = []
    for i in range(n):
        if style == "uniform":
            p = rng.randrange(0, 800)
        elif style == "cluster":
            p = 300 + rng.randrange(0, 60)
        elif style == "ties":
            p = rng.choice([100, 100, 250, 250, 400])
        else:
            p = rng.randrange(0, 1200) / 2.0
        w = rng.choice([10, 20, 40, 50, 50.5, 64])
        res.append([p, w])
    if style == "ties" or rng.random() < 0.5:
        # proviso of the property: labels sharing a data position share a width
        seen = {}
        for r in res:
            r[1] = seen.setdefault(r[0], r[1])
    return res


def _opt_update(rng):
    o = {}
    for _ in range(rng.randrange(1, 3)):
        k = rng.choice(["maxPos", "minPos", "algorithm", "nodeSpacing", "density", "stubWidth"])
        o[k] = {"maxPos": rng.choice([None, 200, 400, 800, 1500]), "minPos": rng.choice([None, 0, 0, -100, 50]),
                "algorithm": rng.choice(ALGS), "nodeSpacing": rng.choice([0, 3, 3, 6]),
                "density": rng.choice([0.5, 0.75, 0.85, 1]), "stubWidth": rng.choice([0, 1, 2])}[k]
    return o


def make(rng):
    sets = [_label_set(rng) for _ in range(rng.randrange(1, 4))]
    ops = []
    init = _opt_update(rng) if rng.random() < 0.6 else None
    have_nodes = False
    for _ in range(rng.randrange(3, 10)):
        r = rng.random()
        if not have_nodes or r < 0.25:
            si = rng.randrange(len(sets))
            perm = list(range(len(sets[si])))
            if rng.random() < 0.6:
                rng.shuffle(perm)
            ops.append(["nodes", si, perm])
            have_nodes = True
        elif r < 0.45:
            ops.append(["opts", _opt_update(rng)])
        else:
            ops.append(["compute"])
    if ops[-1][0] != "compute":
        ops.append(["compute"])
    return {"kind": "history", "py": {"sets": sets, "init_opts": init, "ops": ops}, "model": []}


def rebuild(c):
    c = dict(c)
    c.setdefault("model", [])
    return c


def gen(rng, tier):
    for _ in range(400 if tier == "quick" else 6000):
        yield make(rng)


# ---------------------------------------------------------------- oracle ---
def _ties_agree(labels):
    seen = {}
    for p, w in labels:
        if seen.setdefault(p, w) != w:
            return False
    return True


def oracle(case, io):
    if isinstance(io, dict) and "exc" in io:
        return "raised %s: %s" % (io["exc"], io.get("msg", ""))
    prev_by_set = {}
    for k, o in enumerate(io):
        if o["labels"] != o["fresh_labels"]:
            return "compute #%d: the engine's label list differs from the labels given" % k
        if o["hist"] != o["fresh"]:
            bad = [i for i, (a, b) in enumerate(zip(o["hist"], o["fresh"])) if a != b][:3]
            return ("compute #%d on the reused engine/labels differs from a fresh engine with fresh labels and the same effective "
                    "options %r: labels %r got %r, fresh %r" % (k, o["eff"], bad, [o["hist"][i] for i in bad], [o["fresh"][i] for i in bad]))
        # permutation invariance (proviso: tied labels share a width)
        if _ties_agree(o["labels"]):
            key = (tuple(sorted(map(tuple, o["labels"]))), tuple(sorted((k2, str(v)) for k2, v in o["eff"].items())))
            ms = sorted((p, w, l, c) for (p, w), (l, c) in zip(o["labels"], o["hist"]))
            if key in prev_by_set and prev_by_set[key] != ms:
                return "compute #%d: same labels and options in a different input order gave a different layout" % k
            prev_by_set[key] = ms
    return None


def nontrivial(case, io):
    if isinstance(io, dict):
        return False
    return len(io) >= 2 and any(any(l > 0 for l, _ in o["hist"]) for o in io)


def compare(case, io, mo):
    return None


def search(rng, tier, mism):
    for c in mism:
        yield c
    for c in gen(rng, "quick"):
        yield c


def shrink_candidates(case):
    py = case["py"]
    ops = py["ops"]
    for i in range(len(ops) - 1):
        new = ops[:i] + ops[i + 1:]
        if new and new[0][0] != "compute" and any(o[0] == "nodes" for o in new):
            first_nodes = [j for j, o in enumerate(new) if o[0] == "nodes"][0]
            if all(o[0] != "compute" for o in new[:first_nodes]):
                q = dict(py)
                q["ops"] = new
                yield {"kind": case["kind"], "py": q, "model": []}
