"""C06: a layout is a pure function of the labels and options."""
from fractions import Fraction

ID = "C06"
MODNAME = "c06"
CASES_PER_SHARD = 60
CASE_TIMEOUT = 60
RULE = ("random histories of set-labels / set-options / compute / re-compute on ONE observed engine (half of the histories also construct, configure and use bystander engines in between, which the model ignores because engines share nothing) over pools of 1-3 label sets "
        "(ties, half-integers, dense clusters, the same labels permuted, sub-lists, stale Node objects reused across layouts; half of the histories alternate between multi-layer and single-layer configurations on the same objects); after every "
        "compute the per-label (layer, position) is compared with the extracted model of a FRESH layout of the current labels "
        "and effective options. Non-trivial = a history with at least two computes of which one is multi-layer; distinct by history.")
EXPLANATION = ("Theorems are about coq/Layout/Force.v: the engine state machine of coq/Layout/ForceState.v (labella/force.py with the node-state "
               "parts of node.py, distributor.py, removeOverlap.py) instantiated with the layer solver of coq/Layout/Layer.v. The tie replays every "
               "history on the extracted model (shared Node objects with whatever an earlier layout left in them, option updates, computes) and "
               "requires, after every compute, the same engine node order, the same layer and integer position for every label and the same "
               "reported layers (label identity, is_stub, position, list order) as labella's Force.")
LEVEL_TEXT = ("Machine-checked Coq theorems, for ALL operation histories, stale node states, label lists and option values of the documented "
              "domain: a compute reads no field an earlier layout left behind (C06_scrub); every compute of every history outputs the stateless "
              "layout of the current labels under the effective options (C06_history; re-computation, engine reuse, a second label set as "
              "corollaries); permuting labels whose ties share a width gives the same multiset of (position, width, layer, placement) "
              "(C06_permutation); tied labels are placed in input order in every single-layer layout and, for algorithm simple, in every layer "
              "of a layout of any depth (C06_tie_order, C06_tie_order_single_layer, C06_simple_order, C06_tie_order_simple), with a kernel-checked "
              "witness that the overlap algorithm does NOT do so once a greedy round runs (C06_tie_order_overlap_refuted); every layer of every compute satisfies the C01 separation/order "
              "theorems and is solved with the reported positions of the nearer layer as targets (C01_all_layers, C02_targets). The model is "
              "tied to the code by differential execution of histories on every run.")
LEVEL_NOTE = ("Trusted: Coq kernel; extraction re-checked on a slice by vm_compute; the correspondence harness and its generators. Modelled, not "
              "verified: labella/force.py, node.py, distributor.py, removeOverlap.py; the VPSC solver is represented by the exact chain solver "
              "(its tie is C01-C03/C05); doubles by exact rationals. One rounding of the code is accounted for explicitly: density*layerWidth "
              "is rounded to a double by the code; when that product is inexact the history is also replayed with the density that makes the "
              "model's exact product equal the code's double, and a disagreement that this removes is counted as ambiguous, not as a mismatch.")
TECHNIQUE = ("Coq proof (refinement of the engine state machine to a stateless layout via a canonical form of the node list; equivariance under "
             "renaming of label identities; composition with the per-layer theorems) + model/implementation correspondence on operation histories")
ALGS = ["overlap", "simple", "none"]


# ------------------------------------------------------------------ impl ---
def _layout_of(force, nodes):
    res = []
    for n in nodes:
        res.append([n.getLayerIndex(), n.currentPos])
    layers = force.getLayers()
    shape = None
    if layers is not None:
        shape = [[[id(x.getRoot() if False else x) and 0, 1 if x.isStub() else 0] for x in lay] for lay in layers]
        shape = [[s[1] for s in lay] for lay in shape]
    return res, shape


def impl(py):
    from labella.force import Force
    from labella.node import Node
    sets = [[Node(p, w, data=i) for i, (p, w) in enumerate(s)] for s in py["sets"]]
    gid = {}
    for k, st in enumerate(sets):
        for i, nd in enumerate(st):
            gid[id(nd)] = _offsets(py["sets"])[k] + i

    def root(x):
        while x.child:
            x = x.child
        return gid.get(id(x), -1)
    if len(py["ops"]) % 2 == 0:
        # an engine that existed (and worked) BEFORE the observed one was constructed
        early = Force({"algorithm": "simple", "maxPos": 90, "density": 0.5, "nodeSpacing": 7, "stubWidth": 4})
        early.nodes([Node(6 * i, 11) for i in range(8)])
        early.compute()
    force = Force(py.get("init_opts"))
    eff = dict(py.get("init_opts") or {})
    cur = None
    outs = []
    others = []
    for op in py["ops"]:
        if op[0] == "other":
            # a bystander engine: constructed, configured and possibly used between the
            # operations of the observed one; engines share nothing, so the model skips it
            if op[1] == "new" or not others:
                others.append(Force(op[2]) if op[2] is not None else Force())
            g = others[-1]
            if op[3]:
                g.set_options(op[3])
            if op[4] is not None:
                g.nodes([Node(p, w, data=None) for p, w in op[4]])
                g.compute()
        elif op[0] == "opts":
            force.set_options(op[1])
            eff.update(op[1])
        elif op[0] == "nodes":
            cur = [sets[op[1]][k] for k in op[2]]
            force.nodes(cur)
        elif op[0] == "compute":
            force.compute()
            hist, shape = _layout_of(force, force.nodes())
            # reference: fresh engine, fresh Node objects, same order, effective options
            fresh_nodes = [Node(n.idealPos, n.width, data=n.data) for n in cur]
            f2 = Force(dict(eff))
            f2.nodes(fresh_nodes)
            f2.compute()
            fresh, fshape = _layout_of(f2, f2.nodes())
            outs.append({"labels": [[n.idealPos, n.width] for n in force.nodes()], "hist": hist,
                         "fresh_labels": [[n.idealPos, n.width] for n in f2.nodes()], "fresh": fresh,
                         "shape": shape, "fresh_shape": fshape, "eff": {k: eff[k] for k in sorted(eff)},
                         "ids": [gid[id(n)] for n in force.nodes()],
                         "layers": [[[root(x), 1 if x.isStub() else 0, x.currentPos] for x in lay]
                                    for lay in (force.getLayers() or [])]})
    return outs


# ----------------------------------------------------------------- model ---
DEFAULTS = {"nodeSpacing": 3, "minPos": 0, "maxPos": None, "algorithm": "overlap", "density": 0.85, "stubWidth": 1}


def _offsets(sets):
    off, t = [], 0
    for st in sets:
        off.append(t)
        t += len(st)
    return off


def _q(x):
    fr = Fraction(x)
    return [fr.numerator, fr.denominator]


def _enc_update(o):
    """set_options(o): alg? minPos?? maxPos?? density? nodeSpacing? stubWidth? lineSpacing?"""
    out = []
    out += [1, ALGS.index(o["algorithm"])] if "algorithm" in o else [0]
    for k in ("minPos", "maxPos"):
        if k in o:
            out += [1] + ([0] if o[k] is None else [1] + _q(o[k]))
        else:
            out += [0]
    for k in ("density", "nodeSpacing", "stubWidth", "lineSpacing"):
        out += [1] + _q(o[k]) if k in o else [0]
    return out


def _history_call(py, adjust):
    """command 380.  adjust: before every compute set the density to the value that makes
    the model's exact density*layerWidth equal the double the code computes."""
    off = _offsets(py["sets"])
    heap = []
    for k, st in enumerate(py["sets"]):
        for i, (p, w) in enumerate(st):
            heap += [off[k] + i] + _q(p) + _q(w)
    call = [380, sum(len(st) for st in py["sets"])] + heap
    ops = []
    eff = dict(DEFAULTS)
    inexact = False
    if py.get("init_opts"):
        ops.append([1] + _enc_update(py["init_opts"]))
        eff.update(py["init_opts"])
    for op in py["ops"]:
        if op[0] == "other":
            continue
        if op[0] == "opts":
            ops.append([1] + _enc_update(op[1]))
            eff.update(op[1])
        elif op[0] == "nodes":
            ops.append([0, len(op[2])] + [off[op[1]] + k for k in op[2]])
        else:
            mn, mx, d = eff["minPos"], eff["maxPos"], eff["density"]
            if mn is not None and mx is not None and (mx - mn):
                lw = mx - mn
                prod = d * lw
                if Fraction(prod) != Fraction(d) * Fraction(lw):
                    inexact = True
                    if adjust:
                        ops.append([1] + _enc_update({"density": Fraction(prod) / Fraction(lw)}))
                elif adjust:
                    ops.append([1] + _enc_update({"density": d}))
            ops.append([2])
    call += [len(ops)]
    for o in ops:
        call += o
    return call, inexact


def _model_calls(py):
    a, inexact = _history_call(py, False)
    if not inexact:
        return [a]
    return [a, _history_call(py, True)[0]]


def _dec_history(m):
    """-> list of computes: dict(status, nodes [(id, layer, cur)], layers [[(id, stub, cur)]], exact [[q]])"""
    if m is None or not m or m == [-999]:
        return None
    k = 1
    res = []
    for _ in range(m[0]):
        status = m[k]
        k += 1
        n = m[k]
        k += 1
        nodes = []
        for _i in range(n):
            nodes.append((m[k], m[k + 1], Fraction(m[k + 2], m[k + 3])))
            k += 4
        nl = m[k]
        k += 1
        layers = []
        for _j in range(nl):
            cnt = m[k]
            k += 1
            lay = []
            for _i in range(cnt):
                lay.append((m[k], m[k + 1], Fraction(m[k + 2], m[k + 3])))
                k += 4
            layers.append(lay)
        nl = m[k]
        k += 1
        exact = []
        for _j in range(nl):
            cnt = m[k]
            k += 1
            exact.append([Fraction(m[k + 2 * i], m[k + 2 * i + 1]) for i in range(cnt)])
            k += 2 * cnt
        res.append({"status": status, "nodes": nodes, "layers": layers, "exact": exact})
    return res


# ------------------------------------------------------------- generator ---
def _label_set(rng):
    n = rng.choice([1, 2, 3, 5, 8, 12, 20, 35])
    style = rng.choice(["uniform", "cluster", "ties", "half"])
    res = []
    for i in range(n):
        if style == "uniform":
            p = rng.randrange(0, 800)
        elif style == "cluster":
            p = 300 + rng.randrange(0, 60)
        elif style == "ties":
            p = rng.choice([100, 100, 250, 250, 400])
        else:
            p = rng.randrange(0, 1200) / 2.0
        w = rng.choice([10, 20, 40, 50, 50.5, 64])
        res.append([p, w])
    if style == "ties" or rng.random() < 0.5:
        # proviso of the property: labels sharing a data position share a width
        seen = {}
        for r in res:
            r[1] = seen.setdefault(r[0], r[1])
    return res


def _opt_update(rng):
    o = {}
    for _ in range(rng.randrange(1, 3)):
        k = rng.choice(["maxPos", "minPos", "algorithm", "nodeSpacing", "density", "stubWidth"])
        o[k] = {"maxPos": rng.choice([None, 200, 400, 800, 1500]), "minPos": rng.choice([None, 0, 0, -100, 50]),
                "algorithm": rng.choice(ALGS), "nodeSpacing": rng.choice([0, 3, 3, 6]),
                "density": rng.choice([0.5, 0.75, 0.85, 1]), "stubWidth": rng.choice([0, 1, 2])}[k]
    return o


def _sprinkle_others(rng, ops):
    """insert operations on bystander engines (op "other": construct / re-configure /
    lay out unrelated labels) between the operations of the observed engine"""
    if rng.random() < 0.5:
        return ops
    ops = list(ops)
    for _ in range(rng.randrange(1, 4)):
        o = ["other", rng.choice(["new", "same"]),
             _opt_update(rng) if rng.random() < 0.6 else None,
             _opt_update(rng) if rng.random() < 0.5 else None,
             [[rng.randrange(0, 300), rng.choice([10, 40, 50])] for _i in range(rng.choice([2, 6, 12]))]
             if rng.random() < 0.6 else None]
        ops.insert(rng.randrange(0, len(ops)), o)
    return ops


def make(rng):
    sets = [_label_set(rng) for _ in range(rng.randrange(1, 4))]
    ops = []
    init = _opt_update(rng) if rng.random() < 0.6 else None
    have_nodes = False
    for _ in range(rng.randrange(3, 10)):
        r = rng.random()
        if not have_nodes or r < 0.25:
            si = rng.randrange(len(sets))
            perm = list(range(len(sets[si])))
            if rng.random() < 0.6:
                rng.shuffle(perm)
            ops.append(["nodes", si, perm])
            have_nodes = True
        elif r < 0.45:
            ops.append(["opts", _opt_update(rng)])
        else:
            ops.append(["compute"])
    if ops[-1][0] != "compute":
        ops.append(["compute"])
    py = {"sets": sets, "init_opts": init, "ops": _sprinkle_others(rng, ops)}
    return {"kind": "history", "py": py, "model": _model_calls(py)}


def make_crowded(rng):
    """histories that alternate between configurations needing several layers and
    configurations needing one, on the same Node objects (stale stubs, layers, positions)"""
    sets = []
    for _ in range(rng.randrange(1, 3)):
        n = rng.choice([6, 10, 15, 24, 35])
        base = rng.choice([0, 100, 300])
        span = rng.choice([150, 400, 900])
        st = []
        for _i in range(n):
            p = base + rng.choice([rng.randrange(0, span), rng.randrange(0, 2 * span) / 2.0, rng.choice([10, 10, 60, 60, 200])])
            st.append([p, rng.choice([10, 20, 40, 50, 50.5, 64])])
        if rng.random() < 0.6:
            seen = {}
            for r in st:
                r[1] = seen.setdefault(r[0], r[1])
        sets.append(st)
    narrow = lambda: {"minPos": rng.choice([0, 0, -100, 50]), "maxPos": rng.choice([200, 400, 800])}  # noqa: E731
    wide = lambda: rng.choice([{"maxPos": None}, {"maxPos": 100000}, {"algorithm": "none"}, {"minPos": None}])  # noqa: E731
    init = dict(narrow())
    if rng.random() < 0.5:
        init["algorithm"] = rng.choice(ALGS)
    ops = [["nodes", 0, list(range(len(sets[0])))], ["compute"]]
    for _ in range(rng.randrange(2, 8)):
        r = rng.random()
        if r < 0.3:
            ops.append(["opts", wide()])
        elif r < 0.5:
            o = dict(narrow())
            if rng.random() < 0.5:
                o["algorithm"] = rng.choice(["overlap", "simple"])
            ops.append(["opts", o])
        elif r < 0.6:
            ops.append(["opts", _opt_update(rng)])
        elif r < 0.75:
            si = rng.randrange(len(sets))
            perm = list(range(len(sets[si])))
            if rng.random() < 0.7:
                rng.shuffle(perm)
            if rng.random() < 0.3:
                perm = perm[:max(1, len(perm) // 2)]      # a smaller list sharing the Node objects
            ops.append(["nodes", si, perm])
        ops.append(["compute"])
    py = {"sets": sets, "init_opts": init, "ops": _sprinkle_others(rng, ops)}
    return {"kind": "crowded_history", "py": py, "model": _model_calls(py)}


def rebuild(c):
    c = dict(c)
    c["model"] = _model_calls(c["py"])
    return c


def gen(rng, tier):
    for _ in range(400 if tier == "quick" else 4000):
        yield make(rng)
    for _ in range(400 if tier == "quick" else 4000):
        yield make_crowded(rng)


# ---------------------------------------------------------------- oracle ---
def _ties_agree(labels):
    seen = {}
    for p, w in labels:
        if seen.setdefault(p, w) != w:
            return False
    return True


def oracle(case, io):
    if isinstance(io, dict) and "exc" in io:
        return "raised %s: %s" % (io["exc"], io.get("msg", ""))
    prev_by_set = {}
    for k, o in enumerate(io):
        if o["labels"] != o["fresh_labels"]:
            return "compute #%d: the engine's label list differs from the labels given" % k
        if o["hist"] != o["fresh"]:
            bad = [i for i, (a, b) in enumerate(zip(o["hist"], o["fresh"])) if a != b][:3]
            return ("compute #%d on the reused engine/labels differs from a fresh engine with fresh labels and the same effective "
                    "options %r: labels %r got %r, fresh %r" % (k, o["eff"], bad, [o["hist"][i] for i in bad], [o["fresh"][i] for i in bad]))
        # permutation invariance (proviso: tied labels share a width)
        if _ties_agree(o["labels"]):
            key = (tuple(sorted(map(tuple, o["labels"]))), tuple(sorted((k2, str(v)) for k2, v in o["eff"].items())))
            ms = sorted((p, w, l, c) for (p, w), (l, c) in zip(o["labels"], o["hist"]))
            if key in prev_by_set and prev_by_set[key] != ms:
                return "compute #%d: same labels and options in a different input order gave a different layout" % k
            prev_by_set[key] = ms
    # last, so that it can never mask another failure: the clause "labels that share a data
    # position but not a width keep the mutual order of the input".  Known finding
    # (signature tie-order-overlap) when the algorithm is overlap and a greedy round ran.
    known = None
    for k, o in enumerate(io):
        why = _tie_order(k, o)
        if why and not why[0]:
            return why[1]
        if why and known is None:
            known = why[1]
    return known


TIE_PREFIX = "tie-order:"


def _tie_order(k, o):
    """(is_known_shape, message) or None.  Input order = order of the engine's label list
    (for algorithm none removeOverlap sorted it in place, stably: ties keep the input order)."""
    labs, hist = o["labels"], o["hist"]
    alg = dict(DEFAULTS, **o["eff"]).get("algorithm", "overlap")
    nlayers = 1 + max([h[0] for h in hist] or [0])
    for i in range(len(labs)):
        for j in range(i + 1, len(labs)):
            if labs[i][0] == labs[j][0] and labs[i][1] != labs[j][1] and hist[i][0] == hist[j][0] \
                    and hist[i][1] > hist[j][1]:
                greedy = alg == "overlap" and nlayers > 1
                msg = ("%s compute #%d algorithm=%s layers=%d: labels %r and %r share a data position but not a width, are both "
                       "in layer %d, and the later one is placed left of the earlier one (%r > %r)" % (
                           TIE_PREFIX, k, alg, nlayers, labs[i], labs[j], hist[i][0], hist[i][1], hist[j][1]))
                return (greedy, msg)
    return None


def matches_finding(f, case, failure):
    """open finding tie-order-overlap: exactly the tie-order clause, under algorithm overlap,
    in a layout of more than one layer (a greedy round re-sorted the layer list)"""
    if f.get("signature") != "tie-order-overlap" or not failure.startswith(TIE_PREFIX):
        return False
    import re
    m = re.search(r"algorithm=(\w+) layers=(\d+)", failure)
    return bool(m) and m.group(1) == "overlap" and int(m.group(2)) > 1


def nontrivial(case, io):
    if isinstance(io, dict):
        return False
    return len(io) >= 2 and any(any(l > 0 for l, _ in o["hist"]) for o in io)


BAND = Fraction(1, 10 ** 7)      # ambiguity band around a .5 rounding boundary (DESIGN.md 3.4)


def _small_dyadic(x):
    if x is None:
        return True
    fr = Fraction(x)
    d = fr.denominator
    return d <= 4096 and d & (d - 1) == 0 and abs(fr) < 2 ** 21


def _cmp_compute(py, k, o, m):
    """one compute: None (equal), ("amb", why) or ("diff", why)"""
    if m["status"] != 1:
        return ("diff", "compute #%d: model says the labels/options are outside the documented domain" % k)
    if o["ids"] != [i for i, _, _ in m["nodes"]]:
        return ("diff", "compute #%d: engine node order %r, model %r" % (k, o["ids"], [i for i, _, _ in m["nodes"]]))
    shape_i = [[(g, s) for g, s, _ in lay] for lay in o["layers"]]
    shape_m = [[(g, s) for g, s, _ in lay] for lay in m["layers"]]
    lay_i = [h[0] for h in o["hist"]]
    lay_m = [l for _, l, _ in m["nodes"]]
    if lay_i != lay_m:
        bad = [j for j, (a, b) in enumerate(zip(lay_i, lay_m)) if a != b][:3]
        return ("diff", "compute #%d: layer of labels %r: implementation %r, model %r" % (
            k, [o["ids"][j] for j in bad], [lay_i[j] for j in bad], [lay_m[j] for j in bad]))
    pos_i = [h[1] for h in o["hist"]]
    pos_m = [c for _, _, c in m["nodes"]]
    same_pos = all(isinstance(a, int) and not isinstance(a, bool) and Fraction(a) == b for a, b in zip(pos_i, pos_m))
    if same_pos and shape_i == shape_m and all(
            [Fraction(c) for _, _, c in li] == [c for _, _, c in lm] for li, lm in zip(o["layers"], m["layers"])):
        return None
    # first layer (nearest the axis) whose reported content differs
    if len(shape_i) != len(shape_m):
        return ("diff", "compute #%d: %d reported layers, model %d" % (k, len(shape_i), len(shape_m)))
    eff = dict(DEFAULTS)
    eff.update(o["eff"])
    for j, (li, lm) in enumerate(zip(o["layers"], m["layers"])):
        if [(g, s) for g, s, _ in li] != [(g, s) for g, s, _ in lm]:
            # the in-place sort by target decides the order; a different order with equal
            # contents can only come from different targets, i.e. an earlier difference
            return ("diff", "compute #%d: reported layer %d is %r, model %r" % (
                k, j, [(g, s) for g, s, _ in li], [(g, s) for g, s, _ in lm]))
        diffs = [t for t, (a, b) in enumerate(zip(li, lm)) if Fraction(a[2]) != b[2] or not isinstance(a[2], int)]
        if not diffs:
            continue
        # is every difference of this layer inside the ambiguity band of the rounding?
        labels = {}
        off = _offsets(py["sets"])
        for si, st in enumerate(py["sets"]):
            for t, (p, w) in enumerate(st):
                labels[off[si] + t] = (p, w)
        prev = {g: c for g, _, c in m["layers"][j - 1]} if j > 0 else {}
        nums = [eff.get("nodeSpacing"), eff.get("minPos"), eff.get("maxPos")]
        for g, sflag, _ in lm:
            nums.append(prev[g] if j > 0 and g in prev else labels[g][0])
            nums.append(eff.get("stubWidth") if sflag else labels[g][1])
        fexact = all(_small_dyadic(v) for v in nums)
        for t in diffs:
            a, b = li[t][2], lm[t][2]
            x = m["exact"][j][t] if j < len(m["exact"]) and t < len(m["exact"][j]) else None
            if x is None or not isinstance(a, int) or abs(Fraction(a) - b) != 1:
                return ("diff", "compute #%d layer %d item %d (label %d): implementation %r, model %s" % (k, j, t, li[t][0], a, b))
            import math
            dist = abs((x - math.floor(x)) - Fraction(1, 2))
            if not (dist <= BAND and (dist > 0 or not fexact)):
                return ("diff", "compute #%d layer %d item %d (label %d): implementation %r, model %s (exact %s)" % (
                    k, j, t, li[t][0], a, b, float(x)))
        return ("amb", "rounding boundary in layer %d of compute #%d" % (j, k))
    bad = [j for j, (a, b) in enumerate(zip(pos_i, pos_m)) if Fraction(a) != b][:3]
    return ("diff", "compute #%d: position of labels %r: implementation %r, model %r" % (
        k, [o["ids"][j] for j in bad], [pos_i[j] for j in bad], [str(pos_m[j]) for j in bad]))


def _cmp_history(py, io, m):
    if m is None:
        return ("diff", "model rejected the history")
    if len(m) != len(io):
        return ("diff", "%d computes, model %d" % (len(io), len(m)))
    for k, (o, mm) in enumerate(zip(io, m)):
        r = _cmp_compute(py, k, o, mm)
        if r is not None:
            # everything after a difference is a consequence of it (shared, mutated Node objects)
            return r
    return None


def compare(case, io, mo):
    from harness import core
    if isinstance(io, dict) and "exc" in io:
        return "implementation raised %s %s" % (io["exc"], io.get("msg", ""))
    if not mo or mo[0] is None:
        return "model produced no output"
    r = _cmp_history(case["py"], io, _dec_history(mo[0]))
    if r is None:
        return None
    if r[0] == "amb":
        raise core.Ambiguous()
    if len(mo) > 1 and mo[1] is not None:
        # density*layerWidth is inexact in doubles somewhere in this history: the model fed
        # with the density that reproduces the code's double must then agree
        r2 = _cmp_history(case["py"], io, _dec_history(mo[1]))
        if r2 is None or r2[0] == "amb":
            raise core.Ambiguous()
    return r[1]


def search(rng, tier, mism):
    for c in mism:
        yield c
    for c in gen(rng, "quick"):
        yield c


def shrink_candidates(case):
    py = case["py"]
    ops = py["ops"]
    for i in range(len(ops) - 1):
        new = ops[:i] + ops[i + 1:]
        if new and any(o[0] == "nodes" for o in new):
            first_nodes = [j for j, o in enumerate(new) if o[0] == "nodes"][0]
            if all(o[0] != "compute" for o in new[:first_nodes]):
                q = dict(py)
                q["ops"] = new
                yield {"kind": case["kind"], "py": q, "model": _model_calls(q)}
