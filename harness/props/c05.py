"""C05: the separation-constraint solver (labella/vpsc.py) is feasible and certified optimal.

Tie K4: vpsc.Solver(vs, cs).solve() against the extracted Coq model
(coq/Vpsc/Vpsc.v, API 400) on the same doubles (passed exactly as rationals):
positions and cost within 1e-9 relative, `unsatisfiable` flags exactly; and the
implementation run on fractions.Fraction inputs against the model EXACTLY.
State-level tie: the invariants proved for the model (I1 every inactive unflagged
constraint is in solver.inactive, I2 active => same block and offset difference
= gap, I4 blocks partition the variables, blockInd) are checked on the
IMPLEMENTATION's final state, and its inactive multiset / active flags are
compared with the model's wherever the run is not fragile.
Oracle: the property text on the implementation's own output (feasibility
within 1e-9 (1 + magnitude), cost identity, optimality by exact active-set
enumeration for small instances; otherwise gated by the proved checker kkt_ok
and an independently computed weak-duality certificate).
"""
import json
import sys
from fractions import Fraction as F

# exact costs of 60-variable instances have denominators of several thousand
# digits; Python 3.11+ refuses to parse such integers by default
if hasattr(sys, "set_int_max_str_digits"):
    sys.set_int_max_str_digits(0)

from harness import core

ID = "C05"
MODNAME = "c05"
CASE_TIMEOUT = 30
RULE = ("instances of vpsc.Solver: 1..60 variables (desired positions with ties, dyadic and non-dyadic; weights unit, dyadic, "
        "powers of ten and log-uniform doubles in 1e-2..1e10; scales in {0.5,1,2,4}); constraint graphs: random DAGs under a random "
        "topological order (0..3n edges), chains (shuffled constraint order), layer-like chains with 1e10-weight walls, stars/trees, "
        "duplicated and transitively redundant constraints, the 11 instances of tests/test_vpsc.py, witness A.1, and cyclic multigraphs "
        "(2-cycles, self-loops, contradictory and zero-gap cycles), and a directed family with exactly tight transitive constraints "
        "(n 5..12, integer data, weights {1,0.3,2.5,7,100}, 1-4 constraints a->c with gap g(a->b)+g(b->c)). A case is one instance; non-trivial = some variable is moved off its "
        "desired position; distinct by input.")
EXPLANATION = ("Theorems are about coq/Vpsc/Vpsc.v, a faithful model of labella/vpsc.py: whenever solve returns, every unflagged constraint "
               "holds within 1e-10 and the reported cost is the cost of the reported positions (invariants I1-I4 through merges AND splits); "
               "weak duality / KKT sufficiency for all instances; the proved checker kkt_ok certifies optimality of each concrete run. "
               "The tie checks that labella/vpsc.py computes the same positions, cost and flags as the model, in doubles (1e-9) and on "
               "exact Fractions (equality).")
TOL = 1e-9          # relative tolerance of the tie on positions and cost
FEAS_TOL = 1e-9     # feasibility tolerance of the oracle: 1e-9 (1 + magnitude); doubles keep ~1e-12 relative here
STATE_TOL = 1e-9    # offset difference of an active constraint vs its gap (invariant I2), relative to 1 + magnitude
OPT_TOL = 1e-6      # "no feasible assignment beats the cost by more than 1e-6 relative"

TEST_INSTANCES = [
    ([2, 9, 9, 9, 2], [(0, 4, 3), (0, 1, 3), (1, 2, 3), (2, 4, 3), (3, 4, 3)]),
    ([(0, 1, 2), (0, 1, 1)], [(0, 1, 2)]),
    ([(1, 1, 3), (1, 1, 2), (1, 1, 4)], [(0, 1, 2), (1, 2, 2)]),
    ([4, 6, 9, 2, 5], [(0, 2, 3), (0, 3, 3), (1, 4, 3), (2, 4, 3), (2, 3, 3), (3, 4, 3)]),
    ([5, 6, 7, 4, 3], [(0, 4, 3), (1, 2, 3), (2, 3, 3), (2, 4, 3), (3, 4, 3)]),
    ([7, 1, 6, 0, 2], [(0, 3, 3), (0, 1, 3), (1, 4, 3), (2, 4, 3), (2, 3, 3), (3, 4, 3)]),
    ([0, 9, 1, 9, 5, 1, 2, 1, 6, 3],
     [(0, 3, 3), (1, 8, 3), (1, 6, 3), (2, 6, 3), (3, 5, 3), (3, 6, 3), (3, 7, 3), (4, 8, 3), (4, 7, 3), (5, 8, 3),
      (5, 7, 3), (5, 8, 3), (6, 9, 3), (7, 8, 3), (7, 9, 3), (8, 9, 3)]),
    ([7, 0, 3, 1, 4], [(0, 3, 3), (0, 2, 3), (1, 4, 3), (1, 4, 3), (2, 3, 3), (3, 4, 3)]),
    ([4, 2, 3, 1, 8], [(0, 4, 3), (0, 2, 3), (1, 3, 3), (2, 3, 3), (2, 4, 3), (3, 4, 3)]),
    ([3, 4, 0, 5, 6], [(0, 1, 3), (0, 2, 3), (1, 2, 3), (1, 4, 3), (2, 3, 3), (2, 3, 3), (3, 4, 3), (3, 4, 3)]),
    ([8, 2, 6, 5, 3], [(0, 4, 3), (0, 3, 3), (1, 2, 3), (1, 4, 3), (2, 3, 3), (2, 4, 3), (3, 4, 3)]),
]
# DESIGN.md Appendix A.1 (the instance the unrepaired solver left violated by 1.0)
A1 = ([19, 8, 5, 3, 6, 6, 0, 12, 10],
      [(0, 5, 2), (3, 6, 2), (2, 6, 0), (4, 7, 2), (0, 7, 0), (2, 5, 2), (0, 4, 2), (0, 2, 1), (2, 7, 3), (1, 4, 2),
       (0, 5, 2), (3, 4, 0)])


# ------------------------------------------------------------ encoding ---
def _q(x):
    f = F(x)
    return [f.numerator, f.denominator]


def _enc(vs, cs):
    out = [len(vs)]
    for d, w, s in vs:
        out += _q(d) + _q(w) + _q(s)
    out.append(len(cs))
    for l, r, g in cs:
        out += [l, r] + _q(g)
    return out


def _case(kind, vs, cs, dag, frac=True):
    vs = [list(v) if isinstance(v, (list, tuple)) else [v, 1, 1] for v in vs]
    cs = [list(c) for c in cs]
    py = {"vs": vs, "cs": cs, "dag": bool(dag), "frac": bool(frac)}
    return {"kind": kind, "py": py, "model": [[400] + _enc(vs, cs)]}


def rebuild(c):
    py = c["py"]
    return _case(c.get("kind", "corpus"), py["vs"], py["cs"], py.get("dag", True), py.get("frac", True))


class _Rd:
    def __init__(self, l):
        self.l = l
        self.k = 0

    def z(self):
        self.k += 1
        return self.l[self.k - 1]

    def q(self):
        n = self.z()
        d = self.z()
        return F(n, d)

    def lst(self, f):
        return [f() for _ in range(self.z())]


def decode_model(l):
    if l is None:
        return {"err": "no output"}
    r = _Rd(l)
    st = r.z()
    if st == 0:
        return {"fuel": r.z()}
    if st != 1:
        return {"err": "status %d" % st}
    o = {}
    o["pos"] = r.lst(r.q)
    o["cost"] = r.q()
    o["flags"] = [bool(x) for x in r.lst(r.z)]
    o["nsat"] = r.z()
    o["nlist"] = r.z()
    o["nstore"] = r.z()
    o["active"] = [bool(x) for x in r.lst(r.z)]
    o["g_pos"] = r.q()
    o["g_lm"] = r.q()
    o["g_mag"] = r.q()
    o["g_tie"] = r.z()
    o["g_tlm"] = r.z()
    # proved checkers evaluated by the model on its own result
    o["feas_ok"] = bool(r.z())
    o["cost_ok"] = bool(r.z())
    o["part_ok"] = bool(r.z())
    o["kkt_ok"] = bool(r.z())
    o["gap"] = F(r.z(), 10 ** 12)      # rounded down to 1e-12 by the API (information only)
    o["inactive"] = r.lst(r.z)          # the final self.inactive list (constraint indices, in order)
    return o


# ------------------------------------------------------- implementation ---
def _final_state(vpsc_mod, solver, V, C, exact):
    """The solver's final state through public attributes only: the inactive list, the active
    flags, the block list with each block's variables and blockInd, every variable's block and
    offset.  Objects are identified by identity and reported as indices."""
    cid = {id(c): k for k, c in enumerate(C)}
    vid = {id(v): k for k, v in enumerate(V)}
    blocks = list(solver.bs._list)
    bid = {id(b): k for k, b in enumerate(blocks)}
    conv = (lambda x: [str(F(x).numerator), str(F(x).denominator)]) if exact else float
    return {"inactive": [cid.get(id(c), -1) for c in solver.inactive],
            "active": [bool(c.active) for c in C],
            "blocks": [[vid.get(id(v), -1) for v in b.vars] for b in blocks],
            "blockInd": [getattr(b, "blockInd", -1) for b in blocks],
            "vblock": [bid.get(id(v.block), -1) for v in V],
            "offset": [conv(v.offset) for v in V]}


_WARM = []


def _warm_up():
    """The solver lives in a library whose other modules run in the same
    process: lay a few labels out once (Force -> removeOverlap -> vpsc) before
    the first solver case, so that anything a layout leaves behind in the
    process (class attributes, module-level defaults) is in effect, as it is
    for any real user of the solver inside labella."""
    if _WARM:
        return
    _WARM.append(1)
    from labella.force import Force
    from labella.node import Node
    f = Force({"minPos": 0, "maxPos": 120, "lineSpacing": 2})
    f.nodes([Node(p, 30) for p in (10, 12, 14, 60, 61, 100)])
    f.compute()


def impl(py):
    from labella import vpsc
    _warm_up()

    def run(conv):
        V = [vpsc.Variable(conv(d), conv(w), conv(s)) for d, w, s in py["vs"]]
        C = [vpsc.Constraint(V[l], V[r], conv(g)) for l, r, g in py["cs"]]
        solver = vpsc.Solver(V, C)
        cost = solver.solve()
        return V, C, cost, solver

    V, C, cost, solver = run(lambda x: x)
    out = {"pos": [float(v.position()) for v in V], "cost": float(cost),
           "flags": [bool(c.unsatisfiable) for c in C],
           "state": _final_state(vpsc, solver, V, C, False)}
    if py.get("frac"):
        V, C, cost, solver = run(F)
        st = _final_state(vpsc, solver, V, C, True)
        out["q"] = {"pos": [[str(F(v.position()).numerator), str(F(v.position()).denominator)] for v in V],
                    "cost": [str(F(cost).numerator), str(F(cost).denominator)],
                    "flags": [bool(c.unsatisfiable) for c in C],
                    "inactive": st["inactive"], "active": st["active"]}
    return out


# ------------------------------------------------------------- the tie ---
def _magnitude(py):
    m = 1.0
    for d, w, s in py["vs"]:
        m = max(m, abs(d))
    g = 0.0
    for l, r, gap in py["cs"]:
        g += abs(gap)
    return max(m, g)


def _fragile(py, m):
    """Could a branch of the double-precision run legitimately differ from the
    exact model?  Only when some compared quantity came within float error of
    its threshold, or two compared quantities were exactly tied."""
    M = _magnitude(py)
    wmax = max(w for _, w, _ in py["vs"])
    if m["g_tie"] > 0 or m["g_tlm"] > 0:
        return True
    if m["g_pos"] < 1e-12 * M * len(py["vs"]):
        return True
    if m["g_lm"] < 1e-12 * max(float(m["g_mag"]), 2 * wmax * M) * len(py["vs"]):
        return True
    return False


def _fragile_frac(py, m):
    """The Fraction run computes positions, slacks and costs exactly; only the
    multipliers (2.0 * weight * ...) are doubles."""
    M = _magnitude(py)
    wmax = max(w for _, w, _ in py["vs"])
    if m["g_tlm"] > 0:
        return True
    return m["g_lm"] < 1e-12 * max(float(m["g_mag"]), 2 * wmax * M) * len(py["vs"])


def state_invariants(py, io):
    """The invariants proved for the model (coq/Vpsc/InvProofs.v, General.v), checked on the
    IMPLEMENTATION's final state.  Returns None or a description naming the invariant."""
    st = io.get("state") if isinstance(io, dict) else None
    if st is None:
        return None
    vs, cs = py["vs"], py["cs"]
    n, m = len(vs), len(cs)
    M = _magnitude(py)
    flags, active, inact = io["flags"], st["active"], st["inactive"]
    if any(k < 0 or k >= m for k in inact):
        return "invariant I1: the inactive list contains an object that is not one of the solver's constraints"
    members = set(inact)
    # I1: every constraint that is neither active nor flagged unsatisfiable is still tracked
    for k in range(m):
        if not active[k] and not flags[k] and k not in members:
            return ("invariant I1 violated in the implementation's final state: constraint %d %r is neither active nor "
                    "flagged unsatisfiable but is not in solver.inactive (it will never be looked at again)" % (k, cs[k]))
    # I4: the blocks of the block list partition the variables; block pointers and blockInd agree
    seen = [0] * n
    for b, members_b in enumerate(st["blocks"]):
        if st["blockInd"][b] != b:
            return "invariant I4 (blockInd): block at list position %d has blockInd %r" % (b, st["blockInd"][b])
        for v in members_b:
            if v < 0 or v >= n:
                return "invariant I4: block %d lists an object that is not one of the solver's variables" % b
            seen[v] += 1
            if st["vblock"][v] != b:
                return "invariant I4: variable %d is listed by block %d but points to block %r" % (v, b, st["vblock"][v])
    for v in range(n):
        if seen[v] != 1:
            return "invariant I4: variable %d is listed by %d blocks of the block list" % (v, seen[v])
    # I2: an active constraint has both ends in one block and its offsets differ by the gap
    for k, (l, r, g) in enumerate(cs):
        if active[k]:
            if st["vblock"][l] != st["vblock"][r]:
                return "invariant I2: active constraint %d %r has its ends in different blocks" % (k, cs[k])
            if abs(st["offset"][r] - st["offset"][l] - g) > STATE_TOL * (1.0 + M):
                return "invariant I2: active constraint %d %r: offset difference %r is not the gap" % (
                    k, cs[k], st["offset"][r] - st["offset"][l])
    return None


def compare(case, io, mo):
    py = case["py"]
    if isinstance(io, dict) and "exc" in io:
        return "implementation raised %s %s" % (io["exc"], io.get("msg", ""))
    # state-level tie, part (a): the proved invariants on the implementation's own final state
    inv = state_invariants(py, io)
    if inv is not None:
        return inv
    m = decode_model(mo[0])
    if "err" in m:
        return "model failed: %s" % m["err"]
    if "fuel" in m:
        return "model ran out of fuel (%d: 1 traversal, 2 satisfy loop, 3 solve loop) while the implementation returned" % m["fuel"]
    why = None
    n = len(py["vs"])
    if len(io["pos"]) != n or len(m["pos"]) != n:
        return "wrong number of positions"
    M = _magnitude(py)
    for i in range(n):
        a, b = float(m["pos"][i]), io["pos"][i]
        if abs(a - b) > TOL * max(1.0, abs(a), M):
            why = "position %d differs: impl %r model %r" % (i, b, a)
            break
    if why is None:
        a, b = float(m["cost"]), io["cost"]
        if abs(a - b) > TOL * max(1.0, abs(a)):
            why = "cost differs: impl %r model %r" % (b, a)
    if why is None and io["flags"] != m["flags"]:
        why = "unsatisfiable flags differ: impl %r model %r" % (io["flags"], m["flags"])
    if why is not None:
        # float and exact runs may legitimately part ways at an exact tie or within rounding error of a
        # threshold; then the two end states need not coincide (e.g. which constraint of a contradictory
        # cycle gets flagged): accept iff the implementation's own output still meets the statement
        if _fragile(py, m) and oracle(case, io) is None:
            raise core.Ambiguous()
        return why
    # state-level tie, part (b): the final inactive multiset and the active flags equal the model's
    # wherever no branch of the double-precision run can legitimately differ from the exact model
    if "state" in io and not _fragile(py, m):
        if sorted(io["state"]["inactive"]) != sorted(m["inactive"]):
            return "final inactive list differs (as a multiset): impl %r model %r" % (
                sorted(io["state"]["inactive"]), sorted(m["inactive"]))
        if io["state"]["active"] != m["active"]:
            return "active flags differ: impl %r model %r" % (io["state"]["active"], m["active"])
    if "q" in io:
        q = io["q"]
        qpos = [F(int(a), int(b)) for a, b in q["pos"]]
        qcost = F(int(q["cost"][0]), int(q["cost"][1]))
        if qpos != m["pos"] or qcost != m["cost"] or q["flags"] != m["flags"]:
            if _fragile_frac(py, m) and oracle(case, io) is None:
                raise core.Ambiguous()
            k = [i for i in range(n) if qpos[i] != m["pos"][i]]
            return "exact (Fraction) run of the implementation differs from the model: positions %r, cost equal %r, flags equal %r" % (
                k[:5], qcost == m["cost"], q["flags"] == m["flags"])
        if "inactive" in q and not _fragile_frac(py, m):
            if sorted(q["inactive"]) != sorted(m["inactive"]) or q["active"] != m["active"]:
                return "exact (Fraction) run: final inactive multiset / active flags differ from the model: inactive %r vs %r, active equal %r" % (
                    sorted(q["inactive"]), sorted(m["inactive"]), q["active"] == m["active"])
    # the model's own proved checkers must accept its result
    if not m["cost_ok"]:
        return "model: reported cost is not the cost of the reported positions (cost_ok false)"
    if not m["part_ok"]:
        return "model: blocks do not partition the variables at exit (part_ok false)"
    if not m["feas_ok"]:
        return "model: an unflagged constraint is violated by more than 1e-10 at exit (feas_ok false)"
    if py["dag"] and m["kkt_ok"]:
        # the proved checker certifies the model's exit state optimal within 1e-6 (1 + cost); the
        # independent oracle must not contradict it on the (matching) output of the implementation
        o = oracle(case, io)
        if o is not None and o.startswith("optimality:"):
            return "kkt_ok certifies the model state but the oracle rejects the matching implementation output: " + o
    return None


# ----------------------------------------------------------- the oracle ---
def _slacks(py, pos):
    vs = py["vs"]
    return [vs[r][2] * pos[r] - g - vs[l][2] * pos[l] for l, r, g in py["cs"]]


def _cost(py, pos):
    return sum(w * (p - d) * (p - d) for (d, w, s), p in zip(py["vs"], pos))


def _dedupe(py):
    best = {}
    for l, r, g in py["cs"]:
        if (l, r) not in best or g > best[(l, r)]:
            best[(l, r)] = g
    return [(l, r, g) for (l, r), g in best.items()]


def _solve_equalities(vs, n, S):
    """Exact minimiser of the cost subject to the constraints in the forest S
    holding with equality; returns positions and the multiplier of each
    constraint of S, or None when S contains an (undirected) cycle."""
    comp = list(range(n))
    off = [F(0)] * n          # scaled coordinate s_i x_i = base(comp) + off_i
    members = {i: [i] for i in range(n)}
    for l, r, g in S:
        a, b = comp[l], comp[r]
        if a == b:
            return None
        shift = off[l] + g - off[r]
        for v in members[b]:
            off[v] += shift
            comp[v] = a
        members[a] += members.pop(b)
    pos = [None] * n
    for a, ms in members.items():
        num = sum(vs[i][1] * (vs[i][0] - off[i] / vs[i][2]) / vs[i][2] for i in ms)
        den = sum(vs[i][1] / (vs[i][2] * vs[i][2]) for i in ms)
        base = num / den
        for i in ms:
            pos[i] = (base + off[i]) / vs[i][2]
    # multipliers: peel leaves of the forest
    need = [2 * vs[i][1] * (pos[i] - vs[i][0]) / vs[i][2] for i in range(n)]   # net inflow required
    deg = [0] * n
    for l, r, g in S:
        deg[l] += 1
        deg[r] += 1
    left = list(S)
    lam = {}
    while left:
        progressed = False
        for c in list(left):
            l, r, g = c
            if deg[r] == 1:
                lam[c] = need[r]
                need[l] += need[r]
            elif deg[l] == 1:
                lam[c] = -need[l]
                need[r] += need[l]
            else:
                continue
            deg[l] -= 1
            deg[r] -= 1
            left.remove(c)
            progressed = True
        if not progressed:
            return None
    return pos, lam


def exact_optimum(py, budget=1500):
    """Independent exact optimum by enumerating active sets (forests of
    distinct constraints) and testing the KKT conditions over Fractions.
    Returns the optimal cost, or None when the budget does not allow it."""
    n = len(py["vs"])
    vs = [(F(d), F(w), F(s)) for d, w, s in py["vs"]]
    cs = [(l, r, F(g)) for l, r, g in _dedupe(py)]
    m = len(cs)
    if n > 8 or 2 ** m > budget:
        return None
    for mask in range(2 ** m):
        S = [cs[k] for k in range(m) if mask >> k & 1]
        res = _solve_equalities(vs, n, S)
        if res is None:
            continue
        pos, lam = res
        if any(v < 0 for v in lam.values()):
            continue
        if any(vs[r][2] * pos[r] - g - vs[l][2] * pos[l] < 0 for l, r, g in cs):
            continue
        return sum(w * (p - d) ** 2 for (d, w, s), p in zip(vs, pos))
    return None


def duality_gap(py, pos, exact=False):
    """An upper bound on cost(pos) - optimum, from a dual-feasible point built
    independently from the positions: multipliers = a flow on the tight
    constraints that meets the stationarity demands as well as possible
    (augmenting paths), then for ANY multipliers lam >= 0 weak duality gives
      optimum >= cost(pos) - sum lam_c slack_c(pos) - sum_i r_i^2 / (4 w_i),
    r the stationarity residual.  With exact=True everything is computed over
    Fractions (pos must be Fractions) and no tolerance is involved."""
    if exact:
        vs = [[F(d), F(w), F(s)] for d, w, s in py["vs"]]
        cs = [[l, r, F(g)] for l, r, g in py["cs"]]
        zero = F(0)
    else:
        vs, cs, zero = py["vs"], py["cs"], 0.0
    n = len(vs)
    M = _magnitude(py)
    sl = [vs[r][2] * pos[r] - g - vs[l][2] * pos[l] for l, r, g in cs]
    tight = [k for k in range(len(cs)) if sl[k] <= 1e-7 * M and cs[k][0] != cs[k][1]]
    # demands: node i needs net inflow b_i = 2 w_i (x_i - d_i) / s_i
    b = [2 * vs[i][1] * (pos[i] - vs[i][0]) / vs[i][2] for i in range(n)]
    flow = {k: zero for k in tight}
    out_e = {}
    in_e = {}
    for k in tight:
        out_e.setdefault(cs[k][0], []).append(k)
        in_e.setdefault(cs[k][1], []).append(k)
    excess = [-x for x in b]      # >0: must send out, <0: must receive
    eps = 0 if exact else 1e-13 * max([abs(x) for x in b] + [1e-300])
    for src in range(n):
        guard = 0
        while excess[src] > eps and guard < 4 * n + 16:
            guard += 1
            # BFS in the residual graph from src to any node with negative excess
            prev = {src: None}
            queue = [src]
            goal = None
            while queue and goal is None:
                u = queue.pop(0)
                for k in out_e.get(u, []):
                    v = cs[k][1]
                    if v not in prev:
                        prev[v] = (u, k, 1)
                        queue.append(v)
                        if excess[v] < -eps:
                            goal = v
                            break
                if goal is not None:
                    break
                for k in in_e.get(u, []):
                    v = cs[k][0]
                    if v not in prev and flow[k] > eps:
                        prev[v] = (u, k, -1)
                        queue.append(v)
                        if excess[v] < -eps:
                            goal = v
                            break
            if goal is None:
                break
            amt = min(excess[src], -excess[goal])
            v = goal
            while prev[v] is not None:
                u, k, sgn = prev[v]
                if sgn < 0:
                    amt = min(amt, flow[k])
                v = u
            v = goal
            while prev[v] is not None:
                u, k, sgn = prev[v]
                flow[k] += sgn * amt
                v = u
            excess[src] -= amt
            excess[goal] += amt
    gap = zero
    for k in tight:
        gap += max(flow[k], zero) * (sl[k] if exact else max(sl[k], 0.0))
    for i in range(n):
        r = excess[i] * vs[i][2]          # residual of 2 w (x - d) = s (in - out)
        gap += r * r / (4 * vs[i][1])
    return gap


def polished_excess(py, pos):
    """cost(pos) - optimum bounded WITHOUT first-order sensitivity to the rounding of pos: the exact
    minimiser xF of the cost subject to equality on a spanning forest of the constraints that are
    tight at pos, and an exact dual certificate at xF:  optimum >= cost(xF) - gap(xF).  Returns
    an upper bound on cost(pos) - optimum (a float)."""
    n = len(py["vs"])
    vs = [(F(d), F(w), F(s)) for d, w, s in py["vs"]]
    M = _magnitude(py)
    sl = _slacks(py, pos)
    comp = list(range(n))

    def find(i):
        while comp[i] != i:
            comp[i] = comp[comp[i]]
            i = comp[i]
        return i
    S = []
    for k, (l, r, g) in enumerate(py["cs"]):
        if sl[k] <= 1e-7 * M and l != r and find(l) != find(r):
            comp[find(l)] = find(r)
            S.append((l, r, F(g)))
    xF, _ = _solve_equalities(vs, n, S)
    costF = sum(w * (p - d) ** 2 for (d, w, s), p in zip(vs, xF))
    gapF = duality_gap(py, xF, exact=True)
    return (_cost(py, pos) - float(costF)) + float(gapF)


def prepare_compare(cases, impl_out, model_out, workdir):
    """Hand the model's certificate verdict to the oracle (core calls oracle(case, impl_out) only):
    case["_kkt"] = {"ok": kkt_ok of the model's exit state, "agree": the implementation's output
    equals the model's within the tie's tolerance}."""
    for c, io, mo in zip(cases, impl_out, model_out):
        c.pop("_kkt", None)
        m = decode_model(mo[0]) if mo else {"err": 1}
        if "pos" not in m or not isinstance(io, dict) or "pos" not in io or len(io["pos"]) != len(m["pos"]):
            continue
        M = _magnitude(c["py"])
        agree = (all(abs(float(a) - b) <= TOL * max(1.0, abs(float(a)), M) for a, b in zip(m["pos"], io["pos"]))
                 and io["flags"] == m["flags"])
        c["_kkt"] = {"ok": bool(m["kkt_ok"]), "agree": bool(agree)}


def oracle(case, io):
    """The property statement on the implementation's own output."""
    py = case["py"]
    if isinstance(io, dict) and "exc" in io:
        return "solve() did not return: %s" % io["exc"]
    pos, cost, flags = io["pos"], io["cost"], io["flags"]
    M = _magnitude(py)
    sl = _slacks(py, pos)
    for k, s in enumerate(sl):
        if not flags[k] and s < -FEAS_TOL * (1.0 + M):
            return "constraint %d %r not flagged unsatisfiable is violated by %g" % (k, py["cs"][k], -s)
    c = _cost(py, pos)
    if abs(c - cost) > 1e-9 * max(1.0, abs(c)):
        return "reported cost %r is not the cost %r of the reported positions" % (cost, c)
    if not py["dag"]:
        return None
    if any(flags):
        return "acyclic instance but constraint %d was flagged unsatisfiable" % flags.index(True)
    opt = exact_optimum(py) if case.get("enum", True) else None
    if opt is not None:
        if c - float(opt) > OPT_TOL * max(1.0, float(opt)):
            return "optimality: cost %r exceeds the exact optimum %r (active-set enumeration)" % (c, float(opt))
        return None
    # the proved checker gates: an acyclic run on which model and implementation agree and whose exit
    # state kkt_ok does NOT certify is not accepted on the strength of the float certificate below
    # (instances small enough for the exact enumeration were decided above)
    k = case.get("_kkt")
    if k is not None and k["agree"] and not k["ok"]:
        return "optimality: run not certified optimal by the proved checker kkt_ok (model and implementation agree on the output)"
    gap = duality_gap(py, pos)
    if gap > OPT_TOL * max(1.0, c):
        # the flow heuristic can fail to find multipliers; decide exactly if the instance is small enough
        opt = exact_optimum(py, budget=70000)
        if opt is not None:
            if c - float(opt) > OPT_TOL * max(1.0, float(opt)):
                return "optimality: cost %r exceeds the exact optimum %r (active-set enumeration)" % (c, float(opt))
            return None
        # the float certificate is first-order sensitive to the rounding of the positions (a residual of
        # 1e10 * 1e-15 landing on a weight of 0.01); re-derive it exactly at the polished point
        exc = polished_excess(py, pos)
        if exc > OPT_TOL * max(1.0, c):
            return "optimality: no dual certificate: duality gap %g (exact re-derivation %g) for cost %g (some feasible assignment may beat it)" % (gap, exc, c)
    return None


def vm_eligible(case):
    """instances small enough for the vm_compute re-evaluation inside coqc
    (exact rational arithmetic on binary integers in Coq's VM is slow)"""
    py = case["py"]
    bits = sum(F(x).numerator.bit_length() + F(x).denominator.bit_length() for v in py["vs"] for x in v)
    return len(py["vs"]) <= 6 and len(py["cs"]) <= 12 and bits <= 40 * len(py["vs"])


def nontrivial(case, io):
    py = case["py"]
    return any(abs(p - v[0]) > 1e-12 for p, v in zip(io["pos"], py["vs"]))


# ---------------------------------------------------------- generators ---
W_DYADIC = [1, 1, 1, 2, 0.5, 0.25, 4, 8, 3]
SCALES = [0.5, 1, 2, 4]


def _weights(rng, n):
    mode = rng.randrange(5)
    if mode == 0:
        return [1] * n
    if mode == 1:
        return [rng.choice(W_DYADIC) for _ in range(n)]
    if mode == 2:
        return [10.0 ** rng.randrange(-2, 11) for _ in range(n)]
    if mode == 3:
        return [10.0 ** rng.uniform(-2, 10) for _ in range(n)]
    return [rng.choice([1, 1, 2, 0.5, 1e-2, 1e10, 10.0 ** rng.randrange(-2, 11)]) for _ in range(n)]


def _scales(rng, n):
    if rng.random() < 0.5:
        return [1] * n
    return [rng.choice(SCALES) for _ in range(n)]


def _desired(rng, n):
    mode = rng.randrange(5)
    if mode == 0:
        return [rng.randrange(0, 10) for _ in range(n)]                 # many ties
    if mode == 1:
        return [rng.randrange(-40, 40) for _ in range(n)]
    if mode == 2:
        return [rng.randrange(-400, 400) / 8 for _ in range(n)]
    if mode == 3:
        c = rng.randrange(-5, 5)
        return [c] * n                                                  # all tied
    return [round(rng.uniform(-100, 100), rng.randrange(0, 4)) for _ in range(n)]


def _gap(rng):
    return rng.choice([0, 1, 2, 3, 3, 3, 0.5, 0.25, rng.randrange(0, 40) / 4, rng.randrange(0, 12),
                       round(rng.uniform(0, 10), 2)])


def _size(rng, tier):
    r = rng.random()
    if r < 0.35:
        return rng.randrange(1, 7)
    if r < 0.75:
        return rng.randrange(5, 16)
    if r < 0.93:
        return rng.randrange(12, 31)
    return rng.randrange(28, 61)


def _vars(rng, n):
    return [list(t) for t in zip(_desired(rng, n), _weights(rng, n), _scales(rng, n))]


def gen_dag(rng, n):
    vs = _vars(rng, n)
    order = list(range(n))
    rng.shuffle(order)
    rank = {v: i for i, v in enumerate(order)}
    m = rng.randrange(0, 3 * n + 1) if n > 1 else 0
    cs = []
    for _ in range(m):
        a, b = rng.sample(range(n), 2)
        if rank[a] > rank[b]:
            a, b = b, a
        cs.append([a, b, _gap(rng)])
    return vs, cs


def gen_chain(rng, n):
    vs = _vars(rng, n)
    order = list(range(n))
    if rng.random() < 0.5:
        rng.shuffle(order)
    g = _gap(rng)
    cs = [[order[i], order[i + 1], g if rng.random() < 0.6 else _gap(rng)] for i in range(n - 1)]
    rng.shuffle(cs)
    return vs, cs


def gen_layer(rng, n):
    """what removeOverlap builds: sorted targets, gap = half widths + spacing, optional 1e10 walls"""
    ws = [rng.choice([10, 20, 50, 50.5, round(rng.uniform(5, 60), 1)]) for _ in range(n)]
    ts = sorted(rng.choice([rng.randrange(0, 200), round(rng.uniform(0, 400), 1)]) for _ in range(n))
    sp = rng.choice([0, 3, 3.5])
    vs = [[t, 1, 1] for t in ts]
    cs = [[i, i + 1, (ws[i] + ws[i + 1]) / 2 + sp] for i in range(n - 1)]
    if rng.random() < 0.5 and n + 2 <= 60:
        lo, hi = min(ts) - rng.randrange(0, 50), max(ts) + rng.randrange(0, 50)
        vs.append([lo, 1e10, 1])
        vs.append([hi, 1e10, 1])
        for i in range(n):
            cs.append([n, i, ws[i] / 2])
            cs.append([i, n + 1, ws[i] / 2])
    return vs, cs


def gen_tree(rng, n):
    vs = _vars(rng, n)
    cs = []
    for i in range(1, n):
        p = rng.randrange(0, i)
        if rng.random() < 0.5:
            cs.append([p, i, _gap(rng)])
        else:
            # keep it acyclic: orient by index only
            cs.append([p, i, _gap(rng)])
    rng.shuffle(cs)
    return vs, cs


def gen_dup(rng, n):
    vs, cs = gen_dag(rng, n)
    extra = []
    for c in cs:
        r = rng.random()
        if r < 0.3:
            extra.append(list(c))                                   # exact duplicate
        elif r < 0.45:
            extra.append([c[0], c[1], max(0, c[2] - rng.choice([0.5, 1, 2]))])   # weaker parallel
        elif r < 0.55:
            extra.append([c[0], c[1], c[2] + rng.choice([0.5, 1])])              # stronger parallel
    # transitively implied constraints
    by_left = {}
    for l, r, g in cs:
        by_left.setdefault(l, []).append((r, g))
    for l, r, g in cs[:]:
        for r2, g2 in by_left.get(r, [])[:2]:
            if rng.random() < 0.3:
                extra.append([l, r2, rng.choice([g + g2, max(0, g + g2 - 1), 0])])
    allc = cs + extra
    rng.shuffle(allc)
    return vs, allc


W_TRANS = [1, 1, 0.3, 2.5, 7, 100]


def gen_transitive(rng, n):
    """integer desired positions and gaps, weights from a small non-dyadic set, a random DAG, plus 1-4
    transitive constraints a->c whose gap is EXACTLY g(a->b) + g(b->c): redundant constraints that are
    tight up to rounding whenever the two-step path is active (their float slack is a rounding-sized
    number of either sign)"""
    vs = [[rng.randrange(0, 10), rng.choice(W_TRANS), 1] for _ in range(n)]
    m = rng.randrange(n, 2 * n + 2)
    cs = []
    for _ in range(m):
        a, b = sorted(rng.sample(range(n), 2))
        cs.append([a, b, rng.choice([1, 2, 3, 3, 4, 6])])
    by_left = {}
    for l, r, g in cs:
        by_left.setdefault(l, []).append((r, g))
    extra = []
    for _ in range(rng.randrange(1, 5)):
        cands = [(l, r, g) for l, r, g in cs if r in by_left]
        if not cands:
            break
        l, r, g = rng.choice(cands)
        r2, g2 = rng.choice(by_left[r])
        extra.append([l, r2, g + g2])
    allc = cs + extra
    rng.shuffle(allc)
    return vs, allc


def gen_cyclic(rng, n):
    vs = _vars(rng, n)
    cs = []
    m = rng.randrange(1, 3 * n + 2)
    for _ in range(m):
        r = rng.random()
        if r < 0.05:
            a = rng.randrange(n)
            cs.append([a, a, rng.choice([0, 0, 1, 3])])             # self-loop
        elif n > 1:
            a, b = rng.sample(range(n), 2)
            cs.append([a, b, rng.choice([0, 0, 1, 2, 3, 0.5])])
            if rng.random() < 0.15:
                cs.append([b, a, rng.choice([0, 0, 1, 3])])         # 2-cycle
    if n > 2 and rng.random() < 0.5:
        k = rng.randrange(3, min(n, 6) + 1)
        cyc = rng.sample(range(n), k)
        g = rng.choice([0, 1, 2])
        for i in range(k):
            cs.append([cyc[i], cyc[(i + 1) % k], g])
    rng.shuffle(cs)
    return vs, cs


def _is_dag(n, cs):
    out = {}
    indeg = [0] * n
    for l, r, g in cs:
        if l == r:
            return False
        out.setdefault(l, []).append(r)
        indeg[r] += 1
    todo = [i for i in range(n) if indeg[i] == 0]
    seen = 0
    while todo:
        u = todo.pop()
        seen += 1
        for v in out.get(u, []):
            indeg[v] -= 1
            if indeg[v] == 0:
                todo.append(v)
    return seen == n


def gen(rng, tier):
    for k, (vs, cs) in enumerate(TEST_INSTANCES):
        yield _case("test", vs, cs, True)
    # nearly feasible chains: every constraint short of its gap by 1e-5 .. 5e-3 (well above the
    # solver's -1e-10 threshold, far below anything rounding of layout positions would show)
    for _ in range(60 if tier == "quick" else 600):
        n = rng.randrange(3, 40)
        gap = rng.choice([1, 3, 2.5, 10])
        eps = 10 ** rng.uniform(-5, -2.3)
        vs = [[gap * i * (1 - eps), 1, 1] for i in range(n)]
        cs = [[i, i + 1, gap] for i in range(n - 1)]
        yield _case("near", vs, cs, True, frac=False)
    yield _case("A1", A1[0], A1[1], True)
    # A.1 with mixed weights / scales
    for _ in range(10):
        vs = [[d, rng.choice([0.01, 1, 100, 1e10]), rng.choice(SCALES)] for d in A1[0]]
        yield _case("A1w", vs, A1[1], True)
    total = 2600 if tier == "quick" else 30000
    mix = [("dag", gen_dag, 40), ("chain", gen_chain, 10), ("layer", gen_layer, 8), ("tree", gen_tree, 7),
           ("dup", gen_dup, 15), ("cyc", gen_cyclic, 20)]
    tot = sum(w for _, _, w in mix)
    for _ in range(400 if tier == "quick" else 6000):
        vs, cs = gen_transitive(rng, rng.randrange(5, 13))
        yield _case("trans", vs, cs, True)
    for kind, f, w in mix:
        for _ in range(total * w // tot):
            n = _size(rng, tier)
            if kind == "layer":
                n = max(2, min(n, 58))
            vs, cs = f(rng, n)
            dag = _is_dag(len(vs), cs)
            if kind != "cyc" and not dag:
                continue
            yield _case(kind, vs, cs, dag, frac=(len(vs) <= 40 or rng.random() < 0.3))


def search(rng, tier, mism_cases):
    for c in mism_cases:
        yield c
    for _ in range(1500 if tier == "quick" else 10000):
        n = rng.randrange(3, 25)
        f = rng.choice([gen_dag, gen_dup, gen_transitive, gen_transitive, gen_tree])
        if f is gen_transitive:
            n = rng.randrange(5, 13)
        vs, cs = f(rng, n)
        if _is_dag(len(vs), cs):
            yield _case("search", vs, cs, True, frac=False)


def shrink_candidates(case):
    py = case["py"]
    vs, cs = py["vs"], py["cs"]
    for k in range(len(cs)):
        yield _case(case.get("kind", "shrunk"), vs, cs[:k] + cs[k + 1:], py["dag"], py.get("frac", True))
    for i in range(len(vs)):
        if len(vs) <= 1:
            break
        nvs = vs[:i] + vs[i + 1:]
        ncs = [[l - (l > i), r - (r > i), g] for l, r, g in cs if l != i and r != i]
        yield _case(case.get("kind", "shrunk"), nvs, ncs, py["dag"], py.get("frac", True))


def extra_evidence(cases, impl_out, model_out):
    st = {"kkt_certified": 0, "kkt_uncertified": 0, "kkt_uncertified_but_exact_enumeration_optimal": 0,
          "impl_state_invariants_checked": 0, "impl_state_invariant_failures": 0,
          "state_compared_float_runs": 0, "state_compared_exact_runs": 0,
          "model_kkt_ok": 0, "model_kkt_checked": 0, "model_feasible_ok": 0, "model_partition_ok": 0, "model_cost_ok": 0,
          "merge_only_runs_covered_by_unconditional_theorems": 0, "exact_fraction_runs": 0, "exact_fraction_equal": 0, "instances_with_splits": 0, "instances_with_flags": 0,
          "max_satisfy_rounds": 0, "max_rel_position_error": 0.0, "runs_diverging_at_ties_ambiguous": 0, "max_model_duality_gap_rel": 0.0, "sizes": {}}
    for c, io, mo in zip(cases, impl_out, model_out):
        m = decode_model(mo[0]) if mo else {"err": 1}
        if "pos" not in m or not isinstance(io, dict) or "pos" not in io:
            continue
        py = c["py"]
        n = len(py["vs"])
        b = "1-5" if n <= 5 else "6-15" if n <= 15 else "16-30" if n <= 30 else "31-60"
        st["sizes"][b] = st["sizes"].get(b, 0) + 1
        st["model_feasible_ok"] += m["feas_ok"]
        st["model_partition_ok"] += m["part_ok"]
        st["model_cost_ok"] += m["cost_ok"]
        if "state" in io:
            st["impl_state_invariants_checked"] += 1
            st["impl_state_invariant_failures"] += state_invariants(py, io) is not None
            st["state_compared_float_runs"] += not _fragile(py, m)
        if "q" in io and "inactive" in io["q"]:
            st["state_compared_exact_runs"] += not _fragile_frac(py, m)
        if py["dag"]:
            st["kkt_certified"] += m["kkt_ok"]
            if not m["kkt_ok"]:
                st["kkt_uncertified"] += 1
                st["kkt_uncertified_but_exact_enumeration_optimal"] += (
                    exact_optimum(py) is not None and oracle(dict(c, _kkt=None), io) is None)
            st["model_kkt_checked"] += 1
            st["model_kkt_ok"] += m["kkt_ok"]
            st["max_model_duality_gap_rel"] = max(st["max_model_duality_gap_rel"],
                                                  float(m["gap"]) / max(1.0, float(m["cost"])))
        if "q" in io:
            st["exact_fraction_runs"] += 1
            q = io["q"]
            if [F(int(a), int(b2)) for a, b2 in q["pos"]] == m["pos"] and q["flags"] == m["flags"]:
                st["exact_fraction_equal"] += 1
        st["instances_with_splits"] += m["nstore"] > n
        st["merge_only_runs_covered_by_unconditional_theorems"] += m["nstore"] == n
        st["instances_with_flags"] += any(m["flags"])
        st["max_satisfy_rounds"] = max(st["max_satisfy_rounds"], m["nsat"])
        M = _magnitude(py)
        err = max([abs(float(a) - b2) / max(1.0, M) for a, b2 in zip(m["pos"], io["pos"])] + [0.0])
        if err <= 1e-6:
            st["max_rel_position_error"] = max(st["max_rel_position_error"], err)
        else:
            st["runs_diverging_at_ties_ambiguous"] += 1
    return {"c05": st}


LEVEL_TEXT = ("Machine-checked Coq theorems on a faithful Gallina model of labella/vpsc.py (current /repo incl. b524544, b960568). "
              "FULL, for all instances (positive weights/scales, any constraint multigraph, acyclic or cyclic) whenever solve returns: every "
              "constraint not flagged unsatisfiable holds within 1e-10 (C05_feasible_at_exit, C05_cyclic_unflagged_hold) and the reported "
              "cost is the cost of the reported positions (C05_cost_is_cost_of_positions), by invariants I1-I4 proved through merges, "
              "Blocks.split and split-between; weak duality and KKT sufficiency in full generality (kkt_sufficient, "
              "kkt_sufficient_toleranced). PARTIAL: optimality of the exit state (C05_optimal_partial: the executable certificate checker "
              "kkt_ok is proved sound and evaluated on every generated run - optimality is not an invariant of the algorithm, the previous "
              "solve loop is refuted by C05_refuted_old_early_exit) and termination (no bound known with splits; every theorem assumes "
              "solve returned). The model is tied to the code by differential execution on every run (doubles within 1e-9, exact "
              "Fractions with equality)."
              " Also proved: strong convexity (C05_strong_convexity, C05_optimum_unique: the optimum is unique and a run certified by kkt_ok is within an explicit distance of it, kkt_ok_close_to_any_optimum), on chain instances that optimum is the PAVA result of the layer model (C05_chain_matches_pava), traversal fuel is always enough (C05_traversal_fuel_enough) and satisfy terminates when no split-between occurs. The tie is state-level: the proved invariants I1, I2, I4 are checked on the implementation's final solver state for every case, kkt_ok gates.")
LEVEL_NOTE = ("Trusted: Coq kernel; extraction re-checked on a slice (small instances) by vm_compute; the correspondence harness and "
              "generators. Modelled, not verified: labella/vpsc.py; IEEE doubles are modelled by exact rationals (gap measured by the "
              "tie; float/exact branch divergence at exact ties is classified as ambiguous only when the implementation's own output "
              "still passes the property oracle). Constraint.equality (always False in labella) is not modelled.")
TECHNIQUE = ("Coq proof (state invariants by induction over the solver loops; DFS-tree invariant with re-rooting/graft/prune lemmas; "
             "convex-QP weak duality over lists with lra; reflective certificate checker proved sound) + model/implementation "
             "correspondence incl. exact rational runs of the implementation")
