"""C11: export succeeds on every documented input."""
import datetime
import re
from fractions import Fraction

ID = "C11"
MODNAME = "c11"
CASES_PER_SHARD = 40
CASE_TIMEOUT = 120
DIRS = ["up", "down", "left", "right"]
RULE = ("[tick texts: time domains whose default ticks fall in each of the seven branches of mytimeformat (years, months, "
        "Sundays, midnights, whole hours, minutes, seconds; evidence key tick_text_branches counts them)] "
        "dataset shapes of the property (single datum, equal times, unsorted, spans from 1 ms to centuries incl. month ends, "
        "leap days, year ends, the latest datum on a 29th-31st with month / quarter / year ticks; numeric data with a LinearScale; date / datetime / time values) x options in {omitted, empty, "
        "partial} x direction x layering algorithm x bounds x tick display; thorough adds 200..1000-label datasets with conflict "
        "clusters <= 200. Both back-ends are exported. Non-trivial = at least two data (single-datum cases are counted as trivial); distinct by input.")


# ------------------------------------------------------------------ impl ---
def impl(py):
    from harness import tl_common as T
    from xml.etree import ElementTree
    out = {"today": list(datetime.date.today().timetuple()[:3])}
    for kind in ("svg", "tex"):
        data = T.mk_data(py["data"])
        for d, spec in zip(data, py["data"]):
            d["_id"] = spec.get("_id")
        scale = T.mk_scale("linear") if py["scale"] == "linear" else None
        opts = T.mk_options(py["opts"], scale)
        if opts is not None and opts.get("domain"):
            opts["domain"] = [T.mk_time(x) for x in opts["domain"]]
        tl = T.mk_timeline(kind, data, opts)
        txt = T.export_text(tl)
        sc = tl.options["scale"]
        dom = sc.domain()
        if py["scale"] == "linear":
            out["domain"] = [float(dom[0]).hex(), float(dom[-1]).hex()]
        else:
            ep = datetime.datetime(1970, 1, 1)
            out["domain"] = [((d - ep) // datetime.timedelta(microseconds=1)) for d in (dom[0], dom[-1])]
        out["range"] = [float(x) for x in sc.range()]
        if kind == "svg":
            root = ElementTree.fromstring(txt)
            dots = []
            for c in root.iter("circle"):
                dots.append(float(c.get("cx") if c.get("cx") is not None else c.get("cy")))
            out["dots"] = [d.hex() for d in dots]
            out["nticks"] = sum(1 for g in root.iter("g") if g.get("class") == "tick")
            tk = []
            texts = []
            for g in root.iter("g"):
                if g.get("class") == "tick":
                    m = re.match(r"translate\(([^,]+),\s*([^)]+)\)", g.get("transform"))
                    tk.append([float(m.group(1)).hex(), float(m.group(2)).hex()])
                    tx = g.find("text")
                    texts.append(tx.text if tx is not None and tx.text is not None else "")
            out["ticks"] = tk
            out["tick_texts"] = texts
            out["dir"] = tl.direction
            out["nboxes"] = sum(1 for g in root.iter("g") if g.get("class") == "label-g")
            out["order"] = [n.data.data.get("_id") for n in tl.nodes]
        else:
            out["tex_dots"] = len(re.findall(r"\\draw node \[circle", txt))
            # tick texts of the TikZ document: "node[anchor=...] {text};" inside the axis layer
            ax = txt.split("% axis layer", 1)[1].split("% link layer", 1)[0] if "% axis layer" in txt else ""
            out["tex_tick_texts"] = re.findall(r"node\[anchor=(?:north|south|east|west)\] \{(.*?)\};", ax)
            out["tex_ok"] = txt.rstrip().endswith("\\end{document}")
    return out


# ------------------------------------------------------------- model call ---
DEF = {"direction": "right", "initialWidth": 400, "initialHeight": 400, "showTicks": True,
       "margin": {"left": 20, "right": 20, "top": 20, "bottom": 20}}
EPOCH = datetime.datetime(1970, 1, 1)


def _q(x):
    f = Fraction(x)
    return [f.numerator, f.denominator]


def _tval(t):
    if isinstance(t, (int, float)):
        return [0] + _q(float(t))
    kind, v = t.split(":", 1)
    if kind == "D":
        d = datetime.date.fromisoformat(v)
        return [1, d.year, d.month, d.day]
    if kind == "T":
        d = datetime.datetime.fromisoformat(v)
        return [2, (d - EPOCH) // datetime.timedelta(microseconds=1)]
    c = datetime.time.fromisoformat(v)
    return [3, c.hour, c.minute, c.second, c.microsecond]


def model_call(py, today=None):
    """command 700 of coq/Extract/ApiAxis.v"""
    today = today or list(datetime.date.today().timetuple()[:3])
    o = py["opts"] or {}
    g = lambda k: o.get(k, DEF[k])
    mg = dict(DEF["margin"])
    mg.update(o.get("margin") or {})
    call = [700, 0 if py["scale"] == "linear" else 1] + list(today)
    call += [DIRS.index(g("direction"))] + _q(g("initialWidth")) + _q(g("initialHeight"))
    call += _q(mg["left"]) + _q(mg["right"]) + _q(mg["top"]) + _q(mg["bottom"])
    call += [1 if g("showTicks") else 0]
    dom = o.get("domain")
    if dom:
        call += [1] + _tval(dom[0]) + _tval(dom[1])
    else:
        call += [0]
    call += [len(py["data"])]
    for d in py["data"]:
        call += _tval(d["time"])
    return call


def _extent_call(py):
    """linear scale without explicit domain: command 260 (nice with its band alternatives)"""
    if py["scale"] != "linear" or (py["opts"] or {}).get("domain"):
        return []
    xs = [float(d["time"]) for d in py["data"] if isinstance(d["time"], (int, float))]
    if len(xs) != len(py["data"]) or not xs:
        return []
    return [[260] + _q(min(xs)) + _q(max(xs)) + [10]]


def with_model(c, today=None):
    c["model"] = [model_call(c["py"], today)] + _extent_call(c["py"])
    return c


# ------------------------------------------------------------- generator ---
def _iso(t):
    return "T:" + t.isoformat()


def _dt_dataset(rng, n, shape):
    y = rng.randrange(1900, 2190)
    base = datetime.datetime(y, rng.randrange(1, 13), 1) + datetime.timedelta(days=rng.randrange(0, 28))
    if shape == "month_end":
        mo = rng.randrange(1, 13)
        base = datetime.datetime(y, mo, 28) + datetime.timedelta(days=rng.randrange(0, 4))
    elif shape == "leap":
        ly = rng.choice([1904, 1996, 2000, 2024, 2096, 2104])
        base = datetime.datetime(ly, 2, 27) + datetime.timedelta(days=rng.randrange(0, 3))
    elif shape == "year_end":
        base = datetime.datetime(y, 12, 30) + datetime.timedelta(hours=rng.randrange(0, 47))
    span_ms = rng.choice([1, 3, 7, 8, 9, 15, 120, 999, 1000, 5000, 61000, 3600000, 86400000, 40 * 86400000,
                          400 * 86400000, 4000 * 86400000, 30000 * 86400000, 73000 * 86400000, 100000 * 86400000])
    base = base + datetime.timedelta(milliseconds=rng.randrange(0, 1000) if span_ms < 100000 else 0)
    items = []
    for i in range(n):
        off = 0 if shape == "equal" else rng.randrange(0, span_ms + 1)
        t = base + datetime.timedelta(milliseconds=off)
        if t.year > 2200:
            t = t.replace(year=2200 - (t.year - 2200) % 50)
        r = rng.random()
        if shape == "dates" or (r < 0.15 and span_ms > 86400000):
            items.append({"time": "D:" + t.date().isoformat()})
        else:
            items.append({"time": _iso(t)})
    return items


def _ends_on_month_end(rng, n):
    """the LATEST datum lies on a 29th-31st (or 29 February) and the span asks for month,
    quarter or year ticks: nice() must take the ceiling of a month-end instant"""
    import calendar
    y = rng.randrange(1905, 2195)
    if rng.random() < 0.25:
        y = rng.choice([1904, 1996, 2000, 2024, 2096, 2104])
        end = datetime.datetime(y, 2, 29)
    else:
        mo = rng.choice([1, 1, 3, 5, 7, 8, 10, 12, 4, 6])
        end = datetime.datetime(y, mo, rng.randrange(29, calendar.monthrange(y, mo)[1] + 1))
    end += datetime.timedelta(milliseconds=rng.choice([0, 0, rng.randrange(0, 86400000)]))
    span_days = rng.choice([150, 200, 300, 400, 519, 600, 900, 1500, 1790, 2500, 5000, 12000])
    items = [{"time": _iso(end)}]
    for _ in range(n - 1):
        items.append({"time": _iso(end - datetime.timedelta(days=rng.randrange(0, span_days + 1),
                                                             milliseconds=rng.randrange(0, 1000)))})
    if n > 1:
        items[1] = {"time": _iso(end - datetime.timedelta(days=span_days))}
    return items


def _num_dataset(rng, n, shape):
    mag = rng.choice([1e-3, 1, 1, 100, 1e4, 1e7])
    base = rng.choice([0, 0, -1, 5, 1000]) * mag
    items = []
    for i in range(n):
        v = base if shape == "equal" else base + rng.randrange(0, 4096) / 4096.0 * mag
        items.append({"time": v})
    return items


def _clock_dataset(rng, n):
    return [{"time": "C:%02d:%02d:%02d" % (rng.randrange(24), rng.randrange(60), rng.randrange(60))} for _ in range(n)]


def _opts(rng):
    r = rng.random()
    if r < 0.2:
        return None
    if r < 0.35:
        return {}
    o = {}
    if rng.random() < 0.8:
        o["direction"] = rng.choice(DIRS)
    if rng.random() < 0.6:
        lab = {}
        if rng.random() < 0.6:
            lab["algorithm"] = rng.choice(["overlap", "simple", "none"])
        if rng.random() < 0.5:
            lab["maxPos"] = rng.choice([None, 100, 340, 760, 2000])
        if rng.random() < 0.3:
            lab["minPos"] = rng.choice([None, 0, -50, 20])
        if rng.random() < 0.3:
            lab["nodeSpacing"] = rng.choice([0, 1, 3, 8])
        if rng.random() < 0.2:
            lab["density"] = rng.choice([0.3, 0.75, 1])
        o["labella"] = lab
    if rng.random() < 0.4:
        o["showTicks"] = rng.random() < 0.5
    if rng.random() < 0.3:
        o["initialWidth"] = rng.choice([200, 400, 804, 1200])
        o["initialHeight"] = rng.choice([120, 400, 900])
    if rng.random() < 0.2:
        o["layerGap"] = rng.choice([1, 20, 60])
    if rng.random() < 0.15:
        o["showBorder"] = True
    if rng.random() < 0.15:
        o["latex"] = rng.choice([{"reproducible": True}, {"fontsize": "9pt"}, {"tickCross": True, "linkThickness": "thin"}, {}])
    # the other documented top-level keys, each complete where it is a dict ("partial" = keys omitted)
    if rng.random() < 0.2:
        o["dotRadius"] = rng.choice([1, 3, 4.5])
    if rng.random() < 0.2:
        o["labelPadding"] = {"left": rng.choice([0, 2, 5]), "right": rng.choice([0, 2, 5]), "top": rng.choice([0, 3]), "bottom": rng.choice([0, 2])}
    if rng.random() < 0.2:
        o["margin"] = {"left": rng.choice([0, 20, 35]), "right": rng.choice([0, 20]), "top": rng.choice([0, 20, 35]), "bottom": rng.choice([0, 20])}
    if rng.random() < 0.25:
        role = rng.choice(["dotColor", "labelBgColor", "labelTextColor", "linkColor", "borderColor"])
        o[role] = rng.choice(["#0af", "#00aaff", "0AF", ["#111", "#22cc88", "#f00"], ["#abc"]])
    if rng.random() < 0.1:
        o["textXOffset"] = "0.2em"
        o["textYOffset"] = "0.9em"
    return o


def make(rng, n=None, shape=None, kind=None):
    kind = kind or rng.choice(["time", "time", "time", "linear", "clock"])
    shape = shape or rng.choice(["plain", "plain", "equal", "month_end", "leap", "year_end", "dates", "single"])
    n = n or (1 if shape == "single" else rng.choice([1, 2, 2, 3, 5, 8, 13, 30]))
    if shape == "max_month_end":
        kind = "time"
        n = max(n, 2)
        data = _ends_on_month_end(rng, n)
    elif kind == "linear":
        data = _num_dataset(rng, n, shape)
    elif kind == "clock":
        data = _clock_dataset(rng, n)
    else:
        data = _dt_dataset(rng, n, shape)
    rng.shuffle(data)
    for i, d in enumerate(data):
        d["width"] = rng.choice([10, 25, 50, 50, 80.5, 120])
        d["_id"] = i
        if rng.random() < 0.5:
            d["text"] = rng.choice(["a", "label %d" % i, "x<y&z", "été", "Á", "…", "日本"])
    py = {"data": data, "opts": _opts(rng), "scale": "linear" if kind == "linear" else "time"}
    if kind != "clock" and rng.random() < 0.12:
        py["opts"] = dict(py["opts"] or {})
        py["opts"]["domain"] = _explicit_domain(rng, data, kind)
    return with_model({"kind": "%s/%s" % (kind, shape), "py": py})


BRANCH_SPANS = [  # seconds: spans whose default ticks fall in each branch of mytimeformat
    (6 * 365 * 86400, 40 * 365 * 86400),     # yearly ticks            -> "%Y"
    (160 * 86400, 1500 * 86400),             # monthly / quarterly     -> "%B" (and "%Y")
    (60 * 86400, 140 * 86400),               # weekly (Sundays)        -> "%b %d"
    (4 * 86400, 28 * 86400),                 # daily / two-daily       -> "%a %d" (and Sundays, firsts)
    (5 * 3600, 3 * 86400),                   # hourly .. 12-hourly     -> "%I %p"
    (5 * 60, 3 * 3600),                      # minutes                 -> "%H:%M"
    (4, 4 * 60),                             # seconds                 -> ":%S"
]


def make_branch(rng, b):
    """a time domain whose ticks exercise branch b of mytimeformat (and the coarser ones on the way)"""
    lo, hi = BRANCH_SPANS[b]
    span = rng.randrange(lo, hi + 1)
    y = rng.randrange(1900, 2150)
    base = datetime.datetime(y, rng.randrange(1, 13), rng.randrange(1, 29), rng.randrange(24), rng.randrange(60),
                             rng.randrange(60), rng.randrange(1000) * 1000)
    if rng.random() < 0.4:   # start just before a year / month / day / hour boundary so that coarser texts appear too
        base = rng.choice([datetime.datetime(y, 12, 31, 23, 59, 30), datetime.datetime(y, rng.randrange(1, 13), 28, 22),
                           datetime.datetime(y, rng.randrange(1, 13), rng.randrange(1, 29), 23, 58),
                           datetime.datetime(y, rng.randrange(1, 13), rng.randrange(1, 29), 11, 30)])
    n = rng.choice([2, 3, 6])
    ts = [base, base + datetime.timedelta(seconds=span)] + \
         [base + datetime.timedelta(seconds=rng.randrange(0, span + 1)) for _ in range(n - 2)]
    data = [{"time": _iso(t), "width": rng.choice([10, 25, 50]), "_id": i} for i, t in enumerate(ts)]
    rng.shuffle(data)
    for i, d in enumerate(data):
        d["_id"] = i
    o = {"direction": rng.choice(DIRS), "showTicks": True}
    return with_model({"kind": "tickbranch/%d" % b, "py": {"data": data, "opts": o, "scale": "time"}})


def make_big(rng, gsize=None, groups=None):
    """up to 1000 labels in well separated groups: a conflict cluster (the items
    one solver block can absorb) cannot span two groups, so it has at most
    `gsize` items -- labels and their stubs alike."""
    gsize = gsize or rng.choice([60, 125, 150, 180, 200, 200])   # the claim goes up to 200
    groups = groups or rng.choice([2, 4, 8 if gsize <= 125 else (6 if gsize <= 150 else 3)])
    base = datetime.datetime(rng.randrange(1950, 2100), 1, 1)
    items = []
    for g in range(groups):
        for i in range(gsize):
            t = base + datetime.timedelta(days=g * 1000 + rng.randrange(0, 30))
            items.append({"time": _iso(t), "width": rng.choice([8, 10, 12]), "_id": len(items)})
    rng.shuffle(items)
    length = groups * 5000
    lab = rng.choice([{}, {"maxPos": length - 100, "algorithm": "overlap"}, {"maxPos": length - 100, "algorithm": "simple"},
                      {"algorithm": "none"}])
    d = rng.choice(DIRS)
    py = {"data": items, "scale": "time", "gsize": gsize,
          "opts": {"direction": d, "initialWidth": length + 40 if d in ("up", "down") else 400,
                   "initialHeight": length + 40 if d in ("left", "right") else 400, "labella": lab}}
    return with_model({"kind": "big/%dx%d" % (groups, gsize), "py": py})


def _explicit_domain(rng, data, kind):
    """an explicit `domain` option: around, inside or reversed w.r.t. the data"""
    if kind == "linear":
        xs = [float(d["time"]) for d in data]
        lo, hi = min(xs), max(xs)
        w = (hi - lo) or 1.0
        a, b = lo - rng.choice([0, 0.25, 1]) * w, hi + rng.choice([0, 0.5, 2]) * w
        if rng.random() < 0.3:
            a, b = lo + 0.25 * w, hi - 0.25 * w + (w if hi - lo == 0 else 0)
        if rng.random() < 0.2:
            a, b = b, a
        return [a, b]
    ts = []
    for d in data:
        k, v = d["time"].split(":", 1)
        ts.append(datetime.datetime.fromisoformat(v) if k == "T" else
                  datetime.datetime.combine(datetime.date.fromisoformat(v), datetime.time()))
    lo, hi = min(ts), max(ts)
    w = (hi - lo) or datetime.timedelta(seconds=rng.choice([1, 3600, 86400 * 40]))
    a = lo - rng.choice([0, 1, 3]) * w / 4
    b = hi + rng.choice([0, 1, 8]) * w / 4
    a = a.replace(microsecond=a.microsecond // 1000 * 1000)
    b = b.replace(microsecond=b.microsecond // 1000 * 1000)
    if a == b:
        b = a + datetime.timedelta(milliseconds=1)
    if not (1900 <= a.year and b.year <= 2200):
        a, b = lo, hi + datetime.timedelta(milliseconds=1)
    if rng.random() < 0.2:
        a, b = b, a
    return [_iso(a), _iso(b)]


def rebuild(c):
    c = dict(c)
    c.setdefault("kind", "corpus")
    return with_model(c)


def gen(rng, tier):
    n = 400 if tier == "quick" else 5000
    for _ in range(n):
        yield make(rng)
    for shape in ["single", "equal", "month_end", "leap", "year_end"]:
        for kind in ["time", "linear"]:
            for _ in range(6 if tier == "quick" else 60):
                yield make(rng, shape=shape, kind=kind)
    for _ in range(60 if tier == "quick" else 600):
        yield make(rng, shape="max_month_end", kind="time")
    for k in range(84 if tier == "quick" else 700):
        yield make_branch(rng, k % 7)
    yield make_big(rng, gsize=200, groups=2)        # the claim's limit is exercised on every run
    for _ in range(1 if tier == "quick" else 11):
        yield make_big(rng)


# ---------------------------------------------------------------- oracle ---
def oracle(case, io):
    if "exc" in io:
        if io["exc"] == "RecursionError" and _max_cluster_hint(case) > 200:
            return "RecursionError with a conflict cluster above 200 items"
        return "export raised %s: %s" % (io["exc"], io.get("msg", ""))
    n = len(case["py"]["data"])
    if io["nboxes"] != n or len(io["dots"]) != n or io["tex_dots"] != n:
        return "export does not contain one dot/box per datum (%d data, %d boxes, %d dots, %d tex dots)" % (
            n, io["nboxes"], len(io["dots"]), io["tex_dots"])
    if not io["tex_ok"]:
        return "TikZ text incomplete"
    times = [d["time"] for d in case["py"]["data"]]
    if len(set(map(str, times))) == 1 and not (case["py"]["opts"] or {}).get("domain"):
        dots = [float.fromhex(x) for x in io["dots"]]
        if any(d != 0.0 for d in dots):
            return "degenerate domain but dots are not at the start of the axis: %r" % dots[:3]
    return None


def _max_cluster_hint(case):
    """upper bound on the size of a conflict cluster: the generator's group size
    for grouped datasets, the whole dataset otherwise"""
    return case["py"].get("gsize", len(case["py"]["data"]))


def matches_finding(f, case, failure):
    return f.get("signature") == "RecursionError/cluster>200" and failure.startswith("RecursionError with a conflict cluster above 200")


def nontrivial(case, io):
    """more than one datum, or a degenerate domain (single datum / equal times)"""
    if isinstance(io, dict) and "exc" in io:
        return False
    d = case["py"]["data"]
    return len(d) >= 2


EPS = 1e-9


def _decode(m):
    """output of command 700"""
    def pval(k):
        if m[k] == 0:
            return Fraction(m[k + 1], m[k + 2]), k + 3
        return m[k + 1], k + 2

    def qlist(k):
        n = m[k]
        return [Fraction(m[k + 1 + 2 * j], m[k + 2 + 2 * j]) for j in range(n)], k + 1 + 2 * n
    d0, k = pval(1)
    d1, k = pval(k)
    length = Fraction(m[k], m[k + 1])
    dots, k = qlist(k + 2)
    ticks, k = qlist(k)
    texts = []
    n = m[k]
    k += 1
    for _ in range(n):
        ln = m[k]
        texts.append("".join(chr(c) for c in m[k + 1:k + 1 + ln]))
        k += 1 + ln
    return d0, d1, length, dots, ticks, texts


def _close(x, want, length, cond=0.0):
    """1e-9 relative + 1e-9 x axis length; `cond` adds the conditioning of a linear domain
    whose magnitude dwarfs its span (the tick values k*step and the data carry up to a few
    ulps of the domain magnitude, which (x - d0) / (d1 - d0) amplifies)"""
    want = float(want)
    return abs(x - want) <= EPS * max(abs(x), abs(want)) + (EPS + cond) * abs(float(length)) + 1e-12


def _cond(linear, d0, d1):
    if not linear or d0 == d1:
        return 0.0
    return 16 * 2.0 ** -52 * float(max(abs(d0), abs(d1)) / abs(d1 - d0))


def prepare_compare(cases, impl_out, model_out, workdir):
    """second round of model calls that need first-round results:
    (a) bare datetime.time data are completed with date.today() by the implementation:
        if the implementation's day differs from the one the call was built with
        (a run across midnight), the call is rebuilt with the implementation's day;
    (b) linear scale: the band alternatives of the ticks (command 232) on the model's domain."""
    import os
    from harness import core
    extra = []
    for i, (c, io, mo) in enumerate(zip(cases, impl_out, model_out)):
        if not isinstance(io, dict) or "exc" in io or not c["model"]:
            continue
        if any(isinstance(d["time"], str) and d["time"].startswith("C:") for d in c["py"]["data"]):
            if list(io.get("today", [])) != c["model"][0][2:5]:
                extra.append((i, "today", [model_call(c["py"], list(io["today"]))]))
                continue
        if c["py"]["scale"] == "linear" and mo and mo[0] and mo[0][0] == 1:
            d0, d1 = _decode(mo[0])[:2]
            extra.append((i, "alts", [[232] + [d0.numerator, d0.denominator, d1.numerator, d1.denominator, 10]]))
    if not extra:
        return
    res = core.run_model([{"model": calls} for _, _, calls in extra], os.path.join(workdir, "round2"))
    for (i, what, calls), r in zip(extra, res):
        if what == "today":
            cases[i]["model"][0] = calls[0]
            model_out[i][0] = r[0]
        else:
            cases[i]["model"] = cases[i]["model"] + calls
            model_out[i] = model_out[i] + r


def _tick_alts(m):
    """decode command 232: list of tick lists"""
    out, k = [], 2
    for _ in range(m[1]):
        k += 2          # step
        k += 1          # decimals
        n = m[k]
        tk = [Fraction(m[k + 1 + 2 * j], m[k + 2 + 2 * j]) for j in range(n)]
        k += 1 + 2 * n
        n2 = m[k]
        k += 1 + n2     # texts
        out.append(tk)
    return out


def compare(case, io, mo):
    from harness import core
    from harness.props import c16
    py = case["py"]
    m = mo[0] if mo else None
    if m is None or m[0] == -999:
        return "model rejected the input"
    if "exc" in io:
        if io["exc"] == "RecursionError" and _max_cluster_hint(case) > 200:
            return None          # recursion depth is not in the model (known finding; the oracle reports it)
        if m[0] == 1:
            return "implementation raised %s (%s), the model returns a value" % (io["exc"], io.get("msg", ""))
        return None if m[0] == 0 else "model out of fuel"
    if m[0] != 1:
        return "the model %s, the implementation returns a value" % (
            "raises (kind %d)" % m[1] if m[0] == 0 else "runs out of fuel")
    d0, d1, length, dots, ticks, texts = _decode(m)
    linear = py["scale"] == "linear"
    explicit = bool((py["opts"] or {}).get("domain"))
    ambiguous = False
    # range
    if [float(x) for x in io["range"]] != [0.0, float(length)]:
        return "range %r, the model has [0, %s]" % (io["range"], float(length))
    # domain
    if linear:
        got = [Fraction(float.fromhex(x)) for x in io["domain"]]
        tol = lambda w: EPS * max(abs(d0), abs(d1), abs(d1 - d0))
        if not (abs(got[0] - d0) <= tol(0) and abs(got[1] - d1) <= tol(0)):
            alts = c14lin_decode(mo[1])[5] if (len(mo) > 1 and mo[1] and mo[1][0] == 1 and not explicit) else []
            for a0, a1 in alts:
                if abs(got[0] - a0) <= EPS * max(abs(a0), abs(a1), 1e-300) and abs(got[1] - a1) <= EPS * max(abs(a0), abs(a1), 1e-300):
                    raise core.Ambiguous()
            return "domain %r, the model has [%s, %s]" % ([float(g) for g in got], float(d0), float(d1))
    else:
        if list(io["domain"]) != [d0, d1]:
            lo, hi = _time_extent(py, io)
            if not explicit and c16.ambiguous({"dom": [lo, hi], "m": 10}):
                raise core.Ambiguous()
            return "domain %r, the model has %r" % (io["domain"], [d0, d1])
    # dots, in datum order
    cond = _cond(linear, d0, d1)
    got = [float.fromhex(x) for x in io["dots"]]
    if io.get("order") and None not in io["order"] and sorted(io["order"]) == list(range(len(got))):
        by_id = dict(zip(io["order"], got))
        got = [by_id[d["_id"]] for d in py["data"]] if all("_id" in d for d in py["data"]) else got
    if len(got) != len(dots):
        return "%d dots, the model has %d" % (len(got), len(dots))
    for j, (x, w) in enumerate(zip(got, dots)):
        if not _close(x, w, length, cond):
            return "dot %d at %r, the model has %r" % (j, x, float(w))
    # ticks
    horiz = io["dir"] in ("up", "down")
    tk = [float.fromhex(t[0] if horiz else t[1]) for t in io["ticks"]]
    ok = len(tk) == len(ticks) and all(_close(x, w, length, cond) for x, w in zip(tk, ticks))
    if not ok:
        if linear:
            for alt in (_tick_alts(mo[-1]) if (len(mo) > 1 and mo[-1] and mo[-1][0] == 1 and case["model"][-1][0] == 232) else []):
                pos = [_lin(d0, d1, length, t) for t in alt]
                if len(pos) == len(tk) and all(_close(x, w, length, cond) for x, w in zip(tk, pos)):
                    raise core.Ambiguous()
        elif c16.ambiguous({"dom": [d0, d1], "m": 10}):
            raise core.Ambiguous()
        return "tick positions %r, the model has %r" % (tk[:6], [float(t) for t in ticks[:6]])
    # tick texts, exactly
    got_tx = list(io.get("tick_texts", []))
    if got_tx != texts:
        j = next((j for j, (x, w) in enumerate(zip(got_tx, texts)) if x != w), min(len(got_tx), len(texts)))
        x = got_tx[j] if j < len(got_tx) else None
        w = texts[j] if j < len(texts) else None
        # the only band: a tiny negative non-zero double where the exact tick is 0 prints "-0[.0..]"
        if linear and x is not None and w is not None and x == "-" + w and float(w) == 0.0 and \
                got_tx[:j] + got_tx[j + 1:] == texts[:j] + texts[j + 1:]:
            raise core.Ambiguous()
        return "tick %d has text %r, the model has %r" % (j, x, w)
    # ... and the TikZ document carries the same texts in the same order
    if "tex_tick_texts" in io and list(io["tex_tick_texts"]) != got_tx:
        return "TikZ tick texts %r differ from the SVG tick texts %r" % (io["tex_tick_texts"][:6], got_tx[:6])
    return None


def _lin(d0, d1, length, x):
    return Fraction(0) if d1 == d0 else length * (x - d0) / (d1 - d0)


def c14lin_decode(m):
    from harness.props import c14lin
    return c14lin.decode(m)


def _time_extent(py, io):
    """the extent of the parsed times in epoch microseconds (today from the implementation)"""
    us = []
    for d in py["data"]:
        t = d["time"]
        k, v = t.split(":", 1)
        if k == "T":
            x = datetime.datetime.fromisoformat(v)
        elif k == "D":
            x = datetime.datetime.combine(datetime.date.fromisoformat(v), datetime.time())
        else:
            x = datetime.datetime.combine(datetime.date(*io["today"]), datetime.time.fromisoformat(v))
        us.append((x - EPOCH) // datetime.timedelta(microseconds=1))
    return min(us), max(us)


def search(rng, tier, mism):
    for c in mism:
        yield c
    for c in gen(rng, "quick"):
        yield c


def shrink_candidates(case):
    py = case["py"]
    d = py["data"]
    if len(d) > 1:
        for i in range(len(d)):
            q = dict(py)
            q["data"] = d[:i] + d[i + 1:]
            yield with_model({"kind": case["kind"], "py": q})
    if py["opts"]:
        for k in list(py["opts"].keys()):
            q = dict(py)
            q["opts"] = {a: b for a, b in py["opts"].items() if a != k}
            yield with_model({"kind": case["kind"], "py": q})


EXPLANATION = ("C11_total (never raises, never out of fuel on the documented domain), C11_degenerate and C11_counts are about the "
               "axis pipeline model coq/Render/Axis.v (parse_items, max() of equal_heights, init_axis with explicit domain or "
               "extent + nice(), range, timePos, ticks) over the verified scale models; the tie compares, per export, "
               "success-vs-exception, the reported domain (time: exact microseconds; linear: 1e-9 relative, with the nice() band "
               "alternatives of Scale/Band.v counted as ambiguous), the range, every dot position and every tick position "
               "(1e-9 relative + 1e-9 x axis length) and every tick TEXT (exactly; parsed from the SVG) with the model, and runs BOTH back-ends through the real layout engine and "
               "emitters, whose failures (any exception) the oracle reports. Option dictionaries: the merged self.options and every value "
               "read from it (API 720/721) are compared with Timeline.__init__ / Force(options['labella']) on random partial and "
               "malformed user dicts, including the exception class where the model raises.")
LEVEL_TEXT = ("Machine-checked Coq theorems on Gallina models of (a) the axis pipeline of labella/timeline.py in an error monad (explicit "
              "failures for empty data, mixed/wrong time types and out-of-range dates), (b) the option dictionaries (Render/Options.v: "
              "Timeline.__init__'s merge with the defaults and every subscript performed on the merged dict, KeyError/TypeError explicit) "
              "and (c) the recursion of the solver's traversals. (a) For every non-empty dataset of numbers with a "
              "LinearScale, or of date/datetime/time values of millisecond resolution in years 1900-2200 with the TimeScale, with "
              "or without an explicit domain, any direction, sizes, margins and tick display, the pipeline returns a value - it "
              "never raises and never runs out of fuel (C11_total; time-nice totality proved for that year range and every count); "
              "a degenerate domain puts every dot at coordinate 0 for both scale kinds (C11_degenerate); one dot per datum in "
              "datum order at the scale position of its time (C11_counts). (b) For options None, {} or ANY subset of the documented keys "
              "whose given values have the documented kinds (extra keys allowed, latex and labella partial), the merge succeeds, no "
              "documented key is missing afterwards and every subscript succeeds (C11_options_none, C11_options_merge, "
              "C11_options_all_keys, C11_options_total, C11_options_omitted_total; C11_options_scale_identity: the timeline points to the caller's scale object or to the TimeScale its own constructor call created, never to another one), and composed with the whole-pipeline "
              "model both documents are produced from the raw arguments on the pipeline's documented domain (C11_export_total). (c) In every state the "
              "solver reaches, each recursive traversal started at a variable recurses at most as deep as the number of variables "
              "of that variable's BLOCK, and a layer of k items gives at most k + 2 variables (C11_depth_le_block, "
              "C11_depth_compute_lm, C11_depth_find_path, C11_depth_directed_path, C11_depth_populate, C11_depth_le_vars, "
              "C11_layer_vars). The models are tied to the code by differential execution of both exports on every run.")
LEVEL_NOTE = ("NOT in the Coq model, covered by the tie only: the interpreter's frame accounting (CPython spends four frames per "
              "level of the solver's recursion against the default limit of 1000; conflict clusters above 200 items raise "
              "RecursionError: the open known finding the property itself records, corpus/C11/recursion_260.json - the depth bound "
              "per block IS proved), the emitters' string "
              "formatting (tick texts ARE modelled: Time/TickFormat.v, compared exactly; a \"-0.0\" printed for a tiny negative double "
              "where the exact tick is 0 is counted as ambiguous). The option-dictionary model takes dict keys as numbers (the harness "
              "maps the documented key strings injectively) and values from a small universe (None, bool, number, string, list of "
              "strings, callable, one level of nested dict, scale object). Trusted: Coq kernel; extraction re-checked on a slice by vm_compute; the correspondence "
              "harness. Modelled, not verified: labella/*.py; doubles as exact rationals (ambiguity bands of nice()/ticks() "
              "counted, not compared). Bare datetime.time data are completed with the implementation's own date.today(), which "
              "is passed to the model.")
TECHNIQUE = ("Coq proof (error-monad pipeline over the verified linear/time scale models; time-nice totality by loop variants and "
             "a reach bound) + model/implementation correspondence on both back-ends + exception oracle")
ASSUMPTIONS = ["conflict clusters of at most 200 items (larger ones: open known finding, recursion limit)",
               "instants of millisecond resolution in years 1900-2200 (DESIGN.md Appendix B)"]


def _text_branch(t):
    if re.fullmatch(r"\d{4}", t):
        return "%Y"
    if re.fullmatch(r"[A-Z][a-z]+", t):
        return "%B"
    if re.fullmatch(r"(Jan|Feb|Mar|Apr|May|Jun|Jul|Aug|Sep|Oct|Nov|Dec) \d\d", t):
        return "%b %d"
    if re.fullmatch(r"(Mon|Tue|Wed|Thu|Fri|Sat|Sun) \d\d", t):
        return "%a %d"
    if re.fullmatch(r"\d\d (AM|PM)", t):
        return "%I %p"
    if re.fullmatch(r"\d\d:\d\d", t):
        return "%H:%M"
    if re.fullmatch(r":\d\d", t):
        return ":%S"
    return "linear/other"


def extra_evidence(cases, impl_out, model_out):
    cnt = {}
    n = 0
    for c, io in zip(cases, impl_out):
        if isinstance(io, dict) and "tick_texts" in io:
            for t in io["tick_texts"]:
                n += 1
                if c["py"]["scale"] != "linear":
                    b = _text_branch(t)
                    cnt[b] = cnt.get(b, 0) + 1
                else:
                    cnt["linear"] = cnt.get("linear", 0) + 1
    return {"tick_texts_compared": n, "tick_text_branches": cnt}


# ---------------------------------------------------------------------------
# second family of this check: the option dictionaries (harness/props/c11opts.py,
# coq/Render/Options.v).  Cases carry py["fam"] == "options"; every callback dispatches.
# ---------------------------------------------------------------------------
from harness.props import c11opts as _O  # noqa: E402
from harness.props import c11depth as _D  # noqa: E402

RULE = RULE + " || " + _O.RULE + " || " + _D.RULE
_FAMS = {"options": _O, "depth": _D}


def _fam(x):
    py = x.get("py", x) if isinstance(x, dict) else {}
    return _FAMS.get(py.get("fam")) if isinstance(py, dict) else None


def _opt(x):
    return _fam(x) is not None


def _dispatch(name, own):
    def f(case, *a):
        m = _fam(case)
        return getattr(m, name)(case, *a) if m is not None else own(case, *a)
    f.__name__ = name
    return f


impl = _dispatch("impl", impl)
rebuild = _dispatch("rebuild", rebuild)
oracle = _dispatch("oracle", oracle)
nontrivial = _dispatch("nontrivial", nontrivial)
compare = _dispatch("compare", compare)
shrink_candidates = _dispatch("shrink_candidates", shrink_candidates)
_matches_finding0 = matches_finding
_gen0, _prepare0, _extra0, _search0 = gen, prepare_compare, extra_evidence, search


def matches_finding(f, case, failure):
    return False if _opt(case) else _matches_finding0(f, case, failure)


def gen(rng, tier):
    for c in _gen0(rng, tier):
        yield c
    for c in _O.gen(rng, tier):
        yield c
    for c in _D.gen(rng, tier):
        yield c


def _split(cases, *lists):
    idx = [i for i, c in enumerate(cases) if not _opt(c)]
    return idx


def prepare_compare(cases, impl_out, model_out, workdir):
    idx = [i for i, c in enumerate(cases) if not _opt(c)]
    sub_c = [cases[i] for i in idx]
    sub_i = [impl_out[i] for i in idx]
    sub_m = [model_out[i] for i in idx]
    _prepare0(sub_c, sub_i, sub_m, workdir)
    for j, i in enumerate(idx):
        cases[i], model_out[i] = sub_c[j], sub_m[j]


def extra_evidence(cases, impl_out, model_out):
    idx = [i for i, c in enumerate(cases) if not _opt(c)]
    ev = _extra0([cases[i] for i in idx], [impl_out[i] for i in idx], [model_out[i] for i in idx])
    ev["option_dict_cases"] = sum(1 for c in cases if _fam(c) is _O)
    dd = [io for c, io in zip(cases, impl_out) if _fam(c) is _D and isinstance(io, dict) and "depth" in io]
    ev["depth_cases"] = len(dd)
    ev["depth_max_nesting"] = max([io["depth"] for io in dd] or [0])
    ev["depth_max_excess_over_block_size"] = max([io["excess"] for io in dd if io.get("excess") is not None] or [None], key=lambda x: -10 ** 9 if x is None else x)
    fpl = [io["frames_per_level"] for io in dd if io.get("frames_per_level")]
    ev["interpreter_frames_per_level"] = [min(fpl), max(fpl)] if fpl else None
    kinds = {}
    for c in cases:
        if _opt(c):
            kinds[c.get("kind", "?")] = kinds.get(c.get("kind", "?"), 0) + 1
    ev["option_dict_kinds"] = kinds
    return ev


def search(rng, tier, mism):
    for c in _search0(rng, tier, [c for c in mism if not _opt(c)]):
        yield c
    for c in mism:
        if _opt(c):
            yield c
