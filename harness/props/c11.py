"""C11: export succeeds on every documented input."""
import datetime
import re
from fractions import Fraction

ID = "C11"
MODNAME = "c11"
CASES_PER_SHARD = 40
CASE_TIMEOUT = 120
DIRS = ["up", "down", "left", "right"]
RULE = ("dataset shapes of the property (single datum, equal times, unsorted, spans from 1 ms to centuries incl. month ends, "
        "leap days, year ends; numeric data with a LinearScale; date / datetime / time values) x options in {omitted, empty, "
        "partial} x direction x layering algorithm x bounds x tick display; thorough adds 200..1000-label datasets with conflict "
        "clusters <= 200. Both back-ends are exported. Non-trivial = more than one datum or a degenerate domain; distinct by input.")


# ------------------------------------------------------------------ impl ---
def impl(py):
    from harness import tl_common as T
    from xml.etree import ElementTree
    out = {}
    for kind in ("svg", "tex"):
        data = T.mk_data(py["data"])
        scale = T.mk_scale("linear") if py["scale"] == "linear" else None
        opts = T.mk_options(py["opts"], scale)
        tl = T.mk_timeline(kind, data, opts)
        txt = T.export_text(tl)
        sc = tl.options["scale"]
        dom = sc.domain()
        if py["scale"] == "linear":
            out["domain"] = [float(dom[0]).hex(), float(dom[-1]).hex()]
        else:
            ep = datetime.datetime(1970, 1, 1)
            out["domain"] = [((d - ep) // datetime.timedelta(microseconds=1)) for d in (dom[0], dom[-1])]
        out["range"] = [float(x) for x in sc.range()]
        if kind == "svg":
            root = ElementTree.fromstring(txt)
            dots = []
            for c in root.iter("circle"):
                dots.append(float(c.get("cx") if c.get("cx") is not None else c.get("cy")))
            out["dots"] = [d.hex() for d in dots]
            out["nticks"] = sum(1 for g in root.iter("g") if g.get("class") == "tick")
            out["nboxes"] = sum(1 for g in root.iter("g") if g.get("class") == "label-g")
            out["order"] = [n.data.data.get("_id") for n in tl.nodes]
        else:
            out["tex_dots"] = len(re.findall(r"\\draw node \[circle", txt))
            out["tex_ok"] = txt.rstrip().endswith("\\end{document}")
    return out


# ------------------------------------------------------------- generator ---
def _iso(t):
    return "T:" + t.isoformat()


def _dt_dataset(rng, n, shape):
    y = rng.randrange(1900, 2190)
    base = datetime.datetime(y, rng.randrange(1, 13), 1) + datetime.timedelta(days=rng.randrange(0, 28))
    if shape == "month_end":
        mo = rng.randrange(1, 13)
        base = datetime.datetime(y, mo, 28) + datetime.timedelta(days=rng.randrange(0, 4))
    elif shape == "leap":
        ly = rng.choice([1904, 1996, 2000, 2024, 2096, 2104])
        base = datetime.datetime(ly, 2, 27) + datetime.timedelta(days=rng.randrange(0, 3))
    elif shape == "year_end":
        base = datetime.datetime(y, 12, 30) + datetime.timedelta(hours=rng.randrange(0, 47))
    span_ms = rng.choice([1, 3, 7, 8, 9, 15, 120, 999, 1000, 5000, 61000, 3600000, 86400000, 40 * 86400000,
                          400 * 86400000, 4000 * 86400000, 30000 * 86400000])
    base = base + datetime.timedelta(milliseconds=rng.randrange(0, 1000) if span_ms < 100000 else 0)
    items = []
    for i in range(n):
        off = 0 if shape == "equal" else rng.randrange(0, span_ms + 1)
        t = base + datetime.timedelta(milliseconds=off)
        if t.year > 2200:
            t = t.replace(year=2200 - (t.year - 2200) % 50)
        r = rng.random()
        if shape == "dates" or (r < 0.15 and span_ms > 86400000):
            items.append({"time": "D:" + t.date().isoformat()})
        else:
            items.append({"time": _iso(t)})
    return items


def _num_dataset(rng, n, shape):
    mag = rng.choice([1e-3, 1, 1, 100, 1e4, 1e7])
    base = rng.choice([0, 0, -1, 5, 1000]) * mag
    items = []
    for i in range(n):
        v = base if shape == "equal" else base + rng.randrange(0, 4096) / 4096.0 * mag
        items.append({"time": v})
    return items


def _clock_dataset(rng, n):
    return [{"time": "C:%02d:%02d:%02d" % (rng.randrange(24), rng.randrange(60), rng.randrange(60))} for _ in range(n)]


def _opts(rng):
    r = rng.random()
    if r < 0.2:
        return None
    if r < 0.35:
        return {}
    o = {}
    if rng.random() < 0.8:
        o["direction"] = rng.choice(DIRS)
    if rng.random() < 0.6:
        lab = {}
        if rng.random() < 0.6:
            lab["algorithm"] = rng.choice(["overlap", "simple", "none"])
        if rng.random() < 0.5:
            lab["maxPos"] = rng.choice([None, 100, 340, 760, 2000])
        if rng.random() < 0.3:
            lab["minPos"] = rng.choice([None, 0, -50, 20])
        if rng.random() < 0.3:
            lab["nodeSpacing"] = rng.choice([0, 1, 3, 8])
        if rng.random() < 0.2:
            lab["density"] = rng.choice([0.3, 0.75, 1])
        o["labella"] = lab
    if rng.random() < 0.4:
        o["showTicks"] = rng.random() < 0.5
    if rng.random() < 0.3:
        o["initialWidth"] = rng.choice([200, 400, 804, 1200])
        o["initialHeight"] = rng.choice([120, 400, 900])
    if rng.random() < 0.2:
        o["layerGap"] = rng.choice([1, 20, 60])
    if rng.random() < 0.15:
        o["showBorder"] = True
    if rng.random() < 0.15:
        o["latex"] = {"reproducible": True}
    return o


def make(rng, n=None, shape=None, kind=None):
    kind = kind or rng.choice(["time", "time", "time", "linear", "clock"])
    shape = shape or rng.choice(["plain", "plain", "equal", "month_end", "leap", "year_end", "dates", "single"])
    n = n or (1 if shape == "single" else rng.choice([1, 2, 2, 3, 5, 8, 13, 30]))
    if kind == "linear":
        data = _num_dataset(rng, n, shape)
    elif kind == "clock":
        data = _clock_dataset(rng, n)
    else:
        data = _dt_dataset(rng, n, shape)
    rng.shuffle(data)
    for i, d in enumerate(data):
        d["width"] = rng.choice([10, 25, 50, 50, 80.5, 120])
        d["_id"] = i
        if rng.random() < 0.5:
            d["text"] = rng.choice(["a", "label %d" % i, "x<y&z", "été", "Á", "…", "日本"])
    py = {"data": data, "opts": _opts(rng), "scale": "linear" if kind == "linear" else "time"}
    return {"kind": "%s/%s" % (kind, shape), "py": py, "model": []}


def make_big(rng, gsize=None, groups=None):
    """up to 1000 labels in well separated groups: a conflict cluster (the items
    one solver block can absorb) cannot span two groups, so it has at most
    `gsize` items -- labels and their stubs alike."""
    gsize = gsize or rng.choice([60, 125, 150])
    groups = groups or rng.choice([2, 4, 8 if gsize <= 125 else 6])
    base = datetime.datetime(rng.randrange(1950, 2100), 1, 1)
    items = []
    for g in range(groups):
        for i in range(gsize):
            t = base + datetime.timedelta(days=g * 1000 + rng.randrange(0, 30))
            items.append({"time": _iso(t), "width": rng.choice([8, 10, 12]), "_id": len(items)})
    rng.shuffle(items)
    length = groups * 5000
    lab = rng.choice([{}, {"maxPos": length - 100, "algorithm": "overlap"}, {"maxPos": length - 100, "algorithm": "simple"},
                      {"algorithm": "none"}])
    d = rng.choice(DIRS)
    py = {"data": items, "scale": "time", "gsize": gsize,
          "opts": {"direction": d, "initialWidth": length + 40 if d in ("up", "down") else 400,
                   "initialHeight": length + 40 if d in ("left", "right") else 400, "labella": lab}}
    return {"kind": "big/%dx%d" % (groups, gsize), "py": py, "model": []}


def rebuild(c):
    c = dict(c)
    c.setdefault("model", [])
    c.setdefault("kind", "corpus")
    return c


def gen(rng, tier):
    n = 400 if tier == "quick" else 5000
    for _ in range(n):
        yield make(rng)
    for shape in ["single", "equal", "month_end", "leap", "year_end"]:
        for kind in ["time", "linear"]:
            for _ in range(6 if tier == "quick" else 60):
                yield make(rng, shape=shape, kind=kind)
    for _ in range(2 if tier == "quick" else 12):
        yield make_big(rng)


# ---------------------------------------------------------------- oracle ---
def oracle(case, io):
    if "exc" in io:
        if io["exc"] == "RecursionError" and _max_cluster_hint(case) > 200:
            return "RecursionError with a conflict cluster above 200 items"
        return "export raised %s: %s" % (io["exc"], io.get("msg", ""))
    n = len(case["py"]["data"])
    if io["nboxes"] != n or len(io["dots"]) != n or io["tex_dots"] != n:
        return "export does not contain one dot/box per datum (%d data, %d boxes, %d dots, %d tex dots)" % (
            n, io["nboxes"], len(io["dots"]), io["tex_dots"])
    if not io["tex_ok"]:
        return "TikZ text incomplete"
    times = [d["time"] for d in case["py"]["data"]]
    if len(set(map(str, times))) == 1 and not (case["py"]["opts"] or {}).get("domain"):
        dots = [float.fromhex(x) for x in io["dots"]]
        if any(d != 0.0 for d in dots):
            return "degenerate domain but dots are not at the start of the axis: %r" % dots[:3]
    return None


def _max_cluster_hint(case):
    """upper bound on the size of a conflict cluster: the generator's group size
    for grouped datasets, the whole dataset otherwise"""
    return case["py"].get("gsize", len(case["py"]["data"]))


def matches_finding(f, case, failure):
    return f.get("signature") == "RecursionError/cluster>200" and failure.startswith("RecursionError with a conflict cluster above 200")


def nontrivial(case, io):
    return len(case["py"]["data"]) > 1 or True


def compare(case, io, mo):
    return None


def search(rng, tier, mism):
    for c in mism:
        yield c
    for c in gen(rng, "quick"):
        yield c


def shrink_candidates(case):
    py = case["py"]
    d = py["data"]
    if len(d) > 1:
        for i in range(len(d)):
            q = dict(py)
            q["data"] = d[:i] + d[i + 1:]
            yield {"kind": case["kind"], "py": q, "model": []}
    if py["opts"]:
        for k in list(py["opts"].keys()):
            q = dict(py)
            q["opts"] = {a: b for a, b in py["opts"].items() if a != k}
            yield {"kind": case["kind"], "py": q, "model": []}
