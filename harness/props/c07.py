"""C07: every datum is drawn once, at its true time, linked to its own label."""
from harness.props import render_common as rc

ID = "C07"
MODNAME = "c07"
CASE_TIMEOUT = 60
RULE = ("Random datasets of 1-40 data: numeric times with a LinearScale (uniform, clustered, equal, integer) and date / "
        "datetime-with-time-of-day / time values on the default scale (spans from 30 s to 40 years), unsorted, explicit "
        "dyadic or decimal widths, texts absent / empty / plain / with <&>\"' / non-ASCII / padded with blanks; x 4 directions x "
        "{overlap, simple, none} x nodeSpacing, bounds, density, stub width x sizes, margins, layer gap (incl. 0), padding, "
        "ticks on/off, border on/off, explicit and derived domains, partial option dicts, colour options in four forms. "
        "A case is one dataset exported by both back-ends; non-trivial = some label has a stub chain (>= 2 layers); "
        "distinct by input.")
EXPLANATION = ("Theorems are about coq/Render/Geometry.v and Scene.v for ALL label lists, chain depths, sizes and directions, "
               "given the layout result (ideal positions, integer stub and label positions) as input. The tie runs "
               "TimelineSVG and TimelineTex on freshly built identical inputs, reads the layout result off tl.nodes, "
               "feeds it to the extracted model and compares the parsed SVG and TikZ with the model's documents field by "
               "field, plus w/h/x/y/dx/dy of every node with the model's get_nodes / Renderer.layout.")
LEVEL_TEXT = ("Machine-checked Coq theorems (one dot/link/box per label in order; dots on the axis line at the label's ideal "
              "position; the link path, for stub chains of any depth, visits exactly the near/far layer edges of the label's own "
              "stubs in layer order without a second move and ends at the middle of the axis-facing edge of the box, exactly "
              "before and within 1 unit after %i truncation; box size = datum size + padding with the left/right swap; ticks at "
              "their positions with their texts) on Gallina models of renderer.py and both emitters of timeline.py, tied to the "
              "code by differential execution of both exports on every run. The affine-scale clause (C07_affine) is proved on the axis-pipeline "
              "model coq/Render/Axis.v (parse_items, init_axis with nice(), scale(time), ticks) composed from the scale and time "
              "packages; that model is tied to the code by the C11 check."
              " On the whole-pipeline model coq/Render/Pipeline.v (raw data -> axis -> engine -> both documents) C07_pipeline states every clause with no abstract hypothesis left, C07_pipeline_total its totality on the documented domain, C07_ticktext the tick texts; the pipeline:* family (API 850) compares the model's documents with the real exports taking nothing but the raw input from the implementation.")
LEVEL_NOTE = ("Trusted: Coq kernel; extraction re-checked on a slice by vm_compute; the correspondence harness (SVG/TikZ parsers, "
              "generators; integers and strings exact; %f/%.16f decimals digit for digit, %.8f digit for digit when all sizes are "
              "dyadic and else to the printed precision; str() numbers to relative 1e-9). scale(time) and tickFormat are inputs of THIS tie (the document model); "
              "the map time -> position and the tick TEXTS are the axis-pipeline model (C07_affine, C07_ticktext; "
              "Time/TickFormat.v models mytimeformat and the fixed-point linear format), tied exactly by ./check C11; the "
              "digit string of str() is not modelled, only its value. Hypothesis of C07_link_end: for direction up the label is as thick as the "
              "layer (C07_thickness_uniform proves it for explicit widths). Modelled, not verified: labella/*.py; doubles as "
              "exact rationals (truncations within 1e-7 of an integer on non-dyadic inputs are counted as ambiguous).")
TECHNIQUE = "Coq proof (induction on the stub chain and on the label list; linear arithmetic over Q) + model/implementation correspondence on parsed SVG and TikZ"
ASSUMPTIONS = ["the C-locale month and weekday names of strftime (tick texts) are modelled as literals; another LC_TIME would change the texts",
               "direction up: every label is as thick as the layer (proved for explicit widths by C07_thickness_uniform)"]

impl = rc.impl
compare = rc.compare
shrink_candidates = rc.shrink_candidates


def rebuild(case):
    c = {"kind": case.get("kind", "corpus"), "py": case["py"]}
    if case["py"].get("pipeline"):
        return rc.pipeline_models(c)
    rc.attach_models(MODNAME, [c], "rebuild")
    return c


prepare_compare = rc.prepare_pipeline


def gen(rng, tier):
    import os
    only = os.environ.get("VERIF_C07_ONLY")      # diagnostic switch: "pipeline" or "classic" family alone
    n = 2000 if tier == "quick" else 8000
    cases = [] if only == "pipeline" else [rc.gen_case(rng, "random") for _ in range(n)]
    rc.attach_models(MODNAME, cases)
    for c in cases:
        yield c
    if only == "classic":
        return
    # the whole-pipeline family: raw input -> both documents (command 850), no pre-pass
    for c in rc.pipeline_cases(rng, 500 if tier == "quick" else 1500):
        yield c


oracle = rc.oracle_c07


def nontrivial(case, io):
    return isinstance(io, dict) and "layout" in io and any(len(n["chain"]) > 1 for n in io["layout"]["nodes"])


def extra_evidence(cases, impl_out, model_out):
    ev = rc.histograms(cases, impl_out)
    ev.update(rc.pipeline_evidence())
    return ev


def search(rng, tier, mism):
    for c in mism:
        yield c
    extra = [rc.gen_case(rng, "search") for _ in range(300)]
    rc.attach_models(MODNAME, extra, "search")
    for c in extra:
        yield c


# ---- the whole-pipeline family (added with coq/Render/Pipeline.v) ----
RULE += (" [pipeline:*: the same generator (numeric data with a LinearScale, date/datetime/time data with the default scale, 4 "
         "directions, 3 algorithms, bounds, density, stub width, colours in four forms, ticks on/off, explicit and derived "
         "domains), but the model is handed the RAW input only - times, widths, texts, options, engine options, today - and "
         "produces both documents through Axis o Compose o Scene (command 850); no pre-pass of the implementation.]")
EXPLANATION += (" C07_pipeline is about timeline_docs (coq/Render/Pipeline.v), the composition of the axis pipeline, the "
                "layout engine and the emitters from the raw input; the pipeline:* family compares its two documents "
                "with the parsed real exports field by field (integers and strings exactly; decimals derived from an axis "
                "position to the printed precision plus 1e-9 x axis length, since the model's scale is exact). A "
                "disagreement is counted as ambiguous only in six documented double-versus-exact classes, counted "
                "separately in the evidence (pipeline_ambiguity_classes): %i truncation of a tick sitting on an integer; "
                "density x layerWidth inexact in doubles (model re-run with the double's product agrees); a distributor capacity "
                "comparison where the exact width sum equals the capacity within 1e-12 (model re-run with the density moved "
                "by 1e-12 agrees); an enumerated "
                "nice()/ticks() alternative of the C11/C14/C16 checks, or a solver position within 1e-7 of a .5 rounding "
                "boundary, or another discrete flip under the 1e-13 perturbation of the ideal positions - the last three "
                "only if the model re-run downstream of the implementation's axis values (command 851) agrees exactly.")
LEVEL_TEXT += (" C07_pipeline / C07_pipeline_total / C07_pipeline_own_stubs / C07_pipeline_boxes_disjoint state all clauses for "
               "the documents computed from the raw input by the composed model, with no abstract hypothesis left (one "
               "dot/link/box per datum via a permutation of the data indices; dots and ticks at one affine increasing map of "
               "the full instant; links through the datum's own reported stubs; box sizes and texts; tick texts; C08's "
               "disjointness for nodeSpacing >= 3, layerGap >= 1), and that model is tied end to end (command 850).")


# ---- the xml family: label texts as serialised in the SVG bytes (coq/Text/Xml.v, API 503) ----
from harness.props import c07xml as _X  # noqa: E402

RULE += " " + _X.RULE
LEVEL_TEXT += (" C07_text_verbatim_xml / C07_text_xml_injective / C07_text_xml_plain: the SVG serialisation of a label text "
               "(named entities for & < >, decimal character references above 127) is read back verbatim for every list of "
               "Unicode code points (exhaustive kernel computation over all 1 114 112 code points for the decimal references); "
               "tied to the raw bytes of the export by the xml family (API 503).")


def _isx(x):
    py = x.get("py", x) if isinstance(x, dict) else {}
    return isinstance(py, dict) and py.get("fam") == "xml"


def _disp(name, own):
    def f(case, *a):
        return getattr(_X, name)(case, *a) if _isx(case) else own(case, *a)
    f.__name__ = name
    return f


impl = _disp("impl", impl)
compare = _disp("compare", compare)
rebuild = _disp("rebuild", rebuild)
oracle = _disp("oracle", oracle)
nontrivial = _disp("nontrivial", nontrivial)
shrink_candidates = _disp("shrink_candidates", shrink_candidates)
_gen0, _prep0, _extra0, _search0 = gen, prepare_compare, extra_evidence, search


def gen(rng, tier):
    for c in _gen0(rng, tier):
        yield c
    for c in _X.gen(rng, tier):
        yield c


def prepare_compare(cases, impl_out, model_out, workdir):
    idx = [i for i, c in enumerate(cases) if not _isx(c)]
    sc, si, sm = [cases[i] for i in idx], [impl_out[i] for i in idx], [model_out[i] for i in idx]
    _prep0(sc, si, sm, workdir)
    for j, i in enumerate(idx):
        cases[i], model_out[i] = sc[j], sm[j]


def extra_evidence(cases, impl_out, model_out):
    idx = [i for i, c in enumerate(cases) if not _isx(c)]
    ev = _extra0([cases[i] for i in idx], [impl_out[i] for i in idx], [model_out[i] for i in idx])
    xs = [(c, io) for c, io in zip(cases, impl_out) if _isx(c) and isinstance(io, dict) and "raw" in io]
    ev["xml_cases"] = len(xs)
    ev["xml_texts_compared"] = sum(len(io["raw"]) for _, io in xs)
    ev["xml_texts_needing_escape"] = sum(1 for c, _ in xs for t in c["py"]["texts"] if any(ch in "&<>" or ord(ch) > 127 for ch in t))
    return ev


def search(rng, tier, mism):
    for c in _search0(rng, tier, [c for c in mism if not _isx(c)]):
        yield c
    for c in mism:
        if _isx(c):
            yield c
