"""C07: every datum is drawn once, at its true time, linked to its own label."""
from harness.props import render_common as rc

ID = "C07"
MODNAME = "c07"
CASE_TIMEOUT = 60
RULE = ("Random datasets of 1-40 data: numeric times with a LinearScale (uniform, clustered, equal, integer) and date / "
        "datetime-with-time-of-day / time values on the default scale (spans from 30 s to 40 years), unsorted, explicit "
        "dyadic or decimal widths, texts absent / empty / plain / with <&>\"' / non-ASCII / padded with blanks; x 4 directions x "
        "{overlap, simple, none} x nodeSpacing, bounds, density, stub width x sizes, margins, layer gap (incl. 0), padding, "
        "ticks on/off, border on/off, explicit and derived domains, partial option dicts, colour options in four forms. "
        "A case is one dataset exported by both back-ends; non-trivial = some label has a stub chain (>= 2 layers); "
        "distinct by input.")
EXPLANATION = ("Theorems are about coq/Render/Geometry.v and Scene.v for ALL label lists, chain depths, sizes and directions, "
               "given the layout result (ideal positions, integer stub and label positions) as input. The tie runs "
               "TimelineSVG and TimelineTex on freshly built identical inputs, reads the layout result off tl.nodes, "
               "feeds it to the extracted model and compares the parsed SVG and TikZ with the model's documents field by "
               "field, plus w/h/x/y/dx/dy of every node with the model's get_nodes / Renderer.layout.")
LEVEL_TEXT = ("Machine-checked Coq theorems (one dot/link/box per label in order; dots on the axis line at the label's ideal "
              "position; the link path, for stub chains of any depth, visits exactly the near/far layer edges of the label's own "
              "stubs in layer order without a second move and ends at the middle of the axis-facing edge of the box, exactly "
              "before and within 1 unit after %i truncation; box size = datum size + padding with the left/right swap; ticks at "
              "their positions with their texts) on Gallina models of renderer.py and both emitters of timeline.py, tied to the "
              "code by differential execution of both exports on every run. The affine-scale clause (C07_affine) is proved on the axis-pipeline "
              "model coq/Render/Axis.v (parse_items, init_axis with nice(), scale(time), ticks) composed from the scale and time "
              "packages; that model is tied to the code by the C11 check.")
LEVEL_NOTE = ("Trusted: Coq kernel; extraction re-checked on a slice by vm_compute; the correspondence harness (SVG/TikZ parsers, "
              "generators; integers and strings exact; %f/%.16f decimals digit for digit, %.8f digit for digit when all sizes are "
              "dyadic and else to the printed precision; str() numbers to relative 1e-9). scale(time) and tickFormat are inputs of THIS tie (the document model); "
              "the map time -> position and the tick TEXTS are the axis-pipeline model (C07_affine, C07_ticktext; "
              "Time/TickFormat.v models mytimeformat and the fixed-point linear format), tied exactly by ./check C11; the "
              "digit string of str() is not modelled, only its value. Hypothesis of C07_link_end: for direction up the label is as thick as the "
              "layer (C07_thickness_uniform proves it for explicit widths). Modelled, not verified: labella/*.py; doubles as "
              "exact rationals (truncations within 1e-7 of an integer on non-dyadic inputs are counted as ambiguous).")
TECHNIQUE = "Coq proof (induction on the stub chain and on the label list; linear arithmetic over Q) + model/implementation correspondence on parsed SVG and TikZ"
ASSUMPTIONS = ["the C-locale month and weekday names of strftime (tick texts) are modelled as literals; another LC_TIME would change the texts",
               "direction up: every label is as thick as the layer (proved for explicit widths by C07_thickness_uniform)"]

impl = rc.impl
compare = rc.compare
shrink_candidates = rc.shrink_candidates


def rebuild(case):
    c = {"kind": case.get("kind", "corpus"), "py": case["py"]}
    rc.attach_models(MODNAME, [c], "rebuild")
    return c


def gen(rng, tier):
    n = 2000 if tier == "quick" else 8000
    cases = [rc.gen_case(rng, "random") for _ in range(n)]
    rc.attach_models(MODNAME, cases)
    for c in cases:
        yield c


oracle = rc.oracle_c07


def nontrivial(case, io):
    return isinstance(io, dict) and "layout" in io and any(len(n["chain"]) > 1 for n in io["layout"]["nodes"])


def extra_evidence(cases, impl_out, model_out):
    return rc.histograms(cases, impl_out)


def search(rng, tier, mism):
    for c in mism:
        yield c
    extra = [rc.gen_case(rng, "search") for _ in range(300)]
    rc.attach_models(MODNAME, extra, "search")
    for c in extra:
        yield c
