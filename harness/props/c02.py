"""C02: labels are displaced as little as possible (least-squares optimal placement)."""
from fractions import Fraction as F

from harness.props import layer_common as L
from harness.props.layer_common import (impl, gen, rebuild, compare, nontrivial, search,  # noqa: F401
                                        shrink_candidates, extra_evidence, CASE_TIMEOUT)

ID = "C02"
MODNAME = "c02"
EXTRA_TARGETS = ["Props/C01.vo", "Props/C03.vo"]
RULE = ("Same case families as C01 (a case = label list + engine options; every layer of getLayers() after Force.compute() is one "
        "least-squares problem: targets, widths, stub flags, spacing, bounds): test datasets, random int/half/dyadic/double labels, "
        "tied targets, clusters of 2..200, layers fitting exactly/barely/not, near-threshold families, multi-layer stub layouts. "
        "Non-trivial = some layer with >= 2 items in which an item is moved; distinct by input.")
EXPLANATION = ("The model IS the optimum (pava_optimal / C02_layer: unique minimiser of the coded objective), so "
               "'implementation = model up to rounding' is the property; the oracle recomputes the hard-bounded optimum "
               "independently (greatest convex minorant over fractions.Fraction).")


def _iso_gcm(e):
    """Unit-weight isotonic regression of e via the greatest convex minorant
    of the cumulative-sum diagram (lower convex hull); exact."""
    n = len(e)
    pts = [(0, F(0))]
    s = F(0)
    for i, v in enumerate(e):
        s += v
        pts.append((i + 1, s))
    hull = []
    for p in pts:
        while len(hull) >= 2:
            (x1, y1), (x2, y2) = hull[-2], hull[-1]
            # drop hull[-1] if it lies on or above the segment hull[-2] -> p
            if (y2 - y1) * (p[0] - x1) >= (p[1] - y1) * (x2 - x1):
                hull.pop()
            else:
                break
        hull.append(p)
    y = []
    for (x1, y1), (x2, y2) in zip(hull, hull[1:]):
        y += [(y2 - y1) / (x2 - x1)] * (x2 - x1)
    assert len(y) == n
    return y


def optimum(its, ns, mn, mx):
    """hard-bounded least-squares optimum for items in this order, or None if
    the layer does not fit between the bounds"""
    n = len(its)
    G = [F(0)]
    for a, b in zip(its, its[1:]):
        G.append(G[-1] + L.gap(a, b, ns))
    y = _iso_gcm([F(its[i][0]) - G[i] for i in range(n)])
    lo = None if mn is None else F(mn) + F(its[0][1]) / 2
    hi = None if mx is None else F(mx) - F(its[-1][1]) / 2 - G[-1]
    if lo is not None and hi is not None and lo > hi:
        return None
    if lo is not None:
        y = [max(v, lo) for v in y]
    if hi is not None:
        y = [min(v, hi) for v in y]
    return [y[i] + G[i] for i in range(n)]


def oracle(case, io):
    """Every reported position is within 0.5 of the unique least-squares
    optimum among separated placements inside the bounds (layers that fit);
    an item whose neighbours leave room around its target is not moved.
    A deviation above 0.5 is tagged as the known finding soft-wall-slack only
    if the excess is at most delta_obs = sum|reported - target| / 1e10 (+1e-6);
    any other failure is reported untagged and takes precedence."""
    if isinstance(io, dict) and "exc" in io:
        return "raised %s" % io["exc"]
    if io.get("link_errors"):
        return "the item is not aimed at the final position of its own stub in the layer below: " + io["link_errors"][0]
    ns, ls, mn, mx = L.model_opts(case["py"]["opts"])
    eps = F(1, 10 ** 9)        # double arithmetic of the implementation
    known = None
    for k, layer in enumerate(io["layers"]):
        if not layer:
            continue
        its = L.ordered(layer)
        n = len(its)
        opt = optimum(its, ns, mn, mx)
        if opt is not None:     # does not fit: outside C02's quantifier (C03 covers it)
            dobs = L.delta_obs(its)
            for it, x in zip(its, opt):
                excess = abs(F(it[3]) - x) - F(1, 2)
                if excess > eps:
                    msg = "layer %d: item with target %r width %r reported at %r, optimum inside the bounds %s" % (
                        k, it[0], it[1], it[3], float(x))
                    if excess <= dobs + F(1, 10 ** 6):
                        if known is None:
                            known = L.tagged(L.SOFT_WALL, msg + " (excess %.6g over 0.5 <= wall slack %.6g)" % (float(excess), float(dobs)))
                    else:
                        return msg
        # a layer whose targets already are separated and inside the bounds is not moved
        roomy = all(F(b[0]) - F(a[0]) >= L.gap(a, b, ns) for a, b in zip(its, its[1:]))
        if roomy and (mn is None or F(its[0][0]) - F(its[0][1]) / 2 >= F(mn)) and \
                (mx is None or F(its[-1][0]) + F(its[-1][1]) / 2 <= F(mx)):
            for it in its:
                if abs(F(it[3]) - F(it[0])) > F(1, 2) + eps:
                    return "layer %d: every item has room at its target, yet target %r is reported at %r" % (k, it[0], it[3])
        # per item: the neighbours' reported positions leave more than gap + 1 on both
        # sides of the target (a wall neighbour: the bound leaves half the width)
        for i, it in enumerate(its):
            t = F(it[0])
            if i == 0:
                left = mn is None or t - F(it[1]) / 2 >= F(mn)
            else:
                left = t - F(its[i - 1][3]) > L.gap(its[i - 1], it, ns) + 1
            if not left:
                continue
            if i == n - 1:
                right = mx is None or t + F(it[1]) / 2 <= F(mx)
            else:
                right = F(its[i + 1][3]) - t > L.gap(it, its[i + 1], ns) + 1
            if right and abs(F(it[3]) - t) > F(1, 2) + eps:
                return "layer %d: item %d has room around its target %r (neighbours reported at %r / %r) yet is reported at %r" % (
                    k, i, it[0], its[i - 1][3] if i else None, its[i + 1][3] if i < n - 1 else None, it[3])
    return known


def matches_finding(finding, case, failure):
    return L.matches(finding, failure, L.SOFT_WALL)


LEVEL_TEXT = ("Machine-checked Coq theorems for ALL chain problems (any desired positions, weights > 0, gaps): the PAVA "
              "result x satisfies cost y >= cost x + sum w_i (y_i - x_i)^2 for every feasible y (pava_optimal, hence it is "
              "the unique minimiser); instantiated to a layer with its 1e10-weight walls (C02_layer), it beats every "
              "separated placement inside the bounds (C02_beats_bounded), the reported integers are within 1/2 of it "
              "(C02_rounded), a layer with room everywhere is not moved (C02_unmoved) and neither is a single item whose "
              "neighbours' solved positions leave the gaps around its target (C02_unmoved_item); model tied to the code by "
              "differential execution on every run. The text's 'among placements inside the bounds' holds only up to the wall "
              "slack delta (known finding soft-wall-slack; C03_inside_tight_refuted)."
              " The soft-wall finding is quantified: the solution clamped into the bounds is THE least-squares optimum among separated placements inside the bounds (C02_hard_optimum) and every item is within delta = sum|x_i - t_i|/1e10 of it (C02_distance_to_hard_optimum); an item whose neighbours leave room is not moved (C02_unmoved_item).")
LEVEL_NOTE = ("Trusted: Coq kernel; extraction re-checked by vm_compute; the harness. Modelled, not verified: "
              "removeOverlap.py / vpsc.py (exact rationals for doubles; the solver's 1e-10 / 1e-4 tolerances make it exact "
              "only up to ~1e-10, disagreements inside the 1e-7 rounding band are counted). The targets of deeper layers "
              "(C02_targets) are proved in Props/C06.v; the distance to the HARD-bounded optimum is proved (C02_hard_optimum, "
              "C02_distance_to_hard_optimum: per item at most delta, under the property's own hypothesis that the layer fits).")
TECHNIQUE = "Coq proof (prefix-mean invariant of PAVA, KKT certificate, summation by parts) + model/implementation correspondence"
