"""C04: layering conserves labels, builds complete stub chains, stays within capacity;
the engine reports exactly this layering (tie K2 + the getLayers part of K3)."""
from fractions import Fraction as F

ID = "C04"
MODNAME = "c04"
RULE = ("One case = one label list (0..60 labels; thorough: one in ten up to 150; dyadic positions/widths so that doubles are exact) "
        "x one configuration (algorithm overlap/simple/none, minPos/maxPos giving layerWidth None/0/small/large, density 13/128..1 (dyadic) and non-dyadic ones such as the default 0.85 where rounding cannot matter, "
        "spacing 0..10, stub width 0..5). Shapes: 1-2 labels, labels wider than a layer, identical positions, equal-width grids "
        "(ties in overlap counts), dense clusters, fitting sets, no upper bound. Each case runs Distributor.distribute and "
        "Force.compute()/getLayers() on fresh nodes and the public width helpers. Non-trivial = at least two layers; distinct by input.")
EXPLANATION = ("Theorems are about coq/Layout/Distribute.v (all label lists, all configurations of the documented domain); the tie checks "
               "that labella/distributor.py returns exactly the model's layers (ordered (label, is_stub) lists, parent/child pointers, stub "
               "width and position) and that Force.getLayers() reports the same layers (each list stably re-sorted by target position, as "
               "removeOverlap does in place).")
LEVEL_TEXT = ("Machine-checked Coq theorems, for ALL label lists and configurations of the documented domain, on a faithful Gallina model of "
              "labella/distributor.py (stable sort, round robin, the greedy overlap loop with intervaltree's query semantics, stub pass): "
              "conservation, contiguity, complete stub chains and total item count, single-layer conditions, split and capacity for the "
              "overlap algorithm, fuel sufficiency; the model is tied to the code by differential execution on every run.")
LEVEL_NOTE = ("Trusted: Coq kernel; extraction re-checked on a slice by vm_compute; the correspondence harness and its generators. "
              "Modelled, not verified: labella/distributor.py, node.py (createStub/isStub), the distribute call of force.py; intervaltree's "
              "overlap query by its half-open semantics; doubles by exact rationals (generated numbers are dyadic, so the code's arithmetic is exact).")
TECHNIQUE = "Coq proof (loop invariants over the greedy removal loop, counting characterisation of the layers) + model/implementation correspondence"
CASE_TIMEOUT = 60

ALGS = ["overlap", "simple", "none"]


# ------------------------------------------------------------ implementation
def _ratio(x):
    a, b = F(x).numerator, F(x).denominator
    return [a, b]


# one item of a dumped layer is the flat list
#   [id, stub, layerIndex, pj, pt, cj, ct, width, idealPos, currentPos, hops, up, flags]
# id: index of the root label (found by walking .child), stub: isStub(),
# (pj, pt)/(cj, ct): where .parent/.child live as (layer, index); (-1,-1) = None,
# (-2,-2) = an object that is in no layer, (-3,-3) = an object that is in two places,
# hops/up: number of .child links to the label / of .parent links to the axis,
# flags: 1 = payload is the label's, 2 = parent/child links mutually consistent,
#        4 = the object itself occurs in more than one place.
ID_, STUB, LI, PJ, PT, CJ, CT, W, POS, CUR, HOPS, UP, FLAGS = range(13)


def _dump_layers(layers, roots):
    """Structure of a list of layers as the implementation holds it."""
    where = {}
    for j, layer in enumerate(layers):
        for t, nd in enumerate(layer):
            where.setdefault(id(nd), []).append((j, t))

    def loc(x):
        if x is None:
            return (-1, -1)
        w = where.get(id(x))
        if not w:
            return (-2, -2)
        return w[0] if len(w) == 1 else (-3, -3)
    out = []
    for j, layer in enumerate(layers):
        row = []
        for t, nd in enumerate(layer):
            c = nd
            hops = 0
            ok = True
            while c.child:
                if c.child.parent is not c:
                    ok = False
                c = c.child
                hops += 1
                if hops > 10000:
                    ok = False
                    break
            if nd.parent is not None and nd.parent.child is not nd:
                ok = False
            up = 0
            p = nd
            while p.parent:
                p = p.parent
                up += 1
                if up > 10000:
                    break
            root = roots.get(id(c), -1)
            pj, pt = loc(nd.parent)
            cj, ct = loc(nd.child)
            flags = (1 if nd.data == root else 0) | (2 if ok else 0) | (4 if len(where[id(nd)]) > 1 else 0)
            row.append([root, 1 if nd.isStub() else 0, nd.layerIndex, pj, pt, cj, ct,
                        float(nd.width), float(nd.idealPos), float(nd.currentPos), hops, up, flags])
        out.append(row)
    return out


def impl(py):
    from labella.distributor import Distributor
    from labella.force import Force
    from labella.node import Node
    labels = py["labels"]
    mn, mx = py["min"], py["max"]
    lw = (mx - mn) if (mn is not None and mx is not None) else None
    dopt = {"algorithm": py["alg"], "layerWidth": lw, "density": py["density"],
            "nodeSpacing": py["spacing"], "stubWidth": py["stub"]}
    out = {}
    # public width helpers
    nodes0 = [Node(p, w, data=i) for i, (p, w) in enumerate(labels)]
    d0 = Distributor(dopt)
    out["widths"] = {"req": _ratio(d0.computeRequiredWidth(nodes0)),
                     "est": int(d0.estimateRequiredLayers(nodes0)),
                     "split": bool(d0.needToSplit(nodes0))}
    # the distributor
    nodes = [Node(p, w, data=i) for i, (p, w) in enumerate(labels)]
    roots = {id(nd): i for i, nd in enumerate(nodes)}
    layers = Distributor(dopt).distribute(nodes)
    out["dist"] = _dump_layers(layers, roots)
    # the engine
    nodes2 = [Node(p, w, data=i) for i, (p, w) in enumerate(labels)]
    roots2 = {id(nd): i for i, nd in enumerate(nodes2)}
    fopt = {"algorithm": py["alg"], "minPos": mn, "maxPos": mx, "density": py["density"],
            "nodeSpacing": py["spacing"], "stubWidth": py["stub"]}
    # options the caller does not pass take the ENGINE's defaults (force.DEFAULT_OPTIONS), not the
    # distributor's own: the model call 341 is built with the engine defaults for these keys
    for k in py.get("omit", []):
        fopt.pop(k, None)
    prev = py.get("prev")
    if prev:
        # the engine was configured differently and used before: the layering it
        # reports must be that of its CURRENT options (no stale distributor state)
        f = Force({"algorithm": prev["alg"], "minPos": prev["min"], "maxPos": prev["max"],
                   "density": prev["density"], "nodeSpacing": prev["spacing"], "stubWidth": prev["stub"]})
        f.nodes(list(nodes2))
        f.compute()
        f.set_options(fopt)
    else:
        f = Force(fopt)
        f.nodes(list(nodes2))
    if (len(labels) + int(bool(prev))) % 2 == 0:
        # half of the cases: another engine and another distributor with other options are built
        # (and used) between the configuration of the observed engine and its compute(); engines
        # share nothing, so the reported layering must not change (seed C06-b: one module-level
        # option dict behind every distributor)
        other = Force({"algorithm": "simple", "minPos": 0, "maxPos": 77, "density": 0.4, "nodeSpacing": 11, "stubWidth": 7})
        other.nodes([Node(5 * i, 9) for i in range(6)])
        other.compute()
        Distributor({"algorithm": "none"})
        Distributor()
    f.compute()
    got = f.getLayers()
    out["force"] = None if got is None else _dump_layers(got, roots2)
    out["force_li"] = [nd.layerIndex for nd in nodes2]
    return out


# ------------------------------------------------------------------- model
def _q(x):
    fr = F(x)
    return [fr.numerator, fr.denominator]


def _oq(x):
    return [0] if x is None else [1] + _q(x)


FORCE_DEFAULTS = {"algorithm": "overlap", "density": 0.85, "nodeSpacing": 3, "stubWidth": 1}   # force.py:14-21
OMIT_KEY = {"algorithm": "alg", "density": "density", "nodeSpacing": "spacing", "stubWidth": "stub"}


def _model_calls(py):
    mn, mx = py["min"], py["max"]
    lw = (mx - mn) if (mn is not None and mx is not None) else None
    a = ALGS.index(py["alg"])
    tail = _q(py["density"]) + _q(py["spacing"]) + _q(py["stub"]) + [len(py["labels"])]
    labs = []
    for p, w in py["labels"]:
        labs += _q(p) + _q(w)
    tail += labs
    eff = dict(py)
    for k in py.get("omit", []):
        eff[OMIT_KEY[k]] = FORCE_DEFAULTS[k]
    ftail = _q(eff["density"]) + _q(eff["spacing"]) + _q(eff["stub"]) + [len(py["labels"])] + labs
    return [[340, a] + _oq(lw) + tail,
            [341, ALGS.index(eff["alg"])] + _oq(mn) + _oq(mx) + ftail,
            [342, a] + _oq(lw) + tail]


def _density_float_safe(py):
    import math
    mn, mx = py["min"], py["max"]
    if mn is None or mx is None:
        return True
    lw = mx - mn
    if not lw:
        return True
    if any(F(w) * 8 != int(F(w) * 8) for _, w in py["labels"]) or F(py["spacing"]) * 8 != int(F(py["spacing"]) * 8) \
            or F(py["stub"]) * 8 != int(F(py["stub"]) * 8):
        return False
    mw_f = py["density"] * lw
    mw_e = F(py["density"]) * F(lw)
    if math.floor(8 * F(mw_f)) != math.floor(8 * mw_e):
        return False
    need = _total(py["labels"], py["spacing"])
    ratio = need / mw_e if mw_e else F(0)
    # the estimate is ceil(need / capacity) with a ROUNDED double division: unsafe whenever the exact
    # quotient is within 1e-9 of an integer without being one (even when the product itself is exact)
    if ratio.denominator != 1 and min(ratio - math.floor(ratio), math.ceil(ratio) - ratio) < F(1, 10 ** 9):
        return False
    return True


def _maybe_prev(rng, py):
    """30 % of the cases: the engine ran under another configuration first;
    20 % of the others: the caller leaves some engine options to their defaults"""
    if rng.random() < 0.2:
        py = dict(py)
        py["omit"] = sorted(rng.sample(["algorithm", "density", "nodeSpacing", "stubWidth"], rng.randrange(1, 4)))
        for k in py["omit"]:
            # the case's own value becomes the engine default, so that the direct Distributor call
            # (explicit values) and the engine (key not passed) must agree
            py[OMIT_KEY[k]] = FORCE_DEFAULTS[k]
        if "density" in py["omit"] and not _density_float_safe(py):
            # 0.85 * layerWidth is rounded in the code: keep only configurations where that
            # rounding cannot change a comparison (same rule as the float_density family)
            py["omit"] = [k for k in py["omit"] if k != "density"]
            py["density"] = 0.75
        return py
    if rng.random() < 0.3:
        span = max([p for p, _ in py["labels"]] + [100])
        py = dict(py)
        py["prev"] = {"alg": rng.choice(["overlap", "simple", "none"]),
                      "min": rng.choice([0, 0, None, -16]),
                      "max": rng.choice([span / 4, span / 2, span, None, 64]),
                      "density": rng.choice([0.25, 0.5, 0.75, 1]),
                      "spacing": rng.choice([0, 3, 8]), "stub": rng.choice([0, 1, 4])}
    return py


def _case(kind, py):
    return {"kind": kind, "py": py, "model": _model_calls(py)}


def rebuild(c):
    return _case(c.get("kind", "corpus"), c["py"])


def _dec_layering(m):
    if m is None or not m or m[0] != 1:
        return None
    k = 2
    layers = []
    for _ in range(m[1]):
        n = m[k]
        k += 1
        layers.append([(m[k + 2 * t], bool(m[k + 2 * t + 1])) for t in range(n)])
        k += 2 * n
    return layers


# -------------------------------------------------------------- generators
def _dy(rng, lo, hi, den):
    """a dyadic number in [lo, hi] with denominator den"""
    return rng.randint(int(lo * den), int(hi * den)) / den


def _density(rng):
    return rng.choice([13 / 128, 1 / 8, 1 / 4, 3 / 8, 1 / 2, 5 / 8, 3 / 4, 109 / 128, 7 / 8, 1.0,
                       rng.randint(13, 128) / 128])


def _opts(rng, alg=None, lw=None):
    """lw: None -> random choice of the bound shapes"""
    alg = alg or rng.choice(["overlap", "overlap", "overlap", "simple", "simple", "none"])
    mn = rng.choice([0.0, 0.0, 0.0, -20.0, 30.0, 10.5, _dy(rng, -100, 100, 2)])
    return {"alg": alg, "min": mn, "max": None, "density": _density(rng),
            "spacing": rng.choice([0.0, 0.0, 3.0, 3.0, 1.0, 10.0, 2.5, _dy(rng, 0, 10, 4)]),
            "stub": rng.choice([0.0, 1.0, 1.0, 5.0, 2.5, _dy(rng, 0, 5, 4)])}


def _with_lw(rng, o, lw):
    o = dict(o)
    if lw is None:
        o["max"] = None
        if rng.random() < 0.3:
            o["min"] = None
    else:
        o["max"] = o["min"] + lw
    return o


def _labels(rng, n, span, wmax=60, den=8):
    out = []
    for _ in range(n):
        p = rng.choice([float(rng.randint(0, span)), rng.randint(0, 2 * span) / 2, _dy(rng, 0, span, 8)])
        w = rng.choice([10.0, 50.0, 33.0, 7.5, _dy(rng, 0.125, wmax, den)])
        out.append([p, max(w, 1 / den)])
    return out


def _total(labels, s):
    return sum(F(w) for _, w in labels) + F(s) * (len(labels) - 1)


def gen(rng, tier):
    quick = tier == "quick"
    reps = 1 if quick else 7

    def size(lo):
        # thorough: one case in ten is large (up to 150 labels)
        if not quick and rng.random() < 0.1:
            return rng.randint(lo, 150)
        return rng.randint(lo, 60)

    # the empty list and the named small shapes: 1-2 labels, every algorithm, fitting and not
    for alg in ALGS:
        yield _case("empty", _with_lw(rng, dict(_opts(rng, alg), labels=[]), 100.0))
        for n in (1, 2):
            for lw in (None, 0.0, 4.0, 50.0, 1000.0):
                for _ in range(4 * reps):
                    o = _with_lw(rng, _opts(rng, alg), lw)
                    o["labels"] = _labels(rng, n, 100)
                    yield _case("n%d" % n, o)

    # random sets, 3..60 (thorough: some up to 150) labels, layer width relative to what they need
    for _ in range(1300 * reps):
        n = size(3)
        span = rng.choice([50, 200, 1000])
        o = _opts(rng)
        labs = _labels(rng, n, span)
        need = float(_total(labs, o["spacing"]))
        lw = rng.choice([None, float(span), span / 2, 300.0, 904.0,
                         float(int(need / rng.choice([1, 2, 3, 5, 8, 13])) + 1),
                         float(int(need * rng.choice([1, 2])) + 1)])
        o = _with_lw(rng, o, lw)
        o["labels"] = labs
        yield _case("random", _maybe_prev(rng, o))

    # labels wider than a layer (some or all of them)
    for _ in range(250 * reps):
        n = rng.randint(1, 30)
        o = _opts(rng, rng.choice(["overlap", "overlap", "simple"]))
        lw = rng.choice([4.0, 10.0, 25.0, 60.0])
        labs = _labels(rng, n, 200)
        for l in labs:
            if rng.random() < 0.5:
                l[1] = lw * rng.choice([1, 1.5, 2, 8]) + rng.choice([0, 0.5, 7])
        o = _with_lw(rng, o, lw)
        o["labels"] = labs
        yield _case("wider_than_layer", _maybe_prev(rng, o))

    # identical positions (ties in the position sort), equal or different widths
    for _ in range(250 * reps):
        n = rng.randint(2, 40)
        o = _opts(rng)
        npos = rng.choice([1, 1, 2, 3])
        poss = [float(rng.randint(0, 300)) for _ in range(npos)]
        same_w = rng.random() < 0.5
        w0 = _dy(rng, 1, 40, 4)
        labs = [[rng.choice(poss), w0 if same_w else _dy(rng, 0.25, 40, 4)] for _ in range(n)]
        need = float(_total(labs, o["spacing"]))
        lw = rng.choice([None, float(int(need / rng.choice([1, 2, 3, 4])) + 1), 100.0, 20.0])
        o = _with_lw(rng, o, lw)
        o["labels"] = labs
        yield _case("identical_positions", _maybe_prev(rng, o))

    # equal-width grids: ties in the overlap counts, the stable re-sort decides
    for _ in range(250 * reps):
        n = size(3)
        o = _opts(rng, rng.choice(["overlap", "overlap", "overlap", "simple"]))
        w = rng.choice([10.0, 20.0, 7.5])
        step = rng.choice([w / 2, w, w / 4, 2 * w, w - 0.5])
        labs = [[k * step, w] for k in range(n)]
        if rng.random() < 0.5:
            rng.shuffle(labs)
        need = float(_total(labs, o["spacing"]))
        lw = float(int(need / rng.choice([2, 3, 4, 6])) + 1)
        o = _with_lw(rng, o, lw)
        o["labels"] = labs
        yield _case("grid", _maybe_prev(rng, o))

    # dense clusters with a few outliers
    for _ in range(250 * reps):
        n = size(5)
        o = _opts(rng, "overlap")
        centres = [float(rng.randint(0, 500)) for _ in range(rng.randint(1, 4))]
        labs = []
        for _k in range(n):
            c = rng.choice(centres)
            labs.append([c + _dy(rng, -15, 15, 4), _dy(rng, 0.5, 40, 8)])
        need = float(_total(labs, o["spacing"]))
        lw = float(int(need / rng.choice([1.5, 2, 3, 5])) + 1)
        o = _with_lw(rng, o, lw)
        o["labels"] = labs
        yield _case("clusters", _maybe_prev(rng, o))

    # sets that just fit / just do not fit the budget (density 1/2, exact boundary)
    for _ in range(150 * reps):
        n = rng.randint(1, 30)
        o = _opts(rng)
        o["density"] = rng.choice([0.5, 1.0, 0.25])
        labs = _labels(rng, n, 300, den=4)
        need = _total(labs, o["spacing"])
        lw = float(need / F(o["density"])) + rng.choice([0.0, 0.0, 0.25, -0.25, 1.0, -1.0])
        if lw <= 0:
            lw = 1.0
        o = _with_lw(rng, o, lw)
        o["labels"] = labs
        yield _case("boundary_fit", o)

    # non-dyadic densities (0.85 is the engine's default): density * layerWidth is then
    # rounded in the code; kept are the configurations where that rounding cannot
    # change any comparison (all compared widths are multiples of 1/8 and the
    # estimate's quotient is far from an integer), so the exact model must agree
    import math
    made = 0
    tries = 0
    while made < 250 * reps and tries < 5000 * reps:
        tries += 1
        n = rng.randint(1, 40)
        o = _opts(rng)
        o["density"] = rng.choice([0.85, 0.85, 0.1, 0.3, 0.6, 0.9, 0.7, round(rng.uniform(0.1, 1.0), 2)])
        labs = _labels(rng, n, rng.choice([50, 200, 1000]))
        need = _total(labs, o["spacing"])
        lw = rng.choice([float(int(float(need) / rng.choice([1, 2, 3, 5, 8])) + 1), 100.0, 300.0, 904.0])
        mw_f = o["density"] * lw
        mw_e = F(o["density"]) * F(lw)
        if math.floor(8 * F(mw_f)) != math.floor(8 * mw_e):
            continue
        ratio = need / mw_e
        if ratio.denominator != 1 and min(ratio - math.floor(ratio), math.ceil(ratio) - ratio) < F(1, 10 ** 9):
            continue
        o = _with_lw(rng, o, lw)
        o["labels"] = labs
        made += 1
        yield _case("float_density", o)

    # layer width zero (minPos == maxPos): falsy, single layer
    for _ in range(30 * reps):
        o = _with_lw(rng, _opts(rng), 0.0)
        o["labels"] = _labels(rng, rng.randint(1, 20), 100)
        yield _case("layer_width_zero", o)


# -------------------------------------------------------------- comparison
def _struct(rows):
    return [[(it[ID_], bool(it[STUB])) for it in row] for row in rows]


def _check_pointers(py, rows, where):
    """pointers, widths, positions of an implementation layering against the model's
    reading: the parent of an item of layer j is the item with the same label in
    layer j-1, a stub's child the item with the same label in layer j+1."""
    labels = py["labels"]
    pos_of = [{it[ID_]: t for t, it in enumerate(row)} for row in rows]
    for j, row in enumerate(rows):
        for t, it in enumerate(row):
            i = it[ID_]
            if not (0 <= i < len(labels)):
                return "%s: item %d of layer %d does not lead to an input label" % (where, t, j)
            if not it[FLAGS] & 1:
                return "%s: payload of item %d of layer %d is not label %d's" % (where, t, j, i)
            if not it[FLAGS] & 2 or it[FLAGS] & 4:
                return "%s: parent/child pointers inconsistent at layer %d item %d" % (where, j, t)
            want_parent = [-1, -1] if j == 0 else [j - 1, pos_of[j - 1].get(i, -9)]
            if [it[PJ], it[PT]] != want_parent:
                return "%s: parent of layer %d item %d is %r, model says %r" % (where, j, t, [it[PJ], it[PT]], want_parent)
            want_child = [-1, -1] if not it[STUB] else [j + 1, pos_of[j + 1].get(i, -9) if j + 1 < len(rows) else -9]
            if [it[CJ], it[CT]] != want_child:
                return "%s: child of layer %d item %d is %r, model says %r" % (where, j, t, [it[CJ], it[CT]], want_child)
            want_w = F(py["stub"]) if it[STUB] else F(labels[i][1])
            if F(it[W]) != want_w:
                return "%s: width of layer %d item %d is %s, model says %s" % (where, j, t, F(it[W]), want_w)
            if F(it[POS]) != F(labels[i][0]):
                return "%s: idealPos of layer %d item %d differs from its label's" % (where, j, t)
    return None


def compare(case, io, mo):
    py = case["py"]
    if isinstance(io, dict) and "exc" in io:
        return "implementation raised %s %s" % (io["exc"], io.get("msg", ""))
    if mo is None or len(mo) != 3 or any(m is None for m in mo):
        return "model produced no output"
    m_dist, m_force, m_w = mo
    if m_dist[0] != 1 or m_force[0] != 1 or m_w[0] != 1:
        return "model status %r/%r/%r (0 = out of fuel, 2 = outside the domain)" % (m_dist[0], m_force[0], m_w[0])
    # width helpers
    w = io["widths"]
    if F(*w["req"]) != F(m_w[1], m_w[2]):
        return "computeRequiredWidth: impl %s model %s" % (F(*w["req"]), F(m_w[1], m_w[2]))
    if w["est"] != m_w[3] or w["split"] != bool(m_w[4]):
        return "estimateRequiredLayers/needToSplit: impl %r/%r model %r/%r" % (w["est"], w["split"], m_w[3], bool(m_w[4]))
    # distributor: exact ordered structure
    want = _dec_layering(m_dist)
    got = _struct(io["dist"])
    if got != want:
        return "distribute: layers differ: impl %r model %r" % (got, want)
    why = _check_pointers(py, io["dist"], "distribute")
    if why:
        return why
    # engine: same layers; removeOverlap sorted each list in place by target position (stable)
    if io["force"] is None:
        return "getLayers() is None after compute()"
    wantf = _dec_layering(m_force)
    rows = io["force"]
    gotf = _struct(rows)
    if len(gotf) != len(wantf):
        return "getLayers: %d layers, model %d" % (len(gotf), len(wantf))
    for j, (g, m) in enumerate(zip(gotf, wantf)):
        if sorted(g) != sorted(m):
            return "getLayers: layer %d holds %r, model %r" % (j, sorted(g), sorted(m))
        target = {}
        for it in rows[j]:
            key = (it[ID_], bool(it[STUB]))
            if it[PJ] == -1:
                target[key] = F(it[POS])
            elif it[PJ] >= 0:
                target[key] = F(rows[it[PJ]][it[PT]][CUR])
            else:
                return "getLayers: an item of layer %d has a parent outside the layers" % j
        if g != sorted(m, key=lambda x: target[x]):
            return "getLayers: layer %d order %r is not the model's order %r stably sorted by target position" % (j, g, m)
        for it in rows[j]:
            if it[LI] != j:
                return "getLayers: an item of layer %d has layerIndex %r" % (j, it[LI])
    why = _check_pointers(py, rows, "getLayers")
    if why:
        return why
    return None


# ------------------------------------------------------------------ oracle
def _oracle_layers(py, rows, where):
    """The property statement on one reported layering."""
    labels = py["labels"]
    n = len(labels)
    stubw = F(py["stub"])
    lab_layer = {}
    for j, row in enumerate(rows):
        for it in row:
            if not it[STUB]:
                if it[ID_] in lab_layer or it[HOPS] != 0:
                    return "%s: label %d placed more than once" % (where, it[ID_])
                lab_layer[it[ID_]] = j
    if sorted(lab_layer) != list(range(n)):
        return "%s: labels placed %r, input has %d labels" % (where, sorted(lab_layer), n)
    used = sorted(set(lab_layer.values()))
    if used != list(range(len(used))):
        return "%s: layers holding labels are %r, not contiguous from the axis" % (where, used)
    total = 0
    for j, row in enumerate(rows):
        total += len(row)
        stubs = {}
        for it in row:
            i = it[ID_]
            if not (0 <= i < n):
                return "%s: an item of layer %d belongs to no input label" % (where, j)
            if not it[FLAGS] & 1 or F(it[POS]) != F(labels[i][0]):
                return "%s: an item of layer %d does not carry its label's payload/position" % (where, j)
            if not it[FLAGS] & 2 or it[FLAGS] & 4:
                return "%s: parent/child links inconsistent in layer %d" % (where, j)
            if it[UP] != j or (j > 0 and it[PJ] != j - 1) or (j == 0 and it[PJ] != -1):
                return "%s: an item of layer %d is %d links away from the axis (parent in layer %d)" % (where, j, it[UP], it[PJ])
            if it[STUB]:
                stubs[i] = stubs.get(i, 0) + 1
                if F(it[W]) != stubw:
                    return "%s: stub width %s, configured %s" % (where, F(it[W]), stubw)
                if it[HOPS] != lab_layer[i] - j or lab_layer[i] <= j or it[CJ] != j + 1:
                    return "%s: stub of label %d in layer %d, label is in layer %d (chain length %d)" % (
                        where, i, j, lab_layer[i], it[HOPS])
            else:
                if F(it[W]) != F(labels[i][1]):
                    return "%s: label width changed" % where
        for i in range(n):
            want = 1 if lab_layer[i] > j else 0
            if stubs.get(i, 0) != want:
                return "%s: label %d (layer %d) has %d stubs in layer %d" % (where, i, lab_layer[i], stubs.get(i, 0), j)
    if total != sum(k + 1 for k in lab_layer.values()):
        return "%s: %d items exist, %d expected" % (where, total, sum(k + 1 for k in lab_layer.values()))
    # single layer / split / capacity
    mn, mx = py["min"], py["max"]
    lw = (F(mx) - F(mn)) if (mn is not None and mx is not None) else None
    nlayers = len(rows)
    if n > 0:
        need = _total(labels, py["spacing"])
        if lw is None and nlayers != 1:
            return "%s: no upper bound but %d layers" % (where, nlayers)
        if lw is not None and lw > 0:
            budget = F(py["density"]) * lw
            if need <= budget and nlayers != 1:
                return "%s: labels fit the budget but %d layers" % (where, nlayers)
            if py["alg"] == "overlap" and n >= 3 and need > budget:
                if nlayers < 2:
                    return "%s: >= 3 labels do not fit but were not split" % where
                for j, row in enumerate(rows):
                    nl = sum(1 for it in row if not it[STUB])
                    tot = sum(F(it[W]) for it in row) + F(py["spacing"]) * (len(row) - 1)
                    if nl > 2 and tot > budget:
                        return "%s: layer %d needs %s > budget %s with %d labels" % (where, j, tot, budget, nl)
    return None


def oracle(case, io):
    py = case["py"]
    if isinstance(io, dict) and "exc" in io:
        return "raised %s %s" % (io["exc"], io.get("msg", ""))
    why = _oracle_layers(py, io["dist"], "distribute")
    if why:
        return why
    if io["force"] is None:
        return "getLayers() reports nothing after a layout"
    why = _oracle_layers(py, io["force"], "getLayers")
    if why:
        return why
    # the engine reports exactly the distributor's layering
    a = [sorted((it[ID_], it[STUB]) for it in row) for row in io["dist"]]
    b = [sorted((it[ID_], it[STUB]) for it in row) for row in io["force"]]
    if a != b:
        return "getLayers() reports a different layering than the distributor"
    for j, row in enumerate(io["force"]):
        for it in row:
            if it[LI] != j:
                return "layerIndex %r of an item reported in layer %d" % (it[LI], j)
    lab = {}
    for j, row in enumerate(io["force"]):
        for it in row:
            if not it[STUB]:
                lab[it[ID_]] = j
    if io["force_li"] != [lab.get(i) for i in range(len(py["labels"]))]:
        return "layerIndex of the caller's nodes %r differs from the reported layers" % (io["force_li"],)
    return None


def nontrivial(case, io):
    return isinstance(io, dict) and "dist" in io and len(io["dist"]) >= 2


def search(rng, tier, mism_cases):
    for c in mism_cases:
        yield c
    for c in gen(rng, "quick"):
        yield c


def shrink_candidates(case):
    py = case["py"]
    labs = py["labels"]
    for k in range(len(labs)):
        q = dict(py)
        q["labels"] = labs[:k] + labs[k + 1:]
        yield _case(case.get("kind", "shrunk"), q)


def extra_evidence(cases, impl_out, model_out):
    hist = {}
    for io in impl_out:
        if isinstance(io, dict) and "dist" in io:
            k = len(io["dist"])
            key = "1" if k == 1 else "2-3" if k <= 3 else "4-9" if k <= 9 else "10+"
            hist[key] = hist.get(key, 0) + 1
    return {"layer_count_histogram": hist}
