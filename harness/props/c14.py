"""C14: nice() only widens a domain, by less than two tick steps, to round end
points -- linear part (scale package) and time part (time package) in one check."""
from harness.combine import combine

combine(globals(), "C14", "c14", ["c14lin", "c14t"])
