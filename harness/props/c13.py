"""C13: linear ticks are round, evenly spaced, complete, in-domain, uniquely labelled."""
import math
from fractions import Fraction as F

from harness import core

ID = "C13"
MODNAME = "c13"
RULE = ("One case = one domain [a,b] (finite doubles, magnitudes 1e-6..1e9 or 0, span >= 1.5e-6 of the magnitude, either "
        "orientation; random, near-equal ends, integer and decimal-looking ends, ends on multiples of the step, spans at powers of "
        "ten and at the step thresholds) and one count m in 1..100 or the default; ticks() and tickFormat() of a LinearScale. "
        "Non-trivial = at least two ticks AND (the step is 2 or 5 times a power of ten, or the domain is reversed, or an end "
        "is negative, or the labels have decimals); distinct by input.")
EXPLANATION = ("Theorems are about coq/Scale/Ticks.v for ALL rational domains and ALL counts m >= 1; the tie checks that "
               "LinearScale.ticks/tickFormat return the same number of ticks, the same values (tolerance min(1e-3*step, 1e-9*magnitude): "
               "the implementation accumulates the step in doubles) and texts that denote exactly the model's decimals. Ambiguity band: "
               "where err is within 1e-9 of a threshold 0.15/0.35/0.75 the doubles may take the other step, and where a domain end is "
               "within 1e-9*max(1,|x/step|) steps of a multiple of the step the doubles' ceil/floor may fall on the other side, i.e. the "
               "first/last tick is present or absent.  coq/Scale/Band.v (ticks_alts) enumerates the finitely many tick lists these "
               "decisions admit; a case is counted `ambiguous` only if the implementation's ticks AND labels equal one of them, "
               "anything else is a mismatch.")
EPS = F(1, 10 ** 9)


def _q(x):
    n, d = float(x).as_integer_ratio()
    return [n, d]


def impl(py):
    from labella.scale import LinearScale
    if py.get("k") == "used":
        # a scale object with a past: ticks, formatter, nice(), ticks again.  Whatever it
        # did before, its ticks must be those of the domain it reports NOW, i.e. equal to
        # the ticks of a fresh scale given that domain (which the main family ties to the model)
        s = LinearScale().domain([py["a"], py["b"]])
        m = py["m"]
        list(s.ticks(m))
        s.tickFormat(m)
        list(s.ticks())
        if py["then"] == "nice":
            s.nice(py["nm"])
        elif py["then"] == "domain":
            s.domain([py["a2"], py["b2"]])
        elif py["then"] == "copy":
            s = s.copy().nice(py["nm"])
        dom = [float(x) for x in s.domain()]
        ticks = [float(t) for t in s.ticks(m)]
        f = s.tickFormat(m)
        fresh = LinearScale().domain(dom)
        fticks = [float(t) for t in fresh.ticks(m)]
        ff = fresh.tickFormat(m)
        return {"dom": dom, "ticks": ticks, "texts": [f(t) for t in ticks],
                "fresh_ticks": fticks, "fresh_texts": [ff(t) for t in fticks]}
    s = LinearScale().domain([py["a"], py["b"]])
    m = py["m"]
    # another scale object, configured AFTER the observed one and asked for the same things with
    # the same count first, nothing being constructed or reconfigured in between: scale objects
    # share nothing (seed C13-f: a class-level memo keyed by the count only)
    _o = LinearScale().domain([3.3, 977.1]).range([5, 6])
    list(_o.ticks(m))
    _o.tickFormat(m)
    list(_o.ticks())
    ticks = [float(t) for t in s.ticks(m)]
    list(_o.ticks(m))
    _o.tickFormat(m)
    f = s.tickFormat(m)
    return {"ticks": ticks, "texts": [f(t) for t in ticks]}


def _case(a, b, m, kind="rand"):
    return rebuild({"kind": kind, "py": {"k": "t", "a": float(a), "b": float(b), "m": m}})


def rebuild(c):
    py = c["py"]
    if py.get("k") == "used":
        return {"kind": c.get("kind", "used"), "py": py, "model": []}
    args = _q(py["a"]) + _q(py["b"]) + [10 if py["m"] is None else py["m"]]
    # 230: the exact model; 232: the admissible outcomes inside the ambiguity band (tie only)
    return {"kind": c.get("kind", "rand"), "py": py, "model": [[230] + args, [232] + args]}


def _mag(rng, lo=-6, hi=9):
    return rng.choice([-1, 1]) * 10 ** rng.uniform(lo, hi)


def _ok(a, b):
    if a == b:
        return False
    for v in (a, b):
        if v != 0 and not (1e-6 <= abs(v) <= 1e9):
            return False
    return abs(b - a) >= 1.5e-6 * max(abs(a), abs(b))


def gen_domain(rng):
    """(a, b, kind) inside the property's quantifier (DESIGN.md Appendix B)"""
    while True:
        t = rng.random()
        if t < 0.30:
            a, b, kind = _mag(rng), _mag(rng), "rand"
        elif t < 0.55:
            a = _mag(rng)
            b = a + rng.choice([-1, 1]) * abs(a) * 10 ** rng.uniform(-5.7, 1)
            kind = "near"
        elif t < 0.65:
            a = float(rng.randrange(-1000, 1000))
            b = a + rng.choice([-1, 1]) * float(rng.randrange(1, 2000))
            kind = "int"
        elif t < 0.75:
            e = rng.randrange(-6, 7)
            a = round(rng.randrange(-999, 1000) * 10.0 ** e, 9)
            b = round(a + rng.choice([-1, 1]) * rng.randrange(1, 999) * 10.0 ** e, 9)
            kind = "decimal"
        elif t < 0.82:
            a = 0.0
            b = _mag(rng)
            kind = "zero-end"
        elif t < 0.90:
            # span / m at a power of ten or at a threshold of the step selection
            m = rng.randrange(1, 101)
            e = rng.randrange(-6, 7)
            r = rng.choice([F(1), F(1), F(4, 3), F(20, 7), F(20, 3)])
            span = float(F(m) * r * F(10) ** e)
            a = rng.choice([0.0, float(rng.randrange(-50, 50)) * 10.0 ** e])
            b = a + span
            if rng.random() < 0.5:
                a, b = b, a
            if _ok(a, b):
                return a, b, "threshold", m
            continue
        else:
            a, b = rng.choice([(0.0, 1.0), (1.0, 0.0), (-1.0, 1.0), (0.0, 100.0), (0.1, 0.7), (0.3, 9.7), (-5.0, 5.0),
                               (1e-6, 2e-6), (1e9, -1e9), (0.0, 1e-6), (123.0, 456.0), (0.12, 0.78), (-0.135, 0.129)])
            kind = "literal"
        if rng.random() < 0.5:
            a, b = b, a
        if _ok(a, b):
            return float(a), float(b), kind, None


def gen(rng, tier):
    n = 4000 if tier == "quick" else 100000
    for m in (None, 1, 2, 3, 5, 10, 100):
        yield _case(0.0, 1.0, m, "literal")
        yield _case(0.3, 9.7, m, "literal")
    for _ in range(n // 10):
        a, b, kind, m = gen_domain(rng)
        a2, b2, _, _ = gen_domain(rng)
        yield rebuild({"kind": "used", "py": {"k": "used", "a": float(a), "b": float(b), "a2": float(a2), "b2": float(b2),
                                              "m": m if m is not None else rng.choice([None, 5, 10, 20]),
                                              "nm": rng.choice([None, 2, 5, 10, 30]),
                                              "then": rng.choice(["nice", "nice", "domain", "copy"])}})
    for _ in range(n):
        a, b, kind, m = gen_domain(rng)
        if m is None:
            m = None if rng.random() < 0.2 else (rng.randrange(1, 101) if rng.random() < 0.7 else rng.randrange(1, 8))
        yield _case(a, b, m, kind)


def decode(m):
    """model output of command 230 -> (step, err, decimals, ticks, fmts)"""
    step = F(m[1], m[2])
    err = F(m[3], m[4])
    n = m[5]
    k = 6
    cnt = m[k]
    k += 1
    ticks = []
    for _ in range(cnt):
        ticks.append(F(m[k], m[k + 1]))
        k += 2
    cnt2 = m[k]
    fm = list(m[k + 1:k + 1 + cnt2])
    return step, err, n, ticks, fm


def decode_alts(m):
    """model output of command 232 -> [(step, decimals, ticks, fmts)]"""
    k = 1
    n_alt = m[k]
    k += 1
    alts = []
    for _ in range(n_alt):
        step = F(m[k], m[k + 1])
        n = m[k + 2]
        k += 3
        cnt = m[k]
        k += 1
        ticks = []
        for _ in range(cnt):
            ticks.append(F(m[k], m[k + 1]))
            k += 2
        cnt2 = m[k]
        fm = list(m[k + 1:k + 1 + cnt2])
        k += 1 + cnt2
        alts.append((step, n, ticks, fm))
    return alts


def parse_text(s):
    """decimal text -> (Fraction, number of decimals)"""
    import re
    if not re.fullmatch(r"-?\d+(\.\d+)?", s):
        return None, None
    return F(s), (len(s.split(".")[1]) if "." in s else 0)


def _diff(io, a, b, step, n, ticks, fm):
    """None if the implementation's ticks and labels are this outcome, else why not"""
    if len(ticks) != len(io["ticks"]):
        return "%d ticks, the model has %d (step %s)" % (len(io["ticks"]), len(ticks), step)
    tol = min(step / 1000, EPS * max(abs(a), abs(b), step)) if step else F(0)
    for i, (v, t) in enumerate(zip(io["ticks"], ticks)):
        if abs(F(v) - t) > tol:
            return "tick %d is %r, the model has %s (step %s)" % (i, v, float(t), step)
    for i, (s, z) in enumerate(zip(io["texts"], fm)):
        val, dec = parse_text(s)
        if val is None:
            return "text %r is not a plain decimal" % s
        if dec != n:
            return "text %r has %d decimals, the model %d" % (s, dec, n)
        if val != F(z, 10 ** n):
            return "text %r denotes %s, the model's label denotes %s" % (s, val, F(z, 10 ** n))
    return None


def compare(case, io, mo):
    if isinstance(io, dict) and "exc" in io:
        return "implementation raised %s %s" % (io["exc"], io.get("msg", ""))
    py = case["py"]
    if py.get("k") == "used":
        return None           # no model call: the oracle compares with a fresh scale of the reported domain
    m = mo[0]
    if m is None or m[0] != 1:
        return "model failed (out of fuel?)"
    step, err, n, ticks, fm = decode(m)
    a, b = F(py["a"]), F(py["b"])
    why = _diff(io, a, b, step, n, ticks, fm)
    if why is None:
        return None
    # not the exact outcome: it must be one of the outcomes the ambiguity band admits
    ma = mo[1] if len(mo) > 1 else None
    if ma is not None and ma[0] == 1:
        for st, nn, tk, ff in decode_alts(ma):
            if _diff(io, a, b, st, nn, tk, ff) is None:
                raise core.Ambiguous()
    return why


def snap_step(d):
    """the number of the form {1,2,5}*10^e nearest to d (a Fraction), or None"""
    if d <= 0:
        return None
    e = math.floor(math.log10(float(d)))
    best = None
    for ee in (e - 1, e, e + 1):
        for c in (1, 2, 5):
            s = F(c) * F(10) ** ee
            if best is None or abs(s - d) < abs(best - d):
                best = s
    return best if abs(best - d) <= F(1, 10 ** 6) * best else None


def oracle(case, io):
    """The property text on the implementation's own output."""
    if isinstance(io, dict) and "exc" in io:
        return "raised %s %s" % (io["exc"], io.get("msg", ""))
    py = case["py"]
    if py.get("k") == "used":
        if io["ticks"] != io["fresh_ticks"] or io["texts"] != io["fresh_texts"]:
            return ("a scale that was used before (ticks, tickFormat, then %s) reports the domain %r but its ticks are %r; "
                    "a fresh scale with that domain gives %r" % (py["then"], io["dom"], io["ticks"][:8], io["fresh_ticks"][:8]))
        py = dict(py, a=io["dom"][0], b=io["dom"][1])
        if py["a"] == py["b"]:
            return None
    m = 10 if py["m"] is None else py["m"]
    lo, hi = sorted((F(py["a"]), F(py["b"])))
    ticks = [F(t) for t in io["ticks"]]
    n = len(ticks)
    if not (math.floor(F(57, 100) * m) <= n <= F(143, 100) * m + 1):
        return "%d ticks for m=%d, allowed %d..%s" % (n, m, math.floor(F(57, 100) * m), float(F(143, 100) * m + 1))
    for x, y in zip(ticks, ticks[1:]):
        if not x < y:
            return "ticks not increasing: %r, %r" % (float(x), float(y))
    if n >= 2:
        step = snap_step(ticks[1] - ticks[0])
        if step is None:
            return "spacing %r is not 1, 2 or 5 times a power of ten" % float(ticks[1] - ticks[0])
        tol = step / 1000
        for x, y in zip(ticks, ticks[1:]):
            if abs((y - x) - step) > 2 * tol:
                return "uneven spacing %r (step %s)" % (float(y - x), step)
        for t in ticks:
            if abs(t / step - round(t / step)) > F(1, 1000):
                return "tick %r is not a multiple of the step %s" % (float(t), step)
            if not (lo - tol <= t <= hi + tol):
                return "tick %r outside the domain [%r, %r]" % (float(t), float(lo), float(hi))
        if ticks[0] - step >= lo + tol:
            return "the multiple %r of the step lies in the domain but is missing" % float(ticks[0] - step)
        if ticks[-1] + step <= hi - tol:
            return "the multiple %r of the step lies in the domain but is missing" % float(ticks[-1] + step)
    if len(set(io["texts"])) != len(io["texts"]):
        return "two ticks share a label: %r" % (io["texts"],)
    for t, s in zip(ticks, io["texts"]):
        val, _ = parse_text(s)
        if val is None:
            return "label %r is not a number" % s
        if n >= 2 and abs(val - t) > step / 1000:
            return "label %r reads back as %s, the tick is %r (step %s)" % (s, val, float(t), step)
    return None


def nontrivial(case, io):
    if not isinstance(io, dict) or len(io.get("ticks", [])) < 2:
        return False
    py = case["py"]
    if py.get("k") == "used":
        py = dict(py, a=io["dom"][0], b=io["dom"][1])
    d = F(io["ticks"][1]) - F(io["ticks"][0])
    st = snap_step(d)
    two_or_five = st is not None and (st / F(10) ** math.floor(math.log10(float(st)) + 1e-9)) != 1
    return (two_or_five or py["a"] > py["b"] or min(py["a"], py["b"]) < 0
            or any("." in t for t in io["texts"]))


def search(rng, tier, mism_cases):
    for c in mism_cases:
        yield c
    for c in gen(rng, "quick"):
        yield c


def shrink_candidates(case):
    py = case["py"]
    for m in (None, 1, 2, 5, 10):
        if m != py["m"]:
            yield _case(py["a"], py["b"], m, case.get("kind", "rand"))
    for d in (0, 3, 6):
        a, b = round(py["a"], d), round(py["b"], d)
        if (a, b) != (py["a"], py["b"]) and _ok(a, b):
            yield _case(a, b, py["m"], case.get("kind", "rand"))


LEVEL_TEXT = ("Machine-checked Coq theorems for ALL rational domains (either order) and ALL counts m >= 1 on an exact model of "
              "d3_scale_linearTickRange/drange/tickFormat: the decimal logarithm search and the generator loop never run out of fuel; "
              "the step is 1, 2 or 5 times a power of ten; ticks are multiples of it, exactly one step apart, inside the domain, "
              "none missing, between floor(0.57 m) and 1.43 m + 1 of them; each label (round-half-even to the step's decimals) "
              "denotes its tick exactly, so labels are distinct.  Partial by design: the drift of the implementation's accumulated "
              "double ticks is not proved; the tie bounds it on every run.")
LEVEL_NOTE = ("Trusted: Coq kernel; extraction re-checked on a slice by vm_compute; the correspondence harness and its generators. "
              "Modelled, not verified: labella/scale.py; doubles are exact rationals in the model, math.floor(math.log(x)/math.log(10)) is "
              "the exact floor(log10 x), Python's '{:.nf}' is round-half-even of the exact value.")
TECHNIQUE = "Coq proof (fuelled search with proved fuel bound, loop invariant, lra/nra case split at the thresholds) + model/implementation correspondence"
