"""C07, "shows the datum's text verbatim", SVG side: the raw character data of every label's
<text class="label-text"> element in the exported bytes against the model's serialisation
(coq/Text/Xml.v, API 503), and the text an XML parser reads back against the datum's text.
Part of the C07 check (dispatched from c07.py on py["fam"] == "xml")."""
import re

RULE = ("[xml] label texts over ASCII, the markup characters & < >, quotes, blanks at the ends, Latin-1, BMP and astral code "
        "points, combining marks and long mixed strings; the bytes between <text class=\"label-text\" ...> and </text> of "
        "the SVG export must be the model's serialisation of the datum's text (named entities, decimal character references, "
        "everything else unchanged) and an XML parser must read the datum's text back. Texts are sequences of XML characters "
        "without carriage returns (tab, newline, U+0020..U+D7FF, U+E000..U+FFFD, astral planes): C0 controls, surrogates and "
        "U+FFFE/FFFF cannot occur in a well-formed XML document at all, and every XML parser turns a carriage return into a "
        "newline - ElementTree writes all of these raw, so for such texts no SVG writer built on it can be read back verbatim "
        "(outside the documented domain; the model's own reader xml_read does return them). Non-trivial = a text that needs escaping.")
ALPH = ["a", "Z", " ", "\t", "\n", "&", "<", ">", "\"", "'", ";", "#", "&amp;", "&#38;", "é", "ß", "€", "中", "文", "😀", "𝔘",
        "é", " ", "x", "1", "-", "​", "א", "�", "]]>", "<!--", "\\", "%", "$"]


def _text_ints(s):
    return [len(s)] + [ord(c) for c in s]


def with_model(c):
    c["model"] = [[503] + _text_ints(t) for t in c["py"]["texts"]]
    return c


def impl(py):
    import datetime
    from xml.etree import ElementTree
    from labella.timeline import TimelineSVG
    data = []
    for i, t in enumerate(py["texts"]):
        data.append({"time": datetime.datetime(2020, 1, 1) + datetime.timedelta(days=17 * i), "width": 40, "text": t})
    svg = TimelineSVG(data, {"direction": py.get("direction", "right")}).export()
    raw = svg.decode("ascii")
    raws = re.findall(r'<text class="label-text"[^>]*>(.*?)</text>', raw, re.S)
    root = ElementTree.fromstring(svg)
    parsed = [e.text for e in root.iter("text") if e.get("class") == "label-text"]
    return {"raw": raws, "parsed": parsed, "ascii": True}


def make(rng):
    texts = []
    for _ in range(rng.randrange(1, 6)):
        n = rng.choice([1, 2, 3, 5, 8, 20])
        t = "".join(rng.choice(ALPH) for _ in range(n))
        if rng.random() < 0.15:
            t = "".join(chr(rng.choice([rng.randrange(32, 127), rng.randrange(160, 0x2000), rng.randrange(0x10000, 0x1F000)]))
                        for _ in range(n))
        if not t.strip("\x00"):
            t = "x"
        texts.append(t)
    return with_model({"kind": "xml/random", "py": {"fam": "xml", "texts": texts, "direction": rng.choice(["up", "down", "left", "right"])}})


def gen(rng, tier):
    yield with_model({"kind": "xml/literal", "py": {"fam": "xml", "texts": ["a<b>&c", "</text>", "&amp;", "€100 & 😀", " lead", "x"]}})
    for _ in range(60 if tier == "quick" else 1500):
        yield make(rng)


def rebuild(c):
    c = dict(c)
    c.setdefault("kind", "xml/corpus")
    return with_model(c)


def oracle(case, io):
    if "exc" in io:
        return "export raised %s: %s" % (io["exc"], io.get("msg", ""))
    # label boxes are drawn in the engine's node order (sorted by time = input order here)
    if io["parsed"] != case["py"]["texts"]:
        return "svg: the label texts read back %r are not the data's texts %r" % (io["parsed"], case["py"]["texts"])
    return None


def nontrivial(case, io):
    return any(any(c in "&<>" or ord(c) > 127 for c in t) for t in case["py"]["texts"])


def compare(case, io, mo):
    if "exc" in io:
        return "implementation raised %s %s" % (io["exc"], io.get("msg", ""))
    texts = case["py"]["texts"]
    if len(io["raw"]) != len(texts):
        return "%d label-text elements for %d texts" % (len(io["raw"]), len(texts))
    for t, raw, m in zip(texts, io["raw"], mo):
        if m is None or m[0] != 1:
            return "model rejected the text %r" % t
        n = m[1]
        want = "".join(chr(c) for c in m[2:2 + n])
        rest = m[2 + n:]
        if rest[0] != 1 or "".join(chr(c) for c in rest[2:2 + rest[1]]) != t:
            return "the model's reader does not return the text %r" % t
        if raw != want:
            return "text %r is serialised as %r, model %r" % (t, raw, want)
    return None


def shrink_candidates(case):
    ts = case["py"]["texts"]
    for i in range(len(ts)):
        if len(ts) > 1:
            q = dict(case["py"])
            q["texts"] = ts[:i] + ts[i + 1:]
            yield with_model({"kind": case["kind"], "py": q})
        if len(ts[i]) > 1:
            for cut in (ts[i][:len(ts[i]) // 2], ts[i][len(ts[i]) // 2:]):
                q = dict(case["py"])
                q["texts"] = ts[:i] + [cut] + ts[i + 1:]
                yield with_model({"kind": case["kind"], "py": q})
