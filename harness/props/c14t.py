"""C14T: the TIME part of C14 - TimeScale.nice only widens, by less than two tick
steps, to calendar-aligned end points (labella/scale.py:422-456).  The linear
part of C14 belongs to the scale package; this module is meant to be merged
into harness/props/c14.py by the integrator."""
import datetime as _d

from harness.props import c17, c16

ID = "C14T"
MODNAME = "c14t"
CASE_TIMEOUT = 20
to_us, of_us = c17.to_us, c17.of_us
UNITS = c17.UNITS
RULE = ("time domains of millisecond resolution in years 1900-2200 with spans from 10 ms to 200 years (log-uniform), either "
        "orientation; nice() (default count 10) and nice(m), m in 1..50; ends placed on month ends, leap days, Saturdays / "
        "Sundays, decade and century boundaries, and 1 ms either side of unit boundaries; spans with span/m at the table "
        "steps (multi-unit skips: 5/15/30 s and min, 3/6/12 h, 2 d, 3 months, 2/5/10/20/50/100 years). One case = one "
        "domain and one count. non-trivial = nice moved at least one end; distinct by input.")
EXPLANATION = ("Theorems are about coq/Time/TimeNice.v on top of the tick-method and interval models; the tie checks that "
               "TimeScale.nice produces exactly the model's two instants (same ambiguity band as C16 for the float "
               "decisions of tickMethod).")


def impl(py):
    from labella.scale import TimeScale
    a, b = of_us(py["dom"][0]), of_us(py["dom"][1])
    s = TimeScale()
    s.domain([a, b])
    # another scale object is configured and used in between: scale objects share nothing
    import datetime as _dt
    _o = TimeScale().domain([_dt.datetime(2001, 2, 3, 4, 5), _dt.datetime(2031, 7, 9)]).range([7, 1234])
    _o.ticks(7)
    _o.nice()
    _o2 = TimeScale().domain([_dt.datetime(2001, 2, 3, 4, 5, 6, 1000), _dt.datetime(2001, 2, 3, 4, 5, 6, 777000)])
    try:
        _o2.ticks(py["m"]) if py.get("m") is not None else _o2.ticks()      # the same count, a sub-second span
    except Exception:  # noqa: BLE001
        pass
    out = {}
    # the method tickMethod picks for the ORIGINAL domain (public method of TimeScale)
    meth = None
    try:
        from labella.scale import d3_scaleExtent, dt2milli
        meth = s.tickMethod(list(map(dt2milli, d3_scaleExtent(s.domain()))), _m(py))
    except Exception:  # noqa
        meth = None
    try:
        out["ticks"] = [to_us(x) for x in (s.ticks() if py["m"] is None else s.ticks(py["m"]))]
    except Exception as e:  # noqa
        out["ticks"] = "raise:" + type(e).__name__
    try:
        if py["m"] is None:
            s.nice()
        else:
            s.nice(py["m"])
        out["nice"] = [to_us(x) for x in s.domain()]
    except Exception as e:  # noqa
        out["nice"] = "raise:" + type(e).__name__
    # the ticks of the NICED domain (same count): what "tick step" is measured on when
    # the original domain has fewer than two ticks (oracle only; not part of the tie)
    try:
        out["nticks"] = [to_us(x) for x in (s.ticks() if py["m"] is None else s.ticks(py["m"]))]
    except Exception as e:  # noqa
        out["nticks"] = "raise:" + type(e).__name__
    # ... and under the SAME method as the original domain, exactly as TimeScale.ticks
    # enumerates them (interval.range(lo, hi + 1 ms, skip)): these contain both new ends
    try:
        from labella.scale import d3_scaleExtent, dt2milli, milli2dt
        ext = list(map(dt2milli, d3_scaleExtent(s.domain())))
        skip = meth[1] if meth[1] >= 1 else 1
        out["nticks_same"] = [to_us(x) for x in meth[0].range(milli2dt(ext[0]), milli2dt(ext[1] + 1), skip)]
    except Exception as e:  # noqa
        out["nticks_same"] = "raise:" + type(e).__name__
    return out


def _m(py):
    return 10 if py["m"] is None else py["m"]


def _mk(py, kind="nice"):
    a, b = py["dom"]
    return {"kind": kind, "py": py,
            "model": [[152, a, b, _m(py)], [151, min(a, b), max(a, b), _m(py)]]}


def rebuild(c):
    return _mk(c["py"], c.get("kind", "nice"))


def compare(case, io, mo):
    from harness import core
    if isinstance(io, dict) and "exc" in io:
        return "implementation raised %s %s" % (io["exc"], io.get("msg", ""))
    py = case["py"]
    m = mo[0]
    if m is None or m[0] == -999:
        return "model rejected the input"
    want = "raise" if m[0] == 0 else ("nofuel" if m[0] == -1 else [m[1], m[2]])
    got = io["nice"] if not isinstance(io["nice"], str) else "raise"
    if got != want:
        if c16.ambiguous({"dom": py["dom"], "m": _m(py)}):
            raise core.Ambiguous()
        return "nice(%s) on [%s, %s]: impl %s model %s" % (
            py["m"], of_us(py["dom"][0]).isoformat(), of_us(py["dom"][1]).isoformat(),
            got if isinstance(got, str) else [of_us(x).isoformat() for x in got],
            want if isinstance(want, str) else [of_us(x).isoformat() for x in want])
    return None


def oracle(case, io):
    """the property statement (time part), on the implementation's output"""
    if isinstance(io, dict) and "exc" in io:
        return "raised %s" % io["exc"]
    py = case["py"]
    a, b = py["dom"]
    n = io["nice"]
    if isinstance(n, str):
        return "nice(%s) raised %s" % (py["m"], n[6:])
    na, nb = n
    # never reverses the orientation, never moves an end inward
    if (a < b and not na < nb) or (a > b and not na > nb):
        return "orientation reversed: [%s, %s] -> [%s, %s]" % tuple(of_us(x).isoformat() for x in (a, b, na, nb))
    lo, hi, nlo, nhi = min(a, b), max(a, b), min(na, nb), max(na, nb)
    if nlo > lo or nhi < hi:
        return "an end moved inward: [%s, %s] -> [%s, %s]" % tuple(of_us(x).isoformat() for x in (lo, hi, nlo, nhi))
    t = io["ticks"]
    if not (isinstance(t, list) and len(t) >= 2):
        # fewer than two ticks on the original domain (small m): the tick step is read
        # off the ticks of the niced domain (same m), which contain both new ends
        # (Props/C14.v C14T_tnice_row_bounds)
        t = io.get("nticks_same")
        if isinstance(t, list) and len(t) >= 2 and isinstance(n, list):
            if nlo not in t or nhi not in t:
                return "the ticks of the niced domain (same method) do not contain both new ends %s, %s" % (
                    of_us(nlo).isoformat(), of_us(nhi).isoformat())
        else:
            t = io.get("nticks")
    if isinstance(t, list) and len(t) >= 2:
        gaps = [y - x for x, y in zip(t, t[1:])]
        step = max(gaps)
        if lo - nlo >= 2 * step or nhi - hi >= 2 * step:
            return "an end moved by two tick steps or more: [%s, %s] -> [%s, %s], tick step %s" % (
                of_us(lo).isoformat(), of_us(hi).isoformat(), of_us(nlo).isoformat(), of_us(nhi).isoformat(),
                _d.timedelta(microseconds=step))
        # aligned to the calendar at least as coarsely as the ticks
        g = min(gaps)
        for x in (nlo, nhi):
            d = of_us(x)
            bad = ((g >= 10 ** 6 and d.microsecond) or (g >= 60 * 10 ** 6 and d.second) or
                   (g >= 3600 * 10 ** 6 and d.minute) or (g >= 86400 * 10 ** 6 and d.hour) or
                   (g >= 28 * 86400 * 10 ** 6 and d.day != 1) or (g >= 365 * 86400 * 10 ** 6 and d.month != 1))
            if bad:
                return "nice end %s is aligned more finely than the ticks (spacing %s)" % (
                    d.isoformat(), _d.timedelta(microseconds=g))
            if g < 10 ** 6 and x % 1000:
                return "nice end %s is not on a millisecond" % d.isoformat()
    return None


def nontrivial(case, io):
    return isinstance(io, dict) and isinstance(io.get("nice"), list) and io["nice"] != list(case["py"]["dom"])


def _case(rng, a, span_ms, kind, m=None):
    r = c16._clip(a, a + span_ms * 1000)
    if r is None:
        return None
    a, b = r
    if rng.random() < 0.3:
        a, b = b, a
    if m is None:
        m = None if rng.random() < 0.3 else rng.randrange(1, 51)
    return _mk({"dom": [a, b], "m": m}, kind)


def gen(rng, tier):
    import math
    quick = tier == "quick"
    n = 1 if quick else 16
    lo_ms, hi_ms = 10, 200 * 365 * 86400 * 1000
    out = []
    for _ in range(1300 * n):
        span = int(math.exp(rng.uniform(math.log(lo_ms), math.log(hi_ms))))
        out.append(_case(rng, c17.rand_instant(rng), span, "log-uniform"))
    ends = [d for d in c17.special_days()]
    for _ in range(500 * n):             # ends on month ends / firsts / leap days, Saturdays, Sundays
        d = rng.choice(ends)
        if rng.random() < 0.4:
            d = d + _d.timedelta(days=(5 - d.weekday()) % 7 + rng.choice([0, 1]))   # Saturday / Sunday
        if not (1900 <= d.year <= 2200):
            continue
        a = to_us(d) + rng.choice([0, 0, c17.DAY - 1000, c17.rand_ms(rng)])
        span = int(math.exp(rng.uniform(math.log(3600 * 1000), math.log(20 * 365 * 86400 * 1000))))
        out.append(_case(rng, a, span, "calendar-ends"))
    for _ in range(200 * n):             # decade / century boundaries
        y = rng.choice([1900, 1910, 1950, 1990, 2000, 2010, 2050, 2100, 2190, 2200])
        a = to_us(_d.datetime(y, 1, 1)) + rng.choice([-1000, 0, 1000, c17.rand_ms(rng), -c17.DAY])
        span = int(math.exp(rng.uniform(math.log(86400 * 1000), math.log(hi_ms))))
        out.append(_case(rng, a, span, "decades"))
    for _ in range(300 * n):             # 1 ms either side of unit boundaries
        u = rng.choice(UNITS)
        a = c17.rand_boundary(rng, u) + rng.choice([-1000, 0, 1000])
        span = max(10, int(c17.ULEN[u] // 1000 * rng.choice([0.5, 1, 2, 7, 30]) * (0.5 + rng.random())))
        out.append(_case(rng, a, span, "near-boundary"))
    for _ in range(450 * n):             # span/m at the table steps (exercises the skip loops)
        m = rng.randrange(1, 51)
        i = rng.randrange(len(c16.STEPS))
        target = c16.STEPS[i] * rng.choice([1.0, 1.2, 0.9, 1.5])
        if rng.random() < 0.3:
            target = c16.STEPS[-1] * rng.choice([1, 2, 3, 5, 10, 20])
        span = max(10, min(int(target * m), hi_ms))
        out.append(_case(rng, c17.rand_instant(rng), span, "table-step", m))
    for c in out:
        if c is not None and abs(c["py"]["dom"][1] - c["py"]["dom"][0]) >= 10000:
            yield c


def search(rng, tier, mism_cases):
    for c in mism_cases:
        yield c
    for c in gen(rng, "quick"):
        yield c


LEVEL_TEXT = ("Machine-checked Coq theorems on the model of TimeScale.nice for ALL domains (years 2..9997) and counts: the "
              "lower end only moves down and the upper end only moves up (hence the orientation is kept), each new end is a "
              "boundary of the unit chosen by the tick-method table whose unit number is divisible by the skip, and the "
              "skip loops end within skip rounds (fuel never runs out), and each end moves outward by less than two tick steps of the "
              "original domain's ticks (C14T_tnice_lt_two_ticks: all tick gaps lie in [g, 2g] and each move is below 2g, every "
              "row of the method table, both orientations). Totality on years 1900-2200 is C11_tnice_total.")
LEVEL_NOTE = ("Trusted: Coq kernel; extraction re-checked on a slice by vm_compute; the correspondence harness. Modelled, not "
              "verified: labella/scale.py, d3_time.py; doubles as exact rationals (ambiguity bands counted).")
TECHNIQUE = "Coq proof (loop invariants on top of the C17/C16 theory; per-row tick-gap bounds) + model/implementation correspondence"
