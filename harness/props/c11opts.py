"""C11, option dictionaries: Timeline.__init__'s merge of the caller's options with the
defaults (coq/Render/Options.v: tl_merge, resolve) against labella/timeline.py.
Part of the C11 check (dispatched from c11.py on py["fam"] == "options")."""
import copy
from fractions import Fraction

TOP = ["margin", "initialWidth", "initialHeight", "scale", "domain", "direction", "dotRadius", "layerGap", "labella",
       "timeFn", "textFn", "dotColor", "labelBgColor", "labelTextColor", "linkColor", "labelPadding", "textXOffset",
       "textYOffset", "showTicks", "borderColor", "showBorder", "latex"]
SIDES = ["left", "right", "top", "bottom"]
LATEX = ["fontsize", "borderThickness", "axisThickness", "tickThickness", "linkThickness", "tickCross", "preamble",
         "latexmkOptions", "reproducible"]
ENGINE = ["nodeSpacing", "minPos", "maxPos", "algorithm", "density", "stubWidth", "lineSpacing", "direction"]
SUBKEYS = {"margin": SIDES, "labelPadding": SIDES, "latex": LATEX, "labella": ENGINE}
DIRS = ["up", "down", "left", "right"]
ALGS = ["overlap", "simple", "none"]
COLOURS = ["dotColor", "labelBgColor", "labelTextColor", "linkColor", "borderColor"]
FUN = {"__fun__": 1}

RULE = ("[options] user option dicts: None, {}, random subsets of the 22 documented top-level keys with values of the documented "
        "kinds (numbers, strings, booleans, colour strings / lists / callables, complete margin and labelPadding dicts, partial "
        "latex and labella dicts, a LinearScale or TimeScale object, undocumented extra keys) plus a malformed stream (partial "
        "margin / labelPadding, non-dict latex / labella, unknown direction or algorithm, empty colour list): the merged dict "
        "self.options (command 721) and every value the renderers and the engine read from it (command 720) are compared with "
        "the implementation's, and the exception class where the model raises; the composition export_docs = options ; whole "
        "pipeline (command 722) must return both documents exactly when both real exports succeed. Non-trivial = at least two keys given.")


# ------------------------------------------------------------ encoding ---
def _q(x):
    f = Fraction(x)
    return [f.numerator, f.denominator]


def _text(s):
    return [len(s)] + [ord(c) for c in s]


def _key(name, table, extra):
    if name in table:
        return table.index(name)
    return 100 + extra.index(name)


def _extras(spec):
    """undocumented key strings of a spec, in a canonical order"""
    out = set()
    for k, v in (spec or {}).items():
        if k not in TOP:
            out.add(k)
        if isinstance(v, dict) and "__fun__" not in v and "__scale__" not in v:
            for k2 in v:
                if k2 not in SUBKEYS.get(k, []):
                    out.add(k2)
    return sorted(out)


def _oval(v, table, extra, depth=0):
    if v is None:
        return [0]
    if isinstance(v, bool):
        return [1, 1 if v else 0]
    if isinstance(v, (int, float)):
        return [2] + _q(v)
    if isinstance(v, str):
        return [3] + _text(v)
    if isinstance(v, list):
        out = [4, len(v)]
        for s in v:
            out += _text(s)
        return out
    if isinstance(v, dict) and "__fun__" in v:
        return [5]
    if isinstance(v, dict) and "__scale__" in v:
        return [7, 1 if v["__scale__"] == "linear" else 0, CALLER_SCALE_ID]
    if isinstance(v, dict) and depth == 0:
        out = [6, len(v)]
        for k, x in v.items():
            out += [_key(k, table, extra)] + _oval(x, [], extra, 1)
        return out
    raise ValueError("value outside the modelled universe: %r" % (v,))


def _user(spec):
    if spec is None:
        return [0]
    extra = _extras(spec)
    out = [1, len(spec)]
    for k, v in spec.items():
        out += [_key(k, TOP, extra)] + _oval(v, SUBKEYS.get(k, []), extra)
    return out


# identities of scale objects in the model: 0 = labella.timeline.DEFAULT_OPTIONS["scale"],
# 1 = the object the caller passes, 2 = the TimeScale the constructor under test creates
CALLER_SCALE_ID = 1
FRESH_SCALE_ID = 2


# the data impl() builds: three items, numeric for a LinearScale, date/datetime otherwise
LIN_DATA = [(1.5, 30), (7.25, 40), (3, 20)]
TIME_DATA = [("T", 1580450400000000, 30), ("T", 1583020800000000, 40), ("D", (2020, 2, 10), 20)]   # 2020-01-31T06:00, 2020-03-01, 2020-02-10


def _is_linear(spec):
    return isinstance((spec or {}).get("scale"), dict) and (spec or {})["scale"].get("__scale__") == "linear"


def _export_call(py):
    """command 722: export_docs = resolve ; axis ; engine ; both emitters, status only"""
    a = [722, FRESH_SCALE_ID] + _user(py["opts"]) + [2020, 1, 1]
    if _is_linear(py["opts"]):
        a += [len(LIN_DATA)]
        for t, w in LIN_DATA:
            a += [0] + _q(t) + _q(w)
    else:
        a += [len(TIME_DATA)]
        for kind, v, w in TIME_DATA:
            a += ([2, v] if kind == "T" else [1] + list(v)) + _q(w)
    return a


def model_calls(py):
    u = [FRESH_SCALE_ID] + _user(py["opts"])
    return [[720] + u, [721] + u, _export_call(py)]


def with_model(c):
    c["model"] = model_calls(c["py"])
    return c


# ------------------------------------------------------------ decoding ---
class _R:
    def __init__(self, m):
        self.m, self.k = m, 0

    def z(self):
        v = self.m[self.k]
        self.k += 1
        return v

    def q(self):
        n, d = self.z(), self.z()
        return Fraction(n, d)

    def text(self):
        n = self.z()
        return "".join(chr(self.z()) for _ in range(n))

    def texts(self):
        return [self.text() for _ in range(self.z())]

    def optq(self):
        return self.q() if self.z() else None

    def colour(self):
        t = self.z()
        return self.text() if t == 0 else (self.texts() if t == 1 else "FUN")

    def oval(self, table, extra):
        t = self.z()
        if t == 0:
            return None
        if t == 1:
            return bool(self.z())
        if t == 2:
            return self.q()
        if t == 3:
            return self.text()
        if t == 4:
            return self.texts()
        if t == 5:
            return "FUN"
        if t == 7:
            lin = self.z()
            self.z()                  # object identity: compared through the resolved record
            return "SCALE:linear" if lin else "SCALE:time"
        n = self.z()
        d = {}
        for _ in range(n):
            k = self.z()
            name = table[k] if k < len(table) else extra[k - 100]
            d[name] = self.oval([], extra)
        return d


def dec_resolved(m):
    r = _R(m[1:])
    out = {"direction": DIRS[r.z()]}
    for k in ("initialWidth", "initialHeight", "m_left", "m_right", "m_top", "m_bottom", "layerGap", "p_left", "p_right",
              "p_top", "p_bottom", "dotRadius"):
        out[k] = r.q()
    for k in ("showTicks", "showBorder", "tickCross"):
        out[k] = bool(r.z())
    for k in COLOURS:
        out[k] = r.colour()
    out["algorithm"] = ALGS[r.z()]
    out["minPos"] = r.optq()
    out["maxPos"] = r.optq()
    out["density"] = r.q()
    out["nodeSpacing"] = r.q()
    out["stubWidth"] = r.q()
    out["lineSpacing"] = r.optq()
    out["linear"] = bool(r.z())
    out["own_scale"] = bool(r.z())
    out["scale_id"] = r.z()
    return out


def dec_dict(m, extra):
    r = _R(m[1:])
    n = r.z()
    d = {}
    for _ in range(n):
        k = r.z()
        name = TOP[k] if k < len(TOP) else extra[k - 100]
        d[name] = r.oval(SUBKEYS.get(name, []), extra)
    return d


# ---------------------------------------------------------------- impl ---
def _real(v, objs):
    """JSON spec value -> the Python object handed to labella"""
    if isinstance(v, dict) and "__fun__" in v:
        return lambda d: "#123456"
    if isinstance(v, dict) and "__scale__" in v:
        from labella.scale import LinearScale, TimeScale
        s = LinearScale() if v["__scale__"] == "linear" else TimeScale()
        objs.append(s)
        return s
    if isinstance(v, dict):
        return {k: _real(x, objs) for k, x in v.items()}
    if isinstance(v, list):
        return list(v)
    return v


def _canon(v):
    """a value found in tl.options -> the decoded form of the model's oval"""
    from labella.scale import LinearScale, TimeScale
    if isinstance(v, LinearScale):
        return "SCALE:linear"
    if isinstance(v, TimeScale):
        return "SCALE:time"
    if callable(v):
        return "FUN"
    if isinstance(v, dict):
        return {k: _canon(x) for k, x in v.items()}
    if isinstance(v, (list, tuple)):
        return [str(x) for x in v]
    if isinstance(v, bool) or v is None or isinstance(v, str):
        return v
    if isinstance(v, (int, float)):
        f = Fraction(v)
        return [f.numerator, f.denominator]
    return "OTHER:%s" % type(v).__name__


def _snapshot(v):
    if isinstance(v, dict):
        return {k: _snapshot(x) for k, x in v.items()}
    if isinstance(v, list):
        return [_snapshot(x) for x in v]
    return v if isinstance(v, (int, float, str, bool, type(None))) else id(v)


def impl(py):
    import datetime
    from labella.force import Force
    from labella.timeline import TimelineSVG, TimelineTex
    import labella.timeline as TL
    out = {}
    spec = py["opts"]
    linear = isinstance((spec or {}).get("scale"), dict) and (spec or {})["scale"].get("__scale__") == "linear"
    for kind, cls in (("svg", TimelineSVG), ("tex", TimelineTex)):
        objs = []
        opts = None if spec is None else _real(spec, objs)
        before = _snapshot(opts)
        if linear:
            data = [{"time": t, "width": w} for t, w in LIN_DATA]
            data[0]["text"], data[1]["text"] = "a", "b"
        else:
            data = [{"time": datetime.datetime(2020, 1, 31, 6), "width": 30, "text": "a"},
                    {"time": datetime.datetime(2020, 3, 1), "width": 40, "text": "b"},
                    {"time": datetime.date(2020, 2, 10), "width": 20}]          # = TIME_DATA
        defaults_before = _snapshot(TL.DEFAULT_OPTIONS)
        r = {}
        try:
            tl = cls(data, opts)
        except Exception as e:  # noqa: BLE001
            out[kind] = {"exc": type(e).__name__, "stage": "init", "msg": str(e)[:120]}
            continue
        r["options"] = _canon(tl.options)
        r["direction"] = tl.direction
        r["caller_dict_unchanged"] = _snapshot(opts) == before
        r["own_scale"] = (opts is None) or not any(tl.options["scale"] is o for o in objs)
        r["scale_id"] = (0 if tl.options["scale"] is TL.DEFAULT_OPTIONS["scale"] else
                         CALLER_SCALE_ID if any(tl.options["scale"] is o for o in objs) else FRESH_SCALE_ID)
        r["shares_default_scale"] = tl.options["scale"] is TL.DEFAULT_OPTIONS["scale"]
        r["shares_default_labella"] = tl.options["labella"] is TL.DEFAULT_OPTIONS["labella"]
        r["shares_caller_labella"] = isinstance(opts, dict) and tl.options["labella"] is opts.get("labella")
        try:
            f = Force(tl.options["labella"])
            r["engine"] = _canon({k: f.options.get(k) for k in ENGINE[:7]})
        except Exception as e:  # noqa: BLE001
            r["engine_exc"] = type(e).__name__
        try:
            txt = tl.export()
            r["exported"] = len(txt) > 0
        except Exception as e:  # noqa: BLE001
            r["exc"] = type(e).__name__
            r["stage"] = "export"
            r["msg"] = str(e)[:120]
        r["defaults_unchanged"] = _snapshot(TL.DEFAULT_OPTIONS) == defaults_before
        out[kind] = r
    return out


# ----------------------------------------------------------- generator ---
def _colour(rng):
    return rng.choice(["#0af", "#00aaff", "0AF", "#222", ["#111", "#22cc88", "#f00"], ["#abc"], dict(FUN)])


def _wellformed(rng):
    r = rng.random()
    if r < 0.08:
        return None
    if r < 0.16:
        return {}
    o = {}
    keys = rng.sample(TOP, rng.choice([1, 2, 3, 5, 8, 12]))
    for k in keys:
        if k in ("margin", "labelPadding"):
            o[k] = {s: rng.choice([0, 2, 5, 20, 35.5]) for s in rng.sample(SIDES, 4)}
        elif k in ("initialWidth", "initialHeight"):
            o[k] = rng.choice([200, 400, 804, 1200.5])
        elif k == "scale":
            o[k] = {"__scale__": rng.choice(["linear", "time"])}
        elif k == "domain":
            o[k] = None
        elif k == "direction":
            o[k] = rng.choice(DIRS)
        elif k == "dotRadius":
            o[k] = rng.choice([1, 3, 4.5])
        elif k == "layerGap":
            o[k] = rng.choice([1, 20, 60])
        elif k == "labella":
            lab = {}
            for e in rng.sample(ENGINE[:7], rng.randrange(0, 5)):
                lab[e] = {"nodeSpacing": rng.choice([0, 1, 3, 8]), "minPos": rng.choice([None, 0, -50, 20]),
                          "maxPos": rng.choice([None, 100, 340, 2000]), "algorithm": rng.choice(ALGS),
                          "density": rng.choice([0.3, 0.75, 1]), "stubWidth": rng.choice([0, 1, 2]),
                          "lineSpacing": rng.choice([1, 2, 4])}[e]
            if rng.random() < 0.15:
                lab["direction"] = rng.choice(DIRS)      # overwritten by the timeline's direction
            if rng.random() < 0.1:
                lab["somethingElse"] = 5
            o[k] = lab
        elif k in ("timeFn",):
            continue                                      # the data accessor stays the default
        elif k == "textFn":
            if rng.random() < 0.5:
                o[k] = None                               # handled explicitly by Timeline.textFn
            continue
        elif k in COLOURS:
            o[k] = _colour(rng)
        elif k in ("textXOffset", "textYOffset"):
            o[k] = rng.choice(["0.2em", "0.9em"])
        elif k in ("showTicks", "showBorder"):
            o[k] = rng.choice([True, False, 0, 1])
        elif k == "latex":
            lx = {}
            for e in rng.sample(LATEX, rng.randrange(0, 4)):
                lx[e] = {"fontsize": "9pt", "borderThickness": "thin", "axisThickness": "thin", "tickThickness": "thin",
                         "linkThickness": "thin", "tickCross": rng.choice([True, False]), "preamble": "",
                         "latexmkOptions": [], "reproducible": rng.choice([True, False])}[e]
            o[k] = lx
    if rng.random() < 0.1:
        o["notAnOption"] = rng.choice([1, "x", None])
    return o


def _malformed(rng):
    o = _wellformed(rng) or {}
    kind = rng.choice(["partial_margin", "partial_padding", "latex_not_dict", "labella_not_dict", "bad_direction",
                       "bad_algorithm", "empty_colour_list", "margin_not_dict", "bad_colour", "bad_border_unused"])
    if kind == "partial_margin":
        o["margin"] = {s: 10 for s in rng.sample(SIDES, rng.randrange(0, 4))}
    elif kind == "partial_padding":
        o["labelPadding"] = {s: 1 for s in rng.sample(SIDES, rng.randrange(0, 4))}
    elif kind == "latex_not_dict":
        o["latex"] = rng.choice([5, None, True])
    elif kind == "labella_not_dict":
        o["labella"] = rng.choice([5, None])
    elif kind == "bad_direction":
        o["direction"] = rng.choice(["north", "", None, 3])
    elif kind == "bad_algorithm":
        o.setdefault("labella", {})
        if not isinstance(o["labella"], dict):
            o["labella"] = {}
        # the model rejects an unknown algorithm when the options are read; the code only when the
        # distributor has to split (distributor.py:62-71), so the case makes it split: bounds
        # [0, 50] with 90 units of labels
        o["labella"]["algorithm"] = "greedy"
        o["labella"]["minPos"] = 0
        o["labella"]["maxPos"] = 50
        o["labella"].pop("density", None)
    elif kind == "bad_colour":
        o[rng.choice(COLOURS[:4])] = rng.choice(["zzz", "", "#12", "#12345g", ["#111", "nope"]])
    elif kind == "bad_border_unused":
        # an invalid border colour is never read while showBorder is off: the export succeeds
        o["borderColor"] = rng.choice(["zzz", "#12"])
        o["showBorder"] = rng.choice([False, 0])
    elif kind == "empty_colour_list":
        o[rng.choice(COLOURS[:4])] = []
    else:
        o["margin"] = 20
    return o, kind


def make(rng):
    if rng.random() < 0.85:
        py = {"fam": "options", "opts": _wellformed(rng), "wellformed": True}
        kind = "options/wellformed"
    else:
        o, k = _malformed(rng)
        py = {"fam": "options", "opts": o, "wellformed": False}
        kind = "options/malformed/" + k
    return with_model({"kind": kind, "py": py})


def gen(rng, tier):
    for o in (None, {}, {"latex": {}}, {"labella": {}}, {"direction": "up", "labella": {"direction": "down"}}):
        yield with_model({"kind": "options/literal", "py": {"fam": "options", "opts": o, "wellformed": True}})
    for _ in range(200 if tier == "quick" else 4000):
        yield make(rng)


def rebuild(c):
    c = dict(c)
    c.setdefault("kind", "options/corpus")
    return with_model(c)


# --------------------------------------------------------------- oracle ---
def oracle(case, io):
    """the property's own words: export succeeds with options omitted, empty or partial"""
    if "exc" in io:
        return "runner raised %s" % io["exc"]
    if not case["py"].get("wellformed"):
        return None
    for kind in ("svg", "tex"):
        r = io[kind]
        if "exc" in r:
            return "%s %s raised %s: %s with documented options %r" % (kind, r.get("stage"), r["exc"], r.get("msg"), case["py"]["opts"])
        if not r.get("caller_dict_unchanged", True):
            return "the caller's option dict was modified by the constructor"
        if not r.get("defaults_unchanged", True):
            return "labella.timeline.DEFAULT_OPTIONS was modified"
        if r.get("shares_default_scale") or r.get("shares_default_labella"):
            return "the timeline shares a mutable default (scale or labella dict) with the module"
        if r.get("shares_caller_labella"):
            return "the timeline keeps the caller's labella dict itself (it writes the direction into it)"
    return None


def nontrivial(case, io):
    return isinstance(case["py"]["opts"], dict) and len(case["py"]["opts"]) >= 2


# -------------------------------------------------------------- compare ---
LOOSE = {"TypeError", "ValueError", "AttributeError", "ZeroDivisionError", "IndexError"}


def _num(x):
    if isinstance(x, list) and len(x) == 2 and all(isinstance(t, int) for t in x):
        return Fraction(x[0], x[1])
    if isinstance(x, bool):
        return Fraction(int(x))
    return x


def _same(a, b):
    """implementation value (canon form) vs model value (decoded)"""
    if isinstance(b, Fraction):
        a = _num(a)
        return isinstance(a, Fraction) and a == b
    if isinstance(b, dict):
        return isinstance(a, dict) and set(a) == set(b) and all(_same(a[k], b[k]) for k in b)
    if isinstance(b, list):
        return isinstance(a, list) and [str(x) for x in a] == b
    if isinstance(b, bool) or b is None:
        return a is b
    return a == b


def _truthy_canon(v):
    if isinstance(v, list) and len(v) == 2 and all(isinstance(t, int) for t in v):
        return v[0] != 0
    return bool(v)


def compare(case, io, mo):
    if "exc" in io:
        return "runner raised %s %s" % (io["exc"], io.get("msg", ""))
    if not mo or len(mo) < 2 or mo[0] is None or mo[1] is None or mo[0][:1] == [-999] or mo[1][:1] == [-999]:
        return "model rejected the input"
    res, mer = mo[0], mo[1]
    extra = _extras(case["py"]["opts"])
    for kind in ("svg", "tex"):
        r = io[kind]
        # ---- merged dict (tl_merge) vs Timeline.__init__
        if mer[0] == 0:
            if r.get("stage") != "init":
                return "%s: the model's merge raises (%d), the constructor returns" % (kind, mer[1])
        if mer[0] == 1 and r.get("stage") != "init":
            want = dec_dict(mer, extra)
            got = r["options"]
            if set(got) != set(want):
                return "%s: keys of self.options %r, model %r" % (kind, sorted(got), sorted(want))
            for k in want:
                if k in ("timeFn", "textFn"):
                    if got[k] != ("FUN" if want[k] == "FUN" else want[k]):
                        return "%s: options[%r] is %r, model %r" % (kind, k, got[k], want[k])
                    continue
                if not _same(got[k], want[k]):
                    return "%s: self.options[%r] = %r, model %r" % (kind, k, got[k], want[k])
        # ---- resolved values / errors
        if res[0] == 0:
            if "exc" not in r and kind == "tex" and case.get("kind", "").endswith("bad_colour"):
                # an invalid colour code: hex2rgbstr (SVG) raises, hex2html (TikZ) passes it through
                # unvalidated; the model's as_colour is the SVG reading
                continue
            if "exc" not in r:
                return "%s: the model raises (%s), the implementation constructs and exports" % (kind, "KeyError" if res[1] == 0 else "TypeError")
            if res[1] == 0 and r["exc"] != "KeyError":
                return "%s: the model raises KeyError, the implementation %s" % (kind, r["exc"])
            if res[1] == 1 and r["exc"] not in LOOSE:
                return "%s: the model raises a type error, the implementation %s" % (kind, r["exc"])
            continue
        if "exc" in r:
            return "%s %s raised %s (%s), the model returns a value" % (kind, r.get("stage"), r["exc"], r.get("msg"))
        m = dec_resolved(res)
        o = r["options"]
        if r["direction"] != m["direction"]:
            return "%s: direction %r, model %r" % (kind, r["direction"], m["direction"])
        pairs = [("initialWidth", o["initialWidth"]), ("initialHeight", o["initialHeight"]), ("layerGap", o["layerGap"]),
                 ("dotRadius", o["dotRadius"])]
        pairs += [("m_" + s, o["margin"][s]) for s in SIDES] + [("p_" + s, o["labelPadding"][s]) for s in SIDES]
        for k, v in pairs:
            if _num(v) != m[k]:
                return "%s: %s = %r, model %s" % (kind, k, v, m[k])
        for k, v in (("showTicks", o["showTicks"]), ("showBorder", o["showBorder"]), ("tickCross", o["latex"]["tickCross"])):
            if _truthy_canon(v) != m[k]:
                return "%s: truth value of %s = %r, model %r" % (kind, k, v, m[k])
        for k in COLOURS:
            if k == "borderColor" and not m["showBorder"]:
                continue          # not read while showBorder is off (the model keeps a placeholder)
            if not (o[k] == m[k] or (isinstance(m[k], list) and o[k] == m[k])):
                return "%s: %s = %r, model %r" % (kind, k, o[k], m[k])
        if "engine" not in r:
            return "%s: Force(options['labella']) raised %s" % (kind, r.get("engine_exc"))
        e = r["engine"]
        if e["algorithm"] != m["algorithm"]:
            return "%s: engine algorithm %r, model %r" % (kind, e["algorithm"], m["algorithm"])
        for k in ("minPos", "maxPos", "lineSpacing"):
            if (None if e[k] is None else _num(e[k])) != m[k]:
                return "%s: engine %s %r, model %r" % (kind, k, e[k], m[k])
        for k in ("density", "nodeSpacing", "stubWidth"):
            if _num(e[k]) != m[k]:
                return "%s: engine %s %r, model %s" % (kind, k, e[k], m[k])
        if (o["scale"] == "SCALE:linear") != m["linear"]:
            return "%s: scale object %r, model linear=%r" % (kind, o["scale"], m["linear"])
        if r["scale_id"] != m["scale_id"]:
            return "%s: the timeline points to scale object %d (0 module default, 1 the caller's, 2 its own), model %d" % (
                kind, r["scale_id"], m["scale_id"])
        if r["own_scale"] != m["own_scale"]:
            return "%s: the timeline %s its own scale object, model says %r" % (
                kind, "made" if r["own_scale"] else "did not make", m["own_scale"])
    # ---- the composition export_docs (option dictionaries ; whole pipeline), status only
    if len(mo) > 2 and mo[2] is not None and mo[2][:1] != [-999]:
        st = mo[2]
        impl_ok = all("exc" not in io[k] for k in ("svg", "tex"))
        if st == [1] and not impl_ok:
            bad = [(k, io[k]["exc"]) for k in ("svg", "tex") if "exc" in io[k]]
            return "export_docs (options ; pipeline) returns both documents, the implementation raises %r" % (bad,)
        if st != [1] and impl_ok:
            return "export_docs (options ; pipeline) does not return documents (%r), the implementation exports both" % (st,)
    return None


def shrink_candidates(case):
    o = case["py"]["opts"]
    if not isinstance(o, dict):
        return
    for k in list(o):
        q = copy.deepcopy(case["py"])
        del q["opts"][k]
        yield with_model({"kind": case["kind"], "py": q})
    for k, v in o.items():
        if isinstance(v, dict) and "__fun__" not in v and "__scale__" not in v:
            for k2 in list(v):
                q = copy.deepcopy(case["py"])
                del q["opts"][k][k2]
                yield with_model({"kind": case["kind"], "py": q})
