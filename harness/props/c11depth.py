"""C11, recursion depth: the theorems C11_depth_* (coq/Vpsc/DepthProofs.v) say that every
recursive traversal of the solver started in a block recurses at most as deep as that block has
variables.  This family observes the implementation: every method of vpsc.Block that is on the
interpreter stack more than once is a recursive traversal; its nesting depth is compared with
the size of the block it runs in (a proved bound checked on the implementation, like the
invariants I1/I2/I4 of the C05 check).  It also measures the interpreter frames spent per level
(reported in the evidence; the recursion-limit clause of C11 is 4 frames x cluster size).
Part of the C11 check (dispatched from c11.py on py["fam"] == "depth")."""

RULE = ("[depth] layouts with many clusters of bounded size (so that the per-block bound is far below the number of solver "
        "variables), single dense clusters of 5..150 labels, and direct solver instances on random acyclic constraint graphs "
        "with mixed weights (so that blocks split): every recursive Block method's nesting depth must stay within the size of "
        "its block. Non-trivial = a recursion at least three levels deep was observed.")


def impl(py):
    import sys
    import labella.vpsc as V
    from labella.force import Force
    from labella.node import Node
    vfile = V.__file__.rstrip("c")
    live, peak, root_depth = {}, {}, {}
    worst = {"excess": None, "depth": 0, "block": 0, "name": None, "frames_per_level": None}

    def stack_depth(fr):
        n = 0
        while fr is not None:
            n += 1
            fr = fr.f_back
        return n

    other = {"live": {}, "peak": 0, "name": None}     # re-entrancy of vpsc.py code that is NOT a Block method

    def prof(frame, event, arg):
        co = frame.f_code
        if co.co_filename.rstrip("c") != vfile:
            return
        slf = frame.f_locals.get("self")
        if not isinstance(slf, V.Block):
            # closures, Variable / Solver methods, module functions: only their re-entrancy is
            # recorded; it must not exceed that of the Block methods that drive them (else a
            # traversal recurses somewhere this tie cannot bound by a block size)
            if event == "call":
                d = other["live"].get(co, 0) + 1
                other["live"][co] = d
                if d > other["peak"]:
                    other["peak"], other["name"] = d, co.co_name
            elif event == "return" and other["live"].get(co, 0) > 0:
                other["live"][co] -= 1
            return
        if event == "call":
            d = live.get(co, 0) + 1
            live[co] = d
            if d == 1:
                peak[co] = 1
                root_depth[co] = stack_depth(frame)
            elif d > peak[co]:
                peak[co] = d
                if d > worst["depth"]:
                    worst["depth"] = d
                    worst["name"] = co.co_name
                    worst["frames_per_level"] = (stack_depth(frame) - root_depth[co]) / float(d - 1)
                    worst["root_frames"] = root_depth[co]
        elif event == "return":
            d = live.get(co, 0)
            if d == 0:
                return
            live[co] = d - 1
            if d == 1 and peak[co] >= 2:
                # a RECURSIVE Block method.  The bound: the size of the block of the outermost
                # activation when it returns (populateSplitBlock fills its block as it goes)
                sz = len(slf.vars)
                # isActiveDirectedPathBetween tests u == v before it recurses: one more activation
                # than levels of fuel in the model (C11_depth_directed_path is stated with that +1)
                slack = 1 if co.co_name == "isActiveDirectedPathBetween" else 0
                ex = peak[co] - sz - slack
                if worst["excess"] is None or ex > worst["excess"]:
                    worst["excess"] = ex
                    worst["block"] = sz
                    worst["at"] = [co.co_name, peak[co], sz]

    out = {}
    sys.setprofile(prof)
    try:
        if py["what"] == "layout":
            nodes = [Node(p, w) for p, w in py["nodes"]]
            f = Force(py["opts"])
            f.nodes(nodes)
            f.compute()
            out["n"] = len(nodes)
        else:
            vs = [V.Variable(d, w, s) for d, w, s in py["vars"]]
            cs = [V.Constraint(vs[a], vs[b], g) for a, b, g in py["cons"]]
            solver = V.Solver(vs, cs)
            solver.solve()
            out["n"] = len(vs)
    finally:
        sys.setprofile(None)
    out.update(worst)
    out["limit"] = sys.getrecursionlimit()
    out["other_peak"] = other["peak"]
    out["other_name"] = other["name"]
    return out


# ----------------------------------------------------------- generator ---
def _cluster(rng, centre, size, spread):
    return [[centre + rng.randrange(0, spread * 8) / 8.0, rng.choice([10, 20, 30.5, 50])] for _ in range(size)]


def make(rng):
    r = rng.random()
    if r < 0.35:
        size = rng.choice([5, 12, 30, 60, 100, 150])
        nodes = _cluster(rng, 500, size, rng.choice([5, 50, 300]))
        py = {"fam": "depth", "what": "layout", "nodes": nodes,
              "opts": {"algorithm": rng.choice(["none", "none", "overlap", "simple"]), "minPos": rng.choice([None, 0]),
                       "maxPos": rng.choice([None, 4000])}}
        kind = "depth/cluster%d" % size
    elif r < 0.7:
        groups, size = rng.choice([(20, 10), (40, 5), (10, 30), (6, 60)])
        nodes = []
        for g in range(groups):
            nodes += _cluster(rng, 100000 * g, size, 40)
        rng.shuffle(nodes)
        py = {"fam": "depth", "what": "layout", "nodes": nodes, "opts": {"algorithm": "none", "minPos": None}}
        kind = "depth/groups%dx%d" % (groups, size)
    else:
        n = rng.choice([4, 8, 15, 30])
        vs = [[rng.randrange(0, 40), rng.choice([1, 1, 0.01, 100, 1e4]), rng.choice([1, 1, 2, 0.5])] for _ in range(n)]
        cs = []
        for _ in range(rng.randrange(n, 3 * n)):
            a, b = sorted(rng.sample(range(n), 2))
            cs.append([a, b, rng.choice([0, 1, 2, 3, 5])])
        py = {"fam": "depth", "what": "solver", "vars": vs, "cons": cs}
        kind = "depth/solver%d" % n
    return {"kind": kind, "py": py, "model": []}


def gen(rng, tier):
    for _ in range(40 if tier == "quick" else 600):
        yield make(rng)


def rebuild(c):
    c = dict(c)
    c["model"] = []
    return c


def oracle(case, io):
    if "exc" in io:
        return "layout raised %s: %s" % (io["exc"], io.get("msg", ""))
    return None


def nontrivial(case, io):
    return isinstance(io, dict) and io.get("depth", 0) >= 3


def compare(case, io, mo):
    if "exc" in io:
        return "runner raised %s %s" % (io["exc"], io.get("msg", ""))
    if io.get("excess") is not None and io["excess"] > 0:
        return ("recursion deeper than the block is large (theorems C11_depth_*): %s nested %d deep in a block of %d variables"
                % tuple(io.get("at", ["?", io.get("depth"), io.get("block")])))
    # the interpreter's frame accounting, the part of the recursion-limit clause that is not in the
    # Coq model: with f frames per level and r frames below the outermost activation, a block of 200
    # items (the claim's limit) plus its two walls needs r + f * 202 frames
    if io.get("frames_per_level") and io.get("root_frames") is not None and io.get("limit"):
        # the runner itself sits ~25 frames deeper than a plain script calling export(); allow for it
        need = io["root_frames"] - 25 + io["frames_per_level"] * 202
        if need > io["limit"]:
            return ("%.1f interpreter frames per level of %s, %d frames below it: a conflict cluster of 200 items would need "
                    "about %d frames, the recursion limit is %d" % (io["frames_per_level"], io.get("name"), io["root_frames"],
                                                                   need, io["limit"]))
    # not vacuous: code of vpsc.py that is not a Block method must not recurse deeper than the Block
    # methods driving it (+1 for the closure called from the innermost level); otherwise a traversal
    # lives where this tie cannot relate it to a block size
    if io.get("other_peak", 0) > max(io.get("depth", 0), 1) + 1:
        return ("%s re-enters %d deep while no vpsc.Block method recurses deeper than %d: the traversals are not Block "
                "methods any more and their depth cannot be related to a block size"
                % (io.get("other_name"), io["other_peak"], io.get("depth", 0)))
    return None


def shrink_candidates(case):
    return
    yield
