"""C10: a timeline's export depends only on its own data and options."""
import copy
import hashlib
import json
import os
import subprocess
from concurrent.futures import ThreadPoolExecutor

ID = "C10"
MODNAME = "c10"
CASES_PER_SHARD = 8
CASE_TIMEOUT = 120
RULE = ("random histories of Construct/Export over 2-4 timelines (TimelineSVG/TimelineTex, default scale or one of up to two "
        "caller-owned scale objects, 4 directions, engine options) run in ONE process; every export is compared with the "
        "export of the sub-history the Coq model says it depends on, run in a FRESH process (for default-scale timelines that "
        "is the timeline alone: the property itself). Non-trivial = a history in which an export happens after a later "
        "construction of another timeline; distinct by history.")
EXPLANATION = ("Theorem C10_isolation (all histories) is about the reference-plumbing model coq/Render/Process.v; the tie "
               "checks on real histories that labella/timeline.py shares exactly the objects the model says it shares.")
LEVEL_TEXT = ("Machine-checked refinement theorem: for every history of constructions and exports over any number of timelines, "
              "each export equals a stateless specification that, for a timeline not given a scale by the caller, mentions only "
              "its own data and options; exports do not change state; the caller's data dicts are modelled as shared cells too "
              "and sharing them is harmless because the write-back of parse_items is idempotent (C10_isolation_shared_data). Which objects a timeline "
              "points to follows from the option-dictionary model of Timeline.__init__ (C10_options_scale_identity / C10_options_scale_not_default: scale objects carry an identity in the model; a timeline points to the caller's object or to the TimeScale its own constructor call created, never to the module-level default object; C10_options_only_own_inputs: the merged options hold the caller's values, the module defaults, "
              "that scale and a copy of the caller's engine options, nothing else; that model is tied by the C11 check). The model of the object plumbing is tied to "
              "labella/timeline.py by running random histories in one process against fresh-process references.")
LEVEL_NOTE = ("Trusted: Coq kernel; extraction; the harness. The model is generic in data/options/scale state/document and fixes "
              "only which scale object each instance references and who writes through it (timeline.py __init__/init_axis/export); "
              "that no OTHER shared mutable object exists is what the fresh-process tie and the DEFAULT_OPTIONS snapshot check "
              "establish on each run (differential testing, bounded by the generated histories).")
TECHNIQUE = "Coq refinement proof (invariant by induction over operation histories) + history-level correspondence against fresh processes"
VERIF = os.path.dirname(os.path.dirname(os.path.dirname(os.path.abspath(__file__))))
REPO = os.environ.get("VERIF_REPO", "/repo")

DIRS = ["up", "down", "left", "right"]


# ---------------------------------------------------- implementation side ---
OPAQUE_MODULES = {"logging", "re", "functools", "typing", "abc", "_thread", "threading", "weakref", "warnings"}

def _fp(x, depth=0, seen=None):
    """structural fingerprint of a value (dicts, lists, sets, tuples, plain
    scalars, instances via their __dict__; callables by qualified name)"""
    import types
    seen = seen if seen is not None else set()
    if isinstance(x, (int, float, str, bool, bytes, type(None))):
        return repr(x)
    if id(x) in seen or depth > 6:
        return "<rec>"
    seen = seen | {id(x)}
    if isinstance(x, dict):
        return "{" + ",".join(sorted("%s:%s" % (_fp(k, depth + 1, seen), _fp(v, depth + 1, seen)) for k, v in x.items())) + "}"
    if isinstance(x, (list, tuple)):
        return "[" + ",".join(_fp(v, depth + 1, seen) for v in x) + "]"
    if isinstance(x, (set, frozenset)):
        return "{" + ",".join(sorted(_fp(v, depth + 1, seen) for v in x)) + "}"
    if isinstance(x, types.FunctionType):
        # mutable default arguments and closure cells are state too
        cells = [c.cell_contents for c in (x.__closure__ or ()) if not isinstance(getattr(c, "cell_contents", None), types.FunctionType)] if x.__closure__ else []
        return "<fn %s %s %s %s>" % (x.__qualname__, _fp(x.__defaults__, depth + 1, seen), _fp(x.__kwdefaults__, depth + 1, seen),
                                     _fp(cells, depth + 1, seen))
    if isinstance(x, type):
        if not getattr(x, "__module__", "").startswith("labella"):
            return "<class %s>" % x.__qualname__
        attrs = {k: v for k, v in vars(x).items() if not k.startswith("__")}
        return "<class %s %s>" % (x.__qualname__, _fp(attrs, depth + 1, seen))
    if isinstance(x, (types.BuiltinFunctionType, types.MethodType, types.ModuleType)):
        return "<%s>" % getattr(x, "__qualname__", getattr(x, "__name__", "callable"))
    if type(x).__module__.split(".")[0] in OPAQUE_MODULES:
        # infrastructure objects (a module logger, a compiled pattern, an lru_cache wrapper, a lock):
        # their internals change with use (Logger._cache is filled by the first debug() call) and
        # hold none of the package's own state
        return "<%s.%s>" % (type(x).__module__, type(x).__qualname__)
    import collections
    if isinstance(x, collections.deque):
        return "[" + ",".join(_fp(v, depth + 1, seen) for v in x) + "]"
    d = getattr(x, "__dict__", None)
    if d is not None:
        return "<%s %s>" % (type(x).__name__, _fp(d, depth + 1, seen))
    return "<%s>" % type(x).__name__


def _snapshot():
    """fingerprint of ALL module-level state of the labella package: the model's
    invariant is that no operation writes a module-level object"""
    import sys
    import labella.timeline  # noqa
    out = {}
    for name, mod in sorted(sys.modules.items()):
        if name == "labella" or name.startswith("labella."):
            for k, v in sorted(vars(mod).items()):
                if k.startswith("__"):
                    continue
                out["%s.%s" % (name, k)] = _fp(v)
    return out


def _snap_diff(a, b):
    return sorted(k for k in set(a) | set(b) if a.get(k) != b.get(k))


def run_history(py):
    """Execute a history with real objects; returns docs of the exports."""
    from harness import tl_common as T
    pool = py["pool"]
    scales = [T.mk_scale(k) for k in pool["scales"]]
    insts = {}
    docs = []
    snap0 = _snapshot()
    datas = [T.mk_data(d) for d in pool["data"]]   # the caller's dict objects are reused, as a caller would
    normalised = {}
    renorm = []
    for op in py["ops"]:
        if op[0] == "C":
            _, iid, di, oi, kind, sc = op
            data = datas[di] if py.get("share_data", True) else T.mk_data(pool["data"][di])
            scale = None if sc < 0 else scales[sc]
            insts[iid] = T.mk_timeline(kind, data, T.mk_options(copy.deepcopy(pool["opts"][oi]), scale))
            # the write-back into the caller's dicts must be idempotent (hypothesis norm_idem of
            # C10_isolation_shared_data): a second construction from the same list changes nothing
            now = repr([sorted(d.items(), key=lambda kv: kv[0]) for d in datas[di]])
            if di in normalised and normalised[di] != now:
                renorm.append(di)
            normalised[di] = now
        else:
            docs.append(T.export_text(insts[op[1]]))
    return {"docs": docs, "defaults_changed": _snap_diff(snap0, _snapshot()), "renormalised": renorm}


def impl(py):
    r = run_history(py)
    return {"sha": [hashlib.sha1(d.encode("utf-8")).hexdigest() for d in r["docs"]],
            "defaults_changed": r["defaults_changed"], "renormalised": r["renormalised"]}


# --------------------------------------------------------------- generator ---
def _rand_dataset(rng, kind):
    n = rng.randrange(1, 9)
    items = []
    if kind == "linear":
        base = rng.choice([0, 10, 1000, -50])
        for _ in range(n):
            items.append({"time": base + rng.randrange(0, 2000) / 8.0, "width": rng.choice([20, 35, 50, 64.5])})
    else:
        y = rng.randrange(1950, 2100)
        span = rng.choice([2, 40, 400, 4000])
        import datetime
        t0 = datetime.datetime(y, rng.randrange(1, 13), rng.randrange(1, 28), rng.randrange(24), rng.randrange(60))
        for _ in range(n):
            t = t0 + datetime.timedelta(days=rng.randrange(0, span), seconds=rng.randrange(86400))
            r_ = rng.random()
            if r_ < 0.12:
                # bare time of day: the one branch of parse_items that reads ambient state (today's date)
                items.append({"time": "C:%02d:%02d:%02d" % (t.hour, t.minute, t.second), "width": rng.choice([20, 35, 50])})
            elif r_ < 0.35:
                items.append({"time": "D:" + t.date().isoformat(), "width": rng.choice([20, 35, 50])})
            else:
                items.append({"time": "T:" + t.isoformat(), "width": rng.choice([20, 35, 50])})
    for i, it in enumerate(items):
        if rng.random() < 0.5:
            it["text"] = "L%d" % i
    if n > 1 and len({str(i["time"]) for i in items}) == 1:
        items[0]["time"] = items[0]["time"]  # equal times are fine (degenerate domain)
    return items


def _rand_opts(rng):
    r = rng.random()
    if r < 0.15:
        return None
    o = {"direction": rng.choice(DIRS)}
    if rng.random() < 0.5:
        o["labella"] = rng.choice([{}, {"maxPos": 300}, {"algorithm": "simple", "maxPos": 200}, {"nodeSpacing": 5},
                                   {"algorithm": "none"}, {"minPos": None}, {"lineSpacing": 9, "maxPos": 150},
                                   {"lineSpacing": 0}, {"maxPos": 120, "density": 0.5, "stubWidth": 4},
                                   {"maxPos": 100, "nodeSpacing": 0, "lineSpacing": 14, "algorithm": "simple"}])
    if rng.random() < 0.3:
        o["initialWidth"] = rng.choice([300, 500, 804])
        o["initialHeight"] = rng.choice([250, 400])
    if rng.random() < 0.3:
        o["layerGap"] = rng.choice([20, 40, 60])
    if rng.random() < 0.2:
        o["showTicks"] = False
    return o


def make_case(rng):
    nscales = rng.choice([0, 0, 1, 2])
    scales = [rng.choice(["time", "linear"]) for _ in range(nscales)]
    ninst = rng.randrange(2, 5)
    data, opts = [], [_rand_opts(rng) for _ in range(rng.randrange(1, 4))]
    dkind = []
    for _ in range(rng.randrange(1, 4)):
        k = rng.choice(["time", "time", "linear"]) if "linear" in scales else "time"
        data.append(_rand_dataset(rng, k))
        dkind.append(k)
    ops, built = [], []
    nops = rng.randrange(4, 11)
    for _ in range(nops):
        if not built or (len(built) < ninst and rng.random() < 0.45) or rng.random() < 0.12:
            iid = rng.randrange(ninst)
            di = rng.randrange(len(data))
            cands = [-1] if dkind[di] == "time" else []
            cands += [c for c, k in enumerate(scales) if k == dkind[di]]
            if not cands:
                continue
            sc = rng.choice(cands)
            ops.append(["C", iid, di, rng.randrange(len(opts)), rng.choice(["svg", "tex"]), sc])
            if iid not in built:
                built.append(iid)
        else:
            ops.append(["E", rng.choice(built)])
            if rng.random() < 0.3:
                ops.append(["E", ops[-1][1]])
    if not any(o[0] == "E" for o in ops) and built:
        ops.append(["E", built[0]])
    return {"pool": {"scales": scales, "data": data, "opts": opts}, "ops": ops}


def _oid(op):
    return op[3] * 2 + (0 if op[4] == "svg" else 1)


def rebuild(c):
    py = c["py"]
    enc = []
    for op in py["ops"]:
        if op[0] == "C":
            enc += [0, op[1], op[2], _oid(op), op[5]]
        else:
            enc += [1, op[1]]
    k = len(py["pool"]["scales"])
    n = len(py["ops"])
    return {"kind": c.get("kind", "history"), "py": py, "model": [[600, k, n] + enc, [601, k, n] + enc]}


def gen(rng, tier):
    n = 60 if tier == "quick" else 600
    for _ in range(n):
        py = make_case(rng)
        if not py["ops"]:
            continue
        yield rebuild({"kind": "history", "py": py})
    # the recorded defect's shape: two default-scale timelines, export the first after constructing the second
    for _ in range(6 if tier == "quick" else 40):
        py = make_case(rng)
        py["pool"]["scales"] = []
        d = [_rand_dataset(rng, "time"), _rand_dataset(rng, "time")]
        py["pool"]["data"] = d
        o = rng.randrange(len(py["pool"]["opts"]))
        k = rng.choice(["svg", "tex"])
        py["ops"] = [["C", 0, 0, o, k, -1], ["C", 1, 1, o, k, -1], ["E", 0], ["E", 1], ["E", 0]]
        yield rebuild({"kind": "export-after-later-construction", "py": py})


# ------------------------------------------------------- model output → refs ---
def _decode_docs(ints):
    res, k = [], 0
    while k < len(ints):
        if ints[k] == 0:
            res.append(None)
            k += 1
        else:
            d, o, n = ints[k + 1], ints[k + 2], ints[k + 3]
            tr = [(ints[k + 4 + 2 * j], ints[k + 5 + 2 * j]) for j in range(n)]
            res.append((d, o, tr))
            k += 4 + 2 * n
    return res


def _sub_history(py, dep):
    """The history the model says an export depends on."""
    d, o, tr = dep
    pool = py["pool"]
    if tr and tr[0][0] == -1:
        c = tr[0][1]
        ops = []
        target = None
        for j, (dj, oj) in enumerate(tr[1:]):
            ops.append(["C", j, dj, oj // 2, "svg" if oj % 2 == 0 else "tex", 0])
            if (dj, oj) == (d, o):
                target = j
        ops.append(["E", target])
        return {"pool": {"scales": [pool["scales"][c]], "data": pool["data"], "opts": pool["opts"]}, "ops": ops}
    return {"pool": {"scales": [], "data": pool["data"], "opts": pool["opts"]},
            "ops": [["C", 0, d, o // 2, "svg" if o % 2 == 0 else "tex", -1], ["E", 0]]}


_REF = {}


def _fresh(sub):
    key = json.dumps(sub, sort_keys=True)
    env = dict(os.environ)
    env.update({"PYTHONPATH": REPO + os.pathsep + VERIF, "PYTHONHASHSEED": "0", "TZ": "UTC",
                "PYTHONDONTWRITEBYTECODE": "1", "GJJVDBURG_LABELLA_PY_VERIF": "1"})
    try:
        p = subprocess.run(["/venv/bin/python", "-W", "ignore", os.path.join(VERIF, "harness", "c10_fresh.py")],
                           input=key, capture_output=True, text=True, cwd=REPO, env=env, timeout=120)
        lines = [l for l in p.stdout.split("\n") if l and "conda" not in l]
        return key, (lines[-1] if lines else "FAILED:" + p.stderr[-200:])
    except subprocess.TimeoutExpired:
        return key, "TIMEOUT"


def prepare_compare(cases, impl_out, model_out, workdir):
    subs = {}
    for c, mo in zip(cases, model_out):
        if mo[0] is None or mo[0] == [-1]:
            continue
        for dep in _decode_docs(mo[0]):
            if dep is not None:
                s = _sub_history(c["py"], dep)
                subs[json.dumps(s, sort_keys=True)] = s
        # the property itself for default-scale timelines: alone in a fresh process
    todo = [s for k, s in subs.items() if k not in _REF]
    with ThreadPoolExecutor(max_workers=12) as ex:
        for key, sha in ex.map(_fresh, todo):
            _REF[key] = sha


def compare(case, io, mo):
    if isinstance(io, dict) and "exc" in io:
        return "implementation raised %s: %s" % (io["exc"], io.get("msg", ""))
    if mo[0] is None or mo[1] is None:
        return "model failed"
    if mo[0] != mo[1]:
        return "extracted run and extracted specification disagree (contradicts theorem C10_isolation)"
    deps = _decode_docs(mo[0])
    if len(deps) != len(io["sha"]):
        return "number of exports differs: impl %d model %d" % (len(io["sha"]), len(deps))
    for k, (dep, sha) in enumerate(zip(deps, io["sha"])):
        if dep is None:
            return "model: export of an unconstructed timeline"
        ref = _REF.get(json.dumps(_sub_history(case["py"], dep), sort_keys=True))
        if ref != sha:
            return ("export #%d differs from the fresh-process run of the sub-history the model says it depends on "
                    "(data %d, options %d, scale trace %r): %s vs %s" % (k, dep[0], dep[1], dep[2], sha[:10], str(ref)[:10]))
    if io.get("defaults_changed"):
        # the model assumes that no operation writes a module-level object of the package; a write is
        # not by itself a violation of the property (a pure memo cache is invisible), so this is a
        # broken TIE: the search then looks for an export that really differs
        return ("the history changed module-level state of the labella package (%s): the model's assumption that timelines "
                "share no module-level object is not established" % ", ".join(io["defaults_changed"][:5]))
    return None


def oracle(case, io):
    """Property text: default-scale timelines export as they do alone in a fresh
    process; repeated exports are identical; module defaults are untouched."""
    if isinstance(io, dict) and "exc" in io:
        return "raised %s: %s" % (io["exc"], io.get("msg", ""))
    if io.get("renormalised"):
        return ("constructing a second timeline from the same data list changed the caller's data again "
                "(the write-back of parse_items is not idempotent): data set(s) %r" % io["renormalised"])
    py = case["py"]
    cur = {}
    k = 0
    last = {}
    prev_op = None
    for op in py["ops"]:
        if op[0] == "C":
            cur[op[1]] = op
        else:
            c = cur[op[1]]
            sha = io["sha"][k]
            if c[5] < 0:
                alone = {"pool": {"scales": [], "data": py["pool"]["data"], "opts": py["pool"]["opts"]},
                         "ops": [["C", 0, c[2], c[3], c[4], -1], ["E", 0]]}
                key = json.dumps(alone, sort_keys=True)
                if key not in _REF:
                    _REF[key] = _fresh(alone)[1]
                if _REF[key] != sha:
                    return ("export #%d of default-scale timeline %d differs from exporting the same data and options alone "
                            "in a fresh process" % (k, op[1]))
            if prev_op is not None and prev_op[0] == "E" and prev_op[1] == op[1] and io["sha"][k - 1] != sha:
                return "exporting timeline %d twice in a row gave different documents" % op[1]
            k += 1
        prev_op = op
    return None


def nontrivial(case, io):
    seen_c = {}
    for i, op in enumerate(case["py"]["ops"]):
        if op[0] == "C":
            seen_c[op[1]] = i
        elif any(j > seen_c.get(op[1], 10 ** 9) for k2, j in seen_c.items() if k2 != op[1]):
            return True
    return False


def search(rng, tier, mism_cases):
    for c in mism_cases:
        yield c
    for c in gen(rng, "quick"):
        yield c


def shrink_candidates(case):
    py = case["py"]
    ops = py["ops"]
    for i in range(len(ops)):
        new = ops[:i] + ops[i + 1:]
        ok, built = True, set()
        for op in new:
            if op[0] == "C":
                built.add(op[1])
            elif op[1] not in built:
                ok = False
        if ok and any(o[0] == "E" for o in new):
            q = dict(py)
            q["ops"] = new
            yield rebuild({"kind": case.get("kind"), "py": q})
