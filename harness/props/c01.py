"""C01: items sharing a layer never overlap and keep the order of their targets."""
from fractions import Fraction as F

from harness.props import layer_common as L
from harness.props.layer_common import (impl, gen, rebuild, compare, nontrivial, search,  # noqa: F401
                                        shrink_candidates, extra_evidence, CASE_TIMEOUT)

ID = "C01"
MODNAME = "c01"
EXTRA_TARGETS = ["Props/C02.vo", "Props/C03.vo"]
RULE = ("A case is one label list + engine options; Force.compute() is run and EVERY layer of getLayers() is one "
        "placement problem (items: target, width, isStub()). Families: the test datasets x 7 option sets x 3 algorithms; "
        "random labels (int / half-integer / dyadic / arbitrary-double positions and widths, 1..45 labels, spacing "
        "0..10, bounds absent/default/None/negative/fractional, all three algorithms, stub widths 0..5); tied targets with "
        "different widths; clusters of 2..200 mutually conflicting labels; single layers with both bounds that fit exactly / "
        "barely / barely not / grossly not; near-threshold families (pairs violating their gap by 1e-2..1e-4); multi-layer "
        "layouts with narrow labels and small spacing (stub/stub, stub/label, label/label gaps; chain_dominates guard false). "
        "Non-trivial = some layer with >= 2 items in which an item is moved; distinct by input.")
EXPLANATION = ("Theorems are about coq/Layout/Pava.v + Layer.v (exact PAVA with 1e10-weight walls, stable sort, half-even "
               "rounding) for ALL layer contents and options; the tie checks that removeOverlap.removeOverlap (through "
               "Force.compute) reports exactly the model's integer positions on every observed layer.")


def oracle(case, io):
    """The property statement on the implementation's own output: in every
    layer, items are placed in the order of their targets and any two are at
    least (w1+w2)/2 + spacing - 1 apart (spacing = 2 between two stubs)."""
    if isinstance(io, dict) and "exc" in io:
        return "raised %s" % io["exc"]
    ns, ls, mn, mx = L.model_opts(case["py"]["opts"])
    tol = F(1, 10 ** 6)
    for k, layer in enumerate(io["layers"]):
        its = L.ordered(layer)
        n = len(its)
        for a, b in zip(its, its[1:]):
            if a[0] < b[0] and not a[3] <= b[3]:
                return "layer %d: targets %r < %r but positions %r > %r" % (k, a[0], b[0], a[3], b[3])
            if F(b[3]) - F(a[3]) < L.gap(a, b, ns) - 1 - tol:
                return "layer %d: neighbours at %r and %r (widths %r, %r, stubs %r/%r) are closer than %s - 1" % (
                    k, a[3], b[3], a[1], b[1], a[2], b[2], float(L.gap(a, b, ns)))
        if n > 2 and L.guard_ok(its, ns):
            # any two items (all pairs for small layers; near pairs and the two ends for large ones)
            if n <= 60:
                pairs = ((i, j) for i in range(n) for j in range(i + 2, n))
            else:
                pairs = [(i, j) for i in range(n) for j in range(i + 2, min(n, i + 5))]
                pairs += [(0, j) for j in range(2, n)] + [(i, n - 1) for i in range(n - 2)]
            for i, j in pairs:
                a, b = its[i], its[j]
                if F(b[3]) - F(a[3]) < L.gap(a, b, ns) - 1 - tol:
                    return "layer %d: items %d and %d at %r and %r are closer than %s - 1" % (
                        k, i, j, a[3], b[3], float(L.gap(a, b, ns)))
    return None


LEVEL_TEXT = ("Machine-checked Coq theorems for ALL layers (any number of items, any targets, widths >= 0, spacings >= 0, "
              "bounds present or absent, fitting or not): the exact PAVA positions keep every gap (pava_feasible), the "
              "rounded positions are in target order and any two items i<j are at least the sum of the gaps between them "
              "minus 1 apart (C01_order, C01_separation), hence at least their own pairwise gap minus 1 under "
              "chain_dominates (C01_pairwise); on a Gallina model tied to removeOverlap/Force.compute by differential "
              "execution on every run.")
LEVEL_NOTE = ("Trusted: Coq kernel; extraction re-checked on a slice by vm_compute; the correspondence harness. Modelled, "
              "not verified: labella/removeOverlap.py and vpsc.py (the model is the exact optimum the solver approximates "
              "to ~1e-10; doubles modelled by rationals; disagreements inside the 1e-7 rounding band are counted, not "
              "failed). The multi-layer composition (C01_all_layers) belongs to the engine package.")
TECHNIQUE = "Coq proof (stack invariant of pool-adjacent-violators, rounding lemmas) + model/implementation correspondence"
