"""C01: items sharing a layer never overlap and keep the order of their targets."""
from fractions import Fraction as F

from harness.props import layer_common as L
from harness.props.layer_common import (impl, gen, rebuild, compare, nontrivial, search,  # noqa: F401
                                        shrink_candidates, extra_evidence, CASE_TIMEOUT)

ID = "C01"
MODNAME = "c01"
EXTRA_TARGETS = ["Props/C02.vo", "Props/C03.vo"]
RULE = ("A case is one label list + engine options; Force.compute() is run and EVERY layer of getLayers() is one "
        "placement problem (items: target, width, isStub()). Families: the test datasets x 7 option sets x 3 algorithms; "
        "random labels (int / half-integer / dyadic / arbitrary-double positions and widths, 1..45 labels, spacing "
        "0..10, bounds absent/default/None/negative/fractional, all three algorithms, stub widths 0..5); tied targets with "
        "different widths; clusters of 2..200 mutually conflicting labels; single layers with both bounds that fit exactly / "
        "barely / barely not / grossly not; near-threshold families (pairs violating their gap by 1e-2..1e-4); multi-layer "
        "layouts with narrow labels and small spacing (stub/stub, stub/label, label/label gaps; chain_dominates guard false); "
        "bounds that are zero/negative/falsy; targets 1e9..1e12 beyond a bound; a narrow label between two stubs on one target. "
        "Non-trivial = some layer with >= 2 items in which an item is moved; distinct by input.")
EXPLANATION = ("Theorems are about coq/Layout/Pava.v + Layer.v (exact PAVA with 1e10-weight walls, stable sort, half-even "
               "rounding) for ALL layer contents and options; the tie checks that removeOverlap.removeOverlap (through "
               "Force.compute) reports exactly the model's integer positions on every observed layer.")


def oracle(case, io):
    """The property statement on the implementation's own output: in every
    layer, items are placed in the order of their targets and ANY two are at
    least (w1+w2)/2 + spacing - 1 apart (spacing = 2 between two stubs).
    Every pair of every layer is checked.  A failing pair is tagged as the
    known finding stub-label-stub-gap only if it is non-adjacent, both items
    are stubs, and some item strictly between them is a label narrower than
    lineSpacing - 2*nodeSpacing; any other failure is reported untagged and
    takes precedence."""
    if isinstance(io, dict) and "exc" in io:
        return "raised %s" % io["exc"]
    if io.get("link_errors"):
        return "targets are not the positions of the items' own stubs: " + io["link_errors"][0]
    ns, ls, mn, mx = L.model_opts(case["py"]["opts"])
    tol = F(1, 10 ** 6)
    known = None
    for k, layer in enumerate(io["layers"]):
        its = L.ordered(layer)
        n = len(its)
        for a, b in zip(its, its[1:]):
            if a[0] < b[0] and not a[3] <= b[3]:
                return "layer %d: targets %r < %r but positions %r > %r" % (k, a[0], b[0], a[3], b[3])
        if n < 2:
            continue
        # positions are now known to be non-decreasing along `its`; a pair can only
        # fail while the distance is below  w_i/2 + (largest half width) + (largest spacing) - 1
        wmax = max(float(it[1]) for it in its)
        spmax = max(float(ns), float(ls))
        narrow = F(ls) - 2 * F(ns)
        for i in range(n):
            a = its[i]
            reach = float(a[1]) / 2 + wmax / 2 + spmax - 1 + 1e-3
            for j in range(i + 1, n):
                b = its[j]
                if b[3] - a[3] > reach:
                    break
                if F(b[3]) - F(a[3]) < L.gap(a, b, ns) - 1 - tol:
                    msg = "layer %d: items %d and %d at %r and %r (widths %r, %r, stubs %r/%r) are closer than %s - 1" % (
                        k, i, j, a[3], b[3], a[1], b[1], a[2], b[2], float(L.gap(a, b, ns)))
                    if j > i + 1 and a[2] and b[2] and any((not c[2]) and F(c[1]) < narrow for c in its[i + 1:j]):
                        if known is None:
                            known = L.tagged(L.STUB_GAP, msg + "; a label narrower than lineSpacing - 2*nodeSpacing = %s stands between the two stubs" % float(narrow))
                    else:
                        return msg
    return known


def matches_finding(finding, case, failure):
    return L.matches(finding, failure, L.STUB_GAP)


LEVEL_TEXT = ("Machine-checked Coq theorems for ALL layers (any number of items, any targets, widths >= 0, spacings >= 0, "
              "bounds present or absent, fitting or not): the exact PAVA positions keep every gap (pava_feasible), the "
              "rounded positions are in target order and any two items i<j are at least the sum of the gaps between them "
              "minus 1 apart (C01_order, C01_separation), hence at least their own pairwise gap minus 1 under "
              "chain_dominates (C01_pairwise); without that guard the 'any two items' reading is refuted by a concrete layer "
              "(C01_pairwise_unguarded_refuted: two stubs around a 0.25-wide label, known finding stub-label-stub-gap); on a "
              "Gallina model tied to removeOverlap/Force.compute by differential execution on every run.")
LEVEL_NOTE = ("Trusted: Coq kernel; extraction re-checked on a slice by vm_compute; the correspondence harness. Modelled, "
              "not verified: labella/removeOverlap.py and vpsc.py (the model is the exact optimum the solver approximates "
              "to ~1e-10; doubles modelled by rationals; disagreements inside the 1e-7 rounding band are counted, not "
              "failed). The multi-layer composition (C01_all_layers) belongs to the engine package.")
TECHNIQUE = "Coq proof (stack invariant of pool-adjacent-violators, rounding lemmas) + model/implementation correspondence"
