"""Shared by C01, C02, C03 (tie K1: one layer's placement).

Inputs are label lists + engine options.  The implementation is run once to
*observe* every layer of `Force.getLayers()` (per item: target, width,
isStub()); the model is then asked to place exactly those items with exactly
those options (all numbers as exact rationals) and must reproduce the integer
positions the implementation reports.  The three property modules import the
generator, the runner and the comparison from here; each has its own oracle.
"""
import math
import os
from fractions import Fraction as F

W = F(10) ** 10
LINE_SPACING = 2          # removeOverlap.DEFAULT_OPTIONS["lineSpacing"]; Force never passes it
BAND = F(1, 10 ** 7)      # ambiguity band around a .5 rounding boundary (DESIGN.md 3.4)
CASE_TIMEOUT = 60


# ------------------------------------------------------------ implementation
def impl(py):
    from labella.force import Force
    from labella.node import Node
    nodes = [Node(p, w, data=i) for i, (p, w) in enumerate(py["nodes"])]
    if py.get("prev_opts") is not None:
        # the engine was configured differently and used before (same key set, so the effective
        # options of the second layout are exactly py["opts"]): walls, spacing and layer width
        # of the reported layout must be those of the CURRENT options
        f = Force(dict(py["prev_opts"]))
        f.nodes(nodes)
        f.compute()
        f.set_options(dict(py["opts"]))
    else:
        f = Force(dict(py["opts"]))
        f.nodes(nodes)
    if len(py["nodes"]) % 2 == 1:
        # every other case: another engine with other options is built and used between the
        # configuration of the observed engine and its compute(); engines share nothing
        other = Force({"algorithm": "simple", "minPos": -40, "maxPos": 60, "density": 0.4, "nodeSpacing": 11,
                       "stubWidth": 7, "lineSpacing": 5})
        other.nodes([Node(4 * i, 9) for i in range(7)])
        other.compute()
    f.compute()
    layers = []
    link_errors = []
    below = {}
    for k, layer in enumerate(f.getLayers()):
        here = {}
        row = []
        for n in layer:
            # the target as the PROPERTY defines it, found without following the
            # code's own parent links: the data position in the nearest layer, the
            # final position of the label's own stub (same payload) in the layer below
            if k == 0:
                tgt = n.idealPos
            elif n.data in below:
                tgt = below[n.data]
            else:
                tgt = None
                link_errors.append("layer %d: item of label %r has no stub in layer %d" % (k, n.data, k - 1))
            via_parent = n.parent.currentPos if n.parent else n.idealPos
            if tgt is not None and via_parent != tgt:
                link_errors.append("layer %d: item of label %r is aimed at %r, its own stub in layer %d ended at %r" % (
                    k, n.data, via_parent, k - 1, tgt))
            if tgt is None:
                tgt = via_parent
            if n.data in here:
                link_errors.append("layer %d: label %r occurs twice" % (k, n.data))
            here[n.data] = n.currentPos
            row.append([tgt, n.width, bool(n.isStub()), n.currentPos])
        below = here
        layers.append(row)
    out = {"layers": layers, "layerWidth": f.distributor.options["layerWidth"]}
    if link_errors:
        out["link_errors"] = link_errors[:5]
    return out


# ------------------------------------------------------------------ encoding
def q(x):
    fr = F(x)
    return [fr.numerator, fr.denominator]


def qopt(x):
    return [0] if x is None else [1] + q(x)


def model_opts(opts):
    """the options removeOverlap sees (force.py:66-70 + removeOverlap defaults)"""
    return (opts.get("nodeSpacing", 3), LINE_SPACING, opts.get("minPos", 0), opts.get("maxPos", None))


def layer_call(cmd, opts, items):
    ns, ls, mn, mx = model_opts(opts)
    call = [cmd] + q(ns) + q(ls) + qopt(mn) + qopt(mx) + [len(items)]
    for t, w, s in items:
        call += q(t) + q(w) + [1 if s else 0]
    return call


def dec_layer_out(m):
    """[1, n, z.., n, num den ..] -> (ints, fractions)"""
    if m is None or not m or m[0] != 1:
        return None
    n = m[1]
    zs = m[2:2 + n]
    k = 2 + n
    n2 = m[k]
    qs = [F(m[k + 1 + 2 * i], m[k + 2 + 2 * i]) for i in range(n2)]
    return zs, qs


def observe(pys):
    """run the implementation on the inputs and return its outputs"""
    from harness import core
    cases = [{"py": p} for p in pys]
    wd = os.path.join(core.BUILD, "run", "layer_observe_%d" % os.getpid())
    return core.run_impl("layer_common", cases, wd)


def make_case(kind, py, obs):
    """obs: the implementation's output for py (or an exception record)"""
    model = []
    rec = None
    if isinstance(obs, dict) and "layers" in obs:
        rec = [[[t, w, s] for t, w, s, _ in layer] for layer in obs["layers"]]
        for layer in rec:
            model.append(layer_call(300, py["opts"], layer))
        ns, ls, mn, mx = model_opts(py["opts"])
        model.append([301] + qopt(mn) + qopt(mx))
    p2 = dict(py)
    p2["obs"] = rec
    return {"kind": kind, "py": p2, "model": model}


def build_cases(specs):
    specs = list(specs)
    outs = observe([py for _, py in specs])
    return [make_case(kind, py, o) for (kind, py), o in zip(specs, outs)]


def rebuild(case):
    py = {k: v for k, v in case["py"].items() if k != "obs"}
    return build_cases([(case.get("kind", "replay"), py)])[0]


# ---------------------------------------------------------------- comparison
def _small_dyadic(x):
    if x is None:
        return True
    fr = F(x)
    d = fr.denominator
    return d <= 4096 and d & (d - 1) == 0 and abs(fr) < 2 ** 21


def float_exact(opts, layer):
    """True if every number that enters the layer's problem is a dyadic
    rational with few bits, so that the implementation's double arithmetic
    on items and gaps is exact and an exact .5 tie must round identically"""
    ns, ls, mn, mx = model_opts(opts)
    return all(_small_dyadic(v) for v in (ns, mn, mx)) and \
        all(_small_dyadic(it[0]) and _small_dyadic(it[1]) for it in layer)


def compare(case, io, mo):
    from harness import core
    if isinstance(io, dict) and "exc" in io:
        return "implementation raised %s" % io["exc"]
    py = case["py"]
    rec = py.get("obs")
    if rec is None:
        return "no observation of the layers was possible when the case was built"
    got = [[[t, w, s] for t, w, s, _ in layer] for layer in io["layers"]]
    if got != rec:
        return "layer contents differ between two runs of the implementation on the same input"
    amb = False
    nl = len(rec)
    for k, layer in enumerate(io["layers"]):
        d = dec_layer_out(mo[k])
        if d is None:
            return "model rejected layer %d" % k
        zs, qs = d
        pos = [it[3] for it in layer]
        if len(zs) != len(pos):
            return "layer %d: model placed %d items, implementation %d" % (k, len(zs), len(pos))
        for i, (a, b) in enumerate(zip(pos, zs)):
            if isinstance(a, bool) or not isinstance(a, int):
                if a != b or a != int(a):
                    return "layer %d item %d: implementation position %r is not the integer %d" % (k, i, a, b)
            if a != b:
                fr = qs[i] - math.floor(qs[i])
                dist = abs(fr - F(1, 2))
                # ambiguity band (DESIGN.md 3.4): the exact value lies within 1e-7 of a
                # rounding boundary and the double computation is not dyadic-exact
                if abs(a - b) == 1 and dist <= BAND and (dist > 0 or not float_exact(py["opts"], layer)):
                    amb = True
                    continue
                return "layer %d item %d (target %r width %r): implementation %r, model %d (exact %s)" % (
                    k, i, layer[i][0], layer[i][1], a, b, float(qs[i]))
    j = nl
    lw = mo[j]
    want = io["layerWidth"]
    if lw is None or (lw[0] == 0) != (want is None) or (lw[0] == 1 and F(lw[1], lw[2]) != F(want)):
        # the float subtraction maxPos - minPos may round; compare with relative tolerance
        if lw is None or (lw[0] == 0) != (want is None) or abs(F(lw[1], lw[2]) - F(want)) > abs(F(want)) * F(1, 10 ** 9):
            return "layer width handed to the distributor: implementation %r, model %r" % (want, lw)
    if amb:
        raise core.Ambiguous()
    return None


# ------------------------------------------------ helpers for the oracles
def sp(a, b, ns):
    return LINE_SPACING if (a[2] and b[2]) else ns


def gap(a, b, ns):
    return (F(a[1]) + F(b[1])) / 2 + F(sp(a, b, ns))


def ordered(layer):
    """items of a layer in the order of their targets (ties: by position)"""
    return sorted(layer, key=lambda it: (it[0], it[3]))


def delta_obs(layer):
    """how far a 1e10-weight wall can give way, computed from the output alone:
    (sum |reported - target|) / 1e10"""
    return sum(abs(F(it[3]) - F(it[0])) for it in layer) / W


SOFT_WALL = "soft-wall-slack"
STUB_GAP = "stub-label-stub-gap"


def tagged(sig, text):
    return "[%s] %s" % (sig, text)


def matches(finding, failure, sig):
    """a failure belongs to an open known finding iff the oracle tagged it with
    that finding's signature (the oracle tags only failures that meet the
    finding's exact criterion; everything else is reported untagged)"""
    return finding.get("signature") == sig and isinstance(failure, str) and failure.startswith("[%s] " % sig)


def needed_length(its, ns):
    return F(its[0][1]) / 2 + sum(gap(a, b, ns) for a, b in zip(its, its[1:])) + F(its[-1][1]) / 2


def guard_ok(its, ns):
    """chain_dominates: no label narrower than lineSpacing - 2*nodeSpacing
    stands between two stubs"""
    ns = F(ns)
    first_stub = next((i for i, it in enumerate(its) if it[2]), None)
    last_stub = next((i for i in range(len(its) - 1, -1, -1) if its[i][2]), None)
    if first_stub is None:
        return True
    for i, it in enumerate(its):
        if not it[2] and first_stub < i < last_stub and F(it[1]) + 2 * ns < LINE_SPACING:
            return False
    return True


def nontrivial(case, io):
    if not isinstance(io, dict) or "layers" not in io:
        return False
    for layer in io["layers"]:
        if len(layer) >= 2 and any(it[3] != round(it[0]) for it in layer):
            return True
    return False


def extra_evidence(cases, impl_out, model_out):
    st = {"layers": 0, "items": 0, "multi_layer_cases": 0, "max_layer_size": 0,
          "adjacent_stub_stub": 0, "adjacent_stub_label": 0, "adjacent_label_label": 0,
          "layers_both_bounds_fit": 0, "layers_both_bounds_exact_fit": 0, "layers_both_bounds_not_fit": 0,
          "layers_lower_only": 0, "layers_upper_only": 0, "layers_unbounded": 0,
          "layers_with_tied_targets": 0, "items_moved": 0, "guard_false_layers": 0}
    for c, io in zip(cases, impl_out):
        if not isinstance(io, dict) or "layers" not in io:
            continue
        ns, ls, mn, mx = model_opts(c["py"]["opts"])
        if len(io["layers"]) > 1:
            st["multi_layer_cases"] += 1
        for layer in io["layers"]:
            if not layer:
                continue
            its = ordered(layer)
            st["layers"] += 1
            st["items"] += len(its)
            st["max_layer_size"] = max(st["max_layer_size"], len(its))
            st["items_moved"] += sum(1 for it in its if it[3] != round(it[0]))
            for a, b in zip(its, its[1:]):
                k = "adjacent_stub_stub" if a[2] and b[2] else ("adjacent_label_label" if not a[2] and not b[2] else "adjacent_stub_label")
                st[k] += 1
            if any(a[0] == b[0] for a, b in zip(its, its[1:])):
                st["layers_with_tied_targets"] += 1
            if not guard_ok(its, ns):
                st["guard_false_layers"] += 1
            if mn is not None and mx is not None:
                need = needed_length(its, ns)
                room = F(mx) - F(mn)
                st["layers_both_bounds_exact_fit" if need == room else
                   ("layers_both_bounds_fit" if need < room else "layers_both_bounds_not_fit")] += 1
            elif mn is not None:
                st["layers_lower_only"] += 1
            elif mx is not None:
                st["layers_upper_only"] += 1
            else:
                st["layers_unbounded"] += 1
    return {"layer_statistics": st}


# ---------------------------------------------------------------- generators
DATASET = [(1, 50), (2, 50), (3, 50), (3, 50), (3, 50), (304, 50), (454, 50), (454, 50), (454, 50),
           (804, 50), (804, 70), (804, 50), (804, 50), (854, 50), (854, 50)]
ALGS = ["overlap", "simple", "none"]


def _dy(rng, lo, hi, den):
    """a dyadic rational in [lo, hi] with denominator den, as a float (exact)"""
    return rng.randint(int(lo * den), int(hi * den)) / den


def _pos(rng, span, style):
    if style == "int":
        return rng.randint(0, span)
    if style == "half":
        return rng.randint(0, 2 * span) / 2
    if style == "dy8":
        return _dy(rng, 0, span, 8)
    if style == "dy1024":
        return _dy(rng, 0, span, 1024)
    return rng.random() * span


def _wid(rng, style):
    if style == "int":
        return rng.choice([10, 50, 33, 7, 1, 20])
    if style == "half":
        return rng.choice([7.5, 10.5, 0.5, 33.5, 50.5])
    if style == "dy8":
        return _dy(rng, 0.125, 60, 8)
    if style == "dy1024":
        return _dy(rng, 1 / 1024, 40, 1024)
    return rng.random() * 60 + 0.01


def _opts(rng, span, alg=None):
    o = {}
    if rng.random() < 0.85:
        o["nodeSpacing"] = rng.choice([3, 3, 0, 1, 10, 2.5, 0.5, 0.125])
    r = rng.random()
    if r < 0.25:
        pass                                    # minPos absent = default 0
    elif r < 0.45:
        o["minPos"] = None
    else:
        o["minPos"] = rng.choice([0, 30, -20, 10.5, -7.25, span / 4, 1 / 1024])
    r = rng.random()
    if r < 0.3:
        pass                                    # maxPos absent = default None
    elif r < 0.4:
        o["maxPos"] = None
    else:
        o["maxPos"] = rng.choice([span, span / 2, 300, 904, 2 * span, span + 0.5, 1.5 * span + 1 / 8])
    o["algorithm"] = alg or rng.choice(ALGS + ["overlap"])
    if rng.random() < 0.8:
        o["density"] = rng.choice([0.85, 0.75, 0.5, 1, 0.3])
    if rng.random() < 0.8:
        o["stubWidth"] = rng.choice([1, 1, 0, 5, 2.5, 0.25])
    return o


def _random_spec(rng, nmax):
    n = rng.randint(1, nmax)
    span = rng.choice([50, 200, 1000])
    ps = rng.choice(["int", "half", "dy8", "dy1024", "dbl", "mix"])
    ws = rng.choice(["int", "half", "dy8", "dy1024", "dbl", "mix"])
    nodes = []
    for _ in range(n):
        p = _pos(rng, span, rng.choice(["int", "half", "dy8", "dbl"]) if ps == "mix" else ps)
        w = _wid(rng, rng.choice(["int", "half", "dy8", "dbl"]) if ws == "mix" else ws)
        nodes.append([p, w])
    return {"nodes": nodes, "opts": _opts(rng, span)}


def _ties_spec(rng):
    """many labels on few distinct targets, different widths (stable sort)"""
    k = rng.randint(1, 4)
    base = [rng.choice([rng.randint(0, 300), rng.randint(0, 600) / 2]) for _ in range(k)]
    n = rng.randint(2, 30)
    nodes = [[rng.choice(base), _wid(rng, rng.choice(["int", "half", "dy8"]))] for _ in range(n)]
    o = _opts(rng, 300)
    return {"nodes": nodes, "opts": o}


def _cluster_spec(rng, tier):
    """2..200 mutually conflicting labels in one layer"""
    n = rng.choice([2, 3, 5, 8, 13, 21, 34, 55, 89, 144, 200]) if rng.random() < 0.5 else rng.randint(2, 200)
    if tier == "quick" and n > 120 and rng.random() < 0.5:
        n = rng.randint(2, 120)
    c = rng.choice([0, 500, 500.5, 123.125])
    spread = rng.choice([0, 1, 5, 20])
    st = rng.choice(["int", "half", "dy8", "dbl"])
    nodes = []
    for _ in range(n):
        p = c + (_pos(rng, spread, st) if spread else 0)
        nodes.append([p, _wid(rng, rng.choice(["int", "half", "dy8", "dbl"]))])
    o = {"algorithm": "none", "nodeSpacing": rng.choice([3, 0, 1, 2.5])}
    r = rng.random()
    if r < 0.3:
        o["minPos"] = None
    elif r < 0.5:
        o["minPos"] = rng.choice([-1000, 100, 400.5])
    if rng.random() < 0.3:
        o["maxPos"] = rng.choice([600, 1000, 5000, 20000.5])
    return {"nodes": nodes, "opts": o}


def _fit_spec(rng):
    """single layer with both bounds: exactly fitting, barely (not) fitting, grossly not fitting"""
    n = rng.randint(1, 25)
    den = rng.choice([1, 2, 8, 1024])
    ns = rng.choice([3, 0, 1, 2.5, 0.125])
    ws = [rng.randint(1, 40 * den) / den for _ in range(n)]
    need = F(sum(F(w) for w in ws)) + F(ns) * (n - 1)
    a = rng.choice([0, 30, -20, 10.5, -7.25])
    mode = rng.choice(["exact", "barely_not", "barely", "gross", "roomy", "half"])
    room = {"exact": need, "barely_not": need - F(1, 1024), "barely": need + F(1, 1024),
            "gross": need / 4, "roomy": need * 3, "half": need / 2}[mode]
    b = float(F(a) + room)
    where = rng.choice(["inside", "left", "right", "both", "centre"])
    nodes = []
    for w in ws:
        if where == "inside":
            p = rng.randint(int(a * den), int(b * den) + 1) / den
        elif where == "left":
            p = a - rng.randint(0, 50 * den) / den
        elif where == "right":
            p = b + rng.randint(0, 50 * den) / den
        elif where == "both":
            p = rng.choice([a - rng.randint(0, 50), b + rng.randint(0, 50)])
        else:
            p = (a + b) / 2
        nodes.append([p, w])
    return ("fit_" + mode, {"nodes": nodes, "opts": {"algorithm": "none", "nodeSpacing": ns, "minPos": a, "maxPos": b}})


def _threshold_spec(rng):
    """many pairs that violate their gap by 1e-2 .. 1e-4 (exposes a solver that stops early)"""
    k = rng.randint(2, 12)
    w = rng.choice([50.004, 50, 10.25, 33.3])
    ns = rng.choice([3, 0, 1])
    eps = rng.choice([1e-2, 8e-3, 1e-3, 1e-4, 1 / 128, 1 / 1024])
    step = rng.choice([1000, 200, w + ns + 1])
    off = rng.choice([1.5, 0.5, 0, 0.25])
    nodes = []
    for i in range(k):
        nodes.append([step * i + off, w])
        nodes.append([step * i + off + w + ns - eps, w])
        if rng.random() < 0.3:
            nodes.append([step * i + off + 2 * (w + ns) - 2 * eps, w])
    rng.shuffle(nodes)
    o = {"algorithm": "none", "nodeSpacing": ns, "minPos": rng.choice([None, 0, -100])}
    return {"nodes": nodes, "opts": o}


def _stub_spec(rng):
    """multi-layer layouts: stub/stub, stub/label and label/label gaps; narrow
    labels and small spacing so that the chain_dominates guard is exercised"""
    n = rng.randint(4, 40)
    span = rng.choice([100, 300, 1000])
    narrow = rng.random() < 0.35
    nodes = []
    for _ in range(n):
        p = _pos(rng, span, rng.choice(["int", "half", "dy8", "dbl"]))
        w = rng.choice([0.25, 0.5, 1, 1.5]) if (narrow and rng.random() < 0.6) else _wid(rng, rng.choice(["int", "half", "dy8", "dbl"]))
        nodes.append([p, w])
    o = {"algorithm": rng.choice(["simple", "overlap"]), "minPos": rng.choice([0, 0, 10, -20.5]),
         "maxPos": rng.choice([span, span / 2, span / 4, span * 1.5]),
         "nodeSpacing": rng.choice([0, 0.5, 0.125, 1]) if narrow else rng.choice([3, 1, 0, 10]),
         "density": rng.choice([0.85, 0.5, 0.3, 1]), "stubWidth": rng.choice([1, 0, 0.25, 2.5, 5])}
    return {"nodes": nodes, "opts": o}


def _origin_spec(rng):
    """bounds that are zero or negative (Python falsy values included) with
    labels on the negative side and around the origin"""
    n = rng.randint(1, 14)
    lo = rng.choice([None, -300, -1000.5, -64, -2048])
    hi = rng.choice([0, 0, 0.0, -10, -0.5, 12, None])
    if lo is not None and hi is not None and hi <= lo:
        hi = 0
    nodes = []
    for _ in range(n):
        c = rng.choice([0, 0, -5, -40, -120, 3])
        nodes.append([c + rng.randrange(-160, 40) / 8.0, rng.choice([1, 10, 20.5, 50, 7.25])])
    return {"nodes": nodes, "opts": {"minPos": lo, "maxPos": hi, "algorithm": rng.choice(ALGS + ["none"]),
                                     "nodeSpacing": rng.choice([3, 0, 2.5]), "density": rng.choice([0.85, 1, 0.5])}}


def _stubgap_spec(rng):
    """a narrow label between two stubs on (nearly) the same target: the only
    shape in which the gaps along the chain do not add up to the pairwise gap
    of the two stubs (known finding stub-label-stub-gap)"""
    c = rng.choice([50.5, 50.5, 50, 49.75, 33.5, 60.25])
    narrow = rng.choice([0.25, 0.25, 0.5, 1, 1.5, 0.125])
    wide = rng.choice([30, 30, 25.5, 28])
    nodes = [[0, 40], [c, wide], [c + rng.choice([0, 0, 0.25, -0.25]), narrow], [c + rng.choice([0, 0, 0.5]), wide], [100, 40]]
    if rng.random() < 0.3:
        nodes.insert(3, [c, rng.choice([0.25, 0.5])])
    return {"nodes": nodes, "opts": {"minPos": 0, "maxPos": 100, "algorithm": "simple", "density": 1,
                                     "nodeSpacing": rng.choice([0, 0, 0.25, 0.5, 0.125]),
                                     "stubWidth": rng.choice([1, 1, 0, 0.5, 2])}}


def _sparse_spec(rng):
    """two- or three-layer layouts (algorithm simple, wide bounds, low density) whose items
    already stand apart almost everywhere: consecutive items are placed edge to edge plus a
    gap that is usually above the label spacing and sometimes between the line spacing (2)
    and the label spacing, so that a stub next to a label, or two stubs, sit closer than a
    label pair may.  Large label spacings (4..12) so that the difference exceeds rounding."""
    ns = rng.choice([4, 6, 10, 12, 5.5])
    sw = rng.choice([1, 1, 2, 0.5])
    n = rng.randint(3, 12)
    widths = [rng.choice([10, 20, 30, 50, 15.5]) for _ in range(n)]
    pos = [rng.choice([30, 45.5, 60])]
    for i in range(1, n):
        g = rng.choice([ns + 1, ns + 4, ns + 20, 2 * ns, ns]) if rng.random() < 0.7 else rng.choice([2, 2.5, 3, ns - 1, ns - 0.5, 1, 0])
        # distance such that the STUB of one of the two and the other label are g apart edge to edge
        a, b = rng.choice([(sw, widths[i]), (widths[i - 1], sw), (widths[i - 1], widths[i]), (sw, sw)])
        pos.append(pos[-1] + a / 2.0 + b / 2.0 + g)
    total = sum(widths) + ns * (n - 1)
    hi = pos[-1] + widths[-1] / 2.0 + rng.choice([0, 5, 60])
    layers = rng.choice([2, 2, 3])
    dens = min(1.0, total / (hi * (layers - 0.5)))
    return {"nodes": [[p_, w_] for p_, w_ in zip(pos, widths)],
            "opts": {"minPos": rng.choice([0, 0, None]), "maxPos": hi, "algorithm": rng.choice(["simple", "simple", "overlap"]),
                     "density": dens, "nodeSpacing": ns, "stubWidth": sw}}


def _farwall_spec(rng):
    """targets 1e9 .. 1e12 beyond a bound: the 1e10-weight walls give way by
    (distance)/1e10, i.e. by 0.1 .. 100 units (known finding soft-wall-slack)"""
    lo = rng.choice([0, 0, -50, 10.5, None])
    hi = rng.choice([100, 100, 300, 1000.5, None])
    if lo is None and hi is None:
        hi = 100
    a = 0 if lo is None else lo
    b = a + 500 if hi is None else hi
    nodes = []
    for _ in range(rng.randint(0, 6)):
        nodes.append([rng.randint(int(a), int(b)), rng.choice([10, 5, 20.5, 1])])
    for _ in range(rng.randint(1, 3)):
        mag = rng.choice([1e9, 3e9, 1e10, 2.5e10, 1e11, 5e11, 1e12])
        side = rng.choice([-1, 1])
        if (side > 0 and hi is None) or (side < 0 and lo is None):
            side = -side
        nodes.append([side * mag + rng.randint(0, 1000), rng.choice([10, 5, 20.5, 1])])
    rng.shuffle(nodes)
    return {"nodes": nodes, "opts": {"minPos": lo, "maxPos": hi, "algorithm": rng.choice(["none", "none", "simple", "overlap"]),
                                     "nodeSpacing": rng.choice([3, 0, 2.5])}}


def _with_prev(rng, kind, spec):
    """a quarter of the random / fit / origin specs: the same engine ran under other values of the
    same option keys first"""
    if rng.random() < 0.25 and spec["opts"]:
        prev = {}
        for k, v in spec["opts"].items():
            if k == "minPos":
                prev[k] = rng.choice([None, 0, -50, 40, 100])
            elif k == "maxPos":
                prev[k] = rng.choice([None, 300, 600, 1000, 64])
            elif k == "nodeSpacing":
                prev[k] = rng.choice([0, 3, 7])
            elif k == "algorithm":
                prev[k] = rng.choice(ALGS + ["none"])
            elif k == "density":
                prev[k] = rng.choice([0.3, 0.85, 1])
            elif k == "stubWidth":
                prev[k] = rng.choice([0, 1, 3])
            else:
                prev[k] = v
        spec = dict(spec)
        spec["prev_opts"] = prev
        return kind + "+reconfigured", spec
    return kind, spec


def gen_specs(rng, tier):
    for kind, spec in _gen_specs(rng, tier):
        if kind in ("random", "origin") or kind.startswith("fit"):
            yield _with_prev(rng, kind, spec)
        else:
            yield kind, spec


def _gen_specs(rng, tier):
    """yields (kind, py-input) pairs"""
    big = tier != "quick"
    # the datasets of tests/test_force.py with their three option sets, under every algorithm
    for o in ({}, {"maxPos": 904}, {"minPos": 30}, {"minPos": None}, {"minPos": 30, "maxPos": 904},
              {"minPos": 0, "maxPos": 400}, {"minPos": 0, "maxPos": 300, "density": 0.5}):
        for alg in ALGS:
            oo = dict(o)
            oo["algorithm"] = alg
            yield "dataset", {"nodes": [list(x) for x in DATASET], "opts": oo}
    yield "dataset", {"nodes": [list(x) for x in DATASET], "opts": {}}
    # the engine-level witness of DESIGN.md A.1
    yield "threshold", {"nodes": [[1000 * k + 1.5 + d, 50.004] for k in range(5) for d in (0, 53.004 - 0.008)],
                        "opts": {"algorithm": "none", "minPos": None}}
    for _ in range(12000 if big else 900):
        yield "random", _random_spec(rng, 45)
    for _ in range(4000 if big else 300):
        yield "ties", _ties_spec(rng)
    for _ in range(3000 if big else 160):
        yield "cluster", _cluster_spec(rng, tier)
    for _ in range(8000 if big else 600):
        yield _fit_spec(rng)
    for _ in range(3000 if big else 250):
        yield "threshold", _threshold_spec(rng)
    for _ in range(8000 if big else 500):
        yield "stubs", _stub_spec(rng)
    for _ in range(3000 if big else 250):
        yield "origin", _origin_spec(rng)
    for _ in range(1200 if big else 80):
        yield "farwall", _farwall_spec(rng)
    for _ in range(800 if big else 60):
        yield "stubgap", _stubgap_spec(rng)
    for _ in range(3000 if big else 250):
        yield "sparse", _sparse_spec(rng)
    # single items, and a lone item against each wall
    for p, w, o in [(5, 10, {}), (-50, 10, {}), (5, 10, {"maxPos": 8}), (100, 10, {"maxPos": 50}),
                    (2.5, 1, {"minPos": None}), (0.5, 1, {"minPos": None}), (1.5, 1, {"minPos": None}),
                    (3, 6, {"minPos": 0, "maxPos": 6}), (3, 7, {"minPos": 0, "maxPos": 6})]:
        oo = dict(o)
        oo["algorithm"] = "none"
        yield "single", {"nodes": [[p, w]], "opts": oo}


def gen(rng, tier):
    for c in build_cases(gen_specs(rng, tier)):
        yield c


def search(rng, tier, mism_cases):
    for c in mism_cases:
        yield c
    for c in build_cases(list(gen_specs(rng, "quick"))[:1500]):
        yield c


def shrink_candidates(case):
    py = case["py"]
    nodes = py["nodes"]
    if len(nodes) <= 1:
        return
    specs = []
    half = len(nodes) // 2
    for sub in (nodes[:half], nodes[half:]):
        specs.append(("shrunk", {"nodes": sub, "opts": py["opts"]}))
    for i in range(min(len(nodes), 10)):
        specs.append(("shrunk", {"nodes": nodes[:i] + nodes[i + 1:], "opts": py["opts"]}))
    for c in build_cases(specs):
        yield c
