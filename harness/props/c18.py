"""C18: results do not depend on the process's local time zone.

The implementation is run on every case under each zone of TZS (harness/core.py
does that and demands identical outputs); the outputs under the first zone are
also compared with the zone-free model (calendar intervals: exactly; time-scale
positions: 1e-9; inverted instants: 1 microsecond).  static_checks() is the
fail-closed scan of labella/*.py for zone-dependent runtime services."""
import ast
import re
import calendar
import datetime as _d
import glob
import os
import subprocess
from fractions import Fraction

from harness.props import c17, c16

ID = "C18"
MODNAME = "c18"
TZS = ["UTC", "America/New_York", "Asia/Kolkata", "Australia/Lord_Howe", "Pacific/Chatham"]
CASE_TIMEOUT = 20
UNITS = c17.UNITS
to_us, of_us = c17.to_us, c17.of_us

RULE = ("every case is executed under TZ in %s and the five outputs must be identical. Cases: (a) d3_time[u] "
        "floor/ceil/round batches, offsets and ranges (as in C17) on instants within +-1 day of the daylight-saving "
        "changes of these zones: every Saturday..Monday around the 1st-2nd and last Sundays of March, April, September, "
        "October, November of sampled years 1950-2100, at 00:00-04:30 local wall clock in quarter hours +-1 ms and at "
        "random milliseconds; (b) TimeScale with both domain ends near such instants (spans 1 h .. 2 years, either "
        "order, ranges of either orientation): scale(t) for instants inside and outside the domain, invert(y), "
        "domain(), nice(), nice(m), ticks(m), m in 2..20; (c) whole timelines: TimelineSVG and TimelineTex documents of 2..8 items with "
        "explicit widths placed near the changes, four directions (documents compared by length and SHA-1). Datasets with bare datetime.time values are excluded "
        "(they are completed with the current date by design). non-trivial = an interval batch containing a non-boundary "
        "instant / a scale case with a DST change of some zone strictly inside its domain; distinct by input." % TZS)
EXPLANATION = ("C18_independent is immediate because the model of the current conversions never uses the zone; the substance "
               "is this tie: the static scan shows the code names no zone-dependent service, the dynamic runs show equal "
               "outputs under five zones (two with DST, three with fractional offsets), equal to the zone-free model.")


# ------------------------------------------------------------- static tie ---
ZONE_NAMES = {"timestamp", "fromtimestamp", "utcfromtimestamp", "mktime", "localtime", "gmtime", "astimezone",
              "now", "utcnow", "today", "tzinfo", "tzname", "utcoffset", "timezone", "altzone", "tzset",
              "daylight", "ctime", "asctime", "formatdate", "localize", "getenv", "environ", "putenv"}
# modules a zone-free library may import (pure computation / I/O helpers); anything else must be reviewed
SAFE_MODULES = {"math", "datetime", "copy", "os", "shutil", "subprocess", "tempfile", "unicodedata", "xml", "sys",
                "intervaltree", "labella", "itertools", "functools", "collections", "re", "fractions", "decimal",
                "numbers", "operator", "bisect", "heapq", "typing", "json", "string", "enum", "abc", "dataclasses",
                "warnings", "io", "pathlib", "textwrap", "statistics", "random", "struct", "array", "cmath", "types",
                "contextlib", "logging", "argparse", "glob", "hashlib", "base64", "html", "codecs", "__future__"}
ZONE_MODULES = {"time", "calendar", "email", "zoneinfo", "pytz", "dateutil", "tzlocal", "locale", "importlib",
                "ctypes", "cffi", "arrow", "pendulum", "babel", "pandas", "imp", "pkgutil", "runpy", "builtins"}
# strftime directives whose output depends on the zone (or, for %c/%x/%X/%s, on the platform's local time)
ZONE_DIRECTIVES = ("%s", "%z", "%Z", "%c", "%+")
# dynamic attribute access with a non-literal name cannot be scanned; the one existing use is
# Force.metric(): getattr(metrics, name) dispatching to labella.metrics (pure functions)
ALLOWED_DYNAMIC = {("force.py", "metric", "getattr", "metrics")}
INTROSPECTION = {"__getattribute__", "__dict__", "__getattr__", "__import__", "__builtins__", "__globals__",
                 "__subclasses__", "__class__"}
# the single allowed use: datetime.date.today() in Timeline.parse_items (timeline.py),
# completing bare datetime.time values with the current date
ALLOWED = {("timeline.py", "parse_items", "datetime.date.today")}
DYNAMIC_ATTR_FUNCS = {"getattr", "hasattr", "setattr", "attrgetter", "methodcaller"}


def _chain(node):
    parts = []
    while isinstance(node, ast.Attribute):
        parts.append(node.attr)
        node = node.value
    if isinstance(node, ast.Name):
        parts.append(node.id)
    else:
        parts.append("<expr>")
    return ".".join(reversed(parts))


class _Scan(ast.NodeVisitor):
    def __init__(self, fname):
        self.fname = fname
        self.msgs = []
        self.funcs = []          # stack of (name, locally bound names)
        self.fnodes = []         # stack of the function nodes themselves
        self.module_node = None
        self.module_bound = set()
        self.allowed_seen = {}

    # names bound by assignment / parameters / def / for / with / comprehension in a scope
    @staticmethod
    def _bound_in(body_nodes, args=None):
        bound = set()
        if args is not None:
            for a in list(args.posonlyargs) + list(args.args) + list(args.kwonlyargs):
                bound.add(a.arg)
            if args.vararg:
                bound.add(args.vararg.arg)
            if args.kwarg:
                bound.add(args.kwarg.arg)
        stack = list(body_nodes)
        while stack:
            n = stack.pop()
            if isinstance(n, (ast.FunctionDef, ast.AsyncFunctionDef, ast.ClassDef)):
                bound.add(n.name)
                continue             # inner scopes bind their own names
            if isinstance(n, ast.Lambda):
                continue
            if isinstance(n, ast.Name) and isinstance(n.ctx, (ast.Store, ast.Del)):
                bound.add(n.id)
            stack.extend(ast.iter_child_nodes(n))
        return bound

    def visit_Module(self, node):
        self.module_bound = self._bound_in(node.body)
        self.module_node = node
        self.generic_visit(node)

    # ---- the finitely many string constants an expression can evaluate to, or None ----------
    # Constants, conditional expressions, literal tuples / lists / dicts, subscripts of such
    # TABLES, and names that are bound ONLY by plain assignments of such expressions - in the
    # function that reads them or at module level - and by nothing else anywhere in the module
    # (no global / nonlocal declaration, no import / def / class / except / with / for / match /
    # walrus / augmented binding, no parameter of the same name, no mutation of a table through
    # the name).  Anything else is "computed": fail closed.
    def _name_facts(self, name):
        """(assign nodes with their scope nodes, True if any other binding / mutation of `name`
        exists anywhere in the module)"""
        assigns, other = [], False
        scopes = [(self.module_node, None)]
        while scopes:
            scope, _ = scopes.pop()
            body = scope.body if isinstance(scope.body, list) else [scope.body]
            if not isinstance(scope, ast.Module) and hasattr(scope, "args"):
                a = scope.args
                params = [x.arg for x in list(a.posonlyargs) + list(a.args) + list(a.kwonlyargs)]
                params += [x.arg for x in (a.vararg, a.kwarg) if x]
                if name in params:
                    other = True
            stack = list(body)
            while stack:
                n = stack.pop()
                if isinstance(n, (ast.FunctionDef, ast.AsyncFunctionDef, ast.ClassDef)):
                    if n.name == name:
                        other = True
                    if isinstance(n, ast.ClassDef):
                        # a class body is a scope of its own: any binding of the name there is "other"
                        for m in ast.walk(n):
                            if isinstance(m, ast.Name) and m.id == name and isinstance(m.ctx, (ast.Store, ast.Del)):
                                other = True
                        for m in n.body:
                            if isinstance(m, (ast.FunctionDef, ast.AsyncFunctionDef)):
                                scopes.append((m, None))
                    else:
                        scopes.append((n, None))
                    continue
                if isinstance(n, ast.Lambda):
                    scopes.append((n, None))
                    continue
                if isinstance(n, (ast.Global, ast.Nonlocal)) and name in n.names:
                    other = True
                if isinstance(n, (ast.Import, ast.ImportFrom)):
                    for al in n.names:
                        if (al.asname or al.name.split(".")[0]) == name:
                            other = True
                if isinstance(n, ast.ExceptHandler) and n.name == name:
                    other = True
                if hasattr(ast, "MatchAs") and isinstance(n, (ast.MatchAs, ast.MatchStar)) and getattr(n, "name", None) == name:
                    other = True
                if hasattr(ast, "MatchMapping") and isinstance(n, ast.MatchMapping) and n.rest == name:
                    other = True
                if isinstance(n, ast.Assign) and len(n.targets) == 1 and isinstance(n.targets[0], ast.Name) \
                        and n.targets[0].id == name:
                    assigns.append((n, scope))
                    stack.append(n.value)
                    continue
                if isinstance(n, ast.Name) and n.id == name and isinstance(n.ctx, (ast.Store, ast.Del)):
                    other = True          # loop / with / walrus / tuple / augmented / annotated binding
                # mutation of a table through the name: T[k] = ..., T[k] += ..., del T[k], T.append(...)
                if isinstance(n, ast.Subscript) and isinstance(n.ctx, (ast.Store, ast.Del)) \
                        and isinstance(n.value, ast.Name) and n.value.id == name:
                    other = True
                if isinstance(n, ast.Attribute) and isinstance(n.value, ast.Name) and n.value.id == name:
                    other = True          # T.update(...), T.append(...), or any attribute access: not a plain table use
                stack.extend(ast.iter_child_nodes(n))
        return assigns, other

    def _str_values(self, e, depth=0, table=False):
        """table=True: the value is about to be subscripted - it must be a literal table (or a name
        bound to one), never a string constant (slicing a string computes a new one)"""
        if depth > 6:
            return None
        if isinstance(e, ast.Constant):
            return [e.value] if isinstance(e.value, str) and not table else None
        if isinstance(e, ast.IfExp):
            a, b = self._str_values(e.body, depth + 1, table), self._str_values(e.orelse, depth + 1, table)
            return None if a is None or b is None else a + b
        if isinstance(e, (ast.Tuple, ast.List)):
            out = []
            for x in e.elts:
                v = self._str_values(x, depth + 1)
                if v is None:
                    return None
                out += v
            return out
        if isinstance(e, ast.Dict):
            out = []
            for x in e.values:
                v = self._str_values(x, depth + 1)
                if v is None:
                    return None
                out += v
            return out
        if isinstance(e, ast.Subscript):
            if isinstance(e.slice, ast.Slice):
                return None
            return self._str_values(e.value, depth + 1, True)
        if isinstance(e, ast.Name):
            if self.module_node is None:
                return None
            assigns, other = self._name_facts(e.id)
            if other or not assigns:
                return None
            here = self.fnodes[-1] if self.fnodes else self.module_node
            vals = []
            for a, scope in assigns:
                if scope is not here and scope is not self.module_node:
                    return None           # bound in some other function: not this function's variable
                v = self._str_values(a.value, depth + 1, table)
                if v is None:
                    return None
                vals += v
            local = [a for a, scope in assigns if scope is here and scope is not self.module_node]
            if local and any(scope is self.module_node for _, scope in assigns):
                return None               # shadowing: keep it simple, fail closed
            return vals
        return None

    def _visit_func(self, node, name):
        body = node.body if isinstance(node.body, list) else [node.body]
        self.funcs.append((name, self._bound_in(body, node.args)))
        self.fnodes.append(node)
        self.generic_visit(node)
        self.fnodes.pop()
        self.funcs.pop()

    def visit_FunctionDef(self, node):
        self._visit_func(node, node.name)

    visit_AsyncFunctionDef = visit_FunctionDef

    def visit_Lambda(self, node):
        self._visit_func(node, "<lambda>")

    def _where(self, node):
        fn = next((n for n, _ in reversed(self.funcs) if n != "<lambda>"), "<module>")
        return fn, "%s:%d (in %s)" % (self.fname, getattr(node, "lineno", 0), fn)

    def visit_Attribute(self, node):
        if node.attr in INTROSPECTION:
            self.msgs.append("%s: introspection through .%s cannot be scanned" % (self._where(node)[1], node.attr))
        if node.attr in ZONE_NAMES:
            fn, where = self._where(node)
            key = (self.fname, fn, _chain(node))
            if key in ALLOWED:
                self.allowed_seen[key] = self.allowed_seen.get(key, 0) + 1
                if self.allowed_seen[key] > 1:
                    self.msgs.append("%s: the allowed use %s occurs more than once" % (where, key[2]))
            else:
                self.msgs.append("%s: zone-dependent attribute .%s (%s)" % (where, node.attr, _chain(node)))
        self.generic_visit(node)

    def visit_Name(self, node):
        if node.id in ZONE_NAMES and isinstance(node.ctx, ast.Load):
            local = any(node.id in b for _, b in self.funcs) or node.id in self.module_bound
            if not local:
                self.msgs.append("%s: zone-dependent name %s" % (self._where(node)[1], node.id))
        self.generic_visit(node)

    def _imports(self, node, names):
        for a in names:
            last = a.name.split(".")[-1]
            if last in ZONE_NAMES or (a.asname or "") in ZONE_NAMES:
                self.msgs.append("%s: import of zone-dependent name %s" % (self._where(node)[1], a.name))
            if a.name == "*" and (getattr(node, "module", "") or "").split(".")[0] in ("time", "datetime", "calendar", "email", "zoneinfo", "pytz", "dateutil"):
                self.msgs.append("%s: star import from %s" % (self._where(node)[1], node.module))

    def _module_ok(self, node, mod, level=0):
        top = (mod or "").split(".")[0]
        if level:                      # relative import inside the package
            return
        if top in ZONE_MODULES:
            self.msgs.append("%s: import of %s, a module that can observe the local time zone" % (self._where(node)[1], mod))
        elif top not in SAFE_MODULES:
            self.msgs.append("%s: import of %s, which is not on the reviewed list of zone-free modules (scan fails closed)" % (
                self._where(node)[1], mod))

    def visit_Import(self, node):
        self._imports(node, node.names)
        for a in node.names:
            self._module_ok(node, a.name)

    def visit_ImportFrom(self, node):
        self._imports(node, node.names)
        self._module_ok(node, node.module, node.level)

    def visit_Call(self, node):
        f = node.func
        fname = f.id if isinstance(f, ast.Name) else (f.attr if isinstance(f, ast.Attribute) else "")
        if fname in DYNAMIC_ATTR_FUNCS:
            for a in node.args:
                if isinstance(a, ast.Constant) and isinstance(a.value, str) and a.value in ZONE_NAMES:
                    self.msgs.append("%s: %s(..., %r)" % (self._where(node)[1], fname, a.value))
            # a computed attribute name hides what is accessed
            if fname in ("getattr", "setattr", "attrgetter", "methodcaller"):
                names = [a for a in node.args[1:2]] if fname in ("getattr", "setattr") else list(node.args[:1])
                if any(not (isinstance(a, ast.Constant) and isinstance(a.value, str)) for a in names):
                    fn, where = self._where(node)
                    target = node.args[0].id if node.args and isinstance(node.args[0], ast.Name) else "<expr>"
                    if (self.fname, fn, fname, target) not in ALLOWED_DYNAMIC:
                        self.msgs.append("%s: %s with a computed attribute name cannot be scanned" % (where, fname))
        if fname in ("eval", "exec", "__import__", "compile", "vars", "globals", "locals", "import_module"):
            self.msgs.append("%s: dynamic code / introspection (%s) cannot be scanned" % (self._where(node)[1], fname))
        if fname in ("strftime", "__format__", "format") and isinstance(f, ast.Attribute):
            if fname == "strftime":
                fmt = node.args[0] if node.args else None
                vals = self._str_values(fmt) if fmt is not None else None
                if vals is None:
                    self.msgs.append("%s: strftime with a computed format cannot be scanned" % self._where(node)[1])
                for v in vals or []:
                    if any(d in v for d in ZONE_DIRECTIVES):
                        self.msgs.append("%s: strftime format %r contains a zone/platform dependent directive" % (
                            self._where(node)[1], v))
        self.generic_visit(node)


    def visit_FormattedValue(self, node):
        # f"{d:%s}" calls d.__format__("%s"), i.e. strftime
        spec = node.format_spec
        if spec is not None:
            for part in ast.walk(spec):
                if isinstance(part, ast.Constant) and isinstance(part.value, str) and any(d in part.value for d in ZONE_DIRECTIVES):
                    self.msgs.append("%s: format spec %r contains a zone/platform dependent directive" % (
                        self._where(node)[1], part.value))
        self.generic_visit(node)

    def visit_BinOp(self, node):
        # "...%s..." % x is printf formatting of the literal itself (e.g. "{:%s}" % fmt builds "{:.2f}")
        if isinstance(node.op, ast.Mod) and isinstance(node.left, ast.Constant):
            self.printf_literals = getattr(self, "printf_literals", set()) | {id(node.left)}
        self.generic_visit(node)

    def visit_Constant(self, node):
        # "{:%s}".format(d) / format(d, "%s")
        if id(node) in getattr(self, "printf_literals", ()):
            return
        if isinstance(node.value, str) and _BRACE_DIRECTIVE.search(node.value):
            self.msgs.append("%s: format string %r applies a zone/platform dependent directive" % (
                self._where(node)[1], node.value))


_BRACE_DIRECTIVE = re.compile(r"\{[^{}]*:[^{}]*%(s|z|Z|c|\+)")


def scan_source(fname, src):
    try:
        tree = ast.parse(src, filename=fname)
    except SyntaxError as e:
        return ["%s: cannot be parsed (%s): scan fails closed" % (fname, e.msg)]
    s = _Scan(fname)
    s.visit(tree)
    return s.msgs


def static_checks(repo):
    """Fail-closed scan: returns a list of messages, empty = clean."""
    msgs = []
    files = sorted(glob.glob(os.path.join(repo, "labella", "**", "*.py"), recursive=True))
    if not files:
        return ["no labella/*.py found under %s: scan fails closed" % repo]
    for f in files:
        try:
            src = open(f, encoding="utf-8").read()
        except Exception as e:  # noqa
            msgs.append("%s: unreadable (%s)" % (f, e))
            continue
        msgs += scan_source(os.path.basename(f), src)
    # the dynamic tie is vacuous if the zone database is missing: TZ must take effect
    probe = ("import datetime,time;print(round(datetime.datetime(2021,3,14,2,30).timestamp()),"
             "round(datetime.datetime(2021,7,1).timestamp()-datetime.datetime(2021,1,1).timestamp()))")
    seen = set()
    for tz in TZS:
        try:
            out = subprocess.run(["/venv/bin/python", "-c", probe], env=dict(os.environ, TZ=tz),
                                 capture_output=True, text=True, timeout=60).stdout.strip().splitlines()[-1]
        except Exception as e:  # noqa
            out = "probe failed: %s" % e
        seen.add(out)
    if len(seen) != len(TZS):
        msgs.append("harness: the TZ environment variable does not distinguish the %d zones (zone database missing?): "
                    "the dynamic zone tie would be vacuous" % len(TZS))
    return msgs


# ------------------------------------------------------- implementation ---
def _enc_dt(f, *a):
    try:
        return to_us(f(*a))
    except (ValueError, OverflowError, ZeroDivisionError, TypeError) as e:
        return "raise:" + type(e).__name__


def _enc_list(f, *a):
    try:
        return [to_us(x) for x in f(*a)]
    except (ValueError, OverflowError, ZeroDivisionError, TypeError) as e:
        return "raise:" + type(e).__name__


def _impl_timeline(py):
    import hashlib
    import os
    import tempfile
    from labella.timeline import TimelineSVG, TimelineTex
    out = {}
    for name, cls in (("svg", TimelineSVG), ("tex", TimelineTex)):
        data = []
        for it in py["items"]:
            t, txt, w = it[:3]
            d = {"time": of_us(t).date() if (len(it) > 3 and it[3] == "date") else of_us(t), "width": w}
            if txt is not None:
                d["text"] = txt
            data.append(d)
        opts = {"direction": py["dir"]}
        if py.get("domain"):
            opts["domain"] = [of_us(py["domain"][0]), of_us(py["domain"][1])]
        if py.get("labella") is not None:
            opts["labella"] = dict(py["labella"])
        if py.get("omit_options"):
            opts = None
        try:
            tl = cls(data, options=opts)
            if name == "svg":
                fd, fn = tempfile.mkstemp(suffix=".svg")
                os.close(fd)
                try:
                    tl.export(fn)
                    doc = open(fn, encoding="utf-8").read()
                finally:
                    os.remove(fn)
            else:
                doc = tl.export()
            out[name] = [len(doc), hashlib.sha1(doc.encode("utf-8")).hexdigest()]
        except Exception as e:  # noqa
            out[name] = "raise:" + type(e).__name__
    return out


def impl(py):
    if py["k"] == "tl":
        return _impl_timeline(py)
    if py["k"] != "ts":
        return c17.impl(py)
    from labella.scale import TimeScale
    s = TimeScale()
    s.domain([of_us(py["dom"][0]), of_us(py["dom"][1])])
    s.range([py["rng"][0], py["rng"][1]])
    out = {}
    out["scale"] = [s(of_us(q)) for q in py["qs"]]
    out["invert"] = [_enc_dt(s.invert, y) for y in py["ys"]]
    out["domain"] = [to_us(x) for x in s.domain()]
    out["ticks"] = _enc_list(s.ticks, py["m"])
    out["ticks_default"] = _enc_list(s.ticks)
    n1 = s.copy()
    try:
        n1.nice()
        out["nice"] = [to_us(x) for x in n1.domain()]
    except (ValueError, OverflowError, ZeroDivisionError, TypeError) as e:
        out["nice"] = "raise:" + type(e).__name__
    n2 = s.copy()
    try:
        n2.nice(py["m"])
        out["nice_m"] = [to_us(x) for x in n2.domain()]
        out["scale_after_nice"] = [n2(of_us(q)) for q in py["qs"][:3]]
    except (ValueError, OverflowError, ZeroDivisionError, TypeError) as e:
        out["nice_m"] = "raise:" + type(e).__name__
    out["domain_after"] = [to_us(x) for x in s.domain()]
    return out


# ------------------------------------------------------------------ cases ---
def _q(x):
    f = Fraction(x)
    return [f.numerator, f.denominator]


def _mk(py, kind=None):
    if py["k"] == "tl":
        return {"kind": kind or "timeline", "py": py, "model": []}
    if py["k"] != "ts":
        return c17._mk(py, kind)
    a, b = py["dom"]
    r0, r1 = py["rng"]
    head = [a, b] + _q(r0) + _q(r1)
    model = [[140] + head + [len(py["qs"])] + list(py["qs"])]
    ys = []
    for y in py["ys"]:
        ys += _q(y)
    model.append([141] + head + [len(py["ys"])] + ys)
    model.append([150, a, b, py["m"]])
    model.append([150, a, b, 10])
    model.append([152, a, b, 10])
    model.append([152, a, b, py["m"]])
    return {"kind": kind or "ts", "py": py, "model": model}


def rebuild(c):
    return _mk(c["py"], c.get("kind"))


def _sundays(y, m):
    c = calendar.Calendar()
    return [d for d in c.itermonthdates(y, m) if d.month == m and d.weekday() == 6]


def dst_days(rng, years):
    """Saturdays..Mondays around the first two and the last Sunday of the months
    in which the five zones change their offset"""
    out = []
    for y in years:
        for m in (3, 4, 9, 10, 11):
            su = _sundays(y, m)
            for s in (su[0], su[1], su[-1]):
                for delta in (-1, 0, 1):
                    out.append(_d.datetime(s.year, s.month, s.day) + _d.timedelta(days=delta))
    return out


def dst_instants(rng, days, per_day):
    out = []
    for d in days:
        base = to_us(d)
        for _ in range(per_day):
            r = rng.random()
            if r < 0.5:
                q = rng.randrange(0, 19) * 15 * 60 * 10 ** 6          # 00:00 .. 04:30 in quarter hours
                out.append(base + q + rng.choice([-1000, 0, 0, 1000, 15500000]))
            elif r < 0.8:
                out.append(base + rng.randrange(0, 5 * 3600 * 1000) * 1000)
            else:
                out.append(base + c17.rand_ms(rng))
    return out


def gen(rng, tier):
    quick = tier == "quick"
    years = sorted(set([1950, 1987, 2007, 2021, 2100] + [rng.randrange(1950, 2101) for _ in range(10 if quick else 60)]))
    days = dst_days(rng, years)
    inst = dst_instants(rng, days, 2 if quick else 6)
    # corpus-like fixed witnesses (Appendix A.9)
    inst += [to_us(_d.datetime(2021, 3, 14, 2, 30, 15, 500000)), to_us(_d.datetime(2021, 11, 7, 1, 30)),
             to_us(_d.datetime(2021, 4, 4, 2, 45)), to_us(_d.datetime(2021, 9, 26, 2, 45))]
    batch = 24 if quick else 200
    for u in UNITS:
        for part in c17.chunks(inst, batch):
            yield _mk({"k": "pt", "u": u, "ts": part}, "dst-pt:" + u)
    # offsets and ranges crossing the changes (week steps drifted by an hour before the repair)
    for u in UNITS:
        for _ in range(18 if quick else 300):
            bs = [to_us(c17.o_floor(u, of_us(rng.choice(inst)))) for _ in range(6)]
            ks = sorted(set([0, 1, 2] + [rng.randrange(0, 60) for _ in range(4)]))
            yield _mk({"k": "off", "u": u, "ts": bs, "ks": ks}, "dst-off:" + u)
        for _ in range(90 if quick else 600):
            t0 = rng.choice(inst) - rng.randrange(0, 3) * c17.ULEN[u]
            nb = rng.choice([1, 2, 3, 5, 8, 20])
            t1 = t0 + int(c17.ULEN[u] * nb * (0.5 + rng.random())) // 1000 * 1000
            yield _mk({"k": "rng", "u": u, "t0": t0, "t1": t1, "step": rng.choice([1, 1, 2, 3, 6, 12])}, "dst-rng:" + u)
    # time scales whose domain ends are near the changes
    spans = [3600, 6 * 3600, 86400, 2 * 86400, 7 * 86400, 30 * 86400, 91 * 86400, 200 * 86400, 366 * 86400, 730 * 86400]
    for _ in range(900 if quick else 6000):
        a = rng.choice(inst)
        span = int(rng.choice(spans) * (0.6 + 0.8 * rng.random()) * 1000) * 1000
        b = a + span if rng.random() < 0.5 else to_us(c17.o_floor("hour", of_us(rng.choice(inst))))
        if b == a:
            b = a + 3600 * 10 ** 6
        if rng.random() < 0.25:
            a, b = b, a
        r0, r1 = rng.choice([(0.0, 1000.0), (0.0, 1.0), (500.0, -500.0), (10.5, 823.25), (float(rng.randrange(-500, 500)), float(rng.randrange(501, 3000)))])
        lo, hi = min(a, b), max(a, b)
        qs = [a, b] + [lo + rng.randrange(0, (hi - lo) // 1000 + 1) * 1000 for _ in range(4)] + \
             [lo - rng.randrange(1, 10 ** 6) * 1000, hi + rng.randrange(1, 10 ** 6) * 1000]
        qs += [x for x in inst[rng.randrange(len(inst)):][:2]]
        ys = [r0, r1, (r0 + r1) / 2] + [r0 + (r1 - r0) * rng.random() for _ in range(4)]
        yield _mk({"k": "ts", "dom": [a, b], "rng": [r0, r1], "qs": qs, "ys": ys, "m": rng.randrange(2, 21)})
    # the property's own quantifier (domains of C14-C17): years 1900-2200, spans from 1 ms to 250 years,
    # counts up to 50 -- the millisecond tick path and the multi-year skip loops also run under every zone
    for _ in range(300 if quick else 3000):
        y = rng.randrange(1900, 2200)
        a = to_us(_d.datetime(y, rng.randrange(1, 13), rng.randrange(1, 29), rng.randrange(24), rng.randrange(60),
                              rng.randrange(60), rng.randrange(1000) * 1000))
        span_ms = int(10 ** rng.uniform(0, 12.9))            # 1 ms .. ~250 years
        b = a + span_ms * 1000
        if of_us_ok(b):
            if rng.random() < 0.25:
                a, b = b, a
            lo, hi = min(a, b), max(a, b)
            qs = [a, b] + [lo + rng.randrange(0, (hi - lo) // 1000 + 1) * 1000 for _ in range(3)]
            yield _mk({"k": "ts", "dom": [a, b], "rng": [0.0, 1000.0], "qs": qs, "ys": [0.0, 1000.0, 250.0],
                       "m": rng.randrange(2, 51)}, "scale-wide")


    # whole timelines (SVG and TikZ documents) with items near the changes: the documents
    # must be byte-identical under the five zones (no model here; C07/C09 own the documents)
    for _ in range(150 if quick else 1500):
        k = rng.randrange(2, 9)
        base = rng.choice(inst)
        span = rng.choice(spans) * 10 ** 6
        items = []
        for j in range(k):
            t = rng.choice(inst) if rng.random() < 0.3 else base + rng.randrange(0, span // 1000 + 1) * 1000
            kind = "date" if rng.random() < 0.3 else "dt"
            items.append([t, ("item %d" % j) if rng.random() < 0.7 else None, float(rng.randrange(20, 90)), kind])
        py = {"k": "tl", "items": items, "dir": rng.choice(["up", "down", "left", "right"])}
        r = rng.random()
        if r < 0.2:
            ts_ = [it[0] for it in items]
            py["domain"] = [min(ts_) - rng.randrange(0, 5) * 3600 * 10 ** 6, max(ts_) + rng.randrange(1, 5) * 3600 * 10 ** 6]
        if rng.random() < 0.3:
            py["labella"] = rng.choice([{"maxPos": 300}, {"algorithm": "simple", "maxPos": 200}, {"algorithm": "none"}, {}])
        if rng.random() < 0.1:
            py["omit_options"] = True
        yield _mk(py)


def of_us_ok(us):
    return to_us(_d.datetime(1900, 1, 1)) <= us <= to_us(_d.datetime(2200, 12, 31))


# ---------------------------------------------------------------- compare ---
def _close(x, y):
    return abs(x - y) <= 1e-9 * max(1.0, abs(x), abs(y))


def compare(case, io, mo):
    py = case["py"]
    if py["k"] == "tl":
        if isinstance(io, dict) and "exc" in io:
            return "implementation raised %s %s" % (io["exc"], io.get("msg", ""))
        for name in ("svg", "tex"):
            if isinstance(io[name], str):
                return "%s export raised %s" % (name, io[name][6:])
        return None
    if py["k"] != "ts":
        return c17.compare(case, io, mo)
    if isinstance(io, dict) and "exc" in io:
        return "implementation raised %s %s" % (io["exc"], io.get("msg", ""))
    if io["domain"] != list(py["dom"]) or io["domain_after"] != list(py["dom"]):
        return "domain() does not return the domain that was set: %r" % (io["domain"],)
    m = mo[0]
    if m is None or m[0] == -999:
        return None                      # no model for the time scale in this build
    if m[0] != 1:
        return "model: degenerate domain"
    n = m[1]
    for i in range(n):
        want = Fraction(m[2 + 2 * i], m[3 + 2 * i])
        if not _close(io["scale"][i], float(want)):
            return "scale(%s): impl %r model %r" % (of_us(py["qs"][i]).isoformat(), io["scale"][i], float(want))
    m = mo[1]
    if m is not None and m[0] == 1:
        for i in range(m[1]):
            want = Fraction(m[2 + 2 * i], m[3 + 2 * i])      # exact microseconds, rational
            got = io["invert"][i]
            if isinstance(got, str):
                return "invert(%r) raised" % py["ys"][i]
            # the implementation rounds to a microsecond; a few ulps (~1 us) of the double epoch milliseconds
            span = abs(py["dom"][1] - py["dom"][0])
            if abs(got - want) > 10:
                return "invert(%r): impl %d model %s" % (py["ys"][i], got, float(want))
    # ticks(m) and ticks() against the tick model (C16), outside its ambiguity band
    for key, mm, cnt in (("ticks", mo[2], py["m"]), ("ticks_default", mo[3], 10)):
        if mm is None or mm[0] == -999:
            continue
        want = "raise" if mm[0] == 0 else ("nofuel" if mm[0] == -1 else list(mm[2:2 + mm[1]]))
        got = io[key] if not isinstance(io[key], str) else "raise"
        if got != want and not c16.ambiguous({"dom": py["dom"], "m": cnt}):
            return "%s: impl %r model %r" % (key, got if isinstance(got, str) else got[:4], want if isinstance(want, str) else want[:4])
    # nice() and nice(m) against the nice model (C14, time part)
    for key, mm, cnt in (("nice", mo[4], 10), ("nice_m", mo[5], py["m"])):
        if mm is None or mm[0] == -999:
            continue
        want = "raise" if mm[0] == 0 else ("nofuel" if mm[0] == -1 else [mm[1], mm[2]])
        got = io[key] if not isinstance(io[key], str) else "raise"
        if got != want and not c16.ambiguous({"dom": py["dom"], "m": cnt}):
            return "%s: impl %r model %r" % (key, got, want)
    return None


def oracle(case, io):
    """zone independence itself is checked by core (identical outputs under TZS);
    here: the C17 statement for the interval cases (supporting)."""
    if case["py"]["k"] == "tl":
        return None
    if case["py"]["k"] != "ts":
        return c17.oracle(case, io)
    if isinstance(io, dict) and "exc" in io:
        return "raised %s" % io["exc"]
    return None


def _has_dst_inside(py):
    lo, hi = sorted(py["dom"])
    return hi - lo >= 36 * 3600 * 10 ** 6


def nontrivial(case, io):
    if case["py"]["k"] == "tl":
        return len(case["py"]["items"]) >= 2
    if case["py"]["k"] != "ts":
        return c17.nontrivial(case, io)
    return _has_dst_inside(case["py"])


def search(rng, tier, mism_cases):
    for c in mism_cases:
        yield c
    for c in gen(rng, "quick"):
        yield c


def shrink_candidates(case):
    if case["py"]["k"] not in ("ts", "tl"):
        for c in c17.shrink_candidates(case):
            yield c


LEVEL_TEXT = ("Coq: the model of the current conversions and of every calendar-interval entry point takes the zone "
              "tz : Z -> Z (arbitrary) as a parameter and provably ignores it (C18_independent, immediate); the old "
              "zone-dependent conversions are refuted by a kernel-checked witness (C18_refuted_old). The substance is the "
              "tie: a fail-closed ast scan of labella/*.py for zone-dependent services (one allowed use: "
              "datetime.date.today() for bare datetime.time data in Timeline.parse_items) and execution of every case "
              "under five zones with identical outputs, equal to the zone-free model.")
LEVEL_NOTE = ("Partial: the OS zone database and CPython's local-time functions are not modelled; independence of the "
              "implementation is established by the static scan and by differential runs under 5 TZ values, not by proof. "
              "Timeline documents are compared between zones only (their content is the business of C07/C09).")
TECHNIQUE = "Coq (parametricity-style independence, refutation witness by vm_compute) + static ast scan + differential execution under five time zones"
