"""C03: position bounds are honoured whenever the items fit; otherwise the excess spills."""
from fractions import Fraction as F

from harness.props import layer_common as L
from harness.props.layer_common import (impl, gen, rebuild, compare, nontrivial, search,  # noqa: F401
                                        shrink_candidates, extra_evidence, CASE_TIMEOUT)

ID = "C03"
MODNAME = "c03"
EXTRA_TARGETS = ["Props/C01.vo", "Props/C02.vo"]
RULE = ("Same case families as C01 (a case = label list + engine options; every layer of getLayers() after Force.compute() is one "
        "placement problem). The fit_* family has both bounds with the layer fitting exactly / by 1/1024 / missing by 1/1024 / by half / "
        "grossly, targets inside, left, right, on both sides or at the centre; bounds absent/default/None/negative/fractional/zero elsewhere; "
        "a family with targets 1e9..1e12 beyond a bound (walls give way by 0.1..100 units). "
        "The layer width handed to the distributor is compared in every case. Non-trivial = some layer with >= 2 items in which an "
        "item is moved; distinct by input.")
EXPLANATION = ("Walls are modelled as coded (soft, weight 1e10). C03_inside carries the explicit slack delta = sum|x-t|/1e10; "
               "the oracle grants 1/2 + delta computed from the output alone.")


def oracle(case, io):
    """If the items of a layer fit between the configured bounds, every item
    lies inside them to within 0.5; if not, the separation of C01 is kept in
    full and the layer is as long as it needs to be.
    An item leaving a bound by more than 0.5 although the layer fits is tagged
    as the known finding soft-wall-slack only if the excess is at most
    delta_obs = sum|reported - target| / 1e10 (+1e-6); any other failure is
    reported untagged and takes precedence."""
    if isinstance(io, dict) and "exc" in io:
        return "raised %s" % io["exc"]
    ns, ls, mn, mx = L.model_opts(case["py"]["opts"])
    eps = F(1, 10 ** 9)
    known = None
    for k, layer in enumerate(io["layers"]):
        if not layer:
            continue
        its = L.ordered(layer)
        need = L.needed_length(its, ns)
        fit = mn is None or mx is None or need <= F(mx) - F(mn)
        if fit:
            dobs = L.delta_obs(its)
            for it in its:
                out = []
                if mn is not None:
                    out.append((F(mn) - (F(it[3]) - F(it[1]) / 2), "starts left of minPos %r" % mn))
                if mx is not None:
                    out.append(((F(it[3]) + F(it[1]) / 2) - F(mx), "ends right of maxPos %r" % mx))
                for dist, what in out:
                    excess = dist - F(1, 2)
                    if excess > eps:
                        msg = "layer %d fits (needs %s), but the item at %r (target %r, width %r) %s by %s" % (
                            k, float(need), it[3], it[0], it[1], what, float(dist))
                        if excess <= dobs + F(1, 10 ** 6):
                            if known is None:
                                known = L.tagged(L.SOFT_WALL, msg + " (excess %.6g over 0.5 <= wall slack %.6g)" % (float(excess), float(dobs)))
                        else:
                            return msg
        else:
            for a, b in zip(its, its[1:]):
                if F(b[3]) - F(a[3]) < L.gap(a, b, ns) - 1 - eps:
                    return "layer %d does not fit and its neighbours at %r, %r overlap (gap %s)" % (k, a[3], b[3], float(L.gap(a, b, ns)))
            ext = (F(its[-1][3]) + F(its[-1][1]) / 2) - (F(its[0][3]) - F(its[0][1]) / 2)
            if ext < need - 1 - eps:
                return "layer %d does not fit, yet it is only %s long where %s is needed" % (k, float(ext), float(need))
    return known


def matches_finding(finding, case, failure):
    return L.matches(finding, failure, L.SOFT_WALL)


LEVEL_TEXT = ("Machine-checked Coq theorems for ALL layers: if the layer fits between the bounds (or a bound is absent) every "
              "reported item lies inside them to within 1/2 + delta, delta = sum|x_i - t_i| / 1e10 (C03_inside), delta is "
              "bounded explicitly (C03_delta_bound) and cannot be dropped (C03_inside_tight_refuted: targets 1e11 beyond maxPos "
              "put a fitting layer 10 units outside; known finding soft-wall-slack); with no fitting hypothesis the separation is kept and the layer is as "
              "long as it needs (C03_spill); the layer width handed to the distributor (C03_layer_width); model tied to "
              "the code by differential execution on every run.")
LEVEL_NOTE = ("Trusted: Coq kernel; extraction re-checked by vm_compute; the harness. Modelled, not verified: "
              "removeOverlap.py / vpsc.py / Force.set_options (exact rationals for doubles). The walls are soft in the code, "
              "so 'inside the bounds' holds up to the stated delta (about 1e-8 per unit of total displacement), not exactly.")
TECHNIQUE = "Coq proof (KKT multipliers of the wall variables, telescoping) + model/implementation correspondence"
