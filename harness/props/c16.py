"""C16: time ticks never fail, increase, stay in the domain, sit on calendar boundaries
(labella/scale.py TimeScale.ticks / tickMethod, labella/d3_time.py range)."""
import datetime as _d
from fractions import Fraction

from harness.props import c17

ID = "C16"
MODNAME = "c16"
to_us, of_us = c17.to_us, c17.of_us
UNITS = c17.UNITS
STEPS = [1000, 5000, 15000, 30000, 60000, 300000, 900000, 1800000, 3600000, 10800000, 21600000, 43200000,
         86400000, 172800000, 604800000, 2592000000, 7776000000, 31536000000]
RULE = ("time domains of millisecond resolution in years 1900-2200, either orientation, counts m in 2..50: spans drawn "
        "log-uniformly from 1 ms to 250 years; spans of 1..20 ms; spans of 3..90 days starting on the 25th..31st of every "
        "month (day-granularity ticks across a month end), across 29 February and 31 December, across week boundaries; "
        "spans placed so that span/m sits just below / on / just above each of the 18 table steps and their geometric "
        "means. One case = one domain and one count: ticks(m) and tickMethod. non-trivial = at least 2 ticks; distinct by input.")
EXPLANATION = ("Theorems are about coq/Time/TimeTicks.v (tick-method table, linear tick step, millisecond range) on top of the "
               "C17 interval model; the tie checks that TimeScale.ticks returns exactly the model's instants and that "
               "tickMethod picks the same unit and skip. Ambiguity band: span/m within 1e-12 (relative) of a table step or "
               "of the geometric mean of two neighbouring steps, or the linear-tick error within 1e-12 of .15/.35/.75.")


def impl(py):
    from labella.scale import TimeScale, d3_time_scaleMilliseconds
    from labella.d3_time import d3_time, dt2milli
    a, b = of_us(py["dom"][0]), of_us(py["dom"][1])
    s = TimeScale()
    s.domain([a, b])
    # another scale object is configured and used in between: scale objects share nothing
    import datetime as _dt
    _o = TimeScale().domain([_dt.datetime(2001, 2, 3, 4, 5), _dt.datetime(2031, 7, 9)]).range([7, 1234])
    _o.ticks(7)
    _o.nice()
    _o2 = TimeScale().domain([_dt.datetime(2001, 2, 3, 4, 5, 6, 1000), _dt.datetime(2001, 2, 3, 4, 5, 6, 777000)])
    try:
        _o2.ticks(py["m"]) if py.get("m") is not None else _o2.ticks()      # the same count, a sub-second span
    except Exception:  # noqa: BLE001
        pass
    out = {}
    try:
        out["ticks"] = [to_us(x) for x in s.ticks(py["m"])]
    except Exception as e:  # noqa
        out["ticks"] = "raise:" + type(e).__name__
    try:
        lo, hi = min(a, b), max(a, b)
        meth = s.tickMethod([dt2milli(lo), dt2milli(hi)], py["m"])
        if meth[0] is d3_time_scaleMilliseconds:
            out["method"] = ["ms", float(meth[1])]
        else:
            name = [u for u in UNITS if d3_time[u] is meth[0]]
            out["method"] = [name[0] if name else "?", float(meth[1])]
    except Exception as e:  # noqa
        out["method"] = "raise:" + type(e).__name__
    return out


def _mk(py, kind="ticks"):
    a, b = py["dom"]
    return {"kind": kind, "py": py,
            "model": [[150, a, b, py["m"]], [151, min(a, b), max(a, b), py["m"]]]}


def rebuild(c):
    return _mk(c["py"], c.get("kind", "ticks"))


# ---------------------------------------------------------------- compare ---
def _ilog10(q):
    e = 0
    while q >= 10:
        q /= 10
        e += 1
    while q < 1:
        q *= 10
        e -= 1
    return e


def _near(x, y, rel=1e-12):
    return x != y and abs(x - y) <= rel * max(abs(x), abs(y))


def ambiguous(py):
    """the float decisions of tickMethod / linearTickRange are within rounding of a tie"""
    span = Fraction(abs(py["dom"][1] - py["dom"][0]), 1000)
    m = py["m"]
    if span == 0:
        return False
    target = span / m
    for s in STEPS:
        if _near(target, Fraction(s)):
            return True
    for s0, s1 in zip(STEPS, STEPS[1:]):
        if s0 <= target < s1:
            t2, pr = target * target, Fraction(s0 * s1)
            if t2 == pr or _near(t2, pr):
                return True
    q = None
    if target < STEPS[0]:
        q = span / m
        sp = span
    elif target >= STEPS[-1]:
        q = span / 31536000000 / m
        sp = span / 31536000000
    if q is not None:
        step0 = Fraction(10) ** _ilog10(q)
        err = m / sp * step0
        for thr in (Fraction(15, 100), Fraction(35, 100), Fraction(75, 100)):
            if abs(err - thr) <= Fraction(1, 10 ** 12):
                return True
    return False


def compare(case, io, mo):
    from harness import core
    if isinstance(io, dict) and "exc" in io:
        return "implementation raised %s %s" % (io["exc"], io.get("msg", ""))
    py = case["py"]
    m = mo[0]
    if m is None or m[0] == -999:
        return "model rejected the input"
    mt = "raise" if m[0] == 0 else ("nofuel" if m[0] == -1 else list(m[2:2 + m[1]]))
    it = io["ticks"]
    if isinstance(it, str):
        it = "raise"
    why = None
    if it != mt:
        why = "ticks(%d) on [%s, %s]: impl %s model %s" % (
            py["m"], of_us(py["dom"][0]).isoformat(), of_us(py["dom"][1]).isoformat(),
            it if isinstance(it, str) else (len(it), [of_us(x).isoformat() for x in it[:4]]),
            mt if isinstance(mt, str) else (len(mt), [of_us(x).isoformat() for x in mt[:4]]))
    mm = mo[1]
    if why is None and mm is not None and mm[0] == 1 and not isinstance(io["method"], str):
        unit = "ms" if mm[1] == 0 else UNITS[mm[2]]
        skip = Fraction(mm[3], mm[4])
        if io["method"][0] != unit or abs(io["method"][1] - float(skip)) > 1e-9 * max(1.0, abs(float(skip))):
            why = "tickMethod: impl %r model %r" % (io["method"], [unit, float(skip)])
    if why and ambiguous(py):
        raise core.Ambiguous()
    return why


# ----------------------------------------------- oracle (property statement) ---
def oracle(case, io):
    if isinstance(io, dict) and "exc" in io:
        return "raised %s" % io["exc"]
    py = case["py"]
    m = py["m"]
    lo, hi = min(py["dom"]), max(py["dom"])
    t = io["ticks"]
    if isinstance(t, str):
        return "ticks(%d) raised %s" % (m, t[6:])
    for x, y in zip(t, t[1:]):
        if not x < y:
            return "ticks not strictly increasing: %s, %s" % (of_us(x).isoformat(), of_us(y).isoformat())
    gaps = [y - x for x, y in zip(t, t[1:])]
    sub_second = bool(gaps) and min(gaps) < 10 ** 6
    tol = 1000 if sub_second or not gaps else 0
    for x in t:
        if not (lo - tol <= x <= hi + tol):
            return "tick %s outside the domain [%s, %s]" % (of_us(x).isoformat(), of_us(lo).isoformat(), of_us(hi).isoformat())
    span_ms = (hi - lo) // 1000
    if span_ms < m:
        want = list(range(lo, hi + 1, 1000))
        if t != want:
            return "a domain shorter than m milliseconds must get one tick per millisecond: got %d ticks for %d ms" % (len(t), span_ms)
        return None
    if gaps:
        g = min(gaps)
        for x in t:
            d = of_us(x)
            if g >= 10 ** 6 and d.microsecond:
                return "spacing >= 1 s but tick %s is not on a whole second" % d.isoformat()
            if g >= 60 * 10 ** 6 and d.second:
                return "spacing >= 1 min but tick %s is not on a whole minute" % d.isoformat()
            if g >= 3600 * 10 ** 6 and d.minute:
                return "spacing >= 1 h but tick %s is not on a whole hour" % d.isoformat()
            if g >= 86400 * 10 ** 6 and d.hour:
                return "day-or-coarser spacing but tick %s is not at midnight" % d.isoformat()
            if g >= 28 * 86400 * 10 ** 6 and d.day != 1:
                return "month-or-coarser spacing but tick %s is not the first of a month" % d.isoformat()
            if g >= 365 * 86400 * 10 ** 6 and d.month != 1:
                return "yearly spacing but tick %s is not 1 January" % d.isoformat()
        for g1, g2 in zip(gaps, gaps[1:]):       # CONSECUTIVE gaps, as the property says
            if max(g1, g2) > 2 * min(g1, g2):
                return "consecutive gaps differ by more than a factor of two: %s and %s" % (
                    _d.timedelta(microseconds=g1), _d.timedelta(microseconds=g2))
    n = len(t)
    if not (m / 2.4 - 1 <= n <= 2.4 * m + 1):
        return "%d ticks for m = %d (allowed %.2f .. %.2f)" % (n, m, m / 2.4 - 1, 2.4 * m + 1)
    return None


def nontrivial(case, io):
    return isinstance(io, dict) and isinstance(io.get("ticks"), list) and len(io["ticks"]) >= 2


# ------------------------------------------------------------- generators ---
def _clip(a, b):
    if a < c17.LO:
        b += c17.LO - a
        a = c17.LO
    if b > c17.HI:
        a -= b - c17.HI
        b = c17.HI
    return (a, b) if c17.LO <= a < b <= c17.HI else None


def _dom(rng, a, span_ms, kind):
    r = _clip(a, a + span_ms * 1000)
    if r is None:
        return None
    a, b = r
    if rng.random() < 0.25:
        a, b = b, a
    return _mk({"dom": [a, b], "m": rng.randrange(2, 51)}, kind)


def gen(rng, tier):
    import math
    quick = tier == "quick"
    n = 1 if quick else 20
    max_ms = 250 * 365 * 86400 * 1000
    out = []
    for _ in range(1400 * n):            # log-uniform spans
        span = max(1, int(math.exp(rng.uniform(0, math.log(max_ms)))))
        out.append(_dom(rng, c17.rand_instant(rng), span, "log-uniform"))
    for _ in range(250 * n):             # 1..20 ms
        out.append(_dom(rng, c17.rand_instant(rng), rng.randrange(1, 21), "tiny"))
    ends = [d for d in c17.special_days() if d.day >= 28]
    for _ in range(500 * n):             # day-granularity ticks across month ends / leap days / year ends
        d = rng.choice(ends)
        a = to_us(d) - rng.randrange(0, 6) * c17.DAY + rng.choice([0, c17.rand_ms(rng)])
        span = rng.randrange(3, 91) * 86400000 + rng.choice([0, rng.randrange(0, 86400000)])
        out.append(_dom(rng, a, span, "month-end"))
    for _ in range(150 * n):             # week boundaries
        b = c17.rand_boundary(rng, "week") + rng.choice([-1000, 0, 1000, c17.rand_ms(rng)])
        out.append(_dom(rng, b - rng.randrange(0, 40) * c17.DAY, rng.randrange(7, 200) * 86400000, "week-boundary"))
    for _ in range(450 * n):             # span/m at the table steps and their geometric means
        m = rng.randrange(2, 51)
        i = rng.randrange(len(STEPS))
        if rng.random() < 0.5 or i + 1 == len(STEPS):
            target = STEPS[i]
        else:
            target = math.sqrt(STEPS[i] * STEPS[i + 1])
        span = int(target * m * rng.choice([1.0, 1.0, 0.999999, 1.000001, 0.99, 1.01])) + rng.choice([-1, 0, 0, 1])
        span = max(1, min(span, max_ms))
        r = _clip(*(lambda a: (a, a + span * 1000))(c17.rand_instant(rng)))
        if r:
            a, b = r
            out.append(_mk({"dom": [a, b] if rng.random() < 0.8 else [b, a], "m": m}, "table-step"))
    for _ in range(120 * n):             # many-year spans
        y0 = rng.randrange(1900, 2190)
        y1 = rng.randrange(y0 + 1, 2201)
        a = to_us(_d.datetime(y0, rng.randrange(1, 13), rng.randrange(1, 29))) + rng.choice([0, c17.rand_ms(rng)])
        b = to_us(_d.datetime(y1, rng.randrange(1, 13), rng.randrange(1, 29))) + rng.choice([0, c17.rand_ms(rng)])
        out.append(_mk({"dom": [a, b], "m": rng.randrange(2, 51)}, "years"))
    for c in out:
        if c is not None:
            yield c


def search(rng, tier, mism_cases):
    for c in mism_cases:
        yield c
    for c in gen(rng, "quick"):
        yield c


def shrink_candidates(case):
    py = case["py"]
    a, b = py["dom"]
    if abs(b - a) > 2000:
        mid = (a + b) // 2000 * 1000
        yield _mk({"dom": [a, mid], "m": py["m"]}, case.get("kind"))
        yield _mk({"dom": [mid, b], "m": py["m"]}, case.get("kind"))


LEVEL_TEXT = ("Machine-checked Coq theorems on the model of TimeScale.ticks for ALL domains in years 2..9997 and counts m >= 1: "
              "ticks never raise or run out of fuel, are strictly increasing, lie inside the domain, and every tick is a "
              "boundary of the unit the method table chose (hence of every finer unit: whole seconds, minutes, hours, "
              "midnight, first of month, 1 January); all consecutive gaps lie in [g, 2g] for one g (C16_tt_gap_ratio, every row of the "
              "method table and both fall-backs); m/2.4 - 1 <= number of ticks <= 2.4 m + 1 whenever the span is at least m ms "
              "(C16_tt_count); a shorter domain gets one tick per millisecond (C16_tt_short_domain). The property oracle checks "
              "the same clauses on the implementation's output for every generated case.")
LEVEL_NOTE = ("Trusted: Coq kernel; extraction re-checked on a slice by vm_compute; the correspondence harness. Modelled, not "
              "verified: labella/scale.py and d3_time.py; doubles are modelled by exact rationals (ambiguity bands at the "
              "float decision points are counted, not compared).")
TECHNIQUE = "Coq proof (C17 interval theory; generic tick-set enumeration theory with per-row gap bounds; bisect-threshold arithmetic) + model/implementation correspondence"
