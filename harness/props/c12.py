"""C12: the linear scale is the affine map through its end points; copies are independent."""
from fractions import Fraction as F

from harness import core

ID = "C12"
MODNAME = "c12"
RULE = ("(a) point cases: one random domain [a,b] and range [r0,r1] (magnitudes 1e-6..1e9, both orientations, spans >= 1e-6 of (plus a narrow family: relative width down to a few ulps, queries in and near the interval) "
        "the magnitude, plus a few degenerate ones) with 8 query points each (the end points, inside, far outside), scale and "
        "invert, clamped and unclamped; (b) history cases: 6..28 random operations (constructor with default or caller-given lists, "
        "domain/range/clamp/nice/copy; range() and the constructor are handed caller lists shared between scales AND the very list "
        "objects other scales return from domain()/range()) over a pool of up to eight scales, every observable (domain, range, "
        "clamp, s(x), s.invert(y)) of every scale compared after every step.  Non-trivial = a point case with a reversed or "
        "clamped-outside query / a history with a copy or a shared list followed by a nice() or domain(); distinct by input.")
EXPLANATION = ("Theorems are about coq/Scale/Linear.v (all rational domains, ranges, queries) and the heap machine "
               "coq/Scale/ScaleState.v (all operation lists); the tie checks that labella/scale.py LinearScale computes the same "
               "values (relative tolerance 1e-9 on continuous outputs, flags exactly) point-wise and after every step of random "
               "histories.  nice() inside histories is only issued where the tick step is an integer (then the double arithmetic "
               "of floor/ceil is exact); its general numerics are tied by C14.")
CASE_TIMEOUT = 20
# the kernel-checked record of the repaired defects (old aliasing copy, old in-place nice) stays compiled
EXTRA_TARGETS = ["History/ScaleOld.vo"]
EPS = F(1, 10 ** 9)


def _q(x):
    n, d = float(x).as_integer_ratio()
    return [n, d]


def _fr(x):
    return F(float(x))


# ------------------------------------------------------------------ impl ---
def _obs(s, xs, ys):
    d = s.domain()
    r = s.range()
    return {"d": [float(d[0]), float(d[1])], "r": [float(r[0]), float(r[1])], "c": bool(s.clamp()),
            "x": [float(s(x)) for x in xs], "y": [float(s.invert(y)) for y in ys],
            "e": [float(s(d[0])), float(s(d[1]))]}


def _ids(ops):
    """per op: (number of scales, number of list cells) existing before it.
    Cells are numbered in allocation order, exactly as coq/Scale/ScaleState.v
    does: New 2 (domain, range), Alloc 1, Domain 1, Nice 1, Copy 2."""
    nsc = ncell = 0
    ids = []
    for op in ops:
        ids.append((nsc, ncell))
        k = op[0]
        if k in (0, 6):
            nsc += 1
            ncell += 2
        elif k == 7:
            nsc += 1
        elif k in (1, 2, 5):
            ncell += 1
    return ids


def _play(ops, xs, ys, skip=frozenset(), only=None):
    """Runs a history on real LinearScale objects.  `cells` holds the actual
    list OBJECTS in allocation order, so that range()/the constructor are
    handed the very objects (a caller's list, or a list another scale returned
    from domain()/range()).  Operations whose index is in `skip` are left out
    (replays) but keep the numbering of scales and cells."""
    from labella.scale import LinearScale
    scales = []
    cells = []
    steps = []
    for i, op in enumerate(ops):
        k = op[0]
        if i in skip:
            if k in (2, 5):
                cells.append(None)
            elif k == 7:
                scales.append(LinearScale())
            steps.append(None)
            continue
        if k == 0:
            s = LinearScale()
            scales.append(s)
            cells += [s.domain(), s.range()]
        elif k == 1:
            cells.append([op[1], op[2]])
        elif k == 2:
            s = scales[op[1]]
            s.domain([op[2], op[3]])
            cells.append(s.domain())
        elif k == 3:
            scales[op[1]].range(cells[op[2]])
        elif k == 4:
            scales[op[1]].clamp(bool(op[2]))
        elif k == 5:
            s = scales[op[1]]
            s.nice(op[2])
            cells.append(s.domain())
        elif k == 6:
            c = scales[op[1]].copy()
            scales.append(c)
            cells += [c.domain(), c.range()]
        elif k == 7:
            scales.append(LinearScale(cells[op[1]], cells[op[2]]))
        elif k == 8:
            scales[op[1]].range(scales[op[2]].domain())     # the getter's own list object
        elif k == 9:
            scales[op[1]].range(scales[op[2]].range())
        if only is None:
            steps.append([_obs(s, xs, ys) for s in scales])
        else:
            steps.append(_obs(scales[only], xs, ys) if only < len(scales) else None)
    return steps


def impl(py):
    from labella.scale import LinearScale
    if py["k"] == "pt":
        a, b, r0, r1 = py["a"], py["b"], py["r0"], py["r1"]
        s = LinearScale().domain([a, b]).range([r0, r1])
        c = LinearScale().domain([a, b]).range([r0, r1]).clamp(True)
        return {"u": [[float(s(x)), float(s.invert(s(x)))] for x in py["xs"]],
                "ui": [[float(s.invert(y)), float(s(s.invert(y)))] for y in py["ys"]],
                "c": [float(c(x)) for x in py["xs"]],
                "ci": [float(c.invert(y)) for y in py["ys"]]}
    ops, xs, ys = py["ops"], py["xs"], py["ys"]
    steps = _play(ops, xs, ys)
    # copy independence, as the property words it: replay the history without
    # the other scale's later operations; the remaining one must not notice
    replays = []
    ids = _ids(ops)
    for i, op in enumerate(ops):
        if op[0] == 6 and len(replays) < 6:
            orig, cp = op[1], ids[i][0]
            for keep, drop in ((orig, cp), (cp, orig)):
                # Scales that legitimately differ in the replay: `drop`, later
                # copies of it, and scales the CALLER hands one of their lists
                # to ("share nothing unless the caller passes them the same
                # objects").  Their operations are left out too.  If `keep`
                # becomes one of them the replay says nothing and is left out.
                diff_sc, diff_cells, skip = {drop}, set(), set()
                for j in range(i + 1, len(ops)):
                    o = ops[j]
                    k = o[0]
                    nsc, ncell = ids[j]
                    if k == 6:
                        if o[1] in diff_sc:
                            diff_sc.add(nsc)
                            diff_cells.update((ncell, ncell + 1))
                    elif k == 7:
                        if o[1] in diff_cells or o[2] in diff_cells:
                            diff_sc.add(nsc)
                            skip.add(j)
                    elif k in (2, 5):
                        if o[1] in diff_sc:
                            diff_cells.add(ncell)
                            skip.add(j)
                    elif k == 3:
                        if o[2] in diff_cells:
                            diff_sc.add(o[1])
                        if o[1] in diff_sc:
                            skip.add(j)
                    elif k in (8, 9):
                        if o[2] in diff_sc:
                            diff_sc.add(o[1])
                        if o[1] in diff_sc:
                            skip.add(j)
                    elif k == 4:
                        if o[1] in diff_sc:
                            skip.add(j)
                if keep in diff_sc:
                    continue
                rs = _play(ops, xs, ys, frozenset(skip), only=keep)
                last = [st for st in rs if st is not None][-1]
                replays.append({"copy_step": i, "keep": keep, "drop": drop, "obs": last})
    return {"steps": steps, "replays": replays}


# ----------------------------------------------------------------- cases ---
def _pt_case(a, b, r0, r1, xs, ys, kind="pt"):
    py = {"k": "pt", "a": a, "b": b, "r0": r0, "r1": r1, "xs": xs, "ys": ys}
    return rebuild({"kind": kind, "py": py})


def _enc_op(op):
    k = op[0]
    if k == 0:
        return [0]
    if k == 1:
        return [1] + _q(op[1]) + _q(op[2])
    if k == 2:
        return [2, op[1]] + _q(op[2]) + _q(op[3])
    if k == 3:
        return [3, op[1], op[2]]
    if k == 4:
        return [4, op[1], 1 if op[2] else 0]
    if k == 5:
        return [5, op[1], op[2]]
    if k == 6:
        return [6, op[1]]
    return [k, op[1], op[2]]          # 7 NewWith d r | 8 RangeOfDomain s t | 9 RangeOfRange s t


def rebuild(c):
    py = c["py"]
    if py["k"] == "pt":
        base = _q(py["a"]) + _q(py["b"]) + _q(py["r0"]) + _q(py["r1"])
        model = []
        for x, y in zip(py["xs"], py["ys"]):
            model.append([200, 0] + base + _q(x) + _q(y))
            model.append([200, 1] + base + _q(x) + _q(y))
        return {"kind": c.get("kind", "pt"), "py": py, "model": model}
    call = [201, len(py["xs"])]
    for x in py["xs"]:
        call += _q(x)
    call.append(len(py["ys"]))
    for y in py["ys"]:
        call += _q(y)
    call.append(len(py["ops"]))
    for op in py["ops"]:
        call += _enc_op(op)
    return {"kind": c.get("kind", "hist"), "py": py, "model": [call]}


def _mag(rng, lo=-6, hi=9):
    return rng.choice([-1, 1]) * 10 ** rng.uniform(lo, hi)


def _pair(rng, lo=-6, hi=9):
    """two distinct values, magnitudes 1e-6..1e9, span >= 1e-6 of the magnitude"""
    while True:
        a = _mag(rng, lo, hi)
        t = rng.random()
        if t < 0.45:
            b = _mag(rng, lo, hi)
        elif t < 0.9:
            b = a + rng.choice([-1, 1]) * abs(a) * 10 ** rng.uniform(-5.5, 1)
        else:
            a = float(round(a)) if abs(a) >= 1 else a
            b = a + rng.choice([-1, 1]) * float(rng.choice([1, 2, 5, 10, 100, 1000]))
        if a != b and 1e-6 <= abs(a) <= 1e9 and 1e-6 <= abs(b) <= 1e9 or (a == 0.0 or b == 0.0) and a != b:
            if abs(b - a) >= 1.5e-6 * max(abs(a), abs(b)):
                return a, b


def _queries(rng, a, b):
    span = b - a
    xs = [a, b, a + span * rng.random(), a + span * rng.random(), (a + b) / 2,
          a - span * 10 ** rng.uniform(-3, 2), b + span * 10 ** rng.uniform(-3, 2), _mag(rng)]
    return [float(x) for x in xs]


def gen(rng, tier):
    n_pt = 1500 if tier == "quick" else 20000
    n_h = 600 if tier == "quick" else 6000
    # fixed shapes first: the documentation's examples and the old witness A.6
    yield _pt_case(0.0, 1.0, 0.0, 1.0, [0.0, 1.0, 0.5, 0.25, -1.0, 2.0, 0.75, 1e9], [0.0, 1.0, 0.5, 0.25, -1.0, 2.0, 0.75, 1e9])
    yield _pt_case(10.0, 0.0, 0.0, 100.0, [10.0, 0.0, 5.0, 2.5, -1.0, 12.0, 7.5, 1e-6], [0.0, 100.0, 50.0, 25.0, -10.0, 120.0, 75.0, 1e-6])
    yield _pt_case(0.3, 9.7, 0.0, 100.0, [0.3, 9.7, 0.0, 10.0, 5.0, -3.0, 11.0, 1.0], [0.0, 100.0, -3.19, 103.19, 50.0, 1.0, 99.0, 7.0])
    for _ in range(n_pt):
        a, b = _pair(rng)
        r0, r1 = _pair(rng)
        kind = "pt"
        t = rng.random()
        if t < 0.02:
            b = a
            kind = "pt-degenerate-domain"
        elif t < 0.04:
            r1 = r0
            kind = "pt-degenerate-range"
        xs = _queries(rng, a, b) if a != b else [a, a + 1.0, a - 1.0, 0.0, 1.0, -1.0, a * 2, 5.0]
        ys = _queries(rng, r0, r1) if r0 != r1 else [r0, r0 + 1.0, r0 - 1.0, 0.0, 1.0, -1.0, r0 * 2, 5.0]
        yield _pt_case(a, b, r0, r1, xs, ys, kind)
    # narrow domains / ranges far from the origin (relative width down to a few ulps): a != b is all
    # the property asks for; queries stay in and near the interval so that x - a is exact in doubles
    import math
    for _ in range(n_pt // 5):
        def narrow():
            a = _mag(rng, -3, 9)
            rel = 10 ** rng.uniform(-15.5, -6)
            b = a * (1 + rng.choice([-1, 1]) * rel)
            if b == a:
                b = math.nextafter(a, math.inf if rng.random() < 0.5 else -math.inf)
            return a, b
        a, b = narrow()
        r0, r1 = narrow() if rng.random() < 0.4 else _pair(rng)

        def near(p, q):
            sp = q - p
            return [float(v) for v in (p, q, p + sp * rng.random(), p + sp * rng.random(), p + sp / 2,
                                       p - sp * rng.random(), q + sp * 2 * rng.random(), p + sp * 0.25)]
        yield _pt_case(a, b, r0, r1, near(a, b), near(r0, r1), "pt-narrow")
    # cells: New -> 0,1; Domain -> 2; Alloc -> 3; Copy -> 4,5; ...
    yield _hist_case([[0], [2, 0, 0.3, 9.7], [1, 0.0, 100.0], [3, 0, 3], [6, 0], [5, 1, 10], [5, 0, 10]],
                     [0.0, 10.0, 0.3, 9.7], [0.0, 100.0, 50.0], "hist-A6")
    # audit B6: the copy holds the original's own domain list as its range, then the original is made nice
    yield _hist_case([[0], [2, 0, 0.3, 9.7], [1, 0.0, 100.0], [3, 0, 3], [6, 0], [8, 1, 0], [5, 0, 10]],
                     [0.0, 10.0, 0.3, 9.7], [0.0, 100.0, 0.3, 9.7], "hist-B6")
    # a list given to the constructor, shared by two scales, one of them made nice
    yield _hist_case([[1, 0.3, 9.7], [1, 0.0, 100.0], [7, 0, 1], [7, 0, 1], [5, 0, 10], [9, 1, 0], [8, 1, 0]],
                     [0.0, 10.0, 0.3, 9.7], [0.0, 100.0, 0.3, 9.7], "hist-ctor")
    for _ in range(n_h):
        yield _gen_hist(rng)


def _hist_case(ops, xs, ys, kind="hist"):
    return rebuild({"kind": kind, "py": {"k": "hist", "ops": ops, "xs": xs, "ys": ys}})


def _gen_hist(rng, focus=False):
    ops = [[0]]
    cspan = [1.0, 1.0]     # per list cell: a lower bound on |b - a| of its contents
    domc, rngc = [0], [1]  # per scale: the cells it currently points to
    nsteps = rng.randrange(6, 29)
    allx, ally = [0.0, 1.0], [0.0, 1.0]
    shared = False
    while len(ops) < nsteps:
        t = rng.random()
        n = len(domc)
        s = rng.randrange(n)
        if focus and shared and rng.random() < 0.5:
            s = rng.choice([0, n - 1])
        if t < 0.06:
            if n < 8:
                ops.append([0])
                domc.append(len(cspan))
                rngc.append(len(cspan) + 1)
                cspan += [1.0, 1.0]
        elif t < 0.11:
            if n < 8:
                # constructor with explicit lists: any existing list objects
                d = rng.choice(domc + [rng.randrange(len(cspan))])
                r = rng.randrange(len(cspan))
                ops.append([7, d, r])
                domc.append(d)
                rngc.append(r)
                shared = True
        elif t < 0.19:
            r0, r1 = _pair(rng)
            if rng.random() < 0.5:     # usable as a domain of an integer-step nice()
                r0 = float(round(_mag(rng, 1, 9), rng.choice([0, 1, 3])))
                r1 = r0 + rng.choice([-1, 1]) * float(round(10 ** rng.uniform(0.5, 6), rng.choice([0, 2])))
            if rng.random() < 0.05:
                r1 = r0
            ops.append([1, r0, r1])
            cspan.append(abs(r1 - r0))
            ally += [r0, r1]
            allx += [r0, r1]
        elif t < 0.37:
            if rng.random() < 0.6:      # integer regime: spans large enough for nice()
                a = float(round(_mag(rng, 1, 9), rng.choice([0, 1, 3])))
                b = a + rng.choice([-1, 1]) * float(round(10 ** rng.uniform(0.5, 6), rng.choice([0, 2])))
            else:
                a, b = _pair(rng)
            if rng.random() < 0.03:
                b = a
            ops.append([2, s, a, b])
            domc[s] = len(cspan)
            cspan.append(abs(b - a))
            allx += [a, b]
            ally += [a, b]
        elif t < 0.46:
            c = rng.randrange(len(cspan))          # ANY existing list
            ops.append([3, s, c])
            rngc[s] = c
        elif t < 0.54:
            u = rng.randrange(n)
            ops.append([8, s, u])                  # s.range(u.domain())
            rngc[s] = domc[u]
            shared = True
        elif t < 0.58:
            u = rng.randrange(n)
            ops.append([9, s, u])                  # s.range(u.range())
            rngc[s] = rngc[u]
            shared = True
        elif t < 0.66:
            ops.append([4, s, rng.random() < 0.6])
        elif t < 0.86:
            sp = cspan[domc[s]]
            if sp >= 2.0:
                mmax = int(min(100, sp / 2))
                m = 10 if rng.random() < 0.3 else rng.randrange(1, mmax + 1)
                if m <= mmax:
                    ops.append([5, s, m])
                    domc[s] = len(cspan)
                    cspan.append(sp)               # nice() only widens
        elif n < 8:
            ops.append([6, s])
            domc.append(len(cspan))
            rngc.append(len(cspan) + 1)
            cspan += [cspan[domc[s]], cspan[rngc[s]]]
            shared = True
    xs = [rng.choice(allx) for _ in range(2)] + [rng.choice(allx) * rng.uniform(0.5, 1.5), _mag(rng)]
    ys = [rng.choice(ally) for _ in range(2)] + [rng.choice(ally) * rng.uniform(0.5, 1.5)]
    return _hist_case(ops, [float(x) for x in xs], [float(y) for y in ys])


# --------------------------------------------------------------- compare ---
def _mq(ints, k):
    return F(ints[k], ints[k + 1]), k + 2


def _close(v, m, scale):
    """relative tolerance 1e-9 (relative to the magnitudes that entered the sum)"""
    return abs(_fr(v) - m) <= EPS * max(abs(m), scale)


def _pt_scale(a, b, r0, r1, x):
    if a == b:
        return max(abs(r0), abs(r1))
    u = abs((x - a) / (b - a))
    return (abs(r0) * (1 + u) + abs(r1) * u) * (1 + (abs(x) + abs(a)) / abs(x - a) if x != a else 1)


def compare(case, io, mo):
    if isinstance(io, dict) and "exc" in io:
        return "implementation raised %s %s" % (io["exc"], io.get("msg", ""))
    py = case["py"]
    if py["k"] == "pt":
        a, b, r0, r1 = (_fr(py[k]) for k in ("a", "b", "r0", "r1"))
        for i, (x, y) in enumerate(zip(py["xs"], py["ys"])):
            for cl, (kx, ky) in enumerate((("u", "ui"), ("c", "ci"))):
                m = mo[2 * i + cl]
                if m is None or m[0] != 1:
                    return "model failed"
                ms, k = _mq(m, 1)
                mi, _ = _mq(m, k)
                vs = io[kx][i][0] if cl == 0 else io[kx][i]
                vi = io[ky][i][0] if cl == 0 else io[ky][i]
                if not _close(vs, ms, _pt_scale(a, b, r0, r1, _fr(x))):
                    return "scale(%r) clamp=%d: impl %r model %s" % (x, cl, vs, float(ms))
                if not _close(vi, mi, _pt_scale(r0, r1, a, b, _fr(y))):
                    return "invert(%r) clamp=%d: impl %r model %s" % (y, cl, vi, float(mi))
        return None
    m = mo[0]
    if m is None or m[0] != 1:
        return "model failed"
    k = 1
    nx, ny = len(py["xs"]), len(py["ys"])
    for si, st in enumerate(io["steps"]):
        band = m[k] == 1          # this step is a nice() inside the ambiguity band (coq/Scale/Band.v)
        n = m[k + 1]
        k += 2
        if n != len(st):
            return "step %d: %d scales in the implementation, %d in the model" % (si, len(st), n)
        for j, ob in enumerate(st):
            if m[k] != 2:
                return "step %d scale %d: model has no domain" % (si, j)
            d0, k = _mq(m, k + 1)
            d1, k = _mq(m, k)
            if m[k] != 2:
                return "step %d scale %d: model has no range" % (si, j)
            q0, k = _mq(m, k + 1)
            q1, k = _mq(m, k)
            cl = m[k + 1]
            k += 2
            where = "step %d (%r) scale %d" % (si, py["ops"][si], j)
            dsc = max(abs(d0), abs(d1))
            if not (_close(ob["d"][0], d0, dsc) and _close(ob["d"][1], d1, dsc)):
                if band and py["ops"][si][0] == 5 and py["ops"][si][1] == j:
                    # doubles took the other side of a threshold / a floor at a multiple of the step;
                    # the rest of the history cannot be compared
                    raise core.Ambiguous()
                return "%s: domain impl %r model %r" % (where, ob["d"], [float(d0), float(d1)])
            if not (_fr(ob["r"][0]) == q0 and _fr(ob["r"][1]) == q1):
                return "%s: range impl %r model %r" % (where, ob["r"], [float(q0), float(q1)])
            if bool(cl) != ob["c"]:
                return "%s: clamp impl %r model %r" % (where, ob["c"], cl)
            for xi in range(nx):
                v, k = _mq(m, k + 1)
                if not _close(ob["x"][xi], v, _pt_scale(d0, d1, q0, q1, _fr(py["xs"][xi]))):
                    return "%s: s(%r) impl %r model %s" % (where, py["xs"][xi], ob["x"][xi], float(v))
            for yi in range(ny):
                v, k = _mq(m, k + 1)
                if not _close(ob["y"][yi], v, _pt_scale(q0, q1, d0, d1, _fr(py["ys"][yi]))):
                    return "%s: s.invert(%r) impl %r model %s" % (where, py["ys"][yi], ob["y"][yi], float(v))
    if k != len(m):
        return "model reports more steps than the implementation"
    return None


# ---------------------------------------------------------------- oracle ---
def _near(v, w, tol):
    return abs(F(v) - F(w)) <= tol


def oracle(case, io):
    """The property text on the implementation's own outputs."""
    if isinstance(io, dict) and "exc" in io:
        return "raised %s %s" % (io["exc"], io.get("msg", ""))
    py = case["py"]
    if py["k"] == "pt":
        a, b, r0, r1 = (_fr(py[k]) for k in ("a", "b", "r0", "r1"))
        if a == b:
            return None                       # outside the quantifier (non-degenerate domains)
        xs = [_fr(x) for x in py["xs"]]
        ys = [_fr(y) for y in py["ys"]]
        sx = [_fr(v[0]) for v in io["u"]]
        rmag = max(abs(r0), abs(r1))
        dmag = max(abs(a), abs(b))

        def tol_s(x):
            return EPS * _pt_scale(a, b, r0, r1, x)
        # end points map to end points (xs[0] = a, xs[1] = b by construction)
        if not _near(sx[0], r0, EPS * rmag) or not _near(sx[1], r1, EPS * rmag):
            return "end points map to %r, %r instead of %r, %r" % (float(sx[0]), float(sx[1]), float(r0), float(r1))
        # affine: every query lies on the line through the two end-point images
        for x, v in zip(xs, sx):
            want = sx[0] + (sx[1] - sx[0]) * (x - a) / (b - a)
            if not _near(v, want, 4 * tol_s(x)):
                return "not affine at x=%r: %r, the chord gives %r" % (float(x), float(v), float(want))
        # strictly monotone, direction by the orientations
        if r0 != r1:
            up = (b > a) == (r1 > r0)
            order = sorted(range(len(xs)), key=lambda i: xs[i])
            for i, j in zip(order, order[1:]):
                if xs[j] - xs[i] > 10 * EPS * (abs(b - a) + abs(xs[i]) + abs(xs[j])) * (1 + rmag / abs(r1 - r0)):
                    if (sx[j] > sx[i]) != up or sx[j] == sx[i]:
                        return "not strictly monotone between x=%r and x=%r" % (float(xs[i]), float(xs[j]))
            # invert is the inverse
            for x, v in zip(xs, io["u"]):
                amp = abs(b - a) / abs(r1 - r0)
                t = EPS * (max(dmag, abs(x)) + amp * max(rmag, abs(_fr(v[0]))) * (1 + abs((x - a) / (b - a))))
                if not _near(_fr(v[1]), x, 4 * t):
                    return "invert(scale(%r)) = %r" % (float(x), v[1])
            for y, v in zip(ys, io["ui"]):
                amp = abs(r1 - r0) / abs(b - a)
                t = EPS * (max(rmag, abs(y)) + amp * max(dmag, abs(_fr(v[0]))) * (1 + abs((y - r0) / (r1 - r0))))
                if not _near(_fr(v[1]), y, 4 * t):
                    return "scale(invert(%r)) = %r" % (float(y), v[1])
        # clamping: never outside the range, equal to the unclamped value inside the domain
        lo, hi = min(r0, r1), max(r0, r1)
        for x, v, u in zip(xs, io["c"], sx):
            if not (lo - EPS * rmag <= _fr(v) <= hi + EPS * rmag):
                return "clamped scale(%r) = %r leaves the range" % (float(x), v)
            if min(a, b) <= x <= max(a, b) and not _near(_fr(v), u, 2 * tol_s(x)):
                return "clamped scale(%r) = %r differs from the unclamped %r inside the domain" % (float(x), v, float(u))
        return None
    # histories: (1) every scale maps the end points of the domain it reports
    # to the end points of the range it reports, after every step
    for si, st in enumerate(io["steps"]):
        for j, ob in enumerate(st):
            d0, d1 = _fr(ob["d"][0]), _fr(ob["d"][1])
            q0, q1 = _fr(ob["r"][0]), _fr(ob["r"][1])
            if d0 == d1:
                continue
            t = EPS * max(abs(q0), abs(q1))
            if not _near(_fr(ob["e"][0]), q0, t) or not _near(_fr(ob["e"][1]), q1, t):
                return ("after step %d (%r) scale %d reports domain %r and range %r but maps the domain's end points to %r"
                        % (si, py["ops"][si], j, ob["d"], ob["r"], ob["e"]))
    # (2) a copy and its original never influence each other
    last = io["steps"][-1]
    for rp in io["replays"]:
        if rp["obs"] != last[rp["keep"]]:
            return ("scale %d behaves differently when the later operations on scale %d (its %s, copy made at step %d) are left out: "
                    "%r vs %r" % (rp["keep"], rp["drop"], "copy" if rp["drop"] > rp["keep"] else "original",
                                  rp["copy_step"], last[rp["keep"]], rp["obs"]))
    return None


def nontrivial(case, io):
    py = case["py"]
    if py["k"] == "pt":
        return py["a"] != py["b"] and (py["a"] > py["b"] or py["r0"] > py["r1"] or any(
            not (min(py["a"], py["b"]) <= x <= max(py["a"], py["b"])) for x in py["xs"]))
    seen_share = False
    for op in py["ops"]:
        if op[0] in (6, 7, 8, 9):
            seen_share = True
        elif seen_share and op[0] in (2, 5):
            return True
    return False


def search(rng, tier, mism_cases):
    for c in mism_cases:
        yield c
    # copy, then mutate one side, observe the other
    for _ in range(300):
        yield _gen_hist(rng, focus=True)
    for c in gen(rng, "quick"):
        yield c


def shrink_candidates(case):
    py = case["py"]
    if py["k"] != "hist":
        return
    ops = py["ops"]
    for i in range(len(ops) - 1, 0, -1):
        cand = ops[:i] + ops[i + 1:]
        if _valid(cand):
            yield _hist_case(cand, py["xs"], py["ys"], case.get("kind", "hist"))


def _valid(ops):
    ids = _ids(ops)
    for op, (nsc, ncell) in zip(ops, ids):
        k = op[0]
        if k in (0, 1):
            continue
        if k == 7:
            if op[1] >= ncell or op[2] >= ncell:
                return False
            continue
        if op[1] >= nsc:
            return False
        if k == 3 and op[2] >= ncell:
            return False
        if k in (8, 9) and op[2] >= nsc:
            return False
    return any(op[0] in (0, 7) for op in ops)


LEVEL_TEXT = ("Machine-checked Coq theorems, for ALL rational queries and ALL non-degenerate rational domains and ranges (a != b; r0 != r1 for the inverse laws - the property's own hypothesis): end points map to end points, the map is affine, "
              "strictly monotone (direction by the orientations), invert is its exact inverse, clamped outputs stay in the range and "
              "agree with the unclamped map inside the domain; and for ALL operation histories of the scale heap machine (constructor with "
              "default or given lists, caller lists, domain, range - of any existing list, including the lists other scales return "
              "from domain()/range() -, clamp, nice, copy): list cells are never written after allocation, every scale's closures hold "
              "exactly the end points of the domain and range it reports however the lists are shared, and no operation on one scale "
              "changes any observation of another (in particular copy/original).  The model is tied to labella/scale.py by "
              "differential execution on every run.")
LEVEL_NOTE = ("Trusted: Coq kernel; extraction re-checked on a slice by vm_compute; the correspondence harness and its generators. "
              "Modelled, not verified: labella/scale.py; doubles are modelled by exact rationals (the inverse laws hold exactly in the "
              "model, 'up to floating-point error' is the tie's 1e-9).  Outside the model: the caller itself writing into a list after "
              "handing it to a scale.")
TECHNIQUE = "Coq proof (field/lra/nra over Q; state-machine invariant by induction over operation lists) + model/implementation correspondence"
