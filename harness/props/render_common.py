"""Shared machinery of C07, C08, C09 (tie K5: geometry and documents).

A case's `py` part describes a dataset and options in JSON.  impl() builds
TimelineSVG and TimelineTex from two freshly built, identical inputs, exports
both, parses the SVG (ElementTree) and the TikZ text (line tokenizer) into
trees shaped like the model's svg_doc / tikz_doc, and reads the layout result
off `tl.nodes`.  The model (coq/Render) takes that layout result as input, so
gen() runs a pre-pass of the implementation to obtain it; compare() checks
that the second run reports the same layout.
"""
import datetime
import json
import math
import os
import re
from fractions import Fraction

DIRS = ["up", "down", "left", "right"]
# model order of the colour roles (Scene.v role_idx)
ROLES = ["dotColor", "labelBgColor", "labelTextColor", "linkColor", "borderColor"]
ROLE_PREFIX = {"dotColor": 0, "labelBgColor": 1, "labelTextColor": 2, "linkColor": 3, "borderColor": 4}

# documented defaults of labella/timeline.py (used when a case omits an option)
DEFAULTS = {
    "margin": {"left": 20, "right": 20, "top": 20, "bottom": 20},
    "initialWidth": 400, "initialHeight": 400, "direction": "right", "dotRadius": 3,
    "layerGap": 60, "labelPadding": {"left": 2, "right": 2, "top": 3, "bottom": 2},
    "showTicks": True, "showBorder": False,
    "dotColor": "#222", "labelBgColor": "#222", "labelTextColor": "#fff", "linkColor": "#222",
    "borderColor": "#000",
}
EPOCH = datetime.datetime(1970, 1, 1)


class ParseError(Exception):
    pass


# ----------------------------------------------------------------- inputs ---
def mk_time(t):
    if isinstance(t, list):
        if t[0] == "d":
            return datetime.date(*t[1:])
        if t[0] == "dt":
            return datetime.datetime(*t[1:])
        if t[0] == "t":
            return datetime.time(*t[1:])
        raise ValueError(t)
    return t


def to_number(v):
    """The instant a caller-supplied time value denotes, as a number
    (milliseconds since 1970-01-01 for date/time values), computed with
    Python's own calendar arithmetic, independently of labella."""
    if isinstance(v, datetime.datetime):
        return (v - EPOCH) / datetime.timedelta(milliseconds=1)
    if isinstance(v, datetime.date):
        return (datetime.datetime.combine(v, datetime.time()) - EPOCH) / datetime.timedelta(milliseconds=1)
    if isinstance(v, datetime.time):
        return (datetime.datetime.combine(datetime.date.today(), v) - EPOCH) / datetime.timedelta(milliseconds=1)
    return float(v)


def colour_value(spec, datum, i):
    """What a colour option yields for the datum at node index i (harness side)."""
    if spec[0] == "c":
        return spec[1]
    if spec[0] == "l":
        return spec[1][i % len(spec[1])]
    return spec[1][datum["cidx"] % len(spec[1])]


def build_inputs(py):
    """Fresh (data, options) as a caller would write them."""
    data = []
    for k, d in enumerate(py["data"]):
        item = {"time": mk_time(d["t"]), "width": d["width"], "key": k, "cidx": d.get("cidx", 0)}
        if d.get("text") is not None:
            item["text"] = d["text"]
        data.append(item)
    if py.get("noopts"):
        return data, None
    opts = json.loads(json.dumps(py["opts"]))
    if py["scale"] == "linear":
        from labella.scale import LinearScale
        opts["scale"] = LinearScale()
        if py.get("preuse"):
            # the caller's scale OBJECT served an earlier chart (other data, other tick precision)
            # before it is handed to this timeline, as examples/timeline_kit_5.py re-uses one
            # options dict: the picture of THIS timeline must not depend on that past
            from labella.timeline import TimelineSVG
            lo, hi = py["preuse"]
            pre = [{"time": lo, "width": 30}, {"time": (lo + hi) / 2.0, "width": 30}, {"time": hi, "width": 30}]
            TimelineSVG(pre, {"scale": opts["scale"]}).export()
    if py.get("domain") is not None:
        opts["domain"] = [mk_time(x) for x in py["domain"]]
    for role, spec in py.get("colors", {}).items():
        if spec[0] == "c":
            opts[role] = spec[1]
        elif spec[0] == "l":
            opts[role] = list(spec[1])
        else:
            pal = list(spec[1])
            opts[role] = (lambda pal: (lambda d: pal[d["cidx"] % len(pal)]))(pal)
    return data, opts


def effective(py):
    """Options with the documented defaults filled in."""
    o = json.loads(json.dumps(DEFAULTS))
    if not py.get("noopts"):
        for k, v in py["opts"].items():
            o[k] = v
    cols = {}
    for r in ROLES:
        spec = (py.get("colors") or {}).get(r) if not py.get("noopts") else None
        cols[r] = spec if spec is not None else ["c", DEFAULTS[r]]
    o["colors"] = cols
    o["tickCross"] = bool(((py.get("opts") or {}).get("latex") or {}).get("tickCross", False)) if not py.get("noopts") else False
    return o


# ------------------------------------------------------------ SVG parser ---
NUM = r"[-+]?(?:\d+\.?\d*|\.\d+)(?:[eE][-+]?\d+)?"


def _translate(s):
    m = re.fullmatch(r"translate\((%s), (%s)\)" % (NUM, NUM), s)
    if not m:
        raise ParseError("transform %r" % s)
    return [m.group(1), m.group(2)]


def _style(s):
    d = {}
    for part in s.split(";"):
        if part.strip() == "":
            continue
        k, _, v = part.partition(":")
        d[k.strip()] = v.strip()
    return d


def _only(attrib, allowed, what):
    extra = set(attrib) - set(allowed)
    if extra:
        raise ParseError("%s has unexpected attributes %s" % (what, sorted(extra)))


def parse_path(dstr):
    toks = dstr.split(" ")
    steps = []
    k = 0
    need = {"M": 2, "C": 6, "L": 2}
    while k < len(toks):
        c = toks[k]
        if c not in need:
            raise ParseError("path command %r" % c)
        args = toks[k + 1:k + 1 + need[c]]
        if len(args) != need[c] or not all(re.fullmatch(NUM, a) for a in args):
            raise ParseError("path arguments %r" % args)
        steps.append([c, args])
        k += 1 + need[c]
    return steps


def parse_svg(blob):
    from xml.etree import ElementTree
    root = ElementTree.fromstring(blob)
    if root.tag != "svg":
        raise ParseError("root %s" % root.tag)
    out = {"width": root.attrib["width"], "height": root.attrib["height"]}
    (outer,) = list(root)
    out["margin"] = _translate(outer.attrib["transform"])
    kids = list(outer)
    if len(kids) != 2 or kids[0].attrib.get("class") != "dummy-layer" or len(list(kids[0])):
        raise ParseError("outer group children")
    main = kids[1]
    if main.attrib.get("class") != "main-layer":
        raise ParseError("main layer class")
    out["main"] = _translate(main.attrib["transform"])
    layers = list(main)
    # axis line
    g = layers[0]
    (line,) = list(g)
    if line.tag != "line" or line.attrib.get("class") != "timeline" or g.attrib:
        raise ParseError("timeline line")
    _only(line.attrib, ["class", "x2", "y2", "style"], "axis line")
    out["axis"] = {"x2": line.attrib.get("x2"), "y2": line.attrib.get("y2")}
    rest = layers[1:]
    names = [x.attrib.get("class") for x in rest]
    if names == ["axis-layer", "link-layer", "label-layer", "dot-layer"]:
        axis = rest[0]
        rest = rest[1:]
    elif names == ["link-layer", "label-layer", "dot-layer"]:
        axis = None
    else:
        raise ParseError("layers %r" % names)
    if axis is None:
        out["ticks"] = None
    else:
        ticks = []
        for tg in axis:
            if tg.tag != "g" or tg.attrib.get("class") != "tick":
                raise ParseError("tick group")
            ln, tx = list(tg)
            if ln.tag != "line" or tx.tag != "text":
                raise ParseError("tick children")
            _only(ln.attrib, ["style", "x2", "y2"], "tick line")
            st = _style(tx.attrib["style"])
            ticks.append({"tr": _translate(tg.attrib["transform"]), "x2": ln.attrib["x2"], "y2": ln.attrib["y2"],
                          "anchor": st.get("text-anchor"), "tx": tx.attrib["x"], "ty": tx.attrib["y"],
                          "dy": tx.attrib["dy"], "text": tx.text or ""})
        out["ticks"] = ticks
    links, labels, dots = rest
    out["links"] = []
    for p in links:
        if p.tag != "path" or p.attrib.get("class") != "link":
            raise ParseError("link element")
        st = _style(p.attrib["style"])
        if st.get("fill") != "none":
            raise ParseError("link fill")
        out["links"].append({"stroke": st.get("stroke"), "d": parse_path(p.attrib["d"])})
    out["labels"] = []
    for lg in labels:
        if lg.tag != "g" or lg.attrib.get("class") != "label-g":
            raise ParseError("label group")
        ch = list(lg)
        rect = ch[0]
        if rect.tag != "rect" or len(ch) > 2:
            raise ParseError("label children")
        st = _style(rect.attrib["style"])
        lab = {"tr": _translate(lg.attrib["transform"]), "w": rect.attrib["width"], "h": rect.attrib["height"],
               "fill": st.get("fill"), "stroke": st.get("stroke"), "text": None}
        if len(ch) == 2:
            t = ch[1]
            if t.tag != "text":
                raise ParseError("label text element")
            ts = _style(t.attrib["style"])
            lab["text"] = {"x": t.attrib["x"], "y": t.attrib["y"], "fill": ts.get("fill"), "body": t.text or ""}
        out["labels"].append(lab)
    out["dots"] = []
    for c in dots:
        if c.tag != "circle" or c.attrib.get("class") != "dot":
            raise ParseError("dot element")
        _only(c.attrib, ["class", "r", "style", "cx", "cy"], "dot")
        out["dots"].append({"r": c.attrib["r"], "fill": _style(c.attrib["style"]).get("fill"),
                            "cx": c.attrib.get("cx"), "cy": c.attrib.get("cy")})
    return out


# ----------------------------------------------------------- TikZ parser ---
class _Lines(object):
    def __init__(self, text):
        self.l = text.split("\n")
        self.k = 0

    def peek(self):
        return self.l[self.k] if self.k < len(self.l) else None

    def next(self):
        if self.k >= len(self.l):
            raise ParseError("unexpected end of TikZ text")
        self.k += 1
        return self.l[self.k - 1]

    def expect(self, s):
        got = self.next()
        if got != s:
            raise ParseError("line %d: expected %r, got %r" % (self.k, s, got))

    def match(self, rx):
        got = self.next()
        m = re.fullmatch(rx, got)
        if not m:
            raise ParseError("line %d: %r does not match %s" % (self.k, got, rx))
        return m


def _cname(s):
    m = re.fullmatch(r"(dotColor|labelBgColor|labelTextColor|linkColor|borderColor)([A-Z]+)", s)
    if not m:
        raise ParseError("colour name %r" % s)
    return [ROLE_PREFIX[m.group(1)], m.group(2)]


SHIFT = r"\\begin\{scope\}\[shift=\{\((%s), (%s)\)\}\]" % (NUM, NUM)
PT = r"\((%s), (%s)\)" % (NUM, NUM)


def _ptnum(s):
    """a tick-mark coordinate: '0', '-0', '6pt', '-6pt' -> integer points"""
    m = re.fullmatch(r"(-?)(\d+)(pt)?", s)
    if not m:
        raise ParseError("tick coordinate %r" % s)
    v = int(m.group(2))
    return -v if m.group(1) else v


def parse_tikz(text):
    L = _Lines(text)
    out = {}
    m = L.match(r"\\documentclass\[border=\{(%s)bp (%s)bp (%s)bp (%s)bp\}, [^\]]*\]\{standalone\}" % (NUM, NUM, NUM, NUM))
    out["border"] = list(m.groups())
    L.expect("%")
    L.expect("")
    L.expect("\\usepackage{tikz}")
    L.expect("\\usepackage{xcolor}")
    L.expect("\\usetikzlibrary{shapes.misc}")
    L.expect("\\usetikzlibrary{backgrounds}")
    L.expect("")
    colors = []
    texts = []
    while True:
        ln = L.next()
        if ln == "\\begin{document}":
            break
        if ln == "":
            continue
        m = re.fullmatch(r"\\definecolor\{(\w+)\}\{HTML\}\{([^}]*)\}", ln)
        if m:
            if texts:
                raise ParseError("colour definition after text definitions")
            colors.append(_cname(m.group(1)) + [m.group(2)])
            continue
        m = re.fullmatch(r"\\def\\text([A-Z]+)\{(.*)\}", ln, re.S)
        if m:
            texts.append([m.group(1), m.group(2)])
            continue
        raise ParseError("header line %r" % ln)
    out["colors"] = colors
    out["texts"] = texts
    L.expect("\\begin{tikzpicture}[x=1bp,y=-1bp]")
    L.expect("")
    L.expect("% shift for the margin")
    out["margin"] = list(L.match(SHIFT).groups())
    L.expect("% main layer")
    out["main"] = list(L.match(SHIFT).groups())
    L.expect("% axis")
    L.expect("\\begin{scope}")
    m = L.match(r"\\draw\[[^\]]*\] \(0, 0\) -- " + PT + ";")
    out["axis"] = list(m.groups())
    L.expect("\\end{scope}")
    L.expect("")
    out["ticks"] = None
    if L.peek() == "% axis layer":
        L.next()
        L.expect("\\begin{scope}")
        ticks = []
        while L.peek() != "\\end{scope}":
            sh = list(L.match(SHIFT).groups())
            m = L.match(r"\\draw\[[^\]]*\] \(([^,]*), ([^)]*)\) -- \(([^,]*), ([^)]*)\)")
            m2 = L.match(r"node\[anchor=(\w+)\] \{(.*)\};")
            L.expect("\\end{scope}")
            ticks.append({"shift": sh, "from": [_ptnum(m.group(1)), _ptnum(m.group(2))],
                          "to": [_ptnum(m.group(3)), _ptnum(m.group(4))],
                          "anchor": m2.group(1), "text": m2.group(2)})
        L.next()
        L.expect("")
        out["ticks"] = ticks
    L.expect("% link layer")
    L.expect("\\begin{scope}")
    segs = []
    while L.peek() != "\\end{scope}":
        ln = L.next()
        m = re.fullmatch(r"\\draw\[color=(\w+), [^\]]*\] " + PT + r" \.\. controls", ln)
        if m:
            m2 = L.match(PT + " and " + PT + r" \.\. " + PT + ";")
            segs.append(["C", _cname(m.group(1)), [[m.group(2), m.group(3)], [m2.group(1), m2.group(2)],
                                                  [m2.group(3), m2.group(4)], [m2.group(5), m2.group(6)]]])
            continue
        m = re.fullmatch(r"\\draw\[color=(\w+), [^\]]*\] " + PT + " -- " + PT + ";", ln)
        if m:
            segs.append(["L", _cname(m.group(1)), [[m.group(2), m.group(3)], [m.group(4), m.group(5)]]])
            continue
        raise ParseError("link line %r" % ln)
    L.next()
    L.expect("")
    # one group per node: consecutive segments that use the same colour macro
    links = []
    for s in segs:
        if links and links[-1][-1][1] == s[1]:
            links[-1].append(s)
        else:
            links.append([s])
    out["links"] = links
    L.expect("% label layer")
    L.expect("\\begin{scope}")
    labels = []
    while L.peek() != "\\end{scope}":
        sh = list(L.match(SHIFT).groups())
        ln = L.next()
        m = re.fullmatch(r"\\draw\[[^,\]]*, (\w+), fill=(\w+), rounded corners=2pt\]", ln)
        if m:
            border, bg = _cname(m.group(1)), _cname(m.group(2))
        else:
            m = re.fullmatch(r"\\fill\[color=(\w+), rounded corners=2pt\]", ln)
            if not m:
                raise ParseError("label line %r" % ln)
            border, bg = None, _cname(m.group(1))
        m = L.match(r"\(0, 0\) rectangle " + PT + r" node\[midway, yshift=-\.75bp, ?anchor=center, text=(\w+)\] \{\\strut (.*)\};")
        ref = m.group(4)
        if ref == "":
            tid = None
        else:
            mm = re.fullmatch(r"\\text([A-Z]+)", ref)
            if not mm:
                raise ParseError("label text reference %r" % ref)
            tid = mm.group(1)
        L.expect("\\end{scope}")
        labels.append({"shift": sh, "border": border, "bg": bg, "w": m.group(1), "h": m.group(2),
                       "textcol": _cname(m.group(3)), "text": tid})
    L.next()
    L.expect("")
    out["labels"] = labels
    L.expect("% dots")
    L.expect("\\begin{scope}")
    dots = []
    while L.peek() != "\\end{scope}":
        m = L.match(r"\\draw node \[circle, inner sep=0pt, minimum size=(%s)bp, " % NUM)
        m2 = L.match(r"fill=(\w+)\] at " + PT + r" \{\};")
        dots.append({"size": m.group(1), "fill": _cname(m2.group(1)), "at": [m2.group(2), m2.group(3)]})
    L.next()
    L.expect("")
    out["dots"] = dots
    L.expect("\\end{scope}")
    L.expect("\\end{scope}")
    L.expect("\\end{tikzpicture}")
    L.expect("\\end{document}")
    if L.peek() is not None:
        raise ParseError("trailing text")
    return out


# ----------------------------------------------------------- implementation ---
def _layout_of(tl):
    from labella.tex import uni2tex
    nodes = []
    for n in tl.nodes:
        hops = n.getPathFromRoot()
        chain = [h.currentPos for h in hops]
        datum = n.data.data
        nodes.append({
            "key": datum["key"], "ideal": n.getRoot().idealPos, "chain": chain,
            "chain_int": all(isinstance(c, int) and not isinstance(c, bool) for c in chain),
            "layer": n.layerIndex, "w": n.w, "h": n.h, "x": n.x, "y": n.y, "dx": n.dx, "dy": n.dy,
            "text": n.data.text, "textex": uni2tex(n.data.text) if n.data.text else None,
            "stub": n.isStub(),
            # the layer each hop of the path was laid out in (set by the engine for
            # every item of every layer): hop k must be the datum's stub of layer k
            "hop_layers": [h.layerIndex for h in hops],
            "hop_stubs": [bool(h.isStub()) for h in hops],
        })
    sc = tl.options["scale"]
    fmt = sc.tickFormat()
    ticks = [[sc(t), fmt(t)] for t in sc.ticks()]
    dom = [to_number(x) for x in sc.domain()]
    rng = list(sc.range())
    return {"nodes": nodes, "ticks": ticks, "domain": dom, "range": rng}


def _axis11(tl, out):
    """what harness/props/c11.py observes of the axis stage (same fields, same formats)"""
    sc = tl.options["scale"]
    dom = sc.domain()
    a = {"today": out["today"], "range": [float(x) for x in sc.range()], "dir": tl.direction,
         "order": [n.data.data.get("key") for n in tl.nodes]}
    if dom and isinstance(dom[0], datetime.datetime):
        a["domain"] = [((d - EPOCH) // datetime.timedelta(microseconds=1)) for d in (dom[0], dom[-1])]
    else:
        a["domain"] = [float(dom[0]).hex(), float(dom[-1]).hex()]
    if "svg" in out:
        s = out["svg"]
        a["dots"] = [float(c["cx"] if c["cx"] is not None else c["cy"]).hex() for c in s["dots"]]
        a["ticks"] = [[float(t["tr"][0]).hex(), float(t["tr"][1]).hex()] for t in (s["ticks"] or [])]
        a["tick_texts"] = [t["text"] for t in (s["ticks"] or [])]
        a["nticks"] = len(s["ticks"] or [])
        a["nboxes"] = len(s["labels"])
    if "tikz" in out:
        a["tex_tick_texts"] = [t["text"] for t in (out["tikz"]["ticks"] or [])]
    return a


def impl(py):
    from labella.timeline import TimelineSVG, TimelineTex
    d1, o1 = build_inputs(py)
    d2, o2 = build_inputs(py)
    keep = json.dumps([[str(d.get("time")), d.get("width"), d.get("text")] for d in d1])
    import zlib
    tls = TimelineSVG(d1, o1)
    decoys = []
    if zlib.crc32(json.dumps(py, sort_keys=True, default=str).encode()) % 2 == 0:
        # half of the cases: other timelines (another direction, default engine options, one of
        # them with engine options of its own) are CONSTRUCTED between this timeline's
        # construction and its export and stay alive, as a program that builds a list of
        # timelines and exports them in a loop does.  Timelines share nothing, so the picture of
        # the observed one must not change (seed C08-e: a shared default `labella` dict).
        other = {"up": "right", "down": "left", "left": "up", "right": "down"}[effective(py)["direction"]]
        dd = [{"time": datetime.datetime(2001, 2, 3, 4), "width": 30, "text": "a"},
              {"time": datetime.datetime(2001, 2, 9), "width": 40}]
        decoys.append(TimelineSVG([dict(x) for x in dd], {"direction": other}))
        decoys.append(TimelineTex([dict(x) for x in dd], {"direction": other, "labella": {"maxPos": 50, "nodeSpacing": 9}}))
    if decoys and len(py["data"]) % 2 == 0:
        decoys[0].export()            # ... and one of them is exported first
    svg = tls.export()
    tlt = TimelineTex(d2, o2)
    if decoys:
        decoys.append(TimelineSVG([dict(x) for x in dd], {"direction": other}))
    tex = tlt.export()
    out = {"layout": _layout_of(tls), "layout_tex": _layout_of(tlt)}
    out["times"] = [to_number(d["time"]) for d in build_inputs(py)[0]]
    try:
        out["svg"] = parse_svg(svg)
    except ParseError as e:
        out["svg_error"] = str(e)
    try:
        out["tikz"] = parse_tikz(tex)
    except ParseError as e:
        out["tikz_error"] = str(e)
    if py.get("pipeline"):
        out["today"] = list(datetime.date.today().timetuple()[:3])
        out["axis11"] = _axis11(tls, out)
    if py.get("raw"):
        out["svg_raw"] = svg.decode()
        out["tikz_raw"] = tex
    return out


# ------------------------------------------------------------ model input ---
def q(x):
    f = Fraction(x)
    return [f.numerator, f.denominator]


def enc_text(s):
    return [len(s)] + [ord(c) for c in s]


def opts_ints(py):
    """ApiRender.d_opts: dir, sizes, margins, layerGap, padding, dotRadius, flags, colour options"""
    o = effective(py)
    a = [DIRS.index(o["direction"])]
    a += q(o["initialWidth"]) + q(o["initialHeight"])
    mg = o["margin"]
    a += q(mg["left"]) + q(mg["right"]) + q(mg["top"]) + q(mg["bottom"])
    a += q(o["layerGap"])
    pd = o["labelPadding"]
    a += q(pd["left"]) + q(pd["right"]) + q(pd["top"]) + q(pd["bottom"])
    a += q(o["dotRadius"])
    a += [1 if o["showTicks"] else 0, 1 if o["showBorder"] else 0, 1 if o["tickCross"] else 0]
    for r in ROLES:
        spec = o["colors"][r]
        if spec[0] == "c":
            a += [0] + enc_text(spec[1])
        elif spec[0] == "l":
            a += [1, len(spec[1])]
            for c in spec[1]:
                a += enc_text(c)
        else:
            a += [2]
    return a


def fcols_ints(py, d):
    o = effective(py)
    a = [5]
    for r in ROLES:
        spec = o["colors"][r]
        a += enc_text(spec[1][d.get("cidx", 0) % len(spec[1])]) if spec[0] == "f" else [0]
    return a


def scene_ints(py, lay):
    """Flat integer encoding of the scene (see coq/Extract/ApiRender.v)."""
    o = effective(py)
    a = opts_ints(py)
    a += [len(lay["ticks"])]
    for pos, text in lay["ticks"]:
        a += q(pos) + enc_text(text)
    a += [len(lay["nodes"])]
    for n in lay["nodes"]:
        d = py["data"][n["key"]]
        a += q(n["ideal"]) + q(d["width"])
        t = d.get("text")
        a += [0] if t is None else [1] + enc_text(t)
        a += [len(n["chain"])] + [int(c) for c in n["chain"]]
        a += [5]
        for r in ROLES:
            spec = o["colors"][r]
            a += enc_text(spec[1][d.get("cidx", 0) % len(spec[1])]) if spec[0] == "f" else [0]
    return a


def model_calls(py, lay):
    s = scene_ints(py, lay)
    return [[500] + s, [501] + s, [502] + s]


# ---- the end-to-end family: timeline input -> engine -> scene labels (command 800) ----
FORCE_DEFAULTS = {"nodeSpacing": 3, "minPos": 0, "maxPos": None, "algorithm": "overlap", "density": 0.85, "stubWidth": 1}
ALGS = ["overlap", "simple", "none"]


def labella_opts(py):
    """the engine options the timeline hands to Force(): options["labella"]"""
    lab = {} if py.get("noopts") else dict((py.get("opts") or {}).get("labella") or {})
    return {k: v for k, v in lab.items() if k in FORCE_DEFAULTS or k == "lineSpacing"}


def _enc_force_update(o):
    """alg? minPos?? maxPos?? density? nodeSpacing? stubWidth? lineSpacing?  (command 380's encoding)"""
    out = []
    out += [1, ALGS.index(o["algorithm"])] if "algorithm" in o else [0]
    for k in ("minPos", "maxPos"):
        if k in o:
            out += [1] + ([0] if o[k] is None else [1] + q(o[k]))
        else:
            out += [0]
    for k in ("density", "nodeSpacing", "stubWidth", "lineSpacing"):
        out += [1] + q(o[k]) if k in o else [0]
    return out


def engine_call(py, ideals, lab):
    o = effective(py)
    pd = o["labelPadding"]
    a = [800, DIRS.index(o["direction"])]
    a += q(pd["left"]) + q(pd["right"]) + q(pd["top"]) + q(pd["bottom"]) + q(o["layerGap"])
    a += _enc_force_update(lab)
    a += [len(py["data"])]
    for k, d in enumerate(py["data"]):
        a += q(ideals[k]) + q(d["width"])
        t = d.get("text")
        a += [0] if t is None else [1] + enc_text(t)
    return a


def engine_calls(py, lay):
    """the model is handed, per datum, the axis position the implementation
    computed for it (scale(time): the scales are tied by C11/C12/C15), the
    datum's width and text, and the options; nothing of the layout.
    Second call (only when density*layerWidth is inexact in doubles): the same
    with the density that makes the model's exact product equal the code's double."""
    ideals = {n["key"]: n["ideal"] for n in lay["nodes"]}
    if sorted(ideals) != list(range(len(py["data"]))):
        return []
    lab = labella_opts(py)
    calls = [engine_call(py, ideals, lab)]
    eff = dict(FORCE_DEFAULTS)
    eff.update(lab)
    mn, mx, d = eff["minPos"], eff["maxPos"], eff["density"]
    if mn is not None and mx is not None and (mx - mn):
        lw = mx - mn
        prod = d * lw
        bases = [lab]
        if Fraction(prod) != Fraction(d) * Fraction(lw):
            lab2 = dict(lab)
            lab2["density"] = Fraction(prod) / Fraction(lw)
            calls.append(engine_call(py, ideals, lab2))
            bases.append(lab2)
        # capacity band: the distributor compares ACCUMULATED double sums of widths with the capacity;
        # where the exact sum equals the capacity (within a relative 1e-12) the doubles may compare the
        # other way: the model re-run with the density moved by 1e-12 either way must then agree
        for b in bases:
            for sign in (-1, 1):
                lab3 = dict(b)
                lab3["density"] = Fraction(b.get("density", eff["density"])) * (1 + sign * Fraction(1, 10 ** 12))
                calls.append(engine_call(py, ideals, lab3))
    return calls


def dec_engine(ints):
    d = _Dec(ints)
    status = d.z()
    H = d.q()
    nodes = []
    for _ in range(d.z()):
        nd = {"id": d.z(), "layer": d.z(), "cur": d.z(), "w": d.q(), "h": d.q()}
        nd["chain"] = [d.z() for _ in range(d.z())]
        nd["box"] = (d.z(), d.z())
        nd["origin"] = (d.q(), d.q())
        nodes.append(nd)
    layers = []
    for _ in range(d.z()):
        layers.append([(d.z(), d.z() != 0, d.q()) for _ in range(d.z())])
    exact = []
    for _ in range(d.z()):
        exact.append([d.q() for _ in range(d.z())])
    return {"status": status, "H": H, "nodes": nodes, "layers": layers, "exact": exact}


ROUND_BAND = Fraction(1, 10 ** 7)   # ambiguity band around a .5 rounding boundary (layer_common / c06)


def _small_dyadic(x):
    if x is None:
        return True
    fr = Fraction(x)
    dd = fr.denominator
    return dd <= 4096 and dd & (dd - 1) == 0 and abs(fr) < 2 ** 21


def _cmp_engine(py, lay, io, m):
    """None (equal), ("amb", why) or ("diff", why)"""
    import math
    if m["status"] != 1:
        return ("diff", "model says the labels/options are outside the documented domain")
    o = effective(py)
    d = o["direction"]
    side = d in ("left", "right")
    nodes = lay["nodes"]
    if [n["key"] for n in nodes] != [x["id"] for x in m["nodes"]]:
        return ("diff", "order of tl.nodes %r, model %r" % ([n["key"] for n in nodes][:8], [x["id"] for x in m["nodes"]][:8]))
    exact_sizes = float_exact(py)
    for k, (n, x) in enumerate(zip(nodes, m["nodes"])):
        for fld in ("w", "h"):
            ok = (Fraction(n[fld]) == x[fld]) if exact_sizes else close(x[fld], n[fld], 0)
            if not ok:
                return ("diff", "node[%d].%s: implementation %r, model %s" % (k, fld, n[fld], float(x[fld])))
    hh = max((n["w"] if side else n["h"]) for n in nodes)
    if not ((Fraction(hh) == m["H"]) if exact_sizes else close(m["H"], hh, 0)):
        return ("diff", "nodeHeight: implementation %r, model %s" % (hh, float(m["H"])))
    # the reported layers as the implementation's node objects show them:
    # per layer {(datum, is_stub): position}, from every hop of every path
    impl_layers = {}
    for n in nodes:
        if len(n["hop_layers"]) != len(n["chain"]) or n["hop_layers"] != list(range(len(n["chain"]))):
            return ("diff", "datum %d: the hops of its path are in layers %r" % (n["key"], n["hop_layers"]))
        if n["hop_stubs"] != [True] * (len(n["chain"]) - 1) + [False]:
            return ("diff", "datum %d: stub flags along its path %r" % (n["key"], n["hop_stubs"]))
        for j, c in enumerate(n["chain"]):
            impl_layers.setdefault(j, {})[(n["key"], n["hop_stubs"][j])] = c
    nl = (max(impl_layers) + 1) if impl_layers else 0
    mod_layers = [dict(((g, sflag), (c, t)) for t, (g, sflag, c) in enumerate(layer)) for layer in m["layers"]]
    # trailing empty layers (algorithm simple can produce them) carry no items
    while mod_layers and not mod_layers[-1]:
        mod_layers.pop()
    if nl != len(mod_layers):
        return ("diff", "%d layers in use, model %d" % (nl, len(mod_layers)))
    lab = dict(FORCE_DEFAULTS)
    lab.update(labella_opts(py))
    for j in range(nl):
        li, lm = impl_layers.get(j, {}), mod_layers[j]
        if set(li) != set(lm):
            only_i = sorted(set(li) - set(lm))[:4]
            only_m = sorted(set(lm) - set(li))[:4]
            return ("diff", "layer %d holds different items: only implementation %r, only model %r" % (j, only_i, only_m))
        diffs = [key for key in li if not (isinstance(li[key], int) and not isinstance(li[key], bool) and Fraction(li[key]) == lm[key][0])]
        if not diffs:
            continue
        # every difference of the first differing layer inside the rounding band?
        nums = [lab.get("nodeSpacing"), lab.get("minPos"), lab.get("maxPos"), lab.get("stubWidth")]
        nums += list(o["labelPadding"].values())
        nums += [dd["width"] for dd in py["data"]] + [n["ideal"] for n in nodes]
        fexact = all(_small_dyadic(v) for v in nums)
        for key in diffs:
            a, (b, t) = li[key], lm[key]
            xs = m["exact"][j] if j < len(m["exact"]) else []
            x = xs[t] if t < len(xs) else None
            if x is None or not isinstance(a, int) or abs(Fraction(a) - b) != 1:
                return ("diff", "layer %d, datum %d%s: implementation %r, model %s" % (j, key[0], " (stub)" if key[1] else "", a, b))
            dist = abs((x - math.floor(x)) - Fraction(1, 2))
            if not (dist <= ROUND_BAND and (dist > 0 or not fexact)):
                return ("diff", "layer %d, datum %d%s: implementation %r, model %s (exact %s)" % (
                    j, key[0], " (stub)" if key[1] else "", a, b, float(x)))
        return ("amb", "rounding boundary in layer %d" % j)
    # all layers agree item by item: the per-label quantities must agree exactly
    EXACT[0] = exact_sizes
    boxes = svg_boxes(io["svg"]) if "svg" in io else None
    if boxes is None or len(boxes) != len(nodes):
        return ("diff", "the SVG export draws %s boxes for %d labels" % (None if boxes is None else len(boxes), len(nodes)))
    for k, (n, x) in enumerate(zip(nodes, m["nodes"])):
        if n["layer"] != x["layer"]:
            return ("diff", "node[%d] (datum %d): layerIndex %r, model %d" % (k, n["key"], n["layer"], x["layer"]))
        if list(n["chain"]) != x["chain"]:
            return ("diff", "node[%d] (datum %d): positions along its path %r, model %r" % (k, n["key"], n["chain"], x["chain"]))
        if n["chain"][-1] != x["cur"]:
            return ("diff", "node[%d] (datum %d): currentPos %r, model %d" % (k, n["key"], n["chain"][-1], x["cur"]))
        # the drawn box: origin printed with %i, size in full
        tr = io["svg"]["labels"][k]["tr"]
        for axis in (0, 1):
            r = cmp_num(("Fi", x["box"][axis], x["origin"][axis]), tr[axis], "label[%d] box origin.%s" % (k, "xy"[axis]))
            if r:
                return ("diff", r)
        bw, bh = Fraction(io["svg"]["labels"][k]["w"]), Fraction(io["svg"]["labels"][k]["h"])
        if not (close(x["w"], bw, 0) and close(x["h"], bh, 0)):
            return ("diff", "label[%d] box size: drawn %s x %s, model %s x %s" % (k, float(bw), float(bh), float(x["w"]), float(x["h"])))
    return None


def compare_engine(case, io, mo):
    """The end-to-end tie: everything the model derives from the timeline input
    alone (layers, integer positions, stub chains, sizes, nodeHeight, drawn boxes)
    against tl.nodes and the parsed SVG export."""
    from harness import core
    if not mo or mo[0] is None:
        return "model produced no output (the pre-pass could not observe the axis positions)"
    try:
        m = dec_engine(mo[0])
    except (ValueError, IndexError) as e:
        return "model output undecodable: %s" % e
    try:
        r = _cmp_engine(case["py"], io["layout"], io, m)
    except Amb:
        raise core.Ambiguous()
    if r is None:
        return None
    if r[0] == "amb":
        raise core.Ambiguous()
    if not r[1].startswith(("node[", "nodeHeight", "order of tl.nodes", "model says")) and _overlap_band(case["py"], io["layout"]):
        # (sizes, layer thickness and node order do not depend on overlap counts)
        # two ideal intervals whose ends the doubles make EQUAL while the exact values differ (or the
        # other way round): intervaltree then counts one overlap more or less than the exact model
        raise core.Ambiguous()
    for alt in mo[1:]:
        # density*layerWidth inexact in doubles, or an accumulated sum of widths sitting on the
        # capacity: the model fed with the adjusted density must then agree exactly
        if alt is None:
            continue
        try:
            r2 = _cmp_engine(case["py"], io["layout"], io, dec_engine(alt))
        except Amb:
            raise core.Ambiguous()
        if r2 is None or r2[0] == "amb":
            raise core.Ambiguous()
    return r[1]


def _overlap_band(py, lay):
    """True when, for some pair of labels, the comparison  a.idealLeft() < b.idealRight()
    (distributor.countIdealOverlaps through intervaltree) comes out differently in doubles
    and in exact arithmetic on the same double inputs: the two interval ends are within an
    ulp of each other (seen in the soak: ideal 104.50000000000001 + 83/2 rounds to 146.0,
    the other label starts at exactly 146.0)."""
    if labella_opts(py).get("algorithm", "overlap") != "overlap":
        return False              # only the greedy distributor counts overlaps
    side = effective(py)["direction"] in ("left", "right")
    its = [(float(n["ideal"]), float(n["h"] if side else n["w"])) for n in lay["nodes"]]
    for i, (pi, wi) in enumerate(its):
        li_f, li_x = pi - wi / 2, Fraction(pi) - Fraction(wi) / 2
        for j, (pj, wj) in enumerate(its):
            if i == j:
                continue
            rj_f, rj_x = pj + wj / 2, Fraction(pj) + Fraction(wj) / 2
            if (li_f < rj_f) != (li_x < rj_x) or (li_f == rj_f) != (li_x == rj_x):
                return True
    return False


def layout_usable(lay):
    return isinstance(lay, dict) and "nodes" in lay and all(n["chain_int"] and n["chain"] for n in lay["nodes"])


def attach_models(modname, cases, workdir_tag="prepass"):
    """Pre-pass: run the implementation to obtain the layout result the model
    takes as input, then build the model calls."""
    from harness import core
    todo = [c for c in cases if "model" not in c]
    outs = core.run_impl(modname, todo, os.path.join(core.BUILD, "run", modname.upper() + "_" + os.environ.get("VERIF_RUN_TAG", ""),
                                                      workdir_tag + "_%d" % os.getpid()))
    for c, o in zip(todo, outs):
        lay = o.get("layout") if isinstance(o, dict) else None
        if layout_usable(lay):
            c["model"] = engine_calls(c["py"], lay) if c["py"].get("engine") else model_calls(c["py"], lay)
            c["pre"] = {"nodes": [[n["key"], n["chain"], n["ideal"]] for n in lay["nodes"]]}
        else:
            c["model"] = []       # the implementation failed in the pre-pass: compare() reports it
            c["pre"] = {"error": o if not isinstance(o, dict) or "exc" in o else "layout has non-integer positions"}
    return cases


# --------------------------------------------------- decoding model output ---
class _Dec(object):
    def __init__(self, ints):
        self.a = ints
        self.k = 0

    def z(self):
        self.k += 1
        return self.a[self.k - 1]

    def q(self):
        n = self.z()
        d = self.z()
        return Fraction(n, d)

    def text(self):
        n = self.z()
        return "".join(chr(self.z()) for _ in range(n))

    def lst(self, f):
        n = self.z()
        return [f() for _ in range(n)]

    def opt(self, f):
        return f() if self.z() else None

    def num(self):
        t = self.z()
        if t == 0:
            tr = self.z()
            return ("Fi", tr, self.q())
        if t == 5:
            return ("Fl", self.z())
        if t == 4:
            return ("Fs", self.q())
        sc = self.z()
        return ({1: "F6", 2: "F8", 3: "F16"}[t], self.q(), sc)

    def np(self):
        a = self.num()
        return [a, self.num()]

    def cname(self):
        r = self.z()
        return [r, self.text()]


def dec_svg(ints):
    D = _Dec(ints)
    if D.z() != 1:
        raise ValueError("model rejected the input")
    out = dec_svg_body(D)
    if D.k != len(ints):
        raise ValueError("trailing model output")
    return out


def dec_svg_body(D):
    out = {"width": D.num(), "height": D.num(), "margin": D.np(), "main": D.np()}
    out["axis"] = {"x2": D.opt(D.num), "y2": D.opt(D.num)}

    def tick():
        return {"tr": D.np(), "x2": D.z(), "y2": D.z(), "anchor": ["middle", "end", "start"][D.z()],
                "tx": D.z(), "ty": D.z(), "dy": D.z(), "text": D.text()}
    out["ticks"] = D.opt(lambda: D.lst(tick))

    def nstep():
        return ["MCL"[D.z()], D.lst(D.np)]

    def link():
        return {"stroke": D.opt(D.text), "d": D.lst(nstep)}
    out["links"] = D.lst(link)

    def ltext():
        return {"x": D.num(), "y": D.num(), "fill": D.opt(D.text), "body": D.text()}

    def label():
        return {"tr": D.np(), "w": D.num(), "h": D.num(), "fill": D.opt(D.text),
                "stroke": D.opt(lambda: D.opt(D.text)), "has_stroke": None, "text": D.opt(ltext)}
    out["labels"] = D.lst(label)

    def dot():
        return {"r": D.num(), "fill": D.opt(D.text), "cx": D.opt(D.num), "cy": D.opt(D.num)}
    out["dots"] = D.lst(dot)
    return out


def dec_tikz(ints):
    D = _Dec(ints)
    if D.z() != 1:
        raise ValueError("model rejected the input")
    out = dec_tikz_body(D)
    if D.k != len(ints):
        raise ValueError("trailing model output")
    return out


def dec_tikz_body(D):
    out = {"border": [D.num(), D.num(), D.num(), D.num()]}
    out["colors"] = D.lst(lambda: D.cname() + [D.text()])
    out["texts"] = D.lst(lambda: [D.text(), D.text()])
    out["margin"] = D.np()
    out["main"] = D.np()
    out["axis"] = D.np()

    def tick():
        return {"shift": D.np(), "from": [D.z(), D.z()], "to": [D.z(), D.z()],
                "anchor": ["north", "south", "west", "east"][D.z()], "text": D.text()}
    out["ticks"] = D.opt(lambda: D.lst(tick))

    def seg():
        k = "CL"[D.z()]
        c = D.cname()
        return [k, c, D.lst(D.np)]
    out["links"] = D.lst(lambda: D.lst(seg))

    def label():
        return {"shift": D.np(), "border": D.opt(D.cname), "bg": D.cname(), "w": D.num(), "h": D.num(),
                "textcol": D.cname(), "text": D.opt(D.text)}
    out["labels"] = D.lst(label)
    out["dots"] = D.lst(lambda: {"size": D.num(), "fill": D.cname(), "at": D.np()})
    return out


def dec_layout(ints):
    D = _Dec(ints)
    if D.z() != 1:
        raise ValueError("model rejected the input")
    H = D.q()
    rows = D.lst(lambda: {"w": D.q(), "h": D.q(), "x": D.q(), "y": D.q(), "dx": D.q(), "dy": D.q(),
                          "ox": D.q(), "oy": D.q(), "layer": D.z()})
    return H, rows


# ------------------------------------------------------------- comparison ---
class Amb(Exception):
    pass          # args[0], if any: the ambiguity class


INT_RX = re.compile(r"-?\d+")


def close(a, b, abs_tol):
    """a: Fraction (model), b: Fraction or float (implementation)"""
    a = Fraction(a)
    b = Fraction(b)
    return abs(a - b) <= abs_tol + Fraction(1, 10 ** 9) * max(abs(a), abs(b))


def dyadic(x):
    """x is a double on which the sums and halvings of the layout are exact"""
    fr = Fraction(x)
    return 1024 % fr.denominator == 0 and abs(fr) < 2 ** 20


def float_exact(py):
    """All sizes entering "%i"-printed coordinates are small dyadic numbers, so
    the implementation's double arithmetic is exact on them and a truncated
    coordinate must agree with the exact model digit for digit."""
    o = effective(py)
    vals = [d["width"] for d in py["data"]] + [o["layerGap"], o["initialWidth"], o["initialHeight"]]
    vals += list(o["margin"].values()) + list(o["labelPadding"].values())
    return all(dyadic(v) for v in vals)


EXACT = [True]     # set per case by compare()
# Whole-pipeline family only: the model computes scale(time) exactly, the code in
# doubles, so every value derived from an axis position (dots, ticks, path
# coordinates) is compared to the printed precision plus this absolute tolerance
# (1e-9 x axis length, plus the conditioning of a linear domain whose magnitude
# dwarfs its span, as in c11.py), and a %i truncation of such a value may fall on
# either side of an integer the exact value sits on.  None = not in pipeline mode.
PIPE = [None]


def cmp_num(m, tok, where):
    """model number (format-tagged) against the printed token; None or reason"""
    if tok is None:
        return "%s: missing in the export" % where
    kind = m[0]
    if kind == "Fl":
        if not INT_RX.fullmatch(tok) or int(tok) != m[1]:
            return "%s: literal %r, model %d" % (where, tok, m[1])
        return None
    if kind == "Fi":
        if not INT_RX.fullmatch(tok):
            return "%s: %r is not an integer (%%i expected)" % (where, tok)
        if int(tok) == m[1]:
            return None
        # ambiguity band (DESIGN 3.4): the exact value lies within 1e-7 of an
        # integer, the printed integer is adjacent to it, and the inputs are not
        # exactly representable, so the implementation's doubles may fall on
        # the other side of the truncation boundary
        raw = m[2]
        near = abs(raw - round(raw))
        if (not EXACT[0]) and near < Fraction(1, 10 ** 7) and abs(int(tok) - raw) < 1 + Fraction(1, 10 ** 7):
            raise Amb()
        if PIPE[0] is not None and "tick" in where:
            band = Fraction(1, 10 ** 7) + Fraction(PIPE[0])
            if near < band and abs(int(tok) - raw) < 1 + band:
                raise Amb("trunc-band")
        return "%s: printed %s, model trunc(%s) = %d" % (where, tok, float(raw), m[1])
    dec = {"F6": 6, "F8": 8, "F16": 16}.get(kind)
    if dec is not None:
        if not re.fullmatch(r"-?\d+\.\d{%d}" % dec, tok):
            return "%s: %r is not printed with %d decimals" % (where, tok, dec)
        digits = int(tok.replace(".", ""))          # the printed decimal in units of the last digit
        if digits == m[2]:
            return None                             # digit for digit what the model prints
        # "%f"/"%.16f" print a double the model received exactly (scale values);
        # "%.8f" prints path coordinates, exact in doubles when all sizes are dyadic
        if PIPE[0] is not None:
            if close(m[1], Fraction(tok), Fraction(1, 2 * 10 ** dec) + Fraction(PIPE[0])):
                return None
            return "%s: printed %s, model %s" % (where, tok, float(m[1]))
        if kind in ("F6", "F16") or EXACT[0]:
            return "%s: printed %s, model prints %d units of 1e-%d (value %s)" % (where, tok, m[2], dec, float(m[1]))
        if close(m[1], Fraction(tok), Fraction(1, 2 * 10 ** dec)):
            return None
        return "%s: printed %s, model %s" % (where, tok, float(m[1]))
    # Fs: str() of a Python number
    if not re.fullmatch(NUM, tok):
        return "%s: %r is not a number" % (where, tok)
    if close(m[1], Fraction(tok), Fraction(1, 10 ** 12) + (Fraction(PIPE[0]) if PIPE[0] is not None else 0)):
        return None
    return "%s: printed %s, model %s" % (where, tok, float(m[1]))


def cmp_np(m, toks, where):
    return cmp_num(m[0], toks[0], where + ".x") or cmp_num(m[1], toks[1], where + ".y")


def cmp_eq(m, i, where):
    if m != i:
        return "%s: export %r, model %r" % (where, i, m)
    return None


def cmp_len(m, i, where):
    if (m is None) != (i is None):
        return "%s: present in %s only" % (where, "model" if i is None else "export")
    if m is not None and len(m) != len(i):
        return "%s: %d in the export, %d in the model" % (where, len(i), len(m))
    return None


def cmp_opt_num(m, tok, where):
    if m is None:
        return None if tok is None else "%s: unexpected attribute %r" % (where, tok)
    return cmp_num(m, tok, where)


def compare_svg(m, s):
    r = (cmp_num(m["width"], s["width"], "svg.width") or cmp_num(m["height"], s["height"], "svg.height")
         or cmp_np(m["margin"], s["margin"], "svg.margin") or cmp_np(m["main"], s["main"], "svg.main")
         or cmp_opt_num(m["axis"]["x2"], s["axis"]["x2"], "svg.axis.x2")
         or cmp_opt_num(m["axis"]["y2"], s["axis"]["y2"], "svg.axis.y2")
         or cmp_len(m["ticks"], s["ticks"], "svg.ticks"))
    if r:
        return r
    for k, (a, b) in enumerate(zip(m["ticks"] or [], s["ticks"] or [])):
        w = "svg.tick[%d]" % k
        try:
            dy = int(round(float(b["dy"][:-2]) * 100)) if b["dy"].endswith("em") else None
        except ValueError:
            dy = None
        r = (cmp_np(a["tr"], b["tr"], w + ".translate") or cmp_eq(str(a["x2"]), b["x2"], w + ".x2")
             or cmp_eq(str(a["y2"]), b["y2"], w + ".y2") or cmp_eq(a["anchor"], b["anchor"], w + ".anchor")
             or cmp_eq(str(a["tx"]), b["tx"], w + ".text.x") or cmp_eq(str(a["ty"]), b["ty"], w + ".text.y")
             or cmp_eq(a["dy"], dy, w + ".dy") or cmp_eq(a["text"], b["text"], w + ".text"))
        if r:
            return r
    r = cmp_len(m["links"], s["links"], "svg.links")
    if r:
        return r
    for k, (a, b) in enumerate(zip(m["links"], s["links"])):
        w = "svg.link[%d]" % k
        r = cmp_eq(a["stroke"], b["stroke"], w + ".stroke") or cmp_len(a["d"], b["d"], w + ".steps")
        if r:
            return r
        for j, (x, y) in enumerate(zip(a["d"], b["d"])):
            r = cmp_eq(x[0], y[0], "%s.step[%d].command" % (w, j))
            if r:
                return r
            flat = [n for p in x[1] for n in p]
            if len(flat) != len(y[1]):
                return "%s.step[%d]: argument count" % (w, j)
            for i2, (n, t) in enumerate(zip(flat, y[1])):
                r = cmp_num(n, t, "%s.step[%d].arg[%d]" % (w, j, i2))
                if r:
                    return r
    r = cmp_len(m["labels"], s["labels"], "svg.labels")
    if r:
        return r
    for k, (a, b) in enumerate(zip(m["labels"], s["labels"])):
        w = "svg.label[%d]" % k
        r = (cmp_np(a["tr"], b["tr"], w + ".translate") or cmp_num(a["w"], b["w"], w + ".width")
             or cmp_num(a["h"], b["h"], w + ".height") or cmp_eq(a["fill"], b["fill"], w + ".fill")
             or cmp_eq(a["stroke"], b["stroke"], w + ".stroke"))
        if r:
            return r
        if (a["text"] is None) != (b["text"] is None):
            return "%s: text element present in %s only" % (w, "model" if b["text"] is None else "export")
        if a["text"] is not None:
            r = (cmp_num(a["text"]["x"], b["text"]["x"], w + ".text.x") or cmp_num(a["text"]["y"], b["text"]["y"], w + ".text.y")
                 or cmp_eq(a["text"]["fill"], b["text"]["fill"], w + ".text.fill")
                 or cmp_eq(a["text"]["body"], b["text"]["body"], w + ".text"))
            if r:
                return r
    r = cmp_len(m["dots"], s["dots"], "svg.dots")
    if r:
        return r
    for k, (a, b) in enumerate(zip(m["dots"], s["dots"])):
        w = "svg.dot[%d]" % k
        r = (cmp_num(a["r"], b["r"], w + ".r") or cmp_eq(a["fill"], b["fill"], w + ".fill")
             or cmp_opt_num(a["cx"], b["cx"], w + ".cx") or cmp_opt_num(a["cy"], b["cy"], w + ".cy"))
        if r:
            return r
    return None


def compare_tikz(m, t, textex):
    """textex: {raw text -> uni2tex(raw text)} as computed by labella.tex (C19's subject)"""
    for k in range(4):
        r = cmp_num(m["border"][k], t["border"][k], "tikz.border[%d]" % k)
        if r:
            return r
    r = cmp_eq(m["colors"], t["colors"], "tikz.colour definitions")
    if r:
        return r
    r = cmp_len(m["texts"], t["texts"], "tikz.text definitions")
    if r:
        return r
    for k, (a, b) in enumerate(zip(m["texts"], t["texts"])):
        r = cmp_eq(a[0], b[0], "tikz.textdef[%d].name" % k)
        if r:
            return r
        if a[1] not in textex:
            return "tikz.textdef[%d]: model text %r is not a text of the data" % (k, a[1])
        r = cmp_eq(textex[a[1]], b[1], "tikz.textdef[%d].body (after uni2tex)" % k)
        if r:
            return r
    r = (cmp_np(m["margin"], t["margin"], "tikz.margin") or cmp_np(m["main"], t["main"], "tikz.main")
         or cmp_np(m["axis"], t["axis"], "tikz.axis") or cmp_len(m["ticks"], t["ticks"], "tikz.ticks"))
    if r:
        return r
    for k, (a, b) in enumerate(zip(m["ticks"] or [], t["ticks"] or [])):
        w = "tikz.tick[%d]" % k
        r = (cmp_np(a["shift"], b["shift"], w + ".shift") or cmp_eq(a["from"], b["from"], w + ".from")
             or cmp_eq(a["to"], b["to"], w + ".to") or cmp_eq(a["anchor"], b["anchor"], w + ".anchor")
             or cmp_eq(a["text"], b["text"], w + ".text"))
        if r:
            return r
    r = cmp_len(m["links"], t["links"], "tikz.links")
    if r:
        return r
    for k, (a, b) in enumerate(zip(m["links"], t["links"])):
        w = "tikz.link[%d]" % k
        r = cmp_len(a, b, w + ".segments")
        if r:
            return r
        for j, (x, y) in enumerate(zip(a, b)):
            r = cmp_eq(x[0], y[0], "%s.seg[%d].kind" % (w, j)) or cmp_eq(x[1], y[1], "%s.seg[%d].colour" % (w, j))
            if r:
                return r
            for i2, (p, tp) in enumerate(zip(x[2], y[2])):
                r = cmp_np(p, tp, "%s.seg[%d].pt[%d]" % (w, j, i2))
                if r:
                    return r
    r = cmp_len(m["labels"], t["labels"], "tikz.labels")
    if r:
        return r
    for k, (a, b) in enumerate(zip(m["labels"], t["labels"])):
        w = "tikz.label[%d]" % k
        r = (cmp_np(a["shift"], b["shift"], w + ".shift") or cmp_eq(a["border"], b["border"], w + ".border")
             or cmp_eq(a["bg"], b["bg"], w + ".fill") or cmp_num(a["w"], b["w"], w + ".width")
             or cmp_num(a["h"], b["h"], w + ".height") or cmp_eq(a["textcol"], b["textcol"], w + ".textcolour")
             or cmp_eq(a["text"], b["text"], w + ".text macro"))
        if r:
            return r
    r = cmp_len(m["dots"], t["dots"], "tikz.dots")
    if r:
        return r
    for k, (a, b) in enumerate(zip(m["dots"], t["dots"])):
        w = "tikz.dot[%d]" % k
        r = (cmp_num(a["size"], b["size"], w + ".size") or cmp_eq(a["fill"], b["fill"], w + ".fill")
             or cmp_np(a["at"], b["at"], w + ".at"))
        if r:
            return r
    return None


def compare(case, io, mo):
    """The K5 tie: both documents and the layout quantities, model vs implementation."""
    from harness import core
    if case["py"].get("pipeline") and isinstance(io, dict) and "exc" in io:
        return compare_pipeline(case, io, mo)
    if not isinstance(io, dict) or "exc" in io:
        return "implementation raised %s" % (io.get("exc") if isinstance(io, dict) else io)
    if "error" in case.get("pre", {}):
        return "implementation failed in the layout pre-pass: %r" % (case["pre"]["error"],)
    if "svg_error" in io:
        return "SVG export has an unexpected shape: " + io["svg_error"]
    if "tikz_error" in io:
        return "TikZ export has an unexpected shape: " + io["tikz_error"]
    if case["py"].get("pipeline"):
        return compare_pipeline(case, io, mo)
    lay = io["layout"]
    if not layout_usable(lay):
        return "layout positions are not integers"
    now = [[n["key"], n["chain"], n["ideal"]] for n in lay["nodes"]]
    if now != case["pre"]["nodes"]:
        return "the layout differs between two runs on the same input"
    if json.dumps(io["layout"], sort_keys=True) != json.dumps(io["layout_tex"], sort_keys=True):
        return "TimelineSVG and TimelineTex computed different layouts from identical inputs"
    if case["py"].get("engine"):
        return compare_engine(case, io, mo)
    if len(mo) != 3 or any(x is None for x in mo):
        return "model produced no output"
    try:
        msvg, mtikz = dec_svg(mo[0]), dec_tikz(mo[1])
        H, rows = dec_layout(mo[2])
    except (ValueError, IndexError) as e:
        return "model output undecodable: %s" % e
    EXACT[0] = float_exact(case["py"])
    try:
        # layout quantities: layer index, sizes, Renderer.layout, nodePos
        if len(rows) != len(lay["nodes"]):
            return "node count"
        d = effective(case["py"])["direction"]
        hh = max((n["w"] if d in ("left", "right") else n["h"]) for n in lay["nodes"])
        if not close(H, hh, 0):
            return "nodeHeight: implementation %r, model %s" % (hh, float(H))
        for k, (r_, n) in enumerate(zip(rows, lay["nodes"])):
            if n["stub"]:
                return "node[%d] of tl.nodes is a stub" % k
            if r_["layer"] != n["layer"]:
                return "node[%d]: layerIndex %d but %d stubs on its path" % (k, n["layer"], len(n["chain"]) - 1)
            for f in ("w", "h", "x", "y", "dx", "dy"):
                if not close(r_[f], n[f], 0):
                    return "node[%d].%s: implementation %r, model %s" % (k, f, n[f], float(r_[f]))
            if n["text"] != case["py"]["data"][n["key"]].get("text"):
                return "node[%d].text differs from the datum's text" % k
        textex = {n["text"]: n["textex"] for n in lay["nodes"] if n["text"]}
        return compare_svg(msvg, io["svg"]) or compare_tikz(mtikz, io["tikz"], textex)
    except Amb:
        raise core.Ambiguous()


# ---------------------------------------------------------------- generators ---
SPECIALS = ["<", "&", ">", "\"", "'", "<&>\"'", "a<b", "R&D", "x>y", "\"q\"", "it's", "</text>", "&amp;", "<![CDATA[x]]>"]
NONASCII = ["\u00e9t\u00e9", "\u00fc\u00f1\u00ee", "\u0416\u0443\u043a", "\u4e2d\u6587", "\u03b1\u03b2\u03b3", "na\u00efve caf\u00e9",
            "\u00c5ngstr\u00f6m", "\u20ac100", "\u00df", "e\u0301", "\u05e9\u05dc\u05d5\u05dd", "\U0001f600"]
WORDS = ["alpha", "beta", "gamma", "delta", "Label", "item", "event", "launch", "v1.0", "x", "release 2", "Q3"]
HEX = "0123456789abcdefABCDEF"


def rand_text(rng):
    r = rng.random()
    if r < 0.18:
        return None
    if r < 0.22:
        return ""
    if r < 0.27:
        return rng.choice(["  lead", "trail  ", " both ", " ", "a  b", "tab\tx"])
    if r < 0.40:
        return rng.choice(SPECIALS) + (" " + rng.choice(WORDS) if rng.random() < 0.5 else "")
    if r < 0.55:
        return rng.choice(NONASCII) + (rng.choice(SPECIALS) if rng.random() < 0.3 else "")
    return rng.choice(WORDS) + (" %d" % rng.randrange(100) if rng.random() < 0.5 else "")


def rand_hex(rng, n=None):
    n = n or rng.choice([3, 6])
    return rng.choice(["#", "#", ""]) + "".join(rng.choice(HEX) for _ in range(n))


def rand_colour(rng, forms=("c3", "c6", "l", "f")):
    k = rng.choice(forms)
    if k == "c3":
        return ["c", rand_hex(rng, 3)]
    if k == "c6":
        return ["c", rand_hex(rng, 6)]
    pal = [rand_hex(rng) for _ in range(rng.randrange(1, 6))]
    return ["l" if k == "l" else "f", pal]


def rand_width(rng, decimal=False):
    """dyadic widths (exact in doubles) unless `decimal`"""
    r = rng.random()
    if decimal and r < 0.5:
        return round(rng.uniform(3, 150), rng.choice([1, 2, 3]))
    if r < 0.55:
        return rng.randrange(5, 120)
    if r < 0.8:
        return rng.randrange(10, 240) / 2.0
    return rng.randrange(40, 800) / 8.0


def rand_num(rng, lo, hi):
    r = rng.random()
    if r < 0.5:
        return rng.randrange(int(lo), int(hi) + 1)
    if r < 0.8:
        return rng.randrange(int(lo) * 4, int(hi) * 4 + 1) / 4.0
    return round(rng.uniform(lo, hi), 2)


def rand_instant(rng, base, span_s, with_tod=True):
    dt = base + datetime.timedelta(seconds=rng.uniform(0, span_s))
    dt = dt.replace(microsecond=(dt.microsecond // 1000) * 1000)
    return dt


def spec_of(v):
    if isinstance(v, datetime.datetime):
        return ["dt", v.year, v.month, v.day, v.hour, v.minute, v.second, v.microsecond]
    if isinstance(v, datetime.date):
        return ["d", v.year, v.month, v.day]
    if isinstance(v, datetime.time):
        return ["t", v.hour, v.minute, v.second, v.microsecond]
    return v


def gen_case(rng, kind, n=None, direction=None, algorithm=None, min_spacing=None, min_gap=None,
             colour_forms=None, force_layers=None):
    """One random dataset + options.  Stays inside Appendix B of DESIGN.md."""
    n = n if n is not None else rng.choice([1, 2, 3, 4, 5, 6, 8, 10, 12, 15, 20, 25, 30, 40])
    direction = direction or rng.choice(DIRS)
    algorithm = algorithm or rng.choice(["overlap", "overlap", "simple", "none"])
    scale = rng.choice(["linear", "time", "time"])
    # --- times
    data = []
    dom = None
    if scale == "linear":
        lo = rng.choice([0, -50, 3, 1000, 0.5])
        span = rng.choice([1, 10, 100, 37.5, 1000, 0.25])
        shape = rng.choice(["uniform", "cluster", "equal", "ints"])
        ts = []
        for _ in range(n):
            if shape == "uniform":
                ts.append(round(lo + rng.uniform(0, span), 4))
            elif shape == "cluster":
                ts.append(round(lo + span * (rng.choice([0.2, 0.5, 0.8]) + rng.uniform(-0.03, 0.03)), 5))
            elif shape == "equal":
                ts.append(lo + span * rng.choice([0.25, 0.5]))
            else:
                ts.append(int(lo) + rng.randrange(0, max(2, int(span) + 1)))
        if rng.random() < 0.35:
            a, b = min(ts), max(ts)
            pad = rng.choice([0, 0, 1, 0.5, span])
            dom = [a - pad, b + pad + (1 if a == b and pad == 0 else 0)]
    else:
        base = datetime.datetime(rng.randrange(1950, 2090), rng.randrange(1, 13), rng.randrange(1, 29))
        span_s = rng.choice([30, 600, 7200, 86400, 3 * 86400, 20 * 86400, 90 * 86400, 400 * 86400, 5 * 365 * 86400, 40 * 365 * 86400])
        form = rng.choice(["dt", "dt", "dt", "d", "mixed", "t"])
        ts = []
        for _ in range(n):
            v = rand_instant(rng, base, span_s)
            if form == "d" or (form == "mixed" and rng.random() < 0.4):
                v = v.date()
            elif form == "t":
                v = v.time()
            ts.append(v)
        if rng.random() < 0.3 and form != "t":
            nums = [to_number(v) for v in ts]
            a = EPOCH + datetime.timedelta(milliseconds=min(nums))
            b = EPOCH + datetime.timedelta(milliseconds=max(nums))
            padd = datetime.timedelta(seconds=rng.choice([0, 1, 3600, 86400]))
            if a == b and not padd:
                padd = datetime.timedelta(seconds=60)
            dom = [a - padd, b + padd]
    if rng.random() < 0.7:
        rng.shuffle(ts)
    decimal = rng.random() < 0.15
    for k, t in enumerate(ts):
        d = {"t": spec_of(t), "width": rand_width(rng, decimal), "cidx": rng.randrange(0, 7)}
        tx = rand_text(rng)
        if tx is not None:
            d["text"] = tx
        data.append(d)
    # --- options
    iw = rng.choice([200, 300, 400, 640, 800, 1000, 333.5])
    ih = rng.choice([150, 300, 400, 480, 600, 250.25])
    margin = {"left": rng.choice([0, 10, 20, 35, 12.5]), "right": rng.choice([0, 10, 20, 30]),
              "top": rng.choice([0, 10, 20, 25]), "bottom": rng.choice([0, 10, 20, 7.75])}
    gap_lo = 1 if min_gap is None else min_gap
    layer_gap = rng.choice([gap_lo, 1, 2.5, 10, 30, 60, 60, 45.5, 100])
    if min_gap is None and rng.random() < 0.1:
        layer_gap = rng.choice([0, 0.5])
    layer_gap = max(layer_gap, min_gap) if min_gap is not None else layer_gap
    pad = {"left": rng.choice([0, 2, 2, 4, 1.5]), "right": rng.choice([0, 2, 2, 5]),
           "top": rng.choice([0, 3, 3, 1]), "bottom": rng.choice([0, 2, 2, 6.25])}
    inner = (ih - margin["top"] - margin["bottom"]) if direction in ("left", "right") else (iw - margin["left"] - margin["right"])
    lab = {"algorithm": algorithm}
    sp_lo = 0 if min_spacing is None else min_spacing
    lab["nodeSpacing"] = rng.choice([sp_lo, 3, 3, 3, 4, 5.5, 10]) if min_spacing is not None else rng.choice([0, 1, 2.5, 3, 3, 3, 4, 10])
    lab["nodeSpacing"] = max(lab["nodeSpacing"], sp_lo)
    r = rng.random()
    if force_layers or r < 0.6:
        lab["minPos"] = 0
        lab["maxPos"] = inner
    elif r < 0.75:
        lab["minPos"] = None
        lab["maxPos"] = None
    elif r < 0.85:
        lab["minPos"] = rng.choice([0, 10, -20])
        lab["maxPos"] = lab["minPos"] + rng.choice([100, 250, 500])
    if rng.random() < 0.4:
        lab["density"] = rng.choice([0.3, 0.5, 0.75, 0.85, 1.0])
    if rng.random() < 0.3:
        lab["stubWidth"] = rng.choice([0, 1, 2, 4.5])
    opts = {"direction": direction, "initialWidth": iw, "initialHeight": ih, "margin": margin,
            "layerGap": layer_gap, "labelPadding": pad, "dotRadius": rng.choice([3, 3, 1, 4.5, 2]),
            "showTicks": rng.random() < 0.7, "showBorder": rng.random() < 0.5, "labella": lab}
    if rng.random() < 0.15:
        opts["latex"] = {"tickCross": True}
    if rng.random() < 0.08:
        # textFn=None is handled explicitly by Timeline.textFn (d.get("text")): same texts as the
        # default accessor (a surviving mutant of the seed-3 campaign sat in that branch)
        opts["textFn"] = None
    # partial options: drop some top-level keys (documented: any subset)
    if rng.random() < 0.2:
        for k in rng.sample(["initialWidth", "initialHeight", "margin", "layerGap", "labelPadding", "dotRadius",
                             "showTicks", "showBorder", "labella"], rng.randrange(1, 5)):
            if k == "labella" and force_layers:
                continue          # the family needs its engine options
            del opts[k]
    colors = {}
    forms = colour_forms or ("c3", "c6", "l", "f")
    for role in ROLES:
        if rng.random() < (0.8 if colour_forms else 0.45):
            colors[role] = rand_colour(rng, forms)
    py = {"data": data, "scale": scale, "domain": None if dom is None else [spec_of(x) for x in dom],
          "opts": opts, "colors": colors}
    if scale == "linear" and rng.random() < 0.25:
        # the scale object has drawn another chart before (different magnitude => different tick precision)
        py["preuse"] = rng.choice([[1.0, 90.0], [0.05, 0.95], [1000.0, 250000.0], [-0.004, 0.003]])
    if kind == "random":
        kind = "%s/%s/%s" % (scale, shape if scale == "linear" else form, "explicit-domain" if dom is not None else "derived-domain")
    return {"kind": kind, "py": py}


def shrink_candidates(case):
    py = case["py"]
    n = len(py["data"])
    if n > 1:
        for k in range(n):
            p2 = json.loads(json.dumps(py))
            del p2["data"][k]
            yield {"kind": case.get("kind", "?"), "py": p2, "model": []}   # only the oracle looks at these
            if k >= 10:
                break


def histograms(cases, impl_out):
    """Input distribution of a run, for the evidence file."""
    from collections import Counter
    h = {k: Counter() for k in ("direction", "algorithm", "scale", "labels", "max_stub_depth", "ticks", "border")}
    for c, io in zip(cases, impl_out):
        o = effective(c["py"])
        lab = (c["py"].get("opts") or {}).get("labella") or {}
        h["direction"][o["direction"]] += 1
        h["algorithm"][lab.get("algorithm", "overlap")] += 1
        h["scale"][c["py"]["scale"]] += 1
        n = len(c["py"]["data"])
        h["labels"]["1" if n == 1 else "2-5" if n <= 5 else "6-15" if n <= 15 else "16-40"] += 1
        h["ticks"]["on" if o["showTicks"] else "off"] += 1
        h["border"]["on" if o["showBorder"] else "off"] += 1
        if isinstance(io, dict) and "layout" in io:
            h["max_stub_depth"][str(max(len(nd["chain"]) - 1 for nd in io["layout"]["nodes"]))] += 1
    return {"input_histograms": {k: dict(v) for k, v in h.items()}}


# -------------------------------------------------- parsed export, as floats ---
def f(tok):
    return float(tok)


def svg_boxes(svg):
    return [(f(b["tr"][0]), f(b["tr"][1]), f(b["w"]), f(b["h"])) for b in svg["labels"]]


def tikz_boxes(tk):
    return [(f(b["shift"][0]), f(b["shift"][1]), f(b["w"]), f(b["h"])) for b in tk["labels"]]


# ===================================================================== oracles ===
# Written from the property texts (properties.jsonl), independent of the Coq
# model.  They read the parsed exports, the caller's ORIGINAL data (case["py"])
# and, where the statement speaks about stubs or layers, the engine state the
# implementation reports (io["layout"]).
ITEM_HEIGHT = 13.0          # labella's fixed label height for explicit widths


def _sideways(d):
    return d in ("left", "right")


def _along_cross(d, x, y):
    """(coordinate along the axis, distance from the axis on the label side)"""
    if d == "right":
        return y, x
    if d == "left":
        return y, -x
    if d == "down":
        return x, y
    return x, -y


def drawn(io, backend):
    """Back-end independent view of one export: floats, main-layer coordinates."""
    if backend == "svg":
        s = io["svg"]
        ax = (f(s["axis"]["x2"] or "0"), f(s["axis"]["y2"] or "0"))
        ticks = None if s["ticks"] is None else [((f(t["tr"][0]), f(t["tr"][1])), t["text"]) for t in s["ticks"]]
        links = []
        for k in s["links"]:
            cur = (0.0, 0.0)
            segs = []
            for cmd, a in k["d"]:
                a = [f(x) for x in a]
                if cmd == "M":
                    cur = (a[0], a[1])
                elif cmd == "C":
                    segs.append(("C", cur, (a[0], a[1]), (a[2], a[3]), (a[4], a[5])))
                    cur = (a[4], a[5])
                else:
                    segs.append(("L", cur, (a[0], a[1])))
                    cur = (a[0], a[1])
            links.append({"first": k["d"][0][0] if k["d"] else None, "segs": segs})
        boxes = [{"x": f(b["tr"][0]), "y": f(b["tr"][1]), "w": f(b["w"]), "h": f(b["h"]),
                  "text": None if b["text"] is None else b["text"]["body"]} for b in s["labels"]]
        dots = [(f(c["cx"] or "0"), f(c["cy"] or "0")) for c in s["dots"]]
        return {"axis": ax, "ticks": ticks, "links": links, "boxes": boxes, "dots": dots, "slack": 0.0}
    t = io["tikz"]
    texts = dict((a, b) for a, b in t["texts"])
    ticks = None if t["ticks"] is None else [((f(k["shift"][0]), f(k["shift"][1])), k["text"]) for k in t["ticks"]]
    links = []
    for k in t["links"]:
        segs = []
        for kind, _c, pts in k:
            pts = [(f(p[0]), f(p[1])) for p in pts]
            segs.append((kind,) + tuple(pts))
        links.append({"first": "M", "segs": segs})
    boxes = [{"x": f(b["shift"][0]), "y": f(b["shift"][1]), "w": f(b["w"]), "h": f(b["h"]),
              "text": None if b["text"] is None else texts.get(b["text"], "<undefined macro>")} for b in t["labels"]]
    dots = [(f(c["at"][0]), f(c["at"][1])) for c in t["dots"]]
    return {"axis": (f(t["axis"][0]), f(t["axis"][1])), "ticks": ticks, "links": links, "boxes": boxes,
            "dots": dots, "slack": 1.0}


def _domain(case, io):
    py = case["py"]
    if py.get("domain") is not None and not py.get("noopts"):
        return [to_number(mk_time(x)) for x in py["domain"]], True
    return list(io["layout"]["domain"]), False


def _time_texts(ms):
    dt = EPOCH + datetime.timedelta(milliseconds=round(ms))
    return {dt.strftime(x) for x in ("%Y", "%B", "%b %d", "%a %d", "%I %p", "%H:%M", ":%S")}


def oracle_c07(case, io):
    if not isinstance(io, dict) or "exc" in io:
        return "export raised %s" % (io.get("exc") if isinstance(io, dict) else io)
    for key in ("svg_error", "tikz_error"):
        if key in io:
            return "export cannot be read: " + io[key]
    py = case["py"]
    o = effective(py)
    d = o["direction"]
    side = _sideways(d)
    data = py["data"]
    n = len(data)
    times = io["times"]                       # the caller's times as numbers (harness arithmetic)
    dom, explicit = _domain(case, io)
    lo, hi = min(dom), max(dom)
    if min(times) < lo - 1e-6 or max(times) > hi + 1e-6:
        return "the axis domain [%r, %r] does not cover the data [%r, %r]" % (lo, hi, min(times), max(times))
    pd = o["labelPadding"]
    ph, pv = pd["left"] + pd["right"], pd["top"] + pd["bottom"]
    lay = io["layout"]["nodes"]
    for backend in ("svg", "tikz"):
        D = drawn(io, backend)
        slack = D["slack"]
        if not (len(D["dots"]) == len(D["links"]) == len(D["boxes"]) == n):
            return "%s: %d dots, %d links, %d boxes for %d data" % (backend, len(D["dots"]), len(D["links"]), len(D["boxes"]), n)
        length = D["axis"][1] if side else D["axis"][0]
        if (D["axis"][0] if side else D["axis"][1]) != 0:
            return "%s: the axis line is not straight along the axis" % backend
        inner = (o["initialHeight"] - o["margin"]["top"] - o["margin"]["bottom"]) if side else \
                (o["initialWidth"] - o["margin"]["left"] - o["margin"]["right"])
        if abs(length - inner) > slack + 1e-9 * abs(inner):
            return "%s: axis length %r, expected %r" % (backend, length, inner)

        def a_of(t):
            return 0.0 if hi == lo else (t - lo) / (hi - lo) * inner
        tol = lambda v: 1e-6 + 1e-9 * abs(v)
        # identify the datum of each box by its size and text (then by time)
        unused = set(range(n))
        for i in range(n):
            b = D["boxes"][i]
            dot = D["dots"][i]
            along, cross = (dot[1], dot[0]) if side else (dot[0], dot[1])
            if cross != 0:
                return "%s: dot %d is off the axis line (cross coordinate %r)" % (backend, i, cross)
            cands = []
            for k in unused:
                w = data[k]["width"]
                txt = data[k].get("text") or None
                if side:
                    ok = (close(Fraction(b["w"]), w + pv, 0) and close(Fraction(b["h"]), ITEM_HEIGHT + ph, 0)) or \
                         (close(Fraction(b["w"]), ITEM_HEIGHT + pv, 0) and close(Fraction(b["h"]), w + ph, 0)) or \
                         (close(Fraction(b["w"]), w + ph, 0) and close(Fraction(b["h"]), ITEM_HEIGHT + pv, 0)) or \
                         (close(Fraction(b["w"]), ITEM_HEIGHT + ph, 0) and close(Fraction(b["h"]), w + pv, 0))
                else:
                    ok = close(Fraction(b["w"]), w + ph, 0) and close(Fraction(b["h"]), ITEM_HEIGHT + pv, 0)
                if not ok:
                    continue
                shown = b["text"]
                if backend == "tikz" and txt is not None:
                    want = next((nd["textex"] for nd in lay if nd["text"] == txt), None)
                else:
                    want = txt
                if shown == want:
                    cands.append(k)
            if not cands:
                return "%s: box %d (size %r x %r, text %r) is no datum's size plus padding with its text verbatim" % (
                    backend, i, b["w"], b["h"], b["text"])
            k = min(cands, key=lambda k: abs(a_of(times[k]) - along))
            unused.discard(k)
            want = a_of(times[k])
            if abs(along - want) > tol(want):
                return "%s: dot %d at %r, but its datum's time maps to %r" % (backend, i, along, want)
            if not (-tol(inner) <= along <= inner + tol(inner)):
                return "%s: dot %d at %r lies outside the axis [0, %r]" % (backend, i, along, inner)
            # the link
            segs = D["links"][i]["segs"]
            if not segs or D["links"][i]["first"] != "M":
                return "%s: link %d is empty or does not start with a move" % (backend, i)
            start = segs[0][1]
            if abs(start[0] - dot[0]) > 1e-6 + 1e-9 * abs(dot[0]) or abs(start[1] - dot[1]) > 1e-6 + 1e-9 * abs(dot[1]):
                return "%s: link %d starts at %r, its dot is at %r" % (backend, i, start, dot)
            for j in range(1, len(segs)):
                if segs[j][1] != segs[j - 1][-1]:
                    return "%s: link %d is not continuous at step %d" % (backend, i, j)
            kinds = "".join(s[0] for s in segs)
            chain = lay[i]["chain"]
            hl = lay[i].get("hop_layers")
            if hl is not None and hl != list(range(len(chain))):
                return ("%s: link %d does not pass through the datum's stubs layer by layer: its hops were laid out in "
                        "layers %r" % (backend, i, hl))
            if kinds != "CL" * (len(chain) - 1) + "C":
                return "%s: link %d has steps %s for %d stubs" % (backend, i, kinds, len(chain) - 1)
            prev_cross = 0.0
            for j, s in enumerate(segs):
                a0, c0 = _along_cross(d, *s[1])
                a1, c1 = _along_cross(d, *s[-1])
                if c1 < c0 or c0 < prev_cross - 1e-9:
                    return "%s: link %d does not proceed away from the axis at step %d" % (backend, i, j)
                prev_cross = c1
                if s[0] == "L":
                    stub = chain[j // 2]
                    if a0 != a1 or abs(a0 - stub) > 1e-8:
                        return "%s: link %d: line %d does not run through its stub at %r" % (backend, i, j, stub)
                elif abs(a1 - chain[j // 2]) > 1e-8:
                    return "%s: link %d: curve %d does not end at the node of layer %d" % (backend, i, j, j // 2)
            end = segs[-1][-1]
            # middle of the axis-facing edge of the box (origin truncated: 1 unit of slack)
            if d == "right":
                mid = (b["x"], b["y"] + b["h"] / 2)
            elif d == "left":
                mid = (b["x"] + b["w"], b["y"] + b["h"] / 2)
            elif d == "down":
                mid = (b["x"] + b["w"] / 2, b["y"])
            else:
                mid = (b["x"] + b["w"] / 2, b["y"] + b["h"])
            if abs(end[0] - mid[0]) >= 1 + 1e-6 or abs(end[1] - mid[1]) >= 1 + 1e-6:
                return "%s: link %d ends at %r, the middle of the axis-facing edge of its box is %r" % (backend, i, end, mid)
        # ticks
        if o["showTicks"] != (D["ticks"] is not None):
            return "%s: tick display does not follow showTicks" % backend
        prev = None
        for j, (pos, text) in enumerate(D["ticks"] or []):
            along, cross = (pos[1], pos[0]) if side else (pos[0], pos[1])
            if cross != 0:
                return "%s: tick %d is off the axis line" % (backend, j)
            if not (-tol(inner) - slack <= along <= inner + tol(inner)):
                return "%s: tick %d at %r outside the axis [0, %r]" % (backend, j, along, inner)
            if prev is not None and along < prev:
                return "%s: tick positions are not increasing at %d" % (backend, j)
            prev = along
            if hi == lo:
                continue
            # value at this position under the affine map (TikZ: truncated position)
            vlo = lo + (along) / inner * (hi - lo)
            vhi = lo + (along + slack) / inner * (hi - lo)
            if py["scale"] == "linear" and not py.get("noopts"):
                try:
                    val = float(text)
                except ValueError:
                    return "%s: tick %d text %r is not a number" % (backend, j, text)
                digits = len(text.split(".")[1]) if "." in text else 0
                eps = 0.5 * 10 ** -digits + 1e-9 * (abs(hi) + abs(lo)) + 1e-6 * (hi - lo) / inner
                if not (vlo - eps <= val <= vhi + eps):
                    return "%s: tick %d at %r shows %r, the value there is %r" % (backend, j, along, text, vlo)
            elif slack == 0:
                if text not in _time_texts(vlo):
                    return "%s: tick %d at %r shows %r, not a format of the instant there" % (backend, j, along, text)
    return None


def oracle_c08(case, io):
    if not isinstance(io, dict) or "exc" in io:
        return "export raised %s" % (io.get("exc") if isinstance(io, dict) else io)
    for key in ("svg_error", "tikz_error"):
        if key in io:
            return "export cannot be read: " + io[key]
    o = effective(case["py"])
    lab = (case["py"].get("opts") or {}).get("labella") or {}
    if lab.get("nodeSpacing", 3) < 3 or o["layerGap"] < 1:
        return None                       # outside the property's quantifier
    d = o["direction"]
    G = o["layerGap"]
    layers = [nd["layer"] for nd in io["layout"]["nodes"]]
    for backend, boxes in (("svg", svg_boxes(io["svg"])), ("tikz", tikz_boxes(io["tikz"]))):
        if len(boxes) != len(layers):
            return "%s: %d boxes for %d labels" % (backend, len(boxes), len(layers))
        ext = []
        for (x, y, w, h) in boxes:
            # (along lo, along hi, near edge distance, far edge distance)
            if d == "right":
                ext.append((y, y + h, x, x + w))
            elif d == "left":
                ext.append((y, y + h, -(x + w), -x))
            elif d == "down":
                ext.append((x, x + w, y, y + h))
            else:
                ext.append((x, x + w, -(y + h), -y))
        for i, e in enumerate(ext):
            if e[2] < G - 1:
                return "%s: box %d is %r from the axis on the %s side (layer gap %r)" % (backend, i, e[2], d, G)
        for i in range(len(ext)):
            for j in range(i + 1, len(ext)):
                a, b = ext[i], ext[j]
                if a[0] <= b[1] and b[0] <= a[1] and a[2] <= b[3] and b[2] <= a[3]:
                    return "%s: boxes %d and %d intersect: %r %r" % (backend, i, j, boxes[i], boxes[j])
                if layers[i] < layers[j] and not a[3] <= b[2]:
                    return "%s: box %d (layer %d) is not wholly beyond box %d (layer %d)" % (backend, j, layers[j], i, layers[i])
                if layers[j] < layers[i] and not b[3] <= a[2]:
                    return "%s: box %d (layer %d) is not wholly beyond box %d (layer %d)" % (backend, i, layers[i], j, layers[j])
    return None


def _rgb_of_svg(s):
    m = re.fullmatch(r"rgb\((\d+), (\d+), (\d+)\)", s or "")
    return None if not m else tuple(int(x) for x in m.groups())


def _rgb_of_html(s):
    if not re.fullmatch(r"[0-9A-F]{6}", s or ""):
        return None
    return (int(s[0:2], 16), int(s[2:4], 16), int(s[4:6], 16))


def oracle_c09(case, io):
    """Direct SVG-versus-TikZ comparison, from the two exports only."""
    if not isinstance(io, dict) or "exc" in io:
        return "export raised %s" % (io.get("exc") if isinstance(io, dict) else io)
    for key in ("svg_error", "tikz_error"):
        if key in io:
            return "export cannot be read: " + io[key]
    s, t = io["svg"], io["tikz"]
    cols = {}
    for r, name, code in t["colors"]:
        cols.setdefault((r, name), code)

    def tcol(cn):
        return _rgb_of_html(cols.get((cn[0], cn[1])))

    def same_col(a, cn, what):
        x, y = _rgb_of_svg(a), tcol(cn)
        if x is None or y is None or x != y:
            return "%s colour: SVG %r, TikZ %r" % (what, a, cols.get((cn[0], cn[1])))
        return None
    if [int(x) for x in s["main"]] != [int(x) for x in t["main"]]:
        return "main layer shift: SVG %r, TikZ %r" % (s["main"], t["main"])
    sa = (f(s["axis"]["x2"] or "0"), f(s["axis"]["y2"] or "0"))
    ta = (f(t["axis"][0]), f(t["axis"][1]))
    if abs(sa[0] - ta[0]) >= 1 or abs(sa[1] - ta[1]) >= 1:
        return "axis line: SVG to %r, TikZ to %r" % (sa, ta)
    if (s["ticks"] is None) != (t["ticks"] is None) or len(s["ticks"] or []) != len(t["ticks"] or []):
        return "ticks: SVG %r, TikZ %r" % (s["ticks"] and len(s["ticks"]), t["ticks"] and len(t["ticks"]))
    for k, (a, b) in enumerate(zip(s["ticks"] or [], t["ticks"] or [])):
        if abs(f(a["tr"][0]) - f(b["shift"][0])) >= 1 or abs(f(a["tr"][1]) - f(b["shift"][1])) >= 1:
            return "tick %d: SVG at %r, TikZ at %r" % (k, a["tr"], b["shift"])
        if a["text"] != b["text"]:
            return "tick %d text: SVG %r, TikZ %r" % (k, a["text"], b["text"])
    n = len(s["labels"])
    if not (len(t["labels"]) == len(s["links"]) == len(t["links"]) == len(s["dots"]) == len(t["dots"]) == n):
        return "element counts differ between the back-ends"
    ds, dt_ = drawn(io, "svg"), drawn(io, "tikz")
    texts = dict((a, b) for a, b in t["texts"])
    textex = {nd["text"]: nd["textex"] for nd in io["layout"]["nodes"] if nd["text"]}
    for i in range(n):
        a, b = s["labels"][i], t["labels"][i]
        if [int(x) for x in a["tr"]] != [int(x) for x in b["shift"]]:
            return "box %d origin: SVG %r, TikZ %r" % (i, a["tr"], b["shift"])
        if f(a["w"]) != f(b["w"]) or f(a["h"]) != f(b["h"]):
            return "box %d size: SVG %r x %r, TikZ %r x %r" % (i, a["w"], a["h"], b["w"], b["h"])
        r = same_col(a["fill"], b["bg"], "box %d fill" % i)
        if r:
            return r
        if (a["stroke"] is None) != (b["border"] is None):
            return "box %d border drawn by one back-end only" % i
        if a["stroke"] is not None:
            r = same_col(a["stroke"], b["border"], "box %d border" % i)
            if r:
                return r
        if (a["text"] is None) != (b["text"] is None):
            return "box %d text shown by one back-end only" % i
        if a["text"] is not None:
            body = texts.get(b["text"])
            if body is None or textex.get(a["text"]["body"]) != body:
                return "box %d text: SVG %r, TikZ %r" % (i, a["text"]["body"], body)
            r = same_col(a["text"]["fill"], b["textcol"], "box %d text" % i)
            if r:
                return r
        if ds["links"][i]["segs"] != dt_["links"][i]["segs"]:
            return "link %d differs point for point" % i
        r = same_col(s["links"][i]["stroke"], t["links"][i][0][1], "link %d" % i)
        if r:
            return r
        p, q_ = ds["dots"][i], dt_["dots"][i]
        if abs(p[0] - q_[0]) > 0.5e-6 + 1e-9 * abs(p[0]) or abs(p[1] - q_[1]) > 0.5e-6 + 1e-9 * abs(p[1]):
            return "dot %d: SVG %r, TikZ %r" % (i, p, q_)
        if abs(2 * f(s["dots"][i]["r"]) - f(t["dots"][i]["size"])) > 1e-9:
            return "dot %d diameter: SVG %r, TikZ %r" % (i, 2 * f(s["dots"][i]["r"]), t["dots"][i]["size"])
        r = same_col(s["dots"][i]["fill"], t["dots"][i]["fill"], "dot %d" % i)
        if r:
            return r
    return None


# ============================================================================
# The whole-pipeline family `pipeline:*` (command 850, coq/Render/Pipeline.v):
# the model gets the RAW input only (times, widths, texts, options, engine
# options, today) and must produce both documents; they are compared with the
# parsed real exports by the same field-by-field comparison as above.
# No pre-pass: nothing is taken from the implementation.
#
# A disagreement is counted as ambiguous (never silently, per class, see
# AMB_CLASSES) only when it is one of the documented double-versus-exact effects:
#   trunc-band        a tick position whose exact value is an integer (within the
#                     tolerance of the axis stage) printed by %i on the other side
#   density-product   density * layerWidth is inexact in doubles; the model re-run
#                     with the density that reproduces the code's product agrees
#   capacity-band     the distributor compares accumulated double sums of widths with
#                     density * layerWidth; the exact sum equals the capacity (within a
#                     relative 1e-12) and the doubles compare the other way: the model
#                     re-run with the density moved by 1e-12 either way agrees
#   axis-alternative  nice()/ticks() took one of the enumerated alternatives of
#                     c11.py / c14lin.py / c16.py (a decision within rounding of a
#                     tie), and the model re-run downstream of the implementation's
#                     axis values (command 851) agrees exactly
#   overlap-band      two ideal intervals touch within an ulp: idealPos - width/2 < other.idealPos +
#                     other.width/2 comes out differently in doubles and exactly, so intervaltree counts
#                     one overlap more or less (soak, thorough seed 8: 104.50000000000001 + 41.5 -> 146.0)
#   rounding-band     the axis values agree to 1e-9, an exact solver position sits
#                     within 1e-7 of a .5 rounding boundary, and 851 agrees exactly
#   ideal-perturbation  as the previous but without a position in the band (a
#                     discrete engine decision flipped by the 1e-13 perturbation of
#                     the ideal positions, e.g. touching ideal intervals); 851 agrees
# ============================================================================
import collections

AMB_CLASSES = collections.Counter()
PIPE_STATS = collections.Counter()


def _tval_ints(t):
    if isinstance(t, list):
        if t[0] == "d":
            return [1] + [int(x) for x in t[1:4]]
        if t[0] == "dt":
            v = datetime.datetime(*t[1:])
            return [2, (v - EPOCH) // datetime.timedelta(microseconds=1)]
        if t[0] == "t":
            return [3] + [int(x) for x in t[1:5]] + [0] * (5 - len(t))
        raise ValueError(t)
    return [0] + q(float(t))


def _py11_time(t):
    """the time spec in the format of harness/tl_common.py / c11.py"""
    if isinstance(t, list):
        if t[0] == "d":
            return "D:" + datetime.date(*t[1:]).isoformat()
        if t[0] == "dt":
            return "T:" + datetime.datetime(*t[1:]).isoformat()
        return "C:" + datetime.time(*t[1:]).isoformat()
    return t


def py11_of(py):
    """the axis part of a case in c11.py's format (for its model call and its compare)"""
    o = None
    if not py.get("noopts"):
        o = {k: v for k, v in py["opts"].items() if k in ("direction", "initialWidth", "initialHeight", "showTicks", "margin")}
        if py.get("domain") is not None:
            o["domain"] = [_py11_time(x) for x in py["domain"]]
    data = [{"time": _py11_time(d["t"]), "width": d["width"], "_id": k} for k, d in enumerate(py["data"])]
    return {"data": data, "opts": o, "scale": py["scale"]}


def density_alt(py):
    """the engine options with the density that makes the exact product density * layerWidth
    equal the code's double product (None if the product is exact)"""
    lab = labella_opts(py)
    eff = dict(FORCE_DEFAULTS)
    eff.update(lab)
    mn, mx, d = eff["minPos"], eff["maxPos"], eff["density"]
    if mn is not None and mx is not None and (mx - mn):
        lw = mx - mn
        prod = d * lw
        if Fraction(prod) != Fraction(d) * Fraction(lw):
            lab2 = dict(lab)
            lab2["density"] = Fraction(prod) / Fraction(lw)
            return lab2
    return None


def capacity_alts(py):
    """the engine options with the density moved by a relative 1e-12 either way: the
    distributor compares accumulated double sums of widths with density * layerWidth;
    where the exact sum EQUALS the capacity (or misses it by less than 1e-12) the
    doubles may compare the other way.  [] without bounds (no capacity)."""
    lab = labella_opts(py)
    eff = dict(FORCE_DEFAULTS)
    eff.update(lab)
    mn, mx = eff["minPos"], eff["maxPos"]
    if mn is None or mx is None or not (mx - mn):
        return []
    out = []
    for sign in (-1, 1):
        lab3 = dict(lab)
        lab3["density"] = Fraction(eff["density"]) * (1 + sign * Fraction(1, 10 ** 12))
        out.append(lab3)
    return out


def pipeline_call(py, today, lab=None):
    """command 850 of coq/Extract/ApiPipeline.v"""
    a = [850, 0 if py["scale"] == "linear" else 1] + [int(x) for x in today]
    a += opts_ints(py)
    a += _enc_force_update(labella_opts(py) if lab is None else lab)
    dom = None if py.get("noopts") else py.get("domain")
    a += [0] if not dom else [1] + _tval_ints(dom[0]) + _tval_ints(dom[1])
    a += [len(py["data"])]
    for d in py["data"]:
        a += _tval_ints(d["t"]) + q(d["width"])
        t = d.get("text")
        a += [0] if t is None else [1] + enc_text(t)
        a += fcols_ints(py, d)
    return a


def given_call(py, lay, lab=None):
    """command 851: the axis stage as the implementation computed it (diagnostic)"""
    ideals = {n["key"]: n["ideal"] for n in lay["nodes"]}
    a = [851] + opts_ints(py) + _enc_force_update(labella_opts(py) if lab is None else lab)
    tk = lay["ticks"] if effective(py)["showTicks"] else []
    a += [len(tk)]
    for pos, text in tk:
        a += q(pos) + enc_text(text)
    a += [len(py["data"])]
    for k, d in enumerate(py["data"]):
        a += q(ideals[k]) + q(d["width"])
        t = d.get("text")
        a += [0] if t is None else [1] + enc_text(t)
        a += fcols_ints(py, d)
    return a


def pipeline_models(c, today=None):
    """first-round model calls of a pipeline case, with their tags"""
    from harness.props import c11
    py = c["py"]
    today = today or list(datetime.date.today().timetuple()[:3])
    calls, tags = [pipeline_call(py, today)], ["p850"]
    lab2 = density_alt(py)
    if lab2 is not None:
        calls.append(pipeline_call(py, today, lab2))
        tags.append("p850d")
    p11 = py11_of(py)
    calls.append(c11.model_call(p11, today))
    tags.append("a700")
    for x in c11._extent_call(p11):
        calls.append(x)
        tags.append("a260")
    c["model"], c["tags"], c["today"] = calls, tags, list(today)
    return c


def dec_pipeline(ints, given=False):
    if ints is None:
        return {"status": None}
    if ints[0] != 1:
        return {"status": ints[0], "kind": ints[1] if len(ints) > 1 else None}
    D = _Dec(ints)
    D.z()
    out = {"status": 1, "svg": dec_svg_body(D), "tikz": dec_tikz_body(D), "dom": D.z()}
    if not given:
        def pval():
            return D.q() if D.z() == 0 else D.z()
        out["d0"], out["d1"] = pval(), pval()
        out["dots"] = D.lst(D.q)
    out["exact"] = D.lst(lambda: D.lst(D.q))
    if D.k != len(ints):
        raise ValueError("trailing model output")
    return out


def _pipe_tol(py, P):
    """absolute tolerance of axis-derived values: (1e-9 + conditioning) x axis length"""
    from harness.props import c11
    o = effective(py)
    side = o["direction"] in ("left", "right")
    length = (o["initialHeight"] - o["margin"]["top"] - o["margin"]["bottom"]) if side else \
             (o["initialWidth"] - o["margin"]["left"] - o["margin"]["right"])
    cond = 0.0
    if py["scale"] == "linear" and isinstance(P.get("d0"), Fraction):
        cond = c11._cond(True, P["d0"], P["d1"])
    return Fraction((1e-9 + cond) * abs(float(length)) + 1e-12)


def _cmp_docs(case, io, P, pipe_tol):
    """None | ("amb", cls) | ("diff", why): the model's two documents against the parsed exports"""
    lay = io["layout"]
    textex = {n["text"]: n["textex"] for n in lay["nodes"] if n["text"]}
    EXACT[0] = float_exact(case["py"])
    PIPE[0] = pipe_tol
    try:
        r = compare_svg(P["svg"], io["svg"]) or compare_tikz(P["tikz"], io["tikz"], textex)
    except Amb as e:
        return ("amb", e.args[0] if e.args else "trunc-band")
    finally:
        PIPE[0] = None
    return None if r is None else ("diff", r)


def _axis_verdict(case, io, mo):
    """c11.py's own comparison of the axis stage: "ok" | "amb" | reason"""
    from harness import core
    from harness.props import c11
    tags = case["tags"]
    m11 = [mo[tags.index(t)] for t in ("a700", "a260", "a232") if t in tags]
    calls11 = [case["model"][tags.index(t)] for t in ("a700", "a260", "a232") if t in tags]
    try:
        r = c11.compare({"py": py11_of(case["py"]), "model": calls11}, io["axis11"], m11)
    except core.Ambiguous:
        return "amb"
    return "ok" if r is None else r


def prepare_pipeline(cases, impl_out, model_out, workdir):
    """second round of model calls for pipeline cases whose first comparison is not clean:
    the band alternatives of linear ticks (232), the given-axis re-run (851, and with the
    density alternative), and a rebuilt call when `today` moved (bare time-of-day data)."""
    from harness import core
    extra = []
    for i, (c, io, mo) in enumerate(zip(cases, impl_out, model_out)):
        if not c["py"].get("pipeline") or not isinstance(io, dict) or "exc" in io or "tags" not in c:
            continue
        if "svg" not in io or "tikz" not in io or not mo or mo[0] is None:
            continue
        if any(isinstance(d["t"], list) and d["t"][0] == "t" for d in c["py"]["data"]) and list(io.get("today", [])) != c["today"]:
            c2 = pipeline_models({"py": c["py"]}, list(io["today"]))
            extra.append((i, "rebuild", c2["model"], c2["tags"]))
            continue
        try:
            P = dec_pipeline(mo[0])
        except (ValueError, IndexError):
            continue
        if P["status"] != 1:
            continue
        if _cmp_docs(c, io, P, _pipe_tol(c["py"], P)) is None:
            continue
        calls, tags = [], []
        if c["py"]["scale"] == "linear" and isinstance(P["d0"], Fraction):
            calls.append([232, P["d0"].numerator, P["d0"].denominator, P["d1"].numerator, P["d1"].denominator, 10])
            tags.append("a232")
        for sfx, lab3 in zip(("-", "+"), capacity_alts(c["py"])):
            calls.append(pipeline_call(c["py"], c["today"], lab3))
            tags.append("p850c" + sfx)
        if layout_usable(io["layout"]) and sorted(n["key"] for n in io["layout"]["nodes"]) == list(range(len(c["py"]["data"]))):
            calls.append(given_call(c["py"], io["layout"]))
            tags.append("g851")
            lab2 = density_alt(c["py"])
            if lab2 is not None:
                calls.append(given_call(c["py"], io["layout"], lab2))
                tags.append("g851d")
            for sfx, lab3 in zip(("-", "+"), capacity_alts(c["py"])):
                calls.append(given_call(c["py"], io["layout"], lab3))
                tags.append("g851c" + sfx)
        if calls:
            extra.append((i, "more", calls, tags))
    if not extra:
        return
    res = core.run_model([{"model": calls} for _, _, calls, _ in extra], os.path.join(workdir, "round2"))
    for (i, what, calls, tags), r in zip(extra, res):
        if what == "rebuild":
            cases[i]["model"], cases[i]["tags"] = calls, tags
            model_out[i] = r
        else:
            cases[i]["model"] = cases[i]["model"] + calls
            cases[i]["tags"] = cases[i]["tags"] + tags
            model_out[i] = model_out[i] + r


def _in_rounding_band(P):
    import math
    for layer in P.get("exact", []):
        for x in layer:
            if abs((x - math.floor(x)) - Fraction(1, 2)) <= ROUND_BAND:
                return True
    return False


def compare_pipeline(case, io, mo):
    from harness import core
    PIPE_STATS["cases"] += 1
    tags = case.get("tags") or []
    get = lambda t: mo[tags.index(t)] if t in tags and tags.index(t) < len(mo) else None
    try:
        P = dec_pipeline(get("p850"))
    except (ValueError, IndexError) as e:
        return "model output undecodable: %s" % e
    if P["status"] is None or P["status"] == -999:
        return "model rejected the input"
    if isinstance(io, dict) and "exc" in io:
        if P["status"] == 0:
            PIPE_STATS["both raise"] += 1
            return None
        return "implementation raised %s (%s), the model returns documents" % (io["exc"], io.get("msg", ""))
    if P["status"] != 1:
        return "the model %s, the implementation returns documents" % (
            "raises (kind %s)" % P["kind"] if P["status"] == 0 else "runs out of fuel")
    if json.dumps(io["layout"], sort_keys=True) != json.dumps(io["layout_tex"], sort_keys=True):
        return "TimelineSVG and TimelineTex computed different layouts from identical inputs"
    if P["dom"] != 1:
        return "model says the labels/engine options are outside the documented domain"
    tol = _pipe_tol(case["py"], P)
    r = _cmp_docs(case, io, P, tol)
    if r is None:
        PIPE_STATS["agree outright"] += 1
        return None

    def amb(cls):
        AMB_CLASSES[cls] += 1
        raise core.Ambiguous()
    if r[0] == "amb":
        amb(r[1])
    # density * layerWidth
    Pd = get("p850d")
    if Pd is not None:
        r2 = _cmp_docs(case, io, dec_pipeline(Pd), tol)
        if r2 is None or r2[0] == "amb":
            amb("density-product")
    # the distributor's capacity comparisons on accumulated double sums
    for t in ("p850c-", "p850c+"):
        Pc = get(t)
        if Pc is not None:
            r2 = _cmp_docs(case, io, dec_pipeline(Pc), tol)
            if r2 is None or r2[0] == "amb":
                amb("capacity-band")
    # the axis stage on its own, by c11.py's comparison (tolerances and enumerated alternatives)
    av = _axis_verdict(case, io, mo)
    if av not in ("ok", "amb"):
        return "%s  [axis stage: %s]" % (r[1], av)
    # downstream of the implementation's axis values the model must agree exactly
    for t in ("g851", "g851d", "g851c-", "g851c+"):
        G = get(t)
        if G is None:
            continue
        Gd = dec_pipeline(G, given=True)
        r3 = _cmp_docs(case, io, Gd, None)
        if r3 is not None and r3[0] != "amb" and t == "g851" and _in_rounding_band(Gd):
            # fed with the implementation's own axis values the exact solver position of some item
            # is within 1e-7 of a half-integer: the doubles may round it the other way (and every
            # coordinate derived from it moves by one unit).  Rare (about 1 case in 20 000).
            amb("rounding-band-given-axis")
        if r3 is None or r3[0] == "amb":
            if av == "amb":
                amb("axis-alternative")
            if t == "g851d":
                amb("density-product")
            if t.startswith("g851c"):
                amb("capacity-band")
            amb("rounding-band" if _in_rounding_band(P) else "ideal-perturbation")
    if isinstance(io, dict) and layout_usable(io.get("layout")) and _overlap_band(case["py"], io["layout"]):
        # two ideal intervals whose ends coincide in doubles but not exactly (or the reverse): the
        # overlap counts of the greedy distributor differ by one (see _overlap_band)
        amb("overlap-band")
    return r[1]


def pipeline_cases(rng, n, **kw):
    cases = []
    for _ in range(n):
        c = gen_case(rng, "random", **kw)
        c["kind"] = "pipeline:" + c["kind"]
        c["py"]["pipeline"] = True
        cases.append(pipeline_models(c))
    return cases


def pipeline_evidence():
    return {"pipeline_family": dict(PIPE_STATS), "pipeline_ambiguity_classes": dict(AMB_CLASSES)}
