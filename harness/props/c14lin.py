"""C14 (linear part): nice() only widens a domain, by less than two tick steps, to round end points.
The time-scale part of C14 is added by the time package (see the marked section below)."""
import math
from fractions import Fraction as F

from harness import core
from harness.props import c13

ID = "C14"
MODNAME = "c14lin"
RULE = ("One case = one linear domain [a,b] (the generator of C13: magnitudes 1e-6..1e9 or 0, span >= 1.5e-6 of the magnitude, either "
        "orientation, random/near-equal/integer/decimal/threshold/literal shapes) and one count m in 1..100 or the default; "
        "LinearScale().domain([a,b]).nice(m).domain().  Non-trivial = nice() moved at least one end; distinct by input.")
EXPLANATION = ("Theorems are about coq/Scale/Nice.v (two passes of floor/ceil to the tick step of the current domain) for ALL rational "
               "domains and ALL m >= 1; the tie checks that LinearScale.nice computes the same domain (relative tolerance 1e-9). "
               "Ambiguity band (counted, not a mismatch): where the exact computation sits within 1e-9 of a discontinuity (a step "
               "threshold, or floor/ceil of an end that is a multiple of the step - which is always the case in the second pass) the "
               "doubles may land on the neighbouring multiple; the admissible outcomes are enumerated by coq/Scale/Band.v.")
EPS = F(1, 10 ** 9)

# ---------------------------------------------------------------------------
# linear scale part
# ---------------------------------------------------------------------------


def _q(x):
    n, d = float(x).as_integer_ratio()
    return [n, d]


def impl(py):
    from labella import scale as sc
    s = sc.LinearScale().domain([py["a"], py["b"]])
    LinearScale = sc.LinearScale
    # another scale object is configured and used in between: scale objects share nothing
    _o = LinearScale().domain([3.3, 977.1]).range([5, 6])
    list(_o.ticks(23))
    _o.tickFormat(23)
    _o.nice()
    _o2 = LinearScale().domain([-8.25, 1.5])
    list(_o2.ticks(py["m"])) if py["m"] is not None else list(_o2.ticks())
    r = s.nice(py["m"])
    d = s.domain()
    step = sc.d3_scale_linearTickRange(list(d), py["m"])[2]
    return {"d": [float(d[0]), float(d[1])], "step": float(step), "same": r is s, "n": len(d)}


def _case(a, b, m, kind="rand"):
    return rebuild({"kind": kind, "py": {"k": "n", "a": float(a), "b": float(b), "m": m}})


def rebuild(c):
    py = c["py"]
    return {"kind": c.get("kind", "rand"), "py": py,
            "model": [[260] + _q(py["a"]) + _q(py["b"]) + [10 if py["m"] is None else py["m"]]]}


def gen(rng, tier):
    n = 3000 if tier == "quick" else 50000
    for m in (None, 1, 2, 3, 5, 10, 100):
        yield _case(0.3, 9.7, m, "literal")
        yield _case(9.7, 0.3, m, "literal")
        yield _case(-0.135, 0.129, m, "literal")
    for _ in range(n):
        a, b, kind, m = c13.gen_domain(rng)
        if m is None:
            m = None if rng.random() < 0.2 else (rng.randrange(1, 101) if rng.random() < 0.7 else rng.randrange(1, 8))
        yield _case(a, b, m, kind)


def decode(m):
    """model output of command 260"""
    q = [F(m[i], m[i + 1]) for i in range(1, 15, 2)]
    nice, s1, s2, sr, p1 = (q[0], q[1]), q[2], q[3], q[4], (q[5], q[6])
    k = 15
    cnt = m[k]
    k += 1
    alts = []
    for _ in range(cnt):
        alts.append((F(m[k], m[k + 1]), F(m[k + 2], m[k + 3])))
        k += 4
    return nice, s1, s2, sr, p1, alts


def _same(d, want, tol):
    return abs(F(d[0]) - want[0]) <= tol and abs(F(d[1]) - want[1]) <= tol


def compare(case, io, mo):
    if isinstance(io, dict) and "exc" in io:
        return "implementation raised %s %s" % (io["exc"], io.get("msg", ""))
    m = mo[0]
    if m is None or m[0] != 1:
        return "model failed"
    nice, s1, s2, sr, p1, alts = decode(m)
    if io["n"] != 2 or not io["same"]:
        return "nice() must return the scale itself and keep a two-element domain"
    tol = EPS * max(abs(nice[0]), abs(nice[1]), s2)
    if _same(io["d"], nice, tol):
        return None
    for alt in alts:
        if _same(io["d"], alt, tol):
            raise core.Ambiguous()
    return "nice domain %r, the model has [%s, %s] (steps %s, %s; %d band alternatives)" % (
        io["d"], float(nice[0]), float(nice[1]), s1, s2, len(alts))


def oracle(case, io):
    """The property text on the implementation's own output."""
    if isinstance(io, dict) and "exc" in io:
        return "raised %s %s" % (io["exc"], io.get("msg", ""))
    py = case["py"]
    a, b = F(py["a"]), F(py["b"])
    a2, b2 = F(io["d"][0]), F(io["d"][1])
    step = c13.snap_step(F(io["step"]))
    if step is None:
        return "the tick step %r of the resulting domain is not 1, 2 or 5 times a power of ten" % io["step"]
    tol = EPS * max(abs(a), abs(b), step)
    if (a < b) != (a2 < b2) or a2 == b2:
        return "orientation changed: %r -> %r" % ([py["a"], py["b"]], io["d"])
    sgn = 1 if a < b else -1
    # outward: the first end moves against the orientation, the last along it
    if sgn * (a - a2) < -tol or sgn * (b2 - b) < -tol:
        return "an end moved inward: %r -> %r" % ([py["a"], py["b"]], io["d"])
    if abs(a2 - a) >= 2 * step + tol or abs(b2 - b) >= 2 * step + tol:
        return "an end moved by two steps or more: %r -> %r (step %s)" % ([py["a"], py["b"]], io["d"], step)
    tenth = step / 10
    for v in (a2, b2):
        q = v / tenth
        if abs(q - round(q)) > F(1, 10 ** 6) * max(1, abs(q)):
            return "end %r is not a multiple of a tenth of the step %s" % (float(v), step)
    return None


def nontrivial(case, io):
    py = case["py"]
    return isinstance(io, dict) and "d" in io and (io["d"][0] != py["a"] or io["d"][1] != py["b"])


def search(rng, tier, mism_cases):
    for c in mism_cases:
        yield c
    for c in gen(rng, "quick"):
        yield c


def shrink_candidates(case):
    py = case["py"]
    for m in (None, 1, 2, 5, 10):
        if m != py["m"]:
            yield _case(py["a"], py["b"], m, case.get("kind", "rand"))
    for d in (0, 3, 6):
        a, b = round(py["a"], d), round(py["b"], d)
        if (a, b) != (py["a"], py["b"]) and c13._ok(a, b):
            yield _case(a, b, py["m"], case.get("kind", "rand"))

# ---------------------------------------------------------------------------
# time scale part: added by the time package
# ---------------------------------------------------------------------------


LEVEL_TEXT = ("Machine-checked Coq theorems for ALL rational linear domains (either order) and ALL counts m >= 1 on an exact model of "
              "d3_scale_linearNice: no end moves inward, the orientation is kept, the tick step is monotone in the span, each pass moves "
              "an end by less than its own step and both steps are at most the step of the result (so less than two steps in all), "
              "and both ends are multiples of the second pass's step.")
LEVEL_NOTE = ("Trusted: Coq kernel; extraction re-checked on a slice by vm_compute; the correspondence harness and its generators. "
              "Modelled, not verified: labella/scale.py; doubles are exact rationals in the model (the ambiguity band of floor/ceil at "
              "multiples of the step is enumerated by coq/Scale/Band.v and counted in the evidence).")
TECHNIQUE = "Coq proof (lra/nra over Q, floor/ceiling lemmas, monotonicity of the step) + model/implementation correspondence"
