"""C17: calendar intervals round instants correctly (labella/d3_time.py).

Instants are naive and travel as integer microseconds since 1970-01-01
(`us`).  A case is one unit together with a batch of instants (floor, ceil and
round of each), a batch of boundaries with offsets k, a range call, or a batch
of instants whose calendar fields / unit numbers are compared."""
import calendar
import datetime as _d

ID = "C17"
MODNAME = "c17"
UNITS = ["second", "minute", "hour", "day", "week", "month", "year"]
EPOCH = _d.datetime(1970, 1, 1)
US1 = _d.timedelta(microseconds=1)
RULE = ("units second..year x instants of millisecond resolution in years 1900-2200: every day of sampled years "
        "(thorough: every day 1900-2200) at midnight and at a random millisecond, the last and first day of every month "
        "at 00:00:00.000, 23:59:59.999 and a random millisecond, every 29 February and 31 December, random instants, "
        "and 1 ms either side of sampled boundaries of every unit (floor/ceil/round, batched per case); offsets of "
        "boundaries by k in 0..400 (all k for some boundaries, sampled k for the rest); ranges over 0..~80 boundaries "
        "with steps 1..12 (and empty/reversed ranges); calendar fields, weekday, day of year and unit numbers of "
        "instants. non-trivial = the batch contains an instant that is not a boundary / k >= 1 / a non-empty range; "
        "distinct by input.")
EXPLANATION = ("Theorems are about coq/Time/Calendar.v + coq/Time/Interval.v for ALL instants in years 1..9999, all k >= 0, "
               "all steps; the tie checks that labella/d3_time.py computes the same instants (exactly, as integer "
               "microseconds) and raises exactly where the model says Raise.")


# ------------------------------------------------------------ conversions ---
def to_us(x):
    return (x - EPOCH) // US1


def of_us(us):
    return EPOCH + _d.timedelta(microseconds=us)


def _enc(f, *a):
    try:
        return to_us(f(*a))
    except (ValueError, OverflowError) as e:
        return "raise"


# ------------------------------------------------------- implementation ---
def impl(py):
    # a process that uses the intervals normally has the scale and timeline modules loaded too
    # (they share the d3_time table): import them so that anything they do to it is in effect
    import labella.scale  # noqa
    import labella.timeline  # noqa
    from labella.d3_time import d3_time
    k = py["k"]
    if k == "fields":
        out = []
        for us in py["ts"]:
            t = of_us(us)
            out.append([t.year, t.month, t.day, t.hour, t.minute, t.second, t.microsecond,
                        t.isoweekday(), d3_time["dayOfYear"](t)] +
                       [d3_time[u]._number(t) for u in UNITS])
        return out
    iv = d3_time[py["u"]]
    if k == "pt":
        ts = [of_us(us) for us in py["ts"]]
        return {"floor": [_enc(iv.floor, t) for t in ts],
                "ceil": [_enc(iv.ceil, t) for t in ts],
                "round": [_enc(iv.round, t) for t in ts]}
    if k == "off":
        ts = [of_us(us) for us in py["ts"]]
        return [[_enc(iv.offset, t, kk) for t in ts] for kk in py["ks"]]
    if k == "rng":
        try:
            return [to_us(x) for x in iv.range(of_us(py["t0"]), of_us(py["t1"]), py["step"])]
        except (ValueError, OverflowError):
            return "raise"
    raise KeyError(k)


# ------------------------------------------------------------------ cases ---
def _mk(py, kind=None):
    k = py["k"]
    if k == "fields":
        model = []
        for us in py["ts"]:
            model.append([106, us])
            for ui in range(7):
                model.append([105, ui, us])
        return {"kind": kind or "fields", "py": py, "model": model}
    ui = UNITS.index(py["u"])
    if k == "pt":
        ts = py["ts"]
        model = [[110, ui, op, len(ts)] + ts for op in (0, 1, 2)]
    elif k == "off":
        ts = py["ts"]
        model = [[111, ui, kk, len(ts)] + ts for kk in py["ks"]]
    elif k == "rng":
        model = [[104, ui, py["t0"], py["t1"], py["step"]]]
    else:
        raise KeyError(k)
    return {"kind": kind or (k + ":" + py["u"]), "py": py, "model": model}


def rebuild(c):
    return _mk(c["py"], c.get("kind"))


# ----------------------------------------------- oracle (property statement) ---
# Written from the property text with datetime/timedelta/calendar only.
def o_floor(u, t):
    if u == "second":
        return t.replace(microsecond=0)
    if u == "minute":
        return t.replace(second=0, microsecond=0)
    if u == "hour":
        return t.replace(minute=0, second=0, microsecond=0)
    d = t.replace(hour=0, minute=0, second=0, microsecond=0)
    if u == "day":
        return d
    if u == "week":
        return d - _d.timedelta(days=(d.weekday() + 1) % 7)   # Sunday start
    if u == "month":
        return d.replace(day=1)
    return d.replace(month=1, day=1)


def o_next(u, b):
    """the boundary following boundary b"""
    if u == "second":
        return b + _d.timedelta(seconds=1)
    if u == "minute":
        return b + _d.timedelta(minutes=1)
    if u == "hour":
        return b + _d.timedelta(hours=1)
    if u == "day":
        return b + _d.timedelta(days=1)
    if u == "week":
        return b + _d.timedelta(days=7)
    if u == "month":
        return b + _d.timedelta(days=calendar.monthrange(b.year, b.month)[1])
    return b + _d.timedelta(days=366 if calendar.isleap(b.year) else 365)


def o_is_boundary(u, t):
    return o_floor(u, t) == t


def o_ceil(u, t):
    f = o_floor(u, t)
    return f if f == t else o_next(u, f)


def o_round(u, t):
    f = o_floor(u, t)
    c = o_next(u, f)
    return f if (t - f) < (c - t) else c     # the later one on a tie


def o_number(u, b):
    """the unit number used by the range filter.  second..year: the calendar
    field (0-based for day and month).  week: the implementation's own
    convention, written independently: number of whole weeks between the Sunday
    on or before 1 January and b, minus one."""
    if u == "second":
        return b.second
    if u == "minute":
        return b.minute
    if u == "hour":
        return b.hour
    if u == "day":
        return b.day - 1
    if u == "month":
        return b.month - 1
    if u == "year":
        return b.year
    jan1 = _d.datetime(b.year, 1, 1)
    sunday0 = jan1 - _d.timedelta(days=(jan1.weekday() + 1) % 7)
    return (b - sunday0).days // 7 - 1


def o_range(u, t0, t1, step):
    out = []
    b = o_ceil(u, t0)
    while b < t1:
        if step <= 1 or o_number(u, b) % step == 0:
            out.append(b)
        b = o_next(u, b)
    return out


def oracle(case, io):
    if isinstance(io, dict) and "exc" in io:
        return "raised %s" % io["exc"]
    py = case["py"]
    k = py["k"]
    if k == "fields":
        return None
    u = py["u"]
    if k == "pt":
        for i, us in enumerate(py["ts"]):
            t = of_us(us)
            for op, f in (("floor", o_floor), ("ceil", o_ceil), ("round", o_round)):
                got = io[op][i]
                want = to_us(f(u, t))
                if got != want:
                    return "%s.%s(%s) = %s, the property demands %s" % (
                        u, op, t.isoformat(), "an exception" if got == "raise" else of_us(got).isoformat(),
                        of_us(want).isoformat())
        return None
    if k == "off":
        for j, kk in enumerate(py["ks"]):
            for i, us in enumerate(py["ts"]):
                b = of_us(us)
                w = b
                for _ in range(kk):
                    w = o_next(u, w)
                got = io[j][i]
                if got != to_us(w):
                    return "%s.offset(%s, %d) = %s, the %d-th following boundary is %s" % (
                        u, b.isoformat(), kk, "an exception" if got == "raise" else of_us(got).isoformat(), kk,
                        w.isoformat())
        return None
    if k == "rng":
        t0, t1 = of_us(py["t0"]), of_us(py["t1"])
        want = [to_us(x) for x in o_range(u, t0, t1, py["step"])]
        if io != want:
            return "%s.range(%s, %s, %d) returned %s; the boundaries in [start, stop) with number divisible by the step are %s" % (
                u, t0.isoformat(), t1.isoformat(), py["step"],
                "an exception" if io == "raise" else [of_us(x).isoformat() for x in io][:6],
                [of_us(x).isoformat() for x in want][:6])
        return None
    return None


# ---------------------------------------------------------------- compare ---
def _dec_res(m, k):
    if m[k] == 1:
        return m[k + 1], k + 2
    if m[k] == 0:
        return "raise", k + 1
    return "nofuel", k + 1


def _dec_batch(m, n):
    if m is None or (len(m) == 1 and m[0] == -999):
        return None
    out, k = [], 0
    for _ in range(n):
        v, k = _dec_res(m, k)
        out.append(v)
    return out


def compare(case, io, mo):
    if isinstance(io, dict) and "exc" in io:
        return "implementation raised %s %s" % (io["exc"], io.get("msg", ""))
    py = case["py"]
    k = py["k"]
    if k == "fields":
        j = 0
        for i, us in enumerate(py["ts"]):
            want = list(mo[j][:9]) + [mo[j + 1 + q][0] for q in range(7)]
            j += 8
            if list(io[i]) != want:
                return "fields/numbers of %s: impl %r model %r" % (of_us(us).isoformat(), io[i], want)
        return None
    n = len(py.get("ts", []))
    if k == "pt":
        for q, op in enumerate(("floor", "ceil", "round")):
            m = _dec_batch(mo[q], n)
            if m is None:
                return "model rejected the input"
            if m != io[op]:
                i = next(i for i in range(n) if m[i] != io[op][i])
                return "%s.%s(%s): impl %r model %r" % (py["u"], op, of_us(py["ts"][i]).isoformat(), io[op][i], m[i])
        return None
    if k == "off":
        for j, kk in enumerate(py["ks"]):
            m = _dec_batch(mo[j], n)
            if m is None:
                return "model rejected the input"
            if m != io[j]:
                i = next(i for i in range(n) if m[i] != io[j][i])
                return "%s.offset(%s, %d): impl %r model %r" % (py["u"], of_us(py["ts"][i]).isoformat(), kk, io[j][i], m[i])
        return None
    if k == "rng":
        m = mo[0]
        if m is None or m[0] == -999:
            return "model rejected the input"
        mm = "raise" if m[0] == 0 else ("nofuel" if m[0] == -1 else list(m[2:2 + m[1]]))
        if mm != io:
            return "%s.range(%s, %s, %d): impl %r model %r" % (
                py["u"], of_us(py["t0"]).isoformat(), of_us(py["t1"]).isoformat(), py["step"],
                io if io == "raise" else io[:5], mm if isinstance(mm, str) else mm[:5])
        return None
    return "unknown case"


def nontrivial(case, io):
    py = case["py"]
    if py["k"] == "pt":
        return any(a != t for a, t in zip(io["floor"], py["ts"]))
    if py["k"] == "off":
        return any(kk >= 1 for kk in py["ks"])
    if py["k"] == "rng":
        return isinstance(io, list) and len(io) > 0
    return True


# ------------------------------------------------------------- generators ---
Y0, Y1 = 1900, 2200
LO = to_us(_d.datetime(Y0, 1, 1))
HI = to_us(_d.datetime(Y1, 12, 31, 23, 59, 59, 999000))
DAY = 86400 * 10 ** 6
ULEN = {"second": 10 ** 6, "minute": 6 * 10 ** 7, "hour": 36 * 10 ** 8, "day": DAY, "week": 7 * DAY,
        "month": 30 * DAY, "year": 365 * DAY}


def rand_ms(rng):
    return rng.randrange(0, 86400000) * 1000


def rand_instant(rng):
    return rng.randrange(LO // 1000, HI // 1000 + 1) * 1000


def rand_boundary(rng, u):
    return to_us(o_floor(u, of_us(rand_instant(rng))))


def chunks(l, n):
    for i in range(0, len(l), n):
        yield l[i:i + n]


def day_instants(rng, y):
    """midnight and a random millisecond of every day of year y"""
    out = []
    d = to_us(_d.datetime(y, 1, 1))
    end = to_us(_d.datetime(y + 1, 1, 1)) if y < 9999 else d + 365 * DAY
    while d < end:
        out.append(d)
        out.append(d + rand_ms(rng))
        d += DAY
    return out


def special_days():
    """last and first day of every month, 29 Feb, 31 Dec (both are month ends)"""
    for y in range(Y0, Y1 + 1):
        for m in range(1, 13):
            yield _d.datetime(y, m, 1)
            yield _d.datetime(y, m, calendar.monthrange(y, m)[1])


def pt_cases(rng, instants, batch, kind):
    for u in UNITS:
        for part in chunks(instants, batch):
            yield _mk({"k": "pt", "u": u, "ts": part}, kind + ":" + u)


def interval_cases(rng, tier):
    """the C17 case mix; also reused by C18 (with other instants)"""
    quick = tier == "quick"
    batch = 48 if quick else 512
    # every day of sampled years / of every year
    years = sorted(set([1900, 1970, 2000, 2024, 2100, 2200] + [rng.randrange(Y0, Y1 + 1) for _ in range(3)])) \
        if quick else list(range(Y0, Y1 + 1))
    for y in years:
        inst = day_instants(rng, y)
        for c in pt_cases(rng, inst, batch, "days"):
            yield c
    # month ends / starts, leap days, year ends
    sp = []
    for d in special_days():
        if quick and rng.random() < 0.75 and not (d.month in (2, 12) and d.day >= 28):
            continue
        b = to_us(d)
        sp += [b, b + DAY - 1000, b + rand_ms(rng)]
    for c in pt_cases(rng, sp, batch, "monthends"):
        yield c
    # random instants
    inst = [rand_instant(rng) for _ in range(600 if quick else 20000)]
    for c in pt_cases(rng, inst, batch, "random"):
        yield c
    # one millisecond either side of boundaries of every unit (for every unit's operations)
    for ub in UNITS:
        inst = []
        for _ in range(60 if quick else 2500):
            b = rand_boundary(rng, ub)
            inst += [b - 1000, b, b + 1000]
        inst = [x for x in inst if LO <= x <= HI]
        for c in pt_cases(rng, inst, batch, "near-" + ub):
            yield c
    # calendar fields, weekday, day of year, unit numbers
    inst = [rand_instant(rng) for _ in range(300 if quick else 6000)]
    inst += [to_us(d) for d in special_days() if (not quick) or rng.random() < 0.1]
    for part in chunks(inst, 24 if quick else 200):
        yield _mk({"k": "fields", "ts": part})
    # offsets of boundaries
    for u in UNITS:
        for _ in range(4 if quick else 30):           # all k in 0..400 for a few boundaries
            bs = [rand_boundary(rng, u) for _ in range(3)]
            for ks in chunks(list(range(0, 401)), 50):
                yield _mk({"k": "off", "u": u, "ts": bs, "ks": ks})
        for _ in range(25 if quick else 400):         # sampled k for many boundaries
            bs = [rand_boundary(rng, u) for _ in range(12)]
            ks = sorted(set([0, 1, 2, 400] + [rng.randrange(0, 401) for _ in range(6)]))
            yield _mk({"k": "off", "u": u, "ts": bs, "ks": ks})
    # day offsets starting on the last days of months, month offsets from December etc.
    ends = [to_us(d) for d in special_days() if d.day >= 28]
    for part in chunks(rng.sample(ends, 240 if quick else len(ends)), 24):
        yield _mk({"k": "off", "u": "day", "ts": part, "ks": [0, 1, 2, 3, 30, 31, 365, 366]}, "off-monthend:day")
    firsts = [to_us(d) for d in special_days() if d.day == 1]
    for part in chunks(rng.sample(firsts, 240 if quick else len(firsts)), 24):
        yield _mk({"k": "off", "u": "month", "ts": part, "ks": [0, 1, 2, 11, 12, 13, 24, 25, 400]}, "off-first:month")
    # ranges
    for u in UNITS:
        for _ in range(110 if quick else 2500):
            step = rng.choice([1, 1, 2, 3, 4, 5, 6, 7, 8, 9, 10, 11, 12])
            nb = rng.choice([0, 1, 2, 3, 5, 8, 13, 30, 80])
            t0 = rand_instant(rng) if rng.random() < 0.6 else rand_boundary(rng, u)
            span = int(ULEN[u] * nb * (0.5 + rng.random())) // 1000 * 1000
            if rng.random() < 0.3:                      # stop exactly on a boundary (half-open end)
                t1 = to_us(o_floor(u, of_us(min(HI, t0 + span))))
            else:
                t1 = t0 + span
            if rng.random() < 0.04:
                t0, t1 = t1, t0                          # reversed: empty
            t1 = max(LO, min(HI, t1))
            yield _mk({"k": "rng", "u": u, "t0": t0, "t1": t1, "step": step})
    # ranges across month ends and leap days for day / week / month
    for d in special_days():
        if d.day < 28 or (quick and rng.random() < 0.96):
            continue
        for u in ("day", "week", "month"):
            t0 = to_us(d) - rng.randrange(0, 3) * DAY + rng.choice([0, rand_ms(rng)])
            t1 = min(HI, t0 + rng.randrange(1, 70) * DAY)
            yield _mk({"k": "rng", "u": u, "t0": t0, "t1": t1, "step": rng.randrange(1, 13)}, "rng-monthend:" + u)


def gen(rng, tier):
    for c in interval_cases(rng, tier):
        yield c


def search(rng, tier, mism_cases):
    for c in mism_cases:
        yield c
    for c in gen(rng, "quick"):
        yield c


def shrink_candidates(case):
    py = case["py"]
    if py["k"] in ("pt", "off", "fields") and len(py["ts"]) > 1:
        h = len(py["ts"]) // 2
        yield _mk(dict(py, ts=py["ts"][:h]), case.get("kind"))
        yield _mk(dict(py, ts=py["ts"][h:]), case.get("kind"))
    if py["k"] == "off" and len(py["ks"]) > 1:
        h = len(py["ks"]) // 2
        yield _mk(dict(py, ks=py["ks"][:h]), case.get("kind"))
        yield _mk(dict(py, ks=py["ks"][h:]), case.get("kind"))


LEVEL_TEXT = ("Machine-checked Coq theorems, per unit (second, minute, hour, day, week, month, year), for ALL instants in "
              "years 1..9999: floor is the latest boundary not after t, ceil (millisecond-resolution t) the earliest not "
              "before t, round the nearest with ties to the later, offset b k the k-th following boundary for all k >= 0, "
              "range exactly the boundaries in [start, stop) with unit number divisible by the step, increasing; range "
              "fuel proved sufficient. Boundaries are characterised independently of the code (multiples of the unit "
              "length; Sundays; first of month; 1 January). Calendar facts by an exhaustive vm_compute sweep of one "
              "400-year cycle lifted by periodicity. The model is tied to labella/d3_time.py by differential execution.")
LEVEL_NOTE = ("Trusted: Coq kernel; extraction re-checked on a slice by vm_compute; the correspondence harness. Modelled, "
              "not verified: Python datetime/timedelta (coq/Time/Calendar.v) and d3_time.py (coq/Time/Interval.v); "
              "the doubles holding epoch milliseconds are exact for millisecond-resolution instants in 1900-2200. "
              "ceil/range are stated for instants of millisecond resolution (the property's domain): for an instant "
              "strictly between a boundary b and b + 1 ms the code's ceil returns b.")
TECHNIQUE = "Coq proof (generic interval theory over a strictly increasing boundary enumeration; 400-year calendar sweep by vm_compute lifted by periodicity) + model/implementation correspondence"
