"""Combine several property modules into one check (one property whose parts
were built as separate packages).  Each case is tagged with the part that
owns it; every callback dispatches on the tag."""
import importlib


def combine(ns, pid, modname, parts):
    mods = [importlib.import_module("harness.props." + p) for p in parts]
    by = {p: m for p, m in zip(parts, mods)}

    def tag(c, p):
        c = dict(c)
        c["py"] = {"_part": p, "py": c["py"]}
        c["kind"] = "%s/%s" % (p, c.get("kind", "?"))
        return c

    def untag(c):
        p = c["py"]["_part"]
        d = dict(c)
        d["py"] = c["py"]["py"]
        d["kind"] = c.get("kind", "").split("/", 1)[-1]
        return p, d

    def gen(rng, tier):
        for p, m in zip(parts, mods):
            for c in m.gen(rng, tier):
                yield tag(c, p)

    def rebuild(c):
        p, d = untag(c)
        r = by[p].rebuild(d) if hasattr(by[p], "rebuild") else d
        return tag(r, p)

    def impl(py):
        return by[py["_part"]].impl(py["py"])

    def compare(c, io, mo):
        p, d = untag(c)
        return by[p].compare(d, io, mo)

    def oracle(c, io):
        p, d = untag(c)
        return by[p].oracle(d, io) if hasattr(by[p], "oracle") else None

    def nontrivial(c, io):
        p, d = untag(c)
        return by[p].nontrivial(d, io)

    def search(rng, tier, mism):
        for p, m in zip(parts, mods):
            if hasattr(m, "search"):
                mine = [untag(c)[1] for c in mism if c["py"].get("_part") == p]
                for c in m.search(rng, tier, mine):
                    yield tag(c, p)

    def shrink_candidates(c):
        p, d = untag(c)
        if hasattr(by[p], "shrink_candidates"):
            for x in by[p].shrink_candidates(d):
                yield tag(x, p)

    def matches_finding(f, c, failure):
        p, d = untag(c)
        return hasattr(by[p], "matches_finding") and by[p].matches_finding(f, d, failure)

    def static_checks(repo):
        out = []
        for m in mods:
            if hasattr(m, "static_checks"):
                out += list(m.static_checks(repo))
        return out

    ns.update(dict(ID=pid, MODNAME=modname, gen=gen, rebuild=rebuild, impl=impl, compare=compare, oracle=oracle,
                   nontrivial=nontrivial, search=search, shrink_candidates=shrink_candidates,
                   matches_finding=matches_finding, static_checks=static_checks,
                   CASE_TIMEOUT=max(getattr(m, "CASE_TIMEOUT", 20) for m in mods),
                   RULE=" || ".join("[%s] %s" % (p, getattr(m, "RULE", "")) for p, m in zip(parts, mods)),
                   EXPLANATION=" || ".join("[%s] %s" % (p, getattr(m, "EXPLANATION", "")) for p, m in zip(parts, mods)),
                   LEVEL_TEXT=" || ".join("[%s] %s" % (p, m.LEVEL_TEXT) for p, m in zip(parts, mods)),
                   LEVEL_NOTE=" || ".join("[%s] %s" % (p, m.LEVEL_NOTE) for p, m in zip(parts, mods)),
                   TECHNIQUE="; ".join(dict.fromkeys(m.TECHNIQUE for m in mods)),
                   EXTRA_TARGETS=sum((list(getattr(m, "EXTRA_TARGETS", [])) for m in mods), [])))
