"""Regenerates MANIFEST.json from the property modules that exist."""
import importlib
import json
import os
import sys

VERIF = os.path.dirname(os.path.dirname(os.path.abspath(__file__)))
sys.path.insert(0, VERIF)
ALL = ["C%02d" % i for i in range(1, 21)]
NA_REASON = "check not built yet in this development (work in progress; see DESIGN.md section 8)"


def main():
    checks, na = [], []
    for pid in ALL:
        path = os.path.join(VERIF, "harness", "props", pid.lower() + ".py")
        props_v = os.path.join(VERIF, "coq", "Props", pid + ".v")
        if os.path.exists(path) and os.path.exists(props_v):
            m = importlib.import_module("harness.props." + pid.lower())
            checks.append({
                "property_id": pid,
                "quick_cmd": "./check %s --tier quick" % pid,
                "thorough_cmd": "./check %s --tier thorough" % pid,
                "evidence_file": "evidence/%s.json" % pid,
                "replay_cmd_template": "./check %s --replay {path}" % pid,
                "engine": "coq-proof+correspondence",
                "level_claimed": {"category": "proof", "text": m.LEVEL_TEXT, "design_ref": "DESIGN.md section 5, " + pid},
                "level_note": m.LEVEL_NOTE,
                "technique": m.TECHNIQUE,
            })
        else:
            na.append({"property_id": pid, "reason": NA_REASON})
    man = {
        "version": 1,
        "setup_cmd": "./build.sh",
        "hooks": {
            "guard": "GJJVDBURG_LABELLA_PY_VERIF",
            "enable": "no hooks are needed: every observation goes through public attributes and return values; checks set GJJVDBURG_LABELLA_PY_VERIF=1 when running the implementation anyway",
            "baseline_off_cmd": "cd /repo && /venv/bin/python -m pytest -ra -q -p no:cacheprovider --timeout=900 --continue-on-collection-errors",
            "source_commits": [],
            "add_only": True,
        },
        "engines": [{
            "name": "coq-proof+correspondence", "path": "check",
            "serves_properties": [c["property_id"] for c in checks],
            "kind_free_text": "Coq 8.16 theorems about hand-written Gallina models (coq/), tied to /repo on every run by differential execution of the extracted OCaml model (ocaml/driver.ml, _build/model_main) against the implementation (harness/), with a vm_compute re-check of the extraction and a property oracle that searches for failing inputs when a proof or the tie breaks",
        }],
        "checks": checks,
        "not_applicable": na,
        "notes": "See DESIGN.md. known_findings.json lists repaired defects (status fixed; they suppress nothing) and open findings.",
    }
    with open(os.path.join(VERIF, "MANIFEST.json"), "w") as f:
        json.dump(man, f, indent=1)
    print("claimed:", [c["property_id"] for c in checks])


main()
