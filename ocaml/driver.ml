(* Generic driver for the extracted model.  Input: one case per line,
   "cmd a1 a2 ..." (decimal integers of any size).  Output: one line per
   case, the integers returned by Model.api, space separated.  No model
   logic lives here. *)
let () =
  let ic = if Array.length Sys.argv > 1 then open_in Sys.argv.(1) else stdin in
  let oc = if Array.length Sys.argv > 2 then open_out Sys.argv.(2) else stdout in
  (try
     while true do
       let line = input_line ic in
       let toks = List.filter (fun s -> s <> "") (String.split_on_char ' ' line) in
       match toks with
       | [] -> output_string oc "\n"
       | c :: args ->
         let res =
           try
             let r = Model.api (Big_int_Z.big_int_of_string c)
                 (List.map Big_int_Z.big_int_of_string args) in
             String.concat " " (List.map Big_int_Z.string_of_big_int r)
           with Stack_overflow -> "-998"
         in
         output_string oc res; output_char oc '\n'
     done
   with End_of_file -> ());
  close_out oc
