(* The coded objective has SOFT walls (weight 1e10); the property texts speak
   of placements INSIDE the bounds.  This file quantifies the difference:

     clamping the model's solution into the bounds (in gap-offset coordinates,
     so that the separation is kept) gives exactly THE least-squares optimum
     among separated placements inside the bounds (`hard_clamp`), and every
     item moves by at most the displacement of a wall,
        m - x_L  resp.  x_R - M   <=   sum_i |x_i - t_i| / 1e10 = delta.

   Generic part: a KKT point X of a chain problem (Layout/PavaProofs.v),
   clamped to [lo, hi] in offset coordinates, is optimal among the feasible
   chain points within [lo, hi]. *)
From Coq Require Import ZArith QArith Qround List Bool Lia Lqa.
From Labella Require Import Base.QUtil Base.QUtilProofs Base.Sort Base.SortProofs
  Layout.Pava Layout.PavaProofs Layout.Layer Layout.LayerProofs.
Import ListNotations.
Open Scope Q_scope.

(* ---------- clamping ---------------------------------------------------------- *)
(* ul / uh: is there a lower / an upper bound at all *)
Definition qclamp (ul uh : bool) (lo hi x : Q) : Q :=
  let x1 := if ul && Qle_bool x lo then lo else x in
  if uh && Qle_bool hi x1 then hi else x1.

(* along the chain the bounds move with the cumulative gap *)
Fixpoint clampc (ul uh : bool) (lo hi : Q) (g X : list Q) : list Q :=
  match X with
  | [] => []
  | x :: X' => qclamp ul uh lo hi x :: clampc ul uh (lo + hd 0 g) (hi + hd 0 g) (tl g) X'
  end.

Fixpoint within (ul uh : bool) (lo hi : Q) (g V : list Q) : Prop :=
  match V with
  | [] => True
  | v :: V' => (ul = true -> lo <= v) /\ (uh = true -> v <= hi) /\
               within ul uh (lo + hd 0 g) (hi + hd 0 g) (tl g) V'
  end.

Lemma Qle_bool_false a b : Qle_bool a b = false -> b < a.
Proof. intro H. apply Qnot_le_lt. intro L. apply Qle_bool_iff in L. congruence. Qed.

Ltac qcases :=
  repeat match goal with
  | |- context [Qle_bool ?a ?b] =>
      let E := fresh "E" in destruct (Qle_bool a b) eqn:E;
      [apply Qle_bool_iff in E|apply Qle_bool_false in E]
  | H : context [Qle_bool ?a ?b] |- _ =>
      let E := fresh "E" in destruct (Qle_bool a b) eqn:E;
      [apply Qle_bool_iff in E|apply Qle_bool_false in E]
  end.

Lemma qclamp_comp ul uh lo lo' hi hi' x x' : lo == lo' -> hi == hi' -> x == x' ->
  qclamp ul uh lo hi x == qclamp ul uh lo' hi' x'.
Proof.
  intros A B C. unfold qclamp. destruct ul, uh; cbn [andb]; qcases; lra.
Qed.

(* the sign fact: moving from x to its clamp never moves away from a point inside *)
Lemma qclamp_sign ul uh lo hi x v :
  (ul = true -> uh = true -> lo <= hi) -> (ul = true -> lo <= v) -> (uh = true -> v <= hi) ->
  0 <= (qclamp ul uh lo hi x - x) * (v - qclamp ul uh lo hi x).
Proof.
  intros A B C. unfold qclamp.
  destruct ul, uh; cbn [andb]; try specialize (A eq_refl eq_refl);
    try specialize (B eq_refl); try specialize (C eq_refl); qcases; nra.
Qed.

Lemma qclamp_shift ul uh lo hi x x' g : x' == x + g ->
  qclamp ul uh (lo + g) (hi + g) x' == qclamp ul uh lo hi x + g.
Proof. intro A. unfold qclamp. destruct ul, uh; cbn [andb]; qcases; lra. Qed.

Lemma qclamp_mono ul uh lo hi x x' g : (ul = true -> uh = true -> lo <= hi) -> x + g <= x' ->
  qclamp ul uh lo hi x + g <= qclamp ul uh (lo + g) (hi + g) x'.
Proof.
  intros A B. unfold qclamp. destruct ul, uh; cbn [andb]; try specialize (A eq_refl eq_refl); qcases; lra.
Qed.

Lemma qclamp_close ul uh lo hi x a b :
  (ul = true -> uh = true -> lo <= hi) -> 0 <= a -> 0 <= b ->
  (ul = true -> lo - a <= x) -> (uh = true -> x <= hi + b) ->
  - b <= qclamp ul uh lo hi x - x <= a.
Proof.
  intros A Ha Hb B C. unfold qclamp.
  destruct ul, uh; cbn [andb]; try specialize (A eq_refl eq_refl);
    try specialize (B eq_refl); try specialize (C eq_refl); qcases; lra.
Qed.

Lemma qclamp_within ul uh lo hi x : (ul = true -> uh = true -> lo <= hi) ->
  (ul = true -> lo <= qclamp ul uh lo hi x) /\ (uh = true -> qclamp ul uh lo hi x <= hi).
Proof.
  intros A. unfold qclamp. destruct ul, uh; cbn [andb]; try specialize (A eq_refl eq_refl);
    split; intro; try discriminate; qcases; lra.
Qed.

Lemma clampc_length ul uh : forall X lo hi g, length (clampc ul uh lo hi g X) = length X.
Proof. induction X as [|x X IH]; intros lo hi g; cbn [clampc length]; [reflexivity|now rewrite IH]. Qed.

(* ---------- the clamped KKT point is optimal within the bounds ------------------ *)
Lemma clamp_cross ul uh : forall X d w g V lo hi,
  length d = length X -> length w = length X -> length V = length X -> S (length g) = length X ->
  Forall (fun a => 0 <= a) w -> (ul = true -> uh = true -> lo <= hi) ->
  kkt d w g X -> feasible g V -> within ul uh lo hi g V ->
  match X, V with
  | x0 :: _, v0 :: _ => Rs d w X * (v0 - qclamp ul uh lo hi x0) <= cross d w (clampc ul uh lo hi g X) V
  | _, _ => True
  end.
Proof.
  induction X as [|x0 X IH]; intros d w g V lo hi Ld Lw LV Lg Wn A K F Wi; [exact I|].
  destruct d as [|d0 d]; [discriminate|]. destruct w as [|w0 w]; [discriminate|].
  destruct V as [|v0 V]; [discriminate|].
  cbn [length] in Ld, Lw, LV, Lg. injection Ld as Ld. injection Lw as Lw. injection LV as LV. injection Lg as Lg.
  inversion Wn as [|? ? W0 Wn']; subst.
  cbn [within] in Wi. destruct Wi as [B1 [B2 Wi]].
  pose proof (qclamp_sign ul uh lo hi x0 v0 A B1 B2) as Sg.
  cbn [clampc Rs cross].
  destruct X as [|x1 X].
  - destruct d; [|discriminate]. destruct w; [|discriminate]. destruct V; [|discriminate].
    cbn [clampc Rs cross]. set (z0 := qclamp ul uh lo hi x0) in *. nra.
  - destruct g as [|g0 g]; [discriminate|]. destruct V as [|v1 V]; [discriminate|].
    cbn [hd tl] in *. cbn [length] in Lg. injection Lg as Lg.
    cbn [kkt] in K. destruct K as [K1 [K2 [K3 K4]]].
    destruct (proj1 (feasible_cons2 _ _ _ _ _) F) as [F1 F2].
    assert (A' : ul = true -> uh = true -> lo + g0 <= hi + g0) by (intros a b; specialize (A a b); lra).
    pose proof (IH d w g (v1 :: V) (lo + g0) (hi + g0) Ld Lw LV ltac:(cbn [length]; congruence) Wn' A' K4 F2 Wi) as B.
    cbn beta iota in B.
    set (R := Rs d w (x1 :: X)) in *.
    set (CR := cross d w (clampc ul uh (lo + g0) (hi + g0) g (x1 :: X)) (v1 :: V)) in *.
    set (z0 := qclamp ul uh lo hi x0) in *. set (z1 := qclamp ul uh (lo + g0) (hi + g0) x1) in *.
    assert (T : R * (v0 - z0) <= R * (v1 - z1)).
    { destruct K3 as [K3|K3]; [nra|].
      assert (E : z1 == z0 + g0) by (apply qclamp_shift; lra). nra. }
    nra.
Qed.

Theorem clamp_optimal ul uh X d w g V lo hi :
  length d = length X -> length w = length X -> length V = length X -> S (length g) = length X ->
  Forall (fun a => 0 <= a) w -> (ul = true -> uh = true -> lo <= hi) ->
  kkt d w g X -> Rs d w X == 0 -> feasible g V -> within ul uh lo hi g V ->
  let Z := clampc ul uh lo hi g X in
  cost d w Z + cost Z w V <= cost d w V.
Proof.
  intros Ld Lw LV Lg Wn A K R F Wi Z.
  assert (LZ : length Z = length X) by apply clampc_length.
  rewrite (cost_split Z d w V) by congruence.
  pose proof (clamp_cross ul uh X d w g V lo hi Ld Lw LV Lg Wn A K F Wi) as B.
  destruct X as [|x0 X]; [discriminate|]. destruct V as [|v0 V]; [discriminate|].
  rewrite R in B. fold Z in B. lra.
Qed.

(* the clamped chain keeps the gaps, stays within the bounds, and moves no
   point by more than the original overshoot *)
Lemma clampc_feasible ul uh : forall X g lo hi, (ul = true -> uh = true -> lo <= hi) ->
  feasible g X -> feasible g (clampc ul uh lo hi g X).
Proof.
  induction X as [|x0 X IH]; intros g lo hi A F; [exact I|].
  destruct X as [|x1 X]; [exact I|]. destruct g as [|g0 g]; [exact I|].
  destruct (proj1 (feasible_cons2 _ _ _ _ _) F) as [F1 F2].
  assert (A' : ul = true -> uh = true -> lo + g0 <= hi + g0) by (intros a b; specialize (A a b); lra).
  specialize (IH g (lo + g0) (hi + g0) A' F2).
  change (clampc ul uh lo hi (g0 :: g) (x0 :: x1 :: X)) with
    (qclamp ul uh lo hi x0 :: clampc ul uh (lo + g0) (hi + g0) g (x1 :: X)).
  change (clampc ul uh (lo + g0) (hi + g0) g (x1 :: X)) with
    (qclamp ul uh (lo + g0) (hi + g0) x1 :: clampc ul uh (lo + g0 + hd 0 g) (hi + g0 + hd 0 g) (tl g) X) in *.
  apply feasible_cons2. split; [|exact IH].
  pose proof (qclamp_mono ul uh lo hi x0 x1 g0 A). lra.
Qed.

Lemma clampc_close ul uh a b : 0 <= a -> 0 <= b -> forall X g lo hi lo' hi',
  (ul = true -> uh = true -> lo <= hi) -> lo' == lo - a -> hi' == hi + b ->
  within ul uh lo' hi' g X ->
  Forall2 (fun x z => - b <= z - x <= a) X (clampc ul uh lo hi g X).
Proof.
  intros Ha Hb. induction X as [|x0 X IH]; intros g lo hi lo' hi' A El Eh Wi; [constructor|].
  cbn [within] in Wi. destruct Wi as [B1 [B2 Wi]]. cbn [clampc]. constructor.
  - apply qclamp_close; try assumption; intro u; [specialize (B1 u)|specialize (B2 u)]; lra.
  - apply (IH (tl g) _ _ (lo' + hd 0 g) (hi' + hd 0 g)); try assumption; try lra.
    intros u v. specialize (A u v). lra.
Qed.

(* a feasible chain whose first point is above lo and whose last point is
   below hi + (all gaps) is within [lo, hi] *)
Lemma within_of_feasible ul uh : forall V g lo hi, S (length g) = length V ->
  feasible g V -> (ul = true -> lo <= hd 0 V) -> (uh = true -> last V 0 <= hi + Qsum g) ->
  within ul uh lo hi g V.
Proof.
  induction V as [|v0 V IH]; intros g lo hi Lg F B1 B2; [exact I|].
  destruct V as [|v1 V].
  - destruct g; [|discriminate]. cbn [within hd last] in *. rewrite Qsum_nil in B2.
    split; [exact B1|]. split; [intro u; specialize (B2 u); lra|exact I].
  - destruct g as [|g0 g]; [discriminate|]. cbn [length] in Lg. injection Lg as Lg.
    destruct (proj1 (feasible_cons2 _ _ _ _ _) F) as [F1 F2].
    change (last (v0 :: v1 :: V) 0) with (last (v1 :: V) 0) in B2. rewrite Qsum_cons in B2.
    cbn [hd] in B1.
    assert (Wt : within ul uh (lo + g0) (hi + g0) g (v1 :: V)).
    { apply IH; [cbn [length]; congruence|exact F2| |].
      - intro u. specialize (B1 u). cbn [hd]. lra.
      - intro u. specialize (B2 u). lra. }
    cbn [within hd tl]. split; [exact B1|]. split; [|exact Wt].
    intro u. cbn [within] in Wt. destruct Wt as [_ [T _]]. specialize (T u). lra.
Qed.

Lemma clampc_hd ul uh lo hi g x X : hd 0 (clampc ul uh lo hi g (x :: X)) = qclamp ul uh lo hi x.
Proof. reflexivity. Qed.

Lemma clampc_last ul uh : forall X g lo hi, S (length g) = length X ->
  last (clampc ul uh lo hi g X) 0 == qclamp ul uh (lo + Qsum g) (hi + Qsum g) (last X 0).
Proof.
  induction X as [|x0 X IH]; intros g lo hi Lg; [discriminate|].
  destruct X as [|x1 X].
  - destruct g; [|discriminate]. cbn [clampc last]. rewrite Qsum_nil. apply qclamp_comp; lra.
  - destruct g as [|g0 g]; [discriminate|]. cbn [length] in Lg. injection Lg as Lg.
    change (last (x0 :: x1 :: X) 0) with (last (x1 :: X) 0).
    change (clampc ul uh lo hi (g0 :: g) (x0 :: x1 :: X)) with
      (qclamp ul uh lo hi x0 :: clampc ul uh (lo + g0) (hi + g0) g (x1 :: X)).
    assert (N : clampc ul uh (lo + g0) (hi + g0) g (x1 :: X) <> []) by discriminate.
    destruct (clampc ul uh (lo + g0) (hi + g0) g (x1 :: X)) as [|c C] eqn:Ec; [congruence|].
    change (last (qclamp ul uh lo hi x0 :: c :: C) 0) with (last (c :: C) 0). rewrite <- Ec.
    rewrite (IH g (lo + g0) (hi + g0)) by (cbn [length]; congruence).
    rewrite Qsum_cons. apply qclamp_comp; lra.
Qed.

(* ---------- one layer ------------------------------------------------------------ *)
Definition has (m : option Q) : bool := match m with Some _ => true | None => false end.
Definition hard_lo (o : lopts) : Q := bound_or0 (minP o).
Definition hard_hi (o : lopts) (s : list item) : Q := bound_or0 (maxP o) - Qsum (chain_g o s).
(* all solver variables, clamped: the walls land on the bounds *)
Definition hard_full (o : lopts) (s : list item) : list Q :=
  clampc (has (minP o)) (has (maxP o)) (hard_lo o) (hard_hi o s) (chain_g o s) (solve_full o s).
Definition items_of (o : lopts) (s : list item) (l : list Q) : list Q :=
  firstn (length s) (skipn (length (optl (minP o))) l).
(* the model's positions clamped into the bounds, the separation kept *)
Definition hard_clamp (o : lopts) (s : list item) : list Q := items_of o s (hard_full o s).
(* how far the walls gave way *)
Definition slackL (o : lopts) (s : list item) : Q :=
  match minP o with Some m => m - wallL o s | None => 0 end.
Definition slackR (o : lopts) (s : list item) : Q :=
  match maxP o with Some M => wallR o s - M | None => 0 end.

Lemma chain_d_length o s : length (chain_d o s) = (length (optl (minP o)) + length s + length (optl (maxP o)))%nat.
Proof. unfold chain_d. rewrite !app_length, map_length. lia. Qed.

Lemma full_view o s l : s <> [] -> length l = length (chain_d o s) ->
  l = with_walls o (hd 0 l) (items_of o s l) (last l 0) /\ length (items_of o s l) = length s.
Proof.
  intros N L. rewrite chain_d_length in L. unfold with_walls, items_of.
  destruct s as [|f s']; [congruence|]. remember (f :: s') as s eqn:Es. clear Es N f s'.
  destruct (minP o) as [m|], (maxP o) as [M|]; cbn [optl ifsome length app skipn] in *.
  - destruct l as [|xl x']; [discriminate|]. cbn [length] in L. injection L as L. cbn [hd skipn].
    assert (L' : length x' = S (length s)) by lia.
    pose proof (firstn_last_split x' (length s) L') as E.
    assert (EL : last (xl :: x') 0 = last x' 0) by (destruct x'; [discriminate|reflexivity]).
    rewrite EL. split; [f_equal; exact E|]. rewrite firstn_length. lia.
  - destruct l as [|xl x']; [discriminate|]. cbn [length] in L. injection L as L.
    cbn [hd skipn]. rewrite app_nil_r.
    assert (E : firstn (length s) x' = x') by (apply firstn_all2; lia).
    rewrite E. split; [reflexivity|lia].
  - assert (L' : length l = S (length s)) by lia.
    pose proof (firstn_last_split l (length s) L') as E.
    split; [exact E|]. rewrite firstn_length. lia.
  - rewrite app_nil_r. assert (E : firstn (length s) l = l) by (apply firstn_all2; lia).
    rewrite E. split; [reflexivity|lia].
Qed.

Lemma solve_sorted_items o s : s <> [] -> solve_sorted o s = items_of o s (solve_full o s).
Proof. intro N. destruct s; [congruence|reflexivity]. Qed.

Lemma needed_is_chain_sum o s m M : minP o = Some m -> maxP o = Some M ->
  Qsum (chain_g o s) == needed_length o s.
Proof.
  intros Em EM. unfold chain_g, needed_length. destruct s as [|f s']; [reflexivity|].
  rewrite Em, EM. cbn [ifsome]. rewrite !Qsum_app, !Qsum_cons, !Qsum_nil. ring.
Qed.

Lemma fits_order o s : fits o s ->
  has (minP o) = true -> has (maxP o) = true -> hard_lo o <= hard_hi o s.
Proof.
  unfold fits, hard_lo, hard_hi. destruct (minP o) as [m|] eqn:Em, (maxP o) as [M|] eqn:EM;
    cbn [has bound_or0]; intros F A B; try discriminate.
  rewrite (needed_is_chain_sum o s m M Em EM). lra.
Qed.

(* the last variable of a KKT chain is never pulled below its desired position,
   the first never above (total gradient zero) *)
Lemma kkt_last_nonneg dl wl xr : forall x d w gs,
  length d = length x -> length w = length x -> length gs = length x -> x <> [] ->
  kkt (d ++ [dl]) (w ++ [wl]) gs (x ++ [xr]) -> 0 <= wl * (xr - dl).
Proof.
  induction x as [|x0 x IH]; intros d w gs Ld Lw Lg N K; [congruence|].
  destruct d as [|d0 d]; [discriminate|]. destruct w as [|w0 w]; [discriminate|].
  destruct gs as [|g0 gs]; [discriminate|].
  cbn [length] in Ld, Lw, Lg. injection Ld as Ld. injection Lw as Lw. injection Lg as Lg.
  destruct x as [|x1 x].
  - destruct d; [|discriminate]. destruct w; [|discriminate]. cbn [app kkt Rs] in K. lra.
  - cbn [app] in K. cbn [kkt] in K. destruct K as [_ [_ [_ K4]]].
    apply (IH d w gs); try assumption; try discriminate.
Qed.

Lemma walls_outward o s : s <> [] -> 0 <= slackL o s /\ 0 <= slackR o s.
Proof.
  intro N. destruct (solve_view o s N) as [V Lx].
  destruct (pava_kkt _ _ _ (chain_ok_layer o s N)) as [K [R _]].
  fold (solve_full o s) in K, R. rewrite V in K, R.
  pose proof Wwall_pos as WP. unfold slackL, slackR.
  unfold chain_d, chain_w, chain_g, with_walls in *.
  destruct s as [|f s']; [congruence|]. remember (f :: s') as s eqn:Es.
  set (xs := solve_sorted o s) in *. set (xl := wallL o s) in *. set (xr := wallR o s) in *.
  set (t := map tgt s) in *. set (ones := map (fun _ : item => 1) s) in *.
  assert (Lt : length t = length xs) by (unfold t; rewrite map_length; congruence).
  assert (Lo : length ones = length xs) by (unfold ones; rewrite map_length; congruence).
  assert (Nx : xs <> []) by (intro E; rewrite E in Lx; rewrite Es in Lx; discriminate).
  assert (Lgp : length (gaps o s) = pred (length xs)) by (rewrite gaps_length; congruence).
  destruct (minP o) as [m|] eqn:Em, (maxP o) as [M|] eqn:EM; cbn [optl ifsome app] in *.
  - split.
    + destruct xs as [|x0 xs']; [congruence|]. cbn [app Rs kkt] in K, R.
      destruct K as [_ [K2 _]]. nra.
    + assert (H : 0 <= Wwall * (xr - M)).
      { apply (kkt_last_nonneg M Wwall xr (xl :: xs) (m :: t) (Wwall :: ones)
                 (wid f / 2 :: gaps o s ++ [wid (last s f) / 2])); cbn [length]; try congruence; try discriminate.
        - rewrite app_length. cbn [length]. destruct xs; [congruence|]. cbn [length pred] in *. lia.
        - exact K. }
      nra.
  - split; [|lra]. rewrite !app_nil_r in K, R.
    destruct xs as [|x0 xs']; [congruence|]. rewrite ?app_nil_r in K, R. cbn [Rs kkt] in K, R. destruct K as [_ [K2 _]]. rewrite app_nil_r in K2. nra.
  - split; [lra|].
    assert (H : 0 <= Wwall * (xr - M)).
    { apply (kkt_last_nonneg M Wwall xr xs t ones (gaps o s ++ [wid (last s f) / 2])); try assumption.
      rewrite app_length. cbn [length]. destruct xs; [congruence|]. cbn [length pred] in *. lia. }
    nra.
  - split; lra.
Qed.

Lemma qclamp_at_lo ul uh lo hi x : ul = true -> x <= lo -> (uh = true -> lo <= hi) ->
  qclamp ul uh lo hi x == lo.
Proof. intros -> A B. unfold qclamp. destruct uh; cbn [andb]; try specialize (B eq_refl); qcases; lra. Qed.

Lemma qclamp_at_hi ul uh lo hi x : uh = true -> hi <= x -> (ul = true -> lo <= hi) ->
  qclamp ul uh lo hi x == hi.
Proof. intros -> A B. unfold qclamp. destruct ul; cbn [andb]; try specialize (B eq_refl); qcases; lra. Qed.

Lemma hd_with_walls o yl y yr : y <> [] ->
  hd 0 (with_walls o yl y yr) = match minP o with Some _ => yl | None => hd 0 y end.
Proof. intro N. unfold with_walls. destruct (minP o); cbn [ifsome app hd]; [reflexivity|]. destruct y; [congruence|reflexivity]. Qed.

Lemma last_app_single (l : list Q) a d : last (l ++ [a]) d = a.
Proof. apply last_last. Qed.

Lemma last_with_walls o yl y yr : y <> [] ->
  last (with_walls o yl y yr) 0 = match maxP o with Some _ => yr | None => last y 0 end.
Proof.
  intro N. unfold with_walls. destruct (maxP o); cbn [ifsome].
  - rewrite app_assoc. apply last_last.
  - rewrite app_nil_r. destruct (minP o); cbn [ifsome app]; [|reflexivity].
    destruct y; [congruence|reflexivity].
Qed.

Lemma Forall2_firstn {A B} (R : A -> B -> Prop) n : forall l m, Forall2 R l m -> Forall2 R (firstn n l) (firstn n m).
Proof.
  induction n as [|n IH]; intros l m F; [constructor|]. destruct F; [constructor|].
  cbn [firstn]. constructor; [assumption|apply IH; assumption].
Qed.
Lemma Forall2_skipn {A B} (R : A -> B -> Prop) n : forall l m, Forall2 R l m -> Forall2 R (skipn n l) (skipn n m).
Proof.
  induction n as [|n IH]; intros l m F; [exact F|]. destruct F; [constructor|]. cbn [skipn]. apply IH; assumption.
Qed.

Section HardLayer.
  Variable o : lopts.
  Variable s : list item.
  Hypothesis N : s <> [].
  Hypothesis FT : fits o s.

  Let ul := has (minP o).
  Let uh := has (maxP o).
  Let X := solve_full o s.
  Let Z := hard_full o s.
  Let g := chain_g o s.

  Lemma hard_order : ul = true -> uh = true -> hard_lo o <= hard_hi o s.
  Proof. apply fits_order, FT. Qed.

  Lemma X_facts : length X = length (chain_d o s) /\ S (length g) = length X /\ feasible g X /\
                  X = with_walls o (wallL o s) (solve_sorted o s) (wallR o s) /\
                  length (solve_sorted o s) = length s.
  Proof.
    pose proof (chain_ok_layer o s N) as CK. destruct (solve_view o s N) as [V Lx].
    split; [apply chain_lengths; exact CK|]. split.
    - unfold X, g, solve_full. rewrite (chain_lengths _ _ _ CK). destruct CK as [_ [Lg _]]. exact Lg.
    - split; [apply pava_feasible_list; exact CK|]. split; assumption.
  Qed.

  Lemma Z_length : length Z = length (chain_d o s).
  Proof. unfold Z, hard_full. rewrite clampc_length. apply X_facts. Qed.

  (* the clamped walls sit on the bounds *)
  Lemma Z_walls :
    (forall m, minP o = Some m -> hd 0 Z == m) /\ (forall M, maxP o = Some M -> last Z 0 == M).
  Proof.
    destruct X_facts as [LX [Lg [FX [VX Lx]]]].
    destruct (walls_outward o s N) as [SL SR]. unfold slackL, slackR in SL, SR.
    assert (Nx : solve_sorted o s <> []).
    { intro E. rewrite E in Lx. destruct s; [congruence|discriminate]. }
    split.
    - intros m Em. unfold Z, hard_full. fold X. rewrite VX at 1.
      unfold with_walls at 1. rewrite Em. cbn [ifsome app]. rewrite clampc_hd.
      rewrite Em in SL. unfold hard_lo. rewrite Em. cbn [has bound_or0].
      apply qclamp_at_lo; [reflexivity|lra|].
      intro U. pose proof hard_order as O. unfold ul, uh, hard_lo in O. rewrite Em in O.
      cbn [has bound_or0] in O. exact (O eq_refl U).
    - intros M EM. unfold Z, hard_full. fold X g. rewrite (clampc_last _ _ X g _ _ Lg).
      assert (EL : last X 0 = wallR o s).
      { rewrite VX. rewrite (last_with_walls o _ _ _ Nx), EM. reflexivity. }
      rewrite EL. rewrite EM in SR. unfold hard_hi. fold g. rewrite EM. cbn [has bound_or0].
      assert (Q1 : M - Qsum g + Qsum g == M) by ring.
      rewrite (qclamp_comp _ _ _ (hard_lo o + Qsum g) _ M _ (wallR o s)) by (try reflexivity; exact Q1).
      apply qclamp_at_hi; [reflexivity|lra|].
      intro U. pose proof hard_order as O. unfold ul, uh in O. rewrite EM, U in O.
      specialize (O eq_refl eq_refl). unfold hard_hi in O. fold g in O. rewrite EM in O. cbn [bound_or0] in O. lra.
  Qed.

  Lemma Z_view : Z = with_walls o (hd 0 Z) (hard_clamp o s) (last Z 0) /\ length (hard_clamp o s) = length s.
  Proof. apply (full_view o s Z N Z_length). Qed.

  (* the clamped positions are an admissible placement: separated and inside *)
  Lemma hard_clamp_admissible :
    length (hard_clamp o s) = length s /\ feasible (gaps o s) (hard_clamp o s) /\ inside o s (hard_clamp o s).
  Proof.
    destruct X_facts as [LX [Lg [FX _]]]. destruct Z_view as [VZ Lz]. destruct Z_walls as [WL WR].
    assert (FZ : feasible g Z) by (apply clampc_feasible; [exact hard_order|exact FX]).
    split; [exact Lz|].
    assert (Sep : separated o s (hd 0 Z) (hard_clamp o s) (last Z 0)).
    { unfold separated. rewrite <- VZ. exact FZ. }
    clear FZ FX Lg LX VZ.
    destruct s as [|f s'] eqn:Es; [congruence|]. rewrite <- Es in *.
    rewrite Es in Sep. apply separated_iff in Sep; [|rewrite <- Es; exact Lz]. rewrite <- Es in Sep.
    destruct Sep as [F [SL SR]]. split; [exact F|].
    unfold inside. rewrite Es. rewrite <- Es. split.
    - destruct (minP o) as [m|] eqn:Em; [|exact I]. rewrite (WL m eq_refl) in SL. lra.
    - destruct (maxP o) as [M|] eqn:EM; [|exact I]. rewrite (WR M eq_refl) in SR. lra.
  Qed.

  (* ... and better than every other admissible placement, with a quadratic margin *)
  Lemma hard_clamp_optimal v : length v = length s -> feasible (gaps o s) v -> inside o s v ->
    sqdist (map tgt s) (hard_clamp o s) + sqdist (hard_clamp o s) v <= sqdist (map tgt s) v.
  Proof.
    intros Lv Fv Iv.
    destruct X_facts as [LX [Lg [FX _]]]. destruct Z_view as [VZ Lz]. destruct Z_walls as [WL WR].
    destruct (inside_separated o s v N Lv Fv Iv) as [Sep Eobj].
    set (V := with_walls o (bound_or0 (minP o)) v (bound_or0 (maxP o))) in *.
    assert (LV : length V = length X) by (rewrite LX; apply with_walls_length; exact Lv).
    assert (Nv : v <> []) by (intro E; rewrite E in Lv; destruct s; [congruence|discriminate]).
    pose proof (chain_ok_layer o s N) as CK.
    destruct (pava_kkt _ _ _ CK) as [K [R _]]. fold (solve_full o s) in K, R. fold X in K, R.
    assert (Wn : Forall (fun a => 0 <= a) (chain_w o s)).
    { destruct CK as [_ [_ P]]. eapply Forall_impl; [|exact P]. intros a Ha. cbn beta in Ha. lra. }
    assert (Wi : within ul uh (hard_lo o) (hard_hi o s) g V).
    { apply within_of_feasible; [congruence|exact Sep| |].
      - intro U. unfold V. rewrite (hd_with_walls o _ _ _ Nv). unfold ul in U. unfold hard_lo.
        destruct (minP o); [cbn [bound_or0]; lra|discriminate].
      - intro U. unfold V. rewrite (last_with_walls o _ _ _ Nv). unfold uh in U. unfold hard_hi. fold g.
        destruct (maxP o); [cbn [bound_or0]; lra|discriminate]. }
    destruct CK as [Lw [_ _]].
    pose proof (clamp_optimal ul uh X (chain_d o s) (chain_w o s) g V (hard_lo o) (hard_hi o s)
                  (eq_sym LX) ltac:(congruence) LV Lg Wn hard_order K R Sep Wi) as Opt.
    cbn zeta in Opt. fold Z in Opt. fold (hard_full o s) in Opt.
    change (clampc ul uh (hard_lo o) (hard_hi o s) g X) with Z in Opt.
    (* read the three costs *)
    assert (C1 : cost (chain_d o s) (chain_w o s) V == sqdist (map tgt s) v).
    { unfold V. rewrite (layer_cost o s _ v _ Lv). exact Eobj. }
    assert (C2 : cost (chain_d o s) (chain_w o s) Z == sqdist (map tgt s) (hard_clamp o s)).
    { rewrite VZ at 1. rewrite (layer_cost o s _ _ _ Lz). unfold objective, wall_term.
      destruct (minP o) as [m|] eqn:Em, (maxP o) as [M|] eqn:EM;
        try rewrite (WL _ eq_refl); try rewrite (WR _ eq_refl); ring. }
    assert (C3 : cost Z (chain_w o s) V == sqdist (hard_clamp o s) v).
    { rewrite VZ at 1. unfold with_walls at 1. unfold V.
      rewrite (layer_cost_gen o s (hd 0 Z) (hard_clamp o s) (last Z 0) _ v _ Lz Lv). unfold wall_sq.
      destruct (minP o) as [m|] eqn:Em, (maxP o) as [M|] eqn:EM; cbn [bound_or0];
        try rewrite (WL _ eq_refl); try rewrite (WR _ eq_refl); ring. }
    rewrite C1, C2, C3 in Opt. exact Opt.
  Qed.

  (* every item is moved by at most the displacement of a wall *)
  Lemma hard_clamp_close :
    Forall2 (fun x z => - slackR o s <= z - x <= slackL o s) (solve_sorted o s) (hard_clamp o s).
  Proof.
    destruct X_facts as [LX [Lg [FX [VX Lx]]]]. destruct (walls_outward o s N) as [SL SR].
    assert (Nx : solve_sorted o s <> []).
    { intro E. rewrite E in Lx. destruct s; [congruence|discriminate]. }
    rewrite (solve_sorted_items o s N). unfold hard_clamp, items_of.
    apply Forall2_firstn, Forall2_skipn. fold X. unfold hard_full. fold X g ul uh.
    apply (clampc_close ul uh (slackL o s) (slackR o s) SL SR X g (hard_lo o) (hard_hi o s)
             (hard_lo o - slackL o s) (hard_hi o s + slackR o s) hard_order); try reflexivity.
    apply within_of_feasible; [exact Lg|exact FX| |].
    - intro U. rewrite VX, (hd_with_walls o _ _ _ Nx). unfold ul in U. unfold hard_lo, slackL.
      destruct (minP o); [cbn [bound_or0]; lra|discriminate].
    - intro U. rewrite VX, (last_with_walls o _ _ _ Nx). unfold uh in U. unfold hard_hi, slackR. fold g.
      destruct (maxP o); [cbn [bound_or0]; lra|discriminate].
  Qed.

  (* the wall displacements are at most delta = (total displacement) / 1e10 *)
  Lemma slack_le_delta :
    slackL o s <= delta_sorted o s /\ slackR o s <= delta_sorted o s.
  Proof.
    destruct (wall_bounds o s N FT) as [BL BR]. pose proof Wwall_pos as WP.
    assert (D0 : 0 <= delta_sorted o s).
    { unfold delta_sorted. apply Qle_shift_div_l; [exact WP|]. rewrite Qmult_0_l.
      unfold displacement. apply Qsum_nonneg. clear.
      generalize (map tgt s) (solve_sorted o s). induction l as [|a l IH]; intros [|b m]; cbn [map2]; constructor.
      - apply Qabs'_ge. - apply IH. }
    unfold slackL, slackR, delta_sorted in *. split.
    - destruct (minP o) as [m|]; [|exact D0]. specialize (BL m eq_refl).
      apply Qle_shift_div_l; [exact WP|]. lra.
    - destruct (maxP o) as [M|]; [|exact D0]. specialize (BR M eq_refl).
      apply Qle_shift_div_l; [exact WP|]. lra.
  Qed.
End HardLayer.

(* ---------- the statements, for an arbitrary layer list --------------------------- *)
Lemma delta_is_sorted o its : delta o its = delta_sorted o (sorted_items its).
Proof. reflexivity. Qed.

(* hard_clamp is THE least-squares optimum among the separated placements inside the bounds *)
Theorem C02_hard_optimum_lemma o its : its <> [] -> fits o (sorted_items its) ->
  let s := sorted_items its in
  let z := hard_clamp o s in
  length z = length its /\ feasible (gaps o s) z /\ inside o s z /\
  forall v, length v = length its -> feasible (gaps o s) v -> inside o s v ->
    sqdist (map tgt s) z + sqdist z v <= sqdist (map tgt s) v.
Proof.
  intros N FT s z. pose proof (sorted_items_nonempty its N) as Ns.
  assert (Ls : length s = length its) by (unfold s, sorted_items; apply sort_length).
  destruct (hard_clamp_admissible o s Ns FT) as [Lz [Fz Iz]]. fold z in Lz, Fz, Iz.
  split; [congruence|]. split; [exact Fz|]. split; [exact Iz|].
  intros v Lv Fv Iv. apply (hard_clamp_optimal o s Ns FT v); [congruence|exact Fv|exact Iv].
Qed.

(* the model's (soft-wall) positions differ from it by at most the walls' displacement,
   which is at most delta *)
Theorem C02_hard_close_lemma o its : its <> [] -> fits o (sorted_items its) ->
  let s := sorted_items its in
  (0 <= slackL o s <= delta o its) /\ (0 <= slackR o s <= delta o its) /\
  Forall2 (fun x z => - slackR o s <= z - x <= slackL o s) (solve_layer_exact o its) (hard_clamp o s).
Proof.
  intros N FT s. pose proof (sorted_items_nonempty its N) as Ns.
  destruct (walls_outward o s Ns) as [A B]. destruct (slack_le_delta o s Ns FT) as [C D].
  rewrite delta_is_sorted. fold s. repeat split; try assumption.
  apply (hard_clamp_close o s Ns FT).
Qed.

Lemma Forall2_Qeq_r (P : Q -> Q -> Prop) :
  (forall x z y, P x z -> z == y -> P x y) ->
  forall xs zs ys, Forall2 P xs zs -> Forall2 Qeq zs ys -> Forall2 P xs ys.
Proof.
  intros H xs zs ys F. revert ys. induction F as [|x z xs zs Hxz _ IH]; intros ys E; inversion E; subst; constructor.
  - eapply H; eassumption.
  - apply IH; assumption.
Qed.

Lemma sqdist_le_bound B : forall xs ys, Forall2 (fun x y => - B <= y - x <= B) xs ys ->
  sqdist xs ys <= qlen xs * (B * B).
Proof.
  induction 1 as [|x y xs ys H _ IH].
  - unfold sqdist, qlen. cbn [map2 length]. rewrite Qsum_nil. change (inject_Z (Z.of_nat 0)) with 0. lra.
  - rewrite sqdist_cons, qlen_cons. set (c := y - x) in *. nra.
Qed.

(* any least-squares optimum y among the separated placements inside the bounds
   (the placement the property text speaks of) IS hard_clamp, so the model's
   positions are within delta of it, item by item *)
Theorem C02_distance_to_hard_optimum_lemma o its y : its <> [] -> fits o (sorted_items its) ->
  let s := sorted_items its in
  length y = length its -> feasible (gaps o s) y -> inside o s y ->
  (forall v, length v = length its -> feasible (gaps o s) v -> inside o s v ->
     sqdist (map tgt s) y <= sqdist (map tgt s) v) ->
  Forall2 Qeq (hard_clamp o s) y /\
  Forall2 (fun x yi => - slackR o s <= yi - x <= slackL o s) (solve_layer_exact o its) y /\
  Forall2 (fun x yi => - delta o its <= yi - x <= delta o its) (solve_layer_exact o its) y /\
  sqdist (solve_layer_exact o its) y <= qlen its * (delta o its * delta o its).
Proof.
  intros N FT s Ly Fy Iy Opt.
  destruct (C02_hard_optimum_lemma o its N FT) as [Lz [Fz [Iz Oz]]]. cbn zeta in Lz, Fz, Iz, Oz. fold s in Lz, Fz, Iz, Oz.
  destruct (C02_hard_close_lemma o its N FT) as [[A1 A2] [[B1 B2] Cl]]. cbn zeta in A1, A2, B1, B2, Cl. fold s in A1, A2, B1, B2, Cl.
  pose proof (Oz y Ly Fy Iy) as O1. pose proof (Opt _ Lz Fz Iz) as O2.
  assert (E : Forall2 Qeq (hard_clamp o s) y).
  { apply sqdist_zero_eq; [congruence|lra]. }
  split; [exact E|].
  assert (C1 : Forall2 (fun x yi => - slackR o s <= yi - x <= slackL o s) (solve_layer_exact o its) y).
  { eapply Forall2_Qeq_r; [|exact Cl|exact E]. intros x z yi H Q. cbn beta in *. lra. }
  split; [exact C1|].
  assert (C2 : Forall2 (fun x yi => - delta o its <= yi - x <= delta o its) (solve_layer_exact o its) y).
  { eapply Forall2_impl; [|exact C1]. intros x yi H. cbn beta in *. lra. }
  split; [exact C2|].
  assert (EL : qlen its = qlen (solve_layer_exact o its)).
  { unfold qlen. rewrite solve_layer_exact_length. reflexivity. }
  rewrite EL. apply sqdist_le_bound. exact C2.
Qed.
