(* Spec-level model of one layer's placement problem (DESIGN.md 5, C01/C02):
   a chain of n variables with desired positions d, weights w > 0 and minimal
   gaps g between consecutive variables,
        minimise  sum_i w_i (x_i - d_i)^2   s.t.  x_{i+1} - x_i >= g_i,
   solved by pool-adjacent-violators with a stack of blocks.  This is the
   problem labella/removeOverlap.py:47-73 hands to vpsc.Solver (which solves
   it by block merging, vpsc.py:387-428).
   Model file: definitions only; proofs are in Layout/PavaProofs.v. *)
From Coq Require Import ZArith QArith List Bool.
From Labella Require Import Base.QUtil.
Import ListNotations.
Open Scope Q_scope.

(* A block of consecutive variables that move together.  With
   G_i = g_0 + ... + g_{i-1} (the cumulative gap offset) and e_i = d_i - G_i,
   every member sits at  (block position) + G_i, and the optimal block
   position is the weighted mean  bs / bw. *)
Record block := mkB {
  bw : Q;      (* total weight                                   *)
  bs : Q;      (* weighted sum of e_i = d_i - offset_i           *)
  bn : nat     (* number of variables (first index = sum of the sizes below it) *)
}.

Definition single (e w : Q) : block := mkB w (w * e) 1.

Definition merge (t b : block) : block :=
  mkB (Qred (bw t + bw b)) (Qred (bs t + bs b)) (bn t + bn b).

(* mean t > mean b, by cross-multiplication (weights are positive) *)
Definition mean_gt (t b : block) : bool := Qltb (bs b * bw t) (bs t * bw b).

(* push a new block on the stack (top first); while the block below has a
   larger mean the two are merged *)
Fixpoint push (b : block) (st : list block) : list block :=
  match st with
  | [] => [b]
  | t :: st' => if mean_gt t b then push (merge t b) st' else b :: st
  end.

Fixpoint build (ew : list (Q * Q)) (st : list block) : list block :=
  match ew with
  | [] => st
  | (e, w) :: r => build r (push (single e w) st)
  end.

Definition bval (b : block) : Q := Qred (bs b / bw b).

(* stack (top first) -> positions in index order *)
Fixpoint expand (st : list block) (acc : list Q) : list Q :=
  match st with
  | [] => acc
  | b :: r => expand r (repeat (bval b) (bn b) ++ acc)
  end.

(* weighted isotonic regression of e with weights w *)
Definition iso (ew : list (Q * Q)) : list Q := expand (build ew []) [].

(* cumulative gap offsets  a, a+g0, a+g0+g1, ...  (length |g| + 1) *)
Fixpoint offsets (a : Q) (g : list Q) : list Q :=
  a :: match g with
       | [] => []
       | x :: r => offsets (Qred (a + x)) r
       end.

Definition pava (d w g : list Q) : list Q :=
  let G := offsets 0 g in
  map2 Qplus (iso (combine (map2 Qminus d G) w)) G.

(* the quantities the theorems speak about *)
Definition cost (d w x : list Q) : Q :=
  Qsum (map2 Qmult w (map2 (fun xi di => (xi - di) * (xi - di)) x d)).

(* x_{i+1} - x_i >= g_i along the chain *)
Fixpoint feasible (g x : list Q) {struct x} : Prop :=
  match x with
  | a :: x' =>
      match x', g with
      | b :: _, gi :: g' => gi <= b - a /\ feasible g' x'
      | _, _ => True
      end
  | [] => True
  end.

Definition all_pos (w : list Q) : Prop := Forall (fun x => 0 < x) w.

(* a well-formed chain problem: n variables, n weights, n-1 gaps *)
Definition chain_ok (d w g : list Q) : Prop :=
  length w = length d /\ S (length g) = length d /\ all_pos w.
