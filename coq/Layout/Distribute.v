(* Faithful model of labella/distributor.py (class Distributor) and of the
   part of labella/force.py that calls it.  Model only: no proofs here.

   Numbers are exact rationals (DESIGN.md section 4).  A label is its
   (idealPos, width); the payload (`data`) is the label's identity and is
   represented by the label's index.  Inside the algorithms labels are
   *indices into the list the algorithm works on*: for "simple"/"overlap"
   that is `sorted(nodes, key=idealPos)` (distributor.py:60, a stable sort),
   for "none" it is the caller's list itself (distributor.py:55-58).
   An item of a layer is (label index, is_stub), in the implementation's list
   order.  The parent of an item of layer j is the item with the same label in
   layer j-1 (node.py:101-106: createStub links stub.child / node.parent). *)
From Coq Require Import ZArith QArith Qround List Bool Arith.
Import ListNotations.

Record label := mkLabel { l_pos : Q; l_width : Q }.
Definition label0 : label := mkLabel 0 0.

Inductive algo := AlgOverlap | AlgSimple | AlgNone.

(* distributor.py:14-20; layerWidth None is `None` *)
Record dopts := mkDopts {
  o_alg : algo;
  o_layerWidth : option Q;
  o_density : Q;
  o_spacing : Q;
  o_stub : Q }.

Definition item := (nat * bool)%type.
Definition mk_lab (i : nat) : item := (i, false).
Definition mk_stub (i : nat) : item := (i, true).
Definition is_stub (it : item) : bool := snd it.
Definition nonstubs (l : list item) : list item := filter (fun it => negb (snd it)) l.

Definition Qltb (x y : Q) : bool := negb (Qle_bool y x).

(* ---------- Python's stable sort ---------------------------------------- *)
(* `sorted(l, key=k)` / `l.sort(key=k)` : stable; with leb x y := k x <= k y.
   `l.sort(key=k, reverse=True)` : stable as well (equal keys keep their
   order); with leb x y := k x >= k y.  insert puts x in front of the first
   element y with leb x y; isort inserts from the right, so an element that
   came earlier stays in front of its equals. *)
Fixpoint insert {A} (leb : A -> A -> bool) (x : A) (l : list A) : list A :=
  match l with
  | [] => [x]
  | y :: l' => if leb x y then x :: l else y :: insert leb x l'
  end.
Fixpoint isort {A} (leb : A -> A -> bool) (l : list A) : list A :=
  match l with
  | [] => []
  | x :: l' => insert leb x (isort leb l')
  end.

(* distributor.py:60  nodes = sorted(nodes, key=lambda x: x.idealPos) *)
Definition pos_leb (a b : nat * label) : bool := Qle_bool (l_pos (snd a)) (l_pos (snd b)).
Definition sort_indexed (labels : list label) : list (nat * label) :=
  isort pos_leb (combine (seq 0 (length labels)) labels).
(* sort_perm: position in the sorted list -> index in the caller's list *)
Definition sort_perm (labels : list label) : list nat := map fst (sort_indexed labels).
Definition sort_labels (labels : list label) : list label := map snd (sort_indexed labels).

(* ---------- widths (distributor.py:30-50) -------------------------------- *)
(* computeRequiredWidth: total = 0; total += width + spacing ...; total -= spacing *)
Definition required_width (s : Q) (ws : list Q) : Q :=
  fold_left (fun t w => t + (w + s)) ws 0 - s.

(* `if self.options["layerWidth"]:`  None and 0 are falsy *)
Definition layer_width_set (o : dopts) : bool :=
  match o_layerWidth o with Some lw => negb (Qeq_bool lw 0) | None => false end.

(* maxWidthPerLayer: density * layerWidth (only evaluated when layerWidth is set) *)
Definition max_width (o : dopts) : Q :=
  match o_layerWidth o with Some lw => o_density o * lw | None => 0 end.

(* estimateRequiredLayers: ceil(required / maxWidth), 1 when layerWidth is None/0.
   (Python raises ZeroDivisionError when density = 0; density is in (0,1] in
   the documented domain, the API reports that case as out of domain.) *)
Definition estimate_layers (o : dopts) (ws : list Q) : Z :=
  if layer_width_set o
  then Qceiling (required_width (o_spacing o) ws / max_width o)
  else 1%Z.

Definition need_to_split (o : dopts) (ws : list Q) : bool :=
  (1 <? estimate_layers o ws)%Z.

(* ---------- list-of-layers updates --------------------------------------- *)
(* layers[m].append(x) *)
Fixpoint app_at (m : nat) (x : item) (ls : list (list item)) : list (list item) :=
  match ls with
  | [] => []
  | l :: ls' => match m with
                | O => (l ++ [x]) :: ls'
                | S m' => l :: app_at m' x ls'
                end
  end.
(* for j in range(m-1, -1, -1): layers[j].append(x)   (one append per layer) *)
Fixpoint app_upto (m : nat) (x : item) (ls : list (list item)) : list (list item) :=
  match m, ls with
  | S m', l :: ls' => (l ++ [x]) :: app_upto m' x ls'
  | _, _ => ls
  end.

(* ---------- algorithm "simple" (distributor.py:74-89) -------------------- *)
(* for i, node in enumerate(nodes): mod = i % numLayers; layers[mod].append(node);
   then one stub in each of the layers mod-1 .. 0 *)
Definition simple_step (L : nat) (ls : list (list item)) (i : nat) : list (list item) :=
  app_upto (i mod L) (mk_stub i) (app_at (i mod L) (mk_lab i) ls).
Definition alg_simple (L n : nat) : list (list item) :=
  fold_left (simple_step L) (seq 0 n) (repeat [] L).

(* ---------- algorithm "overlap" (distributor.py:95-163) ------------------ *)
Section Overlap.
  Variable srt : list label.        (* the sorted labels *)
  Variable o : dopts.

  Definition lab_at (i : nat) : label := nth i srt label0.
  Definition width_at (i : nat) : Q := l_width (lab_at i).
  (* node.py:89-93 *)
  Definition ideal_left (i : nat) : Q := l_pos (lab_at i) - l_width (lab_at i) / 2.
  Definition ideal_right (i : nat) : Q := l_pos (lab_at i) + l_width (lab_at i) / 2.

  (* intervaltree: tree.overlap(begin, end) returns the stored intervals iv with
     iv.begin < end and iv.end > begin.  Intervals are (begin, end, data) with
     distinct data, so equal intervals are distinct entries and a node's query
     returns the node itself (widths are positive). ov i j: node j is in node
     i's `overlaps` list. *)
  Definition ov (i j : nat) : bool :=
    Qltb (ideal_left j) (ideal_right i) && Qltb (ideal_left i) (ideal_right j).

  (* countIdealOverlaps (distributor.py:155-163) over the nodes `ps` *)
  Definition overlap_count (ps : list nat) (i : nat) : Z :=
    Z.of_nat (length (filter (ov i) ps)).
  Definition count_overlaps (ps : list nat) : list (nat * Z) :=
    map (fun i => (i, overlap_count ps i)) ps.

  (* nodesInCurrentLayer.sort(key=overlapCount, reverse=True) *)
  Definition cnt_geb (a b : nat * Z) : bool := (snd b <=? snd a)%Z.

  (* for node in first.overlaps: node.overlapCount -= 1   (only the nodes still
     in the current layer matter: the others are re-counted before their
     counts are read again) *)
  Definition dec_counts (f : nat) (cur : list (nat * Z)) : list (nat * Z) :=
    map (fun e => if ov f (fst e) then (fst e, (snd e - 1)%Z) else e) cur.

  Definition widths_of (ids : list nat) : list Q := map width_at ids.

  (* inner while (distributor.py:109-127).  None = out of fuel / impossible *)
  Fixpoint inner (fuel : nat) (cur : list (nat * Z)) (cw : Q) (punted : list nat)
    : option (list nat * list nat) :=
    if (2 <? length cur)%nat && Qltb (max_width o) cw then
      match fuel with
      | O => None
      | S fuel' =>
          match isort cnt_geb cur with
          | [] => None
          | first :: rest =>
              inner fuel' (dec_counts (fst first) rest)
                    (cw - width_at (fst first) + o_stub o)
                    (punted ++ [fst first])
          end
      end
    else Some (map fst cur, punted).

  (* outer while (distributor.py:103-131) and the final append (:133-134);
     result: the labels of each layer, in list order, before stubs exist *)
  Fixpoint outer (fuel : nat) (punted : list nat) : option (list (list nat)) :=
    let pw := required_width (o_spacing o) (widths_of punted) in
    if Qltb (max_width o) pw then
      match fuel with
      | O => None
      | S fuel' =>
          match inner (length punted) (count_overlaps punted) pw [] with
          | None => None
          | Some (layer, punted') =>
              match outer fuel' punted' with
              | None => None
              | Some rest => Some (layer :: rest)
              end
          end
      end
    else Some (match punted with [] => [] | _ => [punted] end).
End Overlap.

(* stub creation (distributor.py:136-151): for i = last .. 1, for every item of
   layers[i] that is not a stub (in list order; the list is read once, it is
   not changed while it is read), one stub in each of the layers i-1 .. 0 *)
Definition stub_step (ls : list (list item)) (i : nat) : list (list item) :=
  fold_left (fun acc it => if is_stub it then acc else app_upto i (mk_stub (fst it)) acc)
            (nth i ls []) ls.
Definition stub_pass (ls : list (list item)) : list (list item) :=
  fold_left stub_step (rev (seq 1 (length ls - 1))) ls.

Definition alg_overlap (o : dopts) (srt : list label) : option (list (list item)) :=
  let n := length srt in
  match outer srt o (S n) (seq 0 n) with
  | None => None
  | Some bases => Some (stub_pass (map (map mk_lab) bases))
  end.

(* ---------- distribute (distributor.py:52-72) ----------------------------- *)
Definition all_labels (n : nat) : list item := map mk_lab (seq 0 n).

(* the list the label indices refer to, and where its entries come from *)
Definition dist_sorted (o : dopts) (labels : list label) : list label :=
  match o_alg o with AlgNone => labels | _ => sort_labels labels end.
Definition dist_perm (o : dopts) (labels : list label) : list nat :=
  match o_alg o with AlgNone => seq 0 (length labels) | _ => sort_perm labels end.

(* None = out of fuel (proved unreachable on the documented domain) *)
Definition distribute (o : dopts) (labels : list label) : option (list (list item)) :=
  match labels with
  | [] => Some []
  | _ =>
      let n := length labels in
      match o_alg o with
      | AlgNone => Some [all_labels n]
      | a =>
          let srt := sort_labels labels in
          let ws := map l_width srt in
          if negb (need_to_split o ws) then Some [all_labels n]
          else match a with
               | AlgSimple => Some (alg_simple (Z.to_nat (estimate_layers o ws)) n)
               | _ => alg_overlap o srt
               end
      end
  end.

(* width of an item, and the width a whole layer needs (labels, stubs, spacing) *)
Definition item_width (o : dopts) (srt : list label) (it : item) : Q :=
  if is_stub it then o_stub o else l_width (nth (fst it) srt label0).
Definition item_pos (srt : list label) (it : item) : Q := l_pos (nth (fst it) srt label0).
Definition layer_required_width (o : dopts) (srt : list label) (l : list item) : Q :=
  required_width (o_spacing o) (map (item_width o srt) l).

(* ---------- the engine's use of the distributor (force.py:25-79) ---------- *)
(* Force options relevant here (force.py:13-20); set_options (:33-54) copies
   algorithm/density/nodeSpacing/stubWidth to the distributor and derives
   layerWidth = maxPos - minPos when both are given, else None. *)
Record fopts := mkFopts {
  f_alg : algo;
  f_minPos : option Q;
  f_maxPos : option Q;
  f_density : Q;
  f_spacing : Q;
  f_stub : Q }.

Definition dopts_of_fopts (f : fopts) : dopts :=
  mkDopts (f_alg f)
          (match f_minPos f, f_maxPos f with
           | Some a, Some b => Some (b - a)
           | _, _ => None
           end)
          (f_density f) (f_spacing f) (f_stub f).

(* compute(): layers = self.distributor.distribute(self._nodes); self.layers = layers.
   (removeOverlap then sorts every layer list in place by target position:
   getLayers() reports the same layers, items stably re-sorted by target.) *)
Definition force_layers (f : fopts) (labels : list label) : option (list (list item)) :=
  distribute (dopts_of_fopts f) labels.

(* ---------- documented domain (DESIGN.md Appendix B) ---------------------- *)
Definition dist_dom (o : dopts) (labels : list label) : Prop :=
  (forall l, In l labels -> 0 < l_width l) /\
  0 <= o_spacing o /\ 0 <= o_stub o /\ 0 < o_density o.
Definition dist_dom_b (o : dopts) (labels : list label) : bool :=
  forallb (fun l => Qltb 0 (l_width l)) labels &&
  Qle_bool 0 (o_spacing o) && Qle_bool 0 (o_stub o) && Qltb 0 (o_density o).
