(* Proofs about Layout/Distribute.v, part 1: sorting, widths, list-of-layers
   updates, counting, and the characterisation `well_layered` from which the
   structural clauses of property C04 follow. *)
From Coq Require Import ZArith QArith Qround List Bool Arith Lia Lqa Permutation.
From Labella Require Import Layout.Distribute.
Import ListNotations.
Open Scope nat_scope.

(* ---------- stable insertion sort --------------------------------------- *)
Lemma insert_perm {A} (leb : A -> A -> bool) x l : Permutation (insert leb x l) (x :: l).
Proof.
  induction l as [|y l IH]; cbn [insert]; [reflexivity|].
  destruct (leb x y); [reflexivity|].
  etransitivity; [apply perm_skip, IH|apply perm_swap].
Qed.

Lemma isort_perm {A} (leb : A -> A -> bool) l : Permutation (isort leb l) l.
Proof.
  induction l as [|x l IH]; cbn [isort]; [reflexivity|].
  etransitivity; [apply insert_perm|apply perm_skip, IH].
Qed.

Lemma isort_length {A} (leb : A -> A -> bool) l : length (isort leb l) = length l.
Proof. apply Permutation_length, isort_perm. Qed.

Lemma sort_indexed_perm labels :
  Permutation (sort_indexed labels) (combine (seq 0 (length labels)) labels).
Proof. apply isort_perm. Qed.

Lemma map_fst_combine {A B} (l : list A) (l' : list B) :
  length l = length l' -> map fst (combine l l') = l.
Proof.
  revert l'; induction l as [|a l IH]; intros [|b l'] H; cbn in *; try lia; [reflexivity|].
  f_equal. apply IH. lia.
Qed.
Lemma map_snd_combine {A B} (l : list A) (l' : list B) :
  length l = length l' -> map snd (combine l l') = l'.
Proof.
  revert l'; induction l as [|a l IH]; intros [|b l'] H; cbn in *; try lia; [reflexivity|].
  f_equal. apply IH. lia.
Qed.

Lemma sort_perm_perm labels : Permutation (sort_perm labels) (seq 0 (length labels)).
Proof.
  unfold sort_perm.
  etransitivity; [apply Permutation_map, sort_indexed_perm|].
  rewrite map_fst_combine by (now rewrite seq_length). reflexivity.
Qed.

Lemma sort_labels_perm labels : Permutation (sort_labels labels) labels.
Proof.
  unfold sort_labels.
  etransitivity; [apply Permutation_map, sort_indexed_perm|].
  rewrite map_snd_combine by (now rewrite seq_length). reflexivity.
Qed.

Lemma sort_labels_length labels : length (sort_labels labels) = length labels.
Proof. apply Permutation_length, sort_labels_perm. Qed.

(* the sorted list is the caller's list read through sort_perm *)
Lemma combine_nth_seq (labels : list label) : forall p,
  In p (combine (seq 0 (length labels)) labels) -> nth (fst p) labels label0 = snd p.
Proof.
  intros [i l] H. cbn [fst snd].
  assert (G : forall (ls : list label) s, In (i, l) (combine (seq s (length ls)) ls) ->
              s <= i /\ nth (i - s) ls label0 = l).
  { induction ls as [|a ls IH]; intros s Hin; cbn in Hin; [contradiction|].
    destruct Hin as [E|Hin].
    - inversion E; subst. rewrite Nat.sub_diag. now split.
    - destruct (IH (S s) Hin) as [Hle Hn]. split; [lia|].
      replace (i - s) with (S (i - S s)) by lia. exact Hn. }
  destruct (G labels 0 H) as [_ Hn]. now rewrite Nat.sub_0_r in Hn.
Qed.

Lemma sort_labels_via_perm labels :
  sort_labels labels = map (fun i => nth i labels label0) (sort_perm labels).
Proof.
  unfold sort_labels, sort_perm. rewrite map_map.
  apply map_ext_in. intros p Hp. symmetry. apply combine_nth_seq.
  eapply Permutation_in; [apply sort_indexed_perm|exact Hp].
Qed.

(* ---------- rational sums and the required width ------------------------ *)
Definition qsum (l : list Q) : Q := fold_right Qplus 0%Q l.
Definition qn (n : nat) : Q := inject_Z (Z.of_nat n).

Lemma qn_0 : (qn 0 == 0)%Q.
Proof. reflexivity. Qed.
Lemma qn_S n : (qn (S n) == qn n + 1)%Q.
Proof. unfold qn. rewrite Nat2Z.inj_succ. unfold Z.succ. rewrite inject_Z_plus. reflexivity. Qed.
Lemma qn_plus n m : (qn (n + m) == qn n + qn m)%Q.
Proof. unfold qn. rewrite Nat2Z.inj_add, inject_Z_plus. reflexivity. Qed.
Lemma qn_nonneg n : (0 <= qn n)%Q.
Proof. unfold qn. change 0%Q with (inject_Z 0). rewrite <- Zle_Qle. lia. Qed.

Lemma qsum_cons x l : qsum (x :: l) = (x + qsum l)%Q.
Proof. reflexivity. Qed.

Lemma qsum_app l l' : (qsum (l ++ l') == qsum l + qsum l')%Q.
Proof.
  induction l as [|x l IH]; cbn [app].
  - change (qsum []) with 0%Q. ring.
  - rewrite !qsum_cons, IH. ring.
Qed.

Lemma qsum_perm l l' : Permutation l l' -> (qsum l == qsum l')%Q.
Proof.
  induction 1; rewrite ?qsum_cons; try reflexivity.
  - rewrite IHPermutation. reflexivity.
  - ring.
  - etransitivity; eassumption.
Qed.

Lemma qsum_nonneg l : (forall x, In x l -> (0 <= x)%Q) -> (0 <= qsum l)%Q.
Proof.
  induction l as [|x l IH]; intros H; [cbn; lra|].
  rewrite qsum_cons. assert (0 <= x)%Q by (apply H; now left).
  assert (0 <= qsum l)%Q by (apply IH; intros; apply H; now right). lra.
Qed.

Lemma qsum_pos l : l <> [] -> (forall x, In x l -> (0 < x)%Q) -> (0 < qsum l)%Q.
Proof.
  destruct l as [|x l]; [congruence|]. intros _ H. rewrite qsum_cons.
  assert (0 < x)%Q by (apply H; now left).
  assert (0 <= qsum l)%Q by (apply qsum_nonneg; intros y Hy; apply Qlt_le_weak, H; now right). lra.
Qed.

Lemma fold_left_req s ws : forall a,
  (fold_left (fun t w => t + (w + s)) ws a == a + qsum ws + qn (length ws) * s)%Q.
Proof.
  induction ws as [|w ws IH]; intro a; cbn [fold_left length].
  - rewrite qn_0. cbn [qsum fold_right]. ring.
  - rewrite IH, qsum_cons, qn_S. ring.
Qed.

Lemma required_width_eq s ws :
  (required_width s ws == qsum ws + (qn (length ws) - 1) * s)%Q.
Proof. unfold required_width. rewrite fold_left_req. ring. Qed.

Lemma required_width_perm s ws ws' :
  Permutation ws ws' -> (required_width s ws == required_width s ws')%Q.
Proof.
  intro H. rewrite !required_width_eq, (qsum_perm _ _ H), (Permutation_length H). reflexivity.
Qed.

Lemma required_width_nil s : (required_width s [] == - s)%Q.
Proof. rewrite required_width_eq. cbn [length qsum fold_right]. rewrite qn_0. ring. Qed.

Lemma required_width_pos s ws :
  ws <> [] -> (forall w, In w ws -> (0 < w)%Q) -> (0 <= s)%Q -> (0 < required_width s ws)%Q.
Proof.
  intros Hne Hw Hs. rewrite required_width_eq.
  pose proof (qsum_pos ws Hne Hw) as Hp.
  destruct ws as [|w ws]; [congruence|]. cbn [length]. rewrite qn_S.
  pose proof (qn_nonneg (length ws)) as Hn.
  assert (0 <= qn (length ws) * s)%Q by (apply Qmult_le_0_compat; assumption).
  lra.
Qed.

(* ---------- boolean comparisons ----------------------------------------- *)
Lemma Qltb_true x y : Qltb x y = true <-> (x < y)%Q.
Proof.
  unfold Qltb. rewrite negb_true_iff. split.
  - intro H. apply Qnot_le_lt. intro C. apply Qle_bool_iff in C. congruence.
  - intro H. destruct (Qle_bool y x) eqn:E; [|reflexivity].
    apply Qle_bool_iff in E. exfalso. eapply Qlt_not_le; eassumption.
Qed.
Lemma Qltb_false x y : Qltb x y = false <-> (y <= x)%Q.
Proof.
  unfold Qltb. rewrite negb_false_iff. apply Qle_bool_iff.
Qed.

(* ---------- estimate / need_to_split ------------------------------------ *)
Lemma Qceiling_gt_1 x : (1 < Qceiling x)%Z <-> (1 < x)%Q.
Proof.
  split; intro H.
  - pose proof (Qceiling_lt x) as L.
    assert (1 <= Qceiling x - 1)%Z by lia.
    apply (Qle_lt_trans _ (inject_Z (Qceiling x - 1))); [|exact L].
    change 1%Q with (inject_Z 1). now rewrite <- Zle_Qle.
  - pose proof (Qle_ceiling x) as L.
    assert (1 < inject_Z (Qceiling x))%Q by (eapply Qlt_le_trans; eassumption).
    change 1%Q with (inject_Z 1) in H0. now rewrite <- Zlt_Qlt in H0.
Qed.

Lemma need_to_split_unset o ws : layer_width_set o = false -> need_to_split o ws = false.
Proof. intro H. unfold need_to_split, estimate_layers. rewrite H. reflexivity. Qed.

(* with a positive budget: split iff the required width exceeds it *)
Lemma need_to_split_pos o ws :
  layer_width_set o = true -> (0 < max_width o)%Q ->
  (need_to_split o ws = true <-> (max_width o < required_width (o_spacing o) ws)%Q).
Proof.
  intros Hset Hmw. unfold need_to_split, estimate_layers. rewrite Hset.
  rewrite Z.ltb_lt, Qceiling_gt_1. split; intro H.
  - apply (Qmult_lt_compat_r _ _ (max_width o)) in H; [|exact Hmw].
    rewrite Qmult_1_l in H. unfold Qdiv in H.
    rewrite <- Qmult_assoc, (Qmult_comm (/ _)), Qmult_inv_r, Qmult_1_r in H; [exact H|].
    intro E. rewrite E in Hmw. now apply Qlt_irrefl in Hmw.
  - apply Qlt_shift_div_l; [exact Hmw|]. now rewrite Qmult_1_l.
Qed.

(* a split is only ever requested with a positive budget (required width >= 0) *)
Lemma need_to_split_budget_pos o ws :
  (0 <= required_width (o_spacing o) ws)%Q -> need_to_split o ws = true ->
  layer_width_set o = true /\ (0 < max_width o)%Q.
Proof.
  intros Hreq H. destruct (layer_width_set o) eqn:Hset;
    [|rewrite need_to_split_unset in H by assumption; discriminate].
  split; [reflexivity|].
  unfold need_to_split, estimate_layers in H. rewrite Hset in H.
  apply Z.ltb_lt, Qceiling_gt_1 in H.
  destruct (Qlt_le_dec 0 (max_width o)) as [L|L]; [exact L|exfalso].
  assert (required_width (o_spacing o) ws / max_width o <= 0)%Q; [|lra].
  unfold Qdiv.
  destruct (Qeq_dec (max_width o) 0) as [E|E].
  - rewrite E. cbn. rewrite Qmult_0_r. lra.
  - assert (Hneg : (max_width o < 0)%Q)
      by (destruct (Qlt_le_dec (max_width o) 0); [assumption|exfalso; apply E; lra]).
    fold (Qdiv (required_width (o_spacing o) ws) (max_width o)).
    setoid_replace (required_width (o_spacing o) ws / max_width o)%Q
      with ((- required_width (o_spacing o) ws) / (- max_width o))%Q by (field; exact E).
    apply Qle_shift_div_r; lra.
Qed.

(* ---------- app_at / app_upto ------------------------------------------- *)
Lemma app_at_length m x ls : length (app_at m x ls) = length ls.
Proof. revert m; induction ls as [|l ls IH]; intros [|m]; cbn; auto. Qed.
Lemma app_upto_length m x ls : length (app_upto m x ls) = length ls.
Proof. revert ls; induction m as [|m IH]; intros [|l ls]; cbn; auto. Qed.

Lemma nth_app_at m x ls j :
  nth j (app_at m x ls) [] =
  if (j =? m) && (m <? length ls) then nth j ls [] ++ [x] else nth j ls [].
Proof.
  revert m j; induction ls as [|l ls IH]; intros m j.
  - destruct m; cbn [app_at length]; rewrite andb_false_r; reflexivity.
  - destruct m as [|m], j as [|j]; cbn [app_at nth length]; try reflexivity.
    rewrite IH. cbn [Nat.eqb]. replace (S m <? S (length ls)) with (m <? length ls); [reflexivity|].
    destruct (m <? length ls) eqn:E; symmetry; [apply Nat.ltb_lt in E|apply Nat.ltb_ge in E];
      [apply Nat.ltb_lt|apply Nat.ltb_ge]; lia.
Qed.

Lemma nth_app_upto m x ls j :
  nth j (app_upto m x ls) [] =
  if (j <? m) && (j <? length ls) then nth j ls [] ++ [x] else nth j ls [].
Proof.
  revert ls j; induction m as [|m IH]; intros ls j.
  - cbn [app_upto]. destruct ls; reflexivity.
  - destruct ls as [|l ls].
    + cbn [app_upto length]. rewrite andb_false_r. reflexivity.
    + destruct j as [|j]; cbn [app_upto nth length]; [reflexivity|].
      rewrite IH. change (S j <? S m) with (j <? m). change (S j <? S (length ls)) with (j <? length ls).
      reflexivity.
Qed.

(* ---------- counting items ---------------------------------------------- *)
Definition item_dec : forall x y : item, {x = y} + {x <> y}.
Proof. decide equality; [apply bool_dec|apply Nat.eq_dec]. Defined.

Definition cnt (l : list item) (x : item) : nat := count_occ item_dec l x.

Lemma cnt_app l l' x : cnt (l ++ l') x = cnt l x + cnt l' x.
Proof. apply count_occ_app. Qed.
Lemma cnt_nil x : cnt [] x = 0.
Proof. reflexivity. Qed.
Lemma cnt_single y x : cnt [y] x = if item_dec y x then 1 else 0.
Proof. unfold cnt. cbn. destruct (item_dec y x); reflexivity. Qed.
Lemma cnt_In l x : In x l <-> 0 < cnt l x.
Proof. apply count_occ_In. Qed.
Lemma cnt_not_In l x : ~ In x l -> cnt l x = 0.
Proof. apply count_occ_not_In. Qed.

Lemma mk_lab_inj i j : mk_lab i = mk_lab j -> i = j.
Proof. now inversion 1. Qed.
Lemma mk_stub_inj i j : mk_stub i = mk_stub j -> i = j.
Proof. now inversion 1. Qed.

Lemma cnt_map_lab b i : cnt (map mk_lab b) (mk_lab i) = count_occ Nat.eq_dec b i.
Proof. unfold cnt. symmetry. apply count_occ_map, mk_lab_inj. Qed.
Lemma cnt_map_stub b i : cnt (map mk_stub b) (mk_stub i) = count_occ Nat.eq_dec b i.
Proof. unfold cnt. symmetry. apply count_occ_map, mk_stub_inj. Qed.
Lemma cnt_map_lab_stub b i : cnt (map mk_lab b) (mk_stub i) = 0.
Proof. apply cnt_not_In. rewrite in_map_iff. intros [x [E _]]. discriminate. Qed.
Lemma cnt_map_stub_lab b i : cnt (map mk_stub b) (mk_lab i) = 0.
Proof. apply cnt_not_In. rewrite in_map_iff. intros [x [E _]]. discriminate. Qed.

Lemma count_occ_seq i : forall n s, count_occ Nat.eq_dec (seq s n) i = if (s <=? i) && (i <? s + n) then 1 else 0.
Proof.
  induction n as [|n IH]; intro s; cbn [seq count_occ].
  - replace (i <? s + 0) with (i <? s) by (f_equal; lia).
    destruct (s <=? i) eqn:A, (i <? s) eqn:B; try reflexivity.
    apply Nat.leb_le in A. apply Nat.ltb_lt in B. lia.
  - rewrite IH. destruct (Nat.eq_dec s i) as [E|E].
    + subst. replace (S i <=? i) with false by (symmetry; apply Nat.leb_gt; lia).
      replace (i <=? i) with true by (symmetry; apply Nat.leb_le; lia).
      replace (i <? i + S n) with true by (symmetry; apply Nat.ltb_lt; lia). reflexivity.
    + destruct (S s <=? i) eqn:A, (s <=? i) eqn:B, (i <? S s + n) eqn:C, (i <? s + S n) eqn:D; try reflexivity;
      repeat match goal with
             | H : (_ <=? _) = true |- _ => apply Nat.leb_le in H
             | H : (_ <=? _) = false |- _ => apply Nat.leb_gt in H
             | H : (_ <? _) = true |- _ => apply Nat.ltb_lt in H
             | H : (_ <? _) = false |- _ => apply Nat.ltb_ge in H
             end; lia.
Qed.

(* labels of a layering: the non-stub items of all layers, in order *)
Definition labels_of (ls : list (list item)) : list nat := map fst (nonstubs (concat ls)).

Lemma count_labels_layer l i : count_occ Nat.eq_dec (map fst (nonstubs l)) i = cnt l (mk_lab i).
Proof.
  induction l as [|[j b] l IH]; [reflexivity|].
  unfold nonstubs in *. cbn [filter snd negb].
  destruct b; cbn [negb].
  - unfold cnt in *. rewrite count_occ_cons_neq by (unfold mk_lab; congruence). exact IH.
  - cbn [map fst]. unfold cnt in *. destruct (Nat.eq_dec j i) as [E|E].
    + subst. rewrite !count_occ_cons_eq by reflexivity. now rewrite IH.
    + rewrite !count_occ_cons_neq by (unfold mk_lab; congruence). exact IH.
Qed.

Lemma nonstubs_app l l' : nonstubs (l ++ l') = nonstubs l ++ nonstubs l'.
Proof. apply filter_app. Qed.

Lemma count_labels_of ls i :
  count_occ Nat.eq_dec (labels_of ls) i = fold_right (fun l a => cnt l (mk_lab i) + a) 0 ls.
Proof.
  unfold labels_of. induction ls as [|l ls IH]; [reflexivity|].
  cbn [concat fold_right]. rewrite nonstubs_app, map_app, count_occ_app, (count_labels_layer l).
  f_equal. exact IH.
Qed.

(* a sum of indicator values *)
Lemma sum_indicator {A} (f : A -> nat) (d : A) : forall (ls : list A) k,
  k < length ls ->
  (forall j, j < length ls -> f (nth j ls d) = if j =? k then 1 else 0) ->
  fold_right (fun l a => f l + a) 0 ls = 1.
Proof.
  assert (Z0 : forall ls : list A, (forall j, j < length ls -> f (nth j ls d) = 0) ->
                fold_right (fun l a => f l + a) 0 ls = 0).
  { induction ls as [|l ls IH]; intro H; [reflexivity|]. cbn [fold_right].
    pose proof (H 0 ltac:(cbn; lia)) as H0. cbn [nth] in H0. rewrite H0.
    rewrite IH; [reflexivity|].
    intros j Hj. apply (H (S j)). cbn; lia. }
  induction ls as [|l ls IH]; intros k Hk H; cbn [length] in *; [lia|].
  cbn [fold_right]. pose proof (H 0 ltac:(lia)) as H0. cbn [nth] in H0. rewrite H0.
  destruct k as [|k]; cbn [Nat.eqb].
  - rewrite Z0; [reflexivity|].
    intros j Hj. pose proof (H (S j) ltac:(lia)) as HS. cbn [nth Nat.eqb] in HS. exact HS.
  - rewrite (IH k); [reflexivity|lia|].
    intros j Hj. pose proof (H (S j) ltac:(lia)) as HS. cbn [nth Nat.eqb] in HS. exact HS.
Qed.

(* ---------- the structural characterisation ------------------------------ *)
(* n labels 0..n-1; lay i = the layer of label i.  Every layer holds exactly
   the labels assigned to it and exactly one stub for every label assigned
   to a farther layer, and nothing else. *)
Record well_layered (n : nat) (lay : nat -> nat) (ls : list (list item)) : Prop := {
  wl_lay : forall i, i < n -> lay i < length ls;
  wl_lab : forall j i, j < length ls -> i < n ->
             cnt (nth j ls []) (mk_lab i) = if j =? lay i then 1 else 0;
  wl_stub : forall j i, j < length ls -> i < n ->
             cnt (nth j ls []) (mk_stub i) = if j <? lay i then 1 else 0;
  wl_range : forall j it, In it (nth j ls []) -> fst it < n }.

Lemma nth_In_lt {A} (ls : list (list A)) j x : In x (nth j ls []) -> j < length ls.
Proof.
  intro H. destruct (Nat.lt_ge_cases j (length ls)) as [L|L]; [exact L|].
  rewrite nth_overflow in H by exact L. contradiction.
Qed.

Lemma wl_label_layer n lay ls : well_layered n lay ls ->
  forall k i, In (mk_lab i) (nth k ls []) -> i < n /\ k = lay i.
Proof.
  intros W k i H. pose proof (nth_In_lt _ _ _ H) as Hk.
  pose proof (wl_range _ _ _ W _ _ H) as Hi. cbn in Hi. split; [exact Hi|].
  apply cnt_In in H. rewrite (wl_lab _ _ _ W) in H by assumption.
  destruct (k =? lay i) eqn:E; [now apply Nat.eqb_eq|lia].
Qed.

Lemma wl_stub_layer n lay ls : well_layered n lay ls ->
  forall j i, In (mk_stub i) (nth j ls []) -> i < n /\ j < lay i.
Proof.
  intros W j i H. pose proof (nth_In_lt _ _ _ H) as Hj.
  pose proof (wl_range _ _ _ W _ _ H) as Hi. cbn in Hi. split; [exact Hi|].
  apply cnt_In in H. rewrite (wl_stub _ _ _ W) in H by assumption.
  destruct (j <? lay i) eqn:E; [now apply Nat.ltb_lt|lia].
Qed.

Lemma wl_label_in n lay ls : well_layered n lay ls ->
  forall i, i < n -> In (mk_lab i) (nth (lay i) ls []).
Proof.
  intros W i Hi. apply cnt_In. rewrite (wl_lab _ _ _ W); [|now apply (wl_lay _ _ _ W)|exact Hi].
  rewrite Nat.eqb_refl. lia.
Qed.

Lemma wl_conservation n lay ls : well_layered n lay ls ->
  Permutation (labels_of ls) (seq 0 n).
Proof.
  intro W. apply (Permutation_count_occ Nat.eq_dec). intro i.
  rewrite count_labels_of, count_occ_seq. cbn [Nat.leb andb Nat.add].
  destruct (i <? n) eqn:E.
  - apply Nat.ltb_lt in E.
    apply (sum_indicator (fun l => cnt l (mk_lab i)) [] ls (lay i)).
    + now apply (wl_lay _ _ _ W).
    + intros j Hj. now apply (wl_lab _ _ _ W).
  - apply Nat.ltb_ge in E.
    assert (G : forall ls' : list (list item), (forall l, In l ls' -> ~ In (mk_lab i) l) ->
                fold_right (fun l a => cnt l (mk_lab i) + a) 0 ls' = 0).
    { induction ls' as [|l ls' IH]; intro H; [reflexivity|]. cbn [fold_right].
      rewrite cnt_not_In by (apply H; now left). rewrite IH; [reflexivity|].
      intros; apply H; now right. }
    apply G. intros l Hl Hin.
    destruct (In_nth _ _ [] Hl) as [j [Hj Ej]]. subst l.
    pose proof (wl_range _ _ _ W _ _ Hin) as R. cbn in R. lia.
Qed.

(* chains: a label of layer k has exactly one stub in every nearer layer and
   none elsewhere; every stub belongs to a label of a farther layer *)
Lemma wl_chains n lay ls : well_layered n lay ls ->
  forall k i, In (mk_lab i) (nth k ls []) ->
    forall j, cnt (nth j ls []) (mk_stub i) = if j <? k then 1 else 0.
Proof.
  intros W k i H j. destruct (wl_label_layer _ _ _ W _ _ H) as [Hi Hk]. subst k.
  destruct (Nat.lt_ge_cases j (length ls)) as [L|L].
  - now apply (wl_stub _ _ _ W).
  - rewrite nth_overflow by exact L. rewrite cnt_nil.
    pose proof (wl_lay _ _ _ W i Hi).
    replace (j <? lay i) with false; [reflexivity|]. symmetry. apply Nat.ltb_ge. lia.
Qed.

Lemma wl_unique_label n lay ls : well_layered n lay ls ->
  forall k i, In (mk_lab i) (nth k ls []) ->
    forall j, cnt (nth j ls []) (mk_lab i) = if j =? k then 1 else 0.
Proof.
  intros W k i H j. destruct (wl_label_layer _ _ _ W _ _ H) as [Hi Hk]. subst k.
  destruct (Nat.lt_ge_cases j (length ls)) as [L|L].
  - now apply (wl_lab _ _ _ W).
  - rewrite nth_overflow by exact L. rewrite cnt_nil.
    pose proof (wl_lay _ _ _ W i Hi).
    replace (j =? lay i) with false; [reflexivity|]. symmetry. apply Nat.eqb_neq. lia.
Qed.

Lemma wl_stub_owner n lay ls : well_layered n lay ls ->
  forall j i, In (mk_stub i) (nth j ls []) ->
    exists k, j < k /\ In (mk_lab i) (nth k ls []).
Proof.
  intros W j i H. destruct (wl_stub_layer _ _ _ W _ _ H) as [Hi Hj].
  exists (lay i). split; [exact Hj|]. now apply (wl_label_in _ _ _ W).
Qed.

(* total number of items: sum over layers k of (k+1) * (labels of layer k) *)
Fixpoint weighted (k : nat) (ls : list (list item)) : nat :=
  match ls with
  | [] => 0
  | l :: r => S k * length (nonstubs l) + weighted (S k) r
  end.

Lemma weighted_shift ls : forall k,
  weighted (S k) ls = weighted k ls + length (nonstubs (concat ls)).
Proof.
  induction ls as [|l ls IH]; intro k; [reflexivity|].
  cbn [weighted concat]. rewrite nonstubs_app, app_length, (IH (S k)). lia.
Qed.

(* ---------- a single layer holding all labels ---------------------------- *)
Lemma nonstubs_map_lab b : nonstubs (map mk_lab b) = map mk_lab b.
Proof. induction b as [|x b IH]; [reflexivity|]. unfold nonstubs in *. cbn. now rewrite IH. Qed.
Lemma nonstubs_map_stub b : nonstubs (map mk_stub b) = [].
Proof. induction b as [|x b IH]; [reflexivity|]. unfold nonstubs in *. cbn. exact IH. Qed.

Lemma single_well_layered n : 0 < n -> well_layered n (fun _ => 0) [all_labels n].
Proof.
  intro Hn. unfold all_labels. split; cbn [length].
  - intros; lia.
  - intros j i Hj Hi. assert (j = 0) by lia. subst. cbn [nth Nat.eqb].
    rewrite cnt_map_lab, count_occ_seq. cbn [Nat.leb andb Nat.add].
    apply Nat.ltb_lt in Hi. now rewrite Hi.
  - intros j i Hj Hi. assert (j = 0) by lia. subst. cbn [nth Nat.ltb Nat.leb].
    apply cnt_map_lab_stub.
  - intros j it H. destruct j as [|[|j]]; cbn [nth] in H; try contradiction.
    apply in_map_iff in H. destruct H as [x [E Hx]]. subst it. cbn. apply in_seq in Hx. lia.
Qed.

Lemma single_total n : length (concat [all_labels n]) = weighted 0 [all_labels n].
Proof.
  cbn [concat weighted]. rewrite app_nil_r. unfold all_labels.
  rewrite nonstubs_map_lab. lia.
Qed.

Lemma NoDup_app_inv {A} (l l' : list A) :
  NoDup (l ++ l') -> NoDup l /\ NoDup l' /\ (forall x, In x l -> In x l' -> False).
Proof.
  induction l as [|a l IH]; cbn [app]; intro N.
  - repeat split; [constructor|exact N|intros x []].
  - inversion N as [|a0 l0 Hn N']; subst. destruct (IH N') as [N1 [N2 D]].
    repeat split.
    + constructor; [|exact N1]. intro H. apply Hn, in_or_app. now left.
    + exact N2.
    + intros x [->|Hx] Hx'; [apply Hn, in_or_app; now right|now apply (D x)].
Qed.
