(* Model of the layout engine as a state machine (labella/force.py, with the
   parts of node.py, distributor.py and removeOverlap.py that touch node
   state), parametrised over the per-layer solver.  Model only: no proofs.

   The per-layer solver is abstract:  solve lo items  receives the items of one
   layer *after* removeOverlap's stable in-place sort by target position
   (removeOverlap.py:40-45), each as (target, width, is_stub), with the options
   removeOverlap reads, and returns the rounded positions in that order
   (removeOverlap.py:47-83: variables, constraints, walls, VPSC, round).  Every
   item is assigned a position (`for v in variables: v.node.currentPos = ...`):
   item j receives  nth j (solve lo items) 0.

   Node objects keep, besides identity, ideal position and width, the mutable
   fields an earlier layout leaves behind and the code could read:
     currentPos (node.py:14, createStub copies it: node.py:103),
     layerIndex (force.py:77), parent (node.py:95-99,105; read by
     removeOverlap.py:40-43 as parent.currentPos), child (isStub, node.py:108),
     overlapCount (distributor.py:112,124,163).
   overlapCount is written for every node of a round by countIdealOverlaps
   before the round reads it (distributor.py:104,155-163); Layout/Distribute.v
   models exactly that by recomputing the counts from positions and widths, so
   the field is carried along here but never read, and its value after a
   layout is not tracked. *)
From Coq Require Import ZArith QArith List Bool Arith.
From Labella Require Import Layout.Distribute.
Import ListNotations.

(* ---------- node objects -------------------------------------------------- *)
Record nodeobj := mkNode {
  n_id : nat;            (* object identity (the caller's numbering) *)
  n_pos : Q;             (* idealPos *)
  n_width : Q;
  n_child : bool;        (* has a child, i.e. isStub(); false for every label *)
  n_cur : Q;             (* currentPos *)
  n_layer : nat;         (* layerIndex *)
  n_parent : option Q;   (* parent link: the currentPos of the stub it points to *)
  n_ocount : Z }.        (* overlapCount *)

Definition node0 : nodeobj := mkNode 0 0 0 false 0 0 None 0.

(* Node(idealPos, width) : node.py:11-20 *)
Definition fresh_node (id : nat) (p w : Q) : nodeobj := mkNode id p w false p 0 None 0.

(* every field an earlier layout may have left behind, reset *)
Definition scrub_node (nd : nodeobj) : nodeobj :=
  mkNode (n_id nd) (n_pos nd) (n_width nd) (n_child nd) (n_pos nd) 0 None 0.

(* removeStub (node.py:95-99): drops the parent link (and the old stub's child link) *)
Definition remove_stub (nd : nodeobj) : nodeobj :=
  mkNode (n_id nd) (n_pos nd) (n_width nd) (n_child nd) (n_cur nd) (n_layer nd) None (n_ocount nd).

Definition label_of (nd : nodeobj) : label := mkLabel (n_pos nd) (n_width nd).
Definition nleb (a b : nodeobj) : bool := Qle_bool (n_pos a) (n_pos b).

(* ---------- options -------------------------------------------------------- *)
(* force.py:13-20 plus lineSpacing, which removeOverlap reads if present
   (removeOverlap.py:12-17,33-37: default 2) *)
Record eopts := mkEopts {
  e_alg : algo;
  e_minPos : option Q;
  e_maxPos : option Q;
  e_density : Q;
  e_spacing : Q;
  e_stub : Q;
  e_lineSpacing : option Q }.

(* the density default is the double 0.85, exactly *)
Definition default_eopts : eopts :=
  mkEopts AlgOverlap (Some 0) None (7656119366529843 # 9007199254740992) 3 1 None.

(* set_options(x): self.options.update(x), x any subset of the keys *)
Record eupdate := mkEupdate {
  u_alg : option algo;
  u_minPos : option (option Q);
  u_maxPos : option (option Q);
  u_density : option Q;
  u_spacing : option Q;
  u_stub : option Q;
  u_lineSpacing : option Q }.

Definition upd {A} (old : A) (new : option A) : A := match new with Some x => x | None => old end.

Definition apply_update (e : eopts) (u : eupdate) : eopts :=
  mkEopts (upd (e_alg e) (u_alg u)) (upd (e_minPos e) (u_minPos u)) (upd (e_maxPos e) (u_maxPos u))
          (upd (e_density e) (u_density u)) (upd (e_spacing e) (u_spacing u)) (upd (e_stub e) (u_stub u))
          (match u_lineSpacing u with Some x => Some x | None => e_lineSpacing e end).

(* force.py:38-54: every distributor option is overwritten at each set_options,
   so the distributor's options are a function of the engine's *)
Definition fopts_of_eopts (e : eopts) : fopts :=
  mkFopts (e_alg e) (e_minPos e) (e_maxPos e) (e_density e) (e_spacing e) (e_stub e).
Definition dopts_of_eopts (e : eopts) : dopts := dopts_of_fopts (fopts_of_eopts e).

(* the options removeOverlap sees (force.py:66-70, removeOverlap.py:33-37) *)
Record lopts := mkLopts {
  lo_lineSpacing : Q;
  lo_nodeSpacing : Q;
  lo_minPos : option Q;
  lo_maxPos : option Q }.
Definition lopts_of_eopts (e : eopts) : lopts :=
  mkLopts (match e_lineSpacing e with Some x => x | None => 2 end) (e_spacing e) (e_minPos e) (e_maxPos e).

(* what the solver sees of an item *)
Record litem := mkLitem { li_target : Q; li_width : Q; li_stub : bool }.

(* ---------- distribute on an already ordered list -------------------------- *)
(* distributor.py:52-72 after the sort: `distribute o labels` is
   `distribute_on o (dist_sorted o labels)` (proved in ForceStateProofs.v) *)
Definition distribute_on (o : dopts) (srt : list label) : option (list (list item)) :=
  match srt with
  | [] => Some []
  | _ =>
      let n := length srt in
      match o_alg o with
      | AlgNone => Some [all_labels n]
      | a =>
          let ws := map l_width srt in
          if negb (need_to_split o ws) then Some [all_labels n]
          else match a with
               | AlgSimple => Some (alg_simple (Z.to_nat (estimate_layers o ws)) n)
               | _ => alg_overlap o srt
               end
      end
  end.

(* ---------- one layout ------------------------------------------------------ *)
(* an item of a layer while the layout runs: the node object it is, named by
   the identity of its label (object identities are distinct: the engine is
   handed a list of distinct Node objects) *)
Record ritem := mkRitem {
  r_id : nat;           (* identity of the label this item is / is a stub of *)
  r_stub : bool;
  r_cur : Q }.          (* the object's currentPos *)

Fixpoint find_node (id : nat) (l : list nodeobj) : nodeobj :=
  match l with
  | [] => node0
  | nd :: l' => if Nat.eqb (n_id nd) id then nd else find_node id l'
  end.

Fixpoint find_ritem (id : nat) (l : list ritem) : option ritem :=
  match l with
  | [] => None
  | r :: l' => if Nat.eqb (r_id r) id then Some r else find_ritem id l'
  end.

Definition rlabels (l : list ritem) : list ritem := filter (fun r => negb (r_stub r)) l.

(* the objects of a layer as the distributor leaves them: a label is the node
   itself; createStub(width) (node.py:101-106) makes a node with the label's
   idealPos and payload and a *copy of its currentPos* *)
Definition ritem_of (ord : list nodeobj) (it : item) : ritem :=
  let nd := nth (fst it) ord node0 in mkRitem (n_id nd) (snd it) (n_cur nd).

Section Engine.
  Variable solve : lopts -> list litem -> list Z.

  Section Layers.
    Variable e : eopts.
    Variable tbl : list nodeobj.       (* the engine's label nodes, looked up by identity *)

    Definition node_of (id : nat) : nodeobj := find_node id tbl.

    (* removeOverlap.py:40-43: targetPos = parent.currentPos if parent else idealPos.
       Layer 0: a label's parent link is the node's own field (reset by
       removeStub just before), a new stub has none.  Layer k > 0: the parent of
       an item is the object of the same label in layer k-1 (createStub). *)
    Definition target (prev : option (list ritem)) (r : ritem) : Q :=
      let nd := node_of (r_id r) in
      match prev with
      | None => if r_stub r then n_pos nd
                else match n_parent nd with Some p => p | None => n_pos nd end
      | Some pl => match find_ritem (r_id r) pl with
                   | Some p => r_cur p
                   | None => n_pos nd
                   end
      end.

    Definition litem_of (prev : option (list ritem)) (r : ritem) : litem :=
      let nd := node_of (r_id r) in
      mkLitem (target prev r)
              (if r_stub r then e_stub e else n_width nd)
              (r_stub r || n_child nd).

    Definition tgt_leb (a b : ritem * litem) : bool :=
      Qle_bool (li_target (snd a)) (li_target (snd b)).

    (* removeOverlap on one layer: targets, stable in-place sort, solve, assign *)
    Definition solve_layer (prev : option (list ritem)) (l : list ritem) : list ritem :=
      let sorted := isort tgt_leb (map (fun r => (r, litem_of prev r)) l) in
      let sol := solve (lopts_of_eopts e) (map snd sorted) in
      map (fun jr => mkRitem (r_id (fst (snd jr))) (r_stub (fst (snd jr)))
                             (inject_Z (nth (fst jr) sol 0%Z)))
          (combine (seq 0 (length sorted)) sorted).

    (* force.py:75-79: layers in order, axis first *)
    Fixpoint run_layers (prev : option (list ritem)) (ls : list (list ritem)) : list (list ritem) :=
      match ls with
      | [] => []
      | l :: rest => let s := solve_layer prev l in s :: run_layers (Some s) rest
      end.

    (* where the label `id` ended up: (layer, currentPos, parent's currentPos) *)
    Fixpoint locate (id : nat) (k : nat) (prev : option (list ritem)) (solved : list (list ritem))
      : option (nat * Q * option Q) :=
      match solved with
      | [] => None
      | l :: rest =>
          match find_ritem id (rlabels l) with
          | Some r => Some (k, r_cur r,
                            match prev with
                            | None => None
                            | Some pl => match find_ritem id pl with Some p => Some (r_cur p) | None => None end
                            end)
          | None => locate id (S k) (Some l) rest
          end
      end.
  End Layers.

  (* the node object after the layout (force.py:77, removeOverlap.py:81, node.py:105) *)
  Definition write_back (solved : list (list ritem)) (nd : nodeobj) : nodeobj :=
    match locate (n_id nd) 0 None solved with
    | Some (k, c, p) => mkNode (n_id nd) (n_pos nd) (n_width nd) (n_child nd) c k p (n_ocount nd)
    | None => nd
    end.

  (* ---------- the engine --------------------------------------------------- *)
  (* what getLayers() reports: per layer (identity of the label, is_stub, currentPos) *)
  Definition report_item := (nat * bool * Q)%type.

  Record fstate := mkState {
    st_nodes : list nodeobj;
    st_opts : eopts;
    st_layers : option (list (list report_item)) }.

  (* Force() : force.py:24-31 *)
  Definition init_state : fstate := mkState [] default_eopts None.

  (* compute() : force.py:65-79.  If the distributor's fuel ran out (never on
     the documented domain: C04_fuel_enough) the state is left as it is. *)
  Definition force_compute (st : fstate) : fstate :=
    let e := st_opts st in
    let ns1 := map remove_stub (st_nodes st) in
    let sorted := isort nleb ns1 in
    (* distributor.py:55-60: algorithm none works on the caller's list, the others on a sorted copy *)
    let ord := match e_alg e with AlgNone => ns1 | _ => sorted end in
    match distribute_on (dopts_of_eopts e) (map label_of ord) with
    | None => st
    | Some ls =>
        let solved := run_layers e sorted None (map (map (ritem_of ord)) ls) in
        (* algorithm none: the single layer *is* the engine's node list, and
           removeOverlap sorts it in place (by target = idealPos, stable);
           otherwise the engine's list keeps its order *)
        let base := match e_alg e with AlgNone => sorted | _ => ns1 end in
        mkState (map (write_back solved) base) e
                (Some (map (map (fun r => (r_id r, r_stub r, r_cur r))) solved))
    end.

  Inductive op :=
  | SetNodes (l : list nodeobj)
  | SetOptions (u : eupdate)
  | Compute.

  Definition force_step (st : fstate) (o : op) : fstate :=
    match o with
    | SetNodes l =>
        (* nodes(x): `if not x: return self._nodes` - an empty list is a read *)
        match l with
        | [] => st
        | _ => mkState l (st_opts st) None
        end
    | SetOptions u => mkState (st_nodes st) (apply_update (st_opts st) u) (st_layers st)
    | Compute => force_compute st
    end.

  (* what a layout says about each label: identity -> (layerIndex, currentPos) *)
  Definition force_out (st : fstate) : list (nat * (nat * Q)) :=
    map (fun nd => (n_id nd, (n_layer nd, n_cur nd))) (st_nodes st).

  (* the stateless specification: a layout of fresh nodes by a fresh engine *)
  Definition layout (e : eopts) (l : list nodeobj) : fstate :=
    force_compute (mkState (map scrub_node l) e None).
End Engine.
