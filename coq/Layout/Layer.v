(* One layer's placement: labella/removeOverlap.py:28-82 on the spec-level
   PAVA model.  Model file: definitions only; proofs in Layout/LayerProofs.v. *)
From Coq Require Import ZArith QArith List Bool.
From Labella Require Import Base.QUtil Base.Sort Layout.Pava.
Import ListNotations.
Open Scope Q_scope.

(* an item of a layer: a label or a stub (node.py: idealPos or
   parent.currentPos, width, isStub()) *)
Record item := mkItem { tgt : Q; wid : Q; stub : bool }.

(* removeOverlap.DEFAULT_OPTIONS; Force passes nodeSpacing, minPos, maxPos
   (force.py:66-70) and never lineSpacing, which therefore is 2 *)
Record lopts := mkOpts { nodeSp : Q; lineSp : Q; minP : option Q; maxP : option Q }.

(* removeOverlap.py:54-57 *)
Definition spacing (o : lopts) (a b : item) : Q :=
  if stub a && stub b then lineSp o else nodeSp o.
Definition gap (o : lopts) (a b : item) : Q := (wid a + wid b) / 2 + spacing o a b.

(* one constraint per adjacent pair (removeOverlap.py:50-59) *)
Fixpoint gaps (o : lopts) (l : list item) : list Q :=
  match l with
  | a :: r => match r with
              | b :: _ => gap o a b :: gaps o r
              | [] => []
              end
  | [] => []
  end.

(* the wall weight literal 1e10 (removeOverlap.py:62,68) *)
Definition Wwall : Q := 10000000000.

Definition optl (m : option Q) : list Q := match m with Some x => [x] | None => [] end.
Definition ifsome {A} (m : option Q) (l : list A) : list A :=
  match m with Some _ => l | None => [] end.

(* the chain problem of a layer whose items are already sorted by target:
   [left wall] items [right wall]  (removeOverlap.py:47-73) *)
Definition chain_d (o : lopts) (s : list item) : list Q :=
  optl (minP o) ++ map tgt s ++ optl (maxP o).
Definition chain_w (o : lopts) (s : list item) : list Q :=
  ifsome (minP o) [Wwall] ++ map (fun _ => 1) s ++ ifsome (maxP o) [Wwall].
Definition chain_g (o : lopts) (s : list item) : list Q :=
  match s with
  | [] => []
  | f :: _ => ifsome (minP o) [wid f / 2] ++ gaps o s ++ ifsome (maxP o) [wid (last s f) / 2]
  end.

(* all solver variables, walls included *)
Definition solve_full (o : lopts) (s : list item) : list Q :=
  pava (chain_d o s) (chain_w o s) (chain_g o s).

(* "variables = [v for v in variables if v.node]" (removeOverlap.py:78):
   drop the walls; an empty layer is returned as is (:31-32) *)
Definition solve_sorted (o : lopts) (s : list item) : list Q :=
  match s with
  | [] => []
  | _ => firstn (length s) (skipn (length (optl (minP o))) (solve_full o s))
  end.

(* nodes.sort(key=targetPos) is stable (removeOverlap.py:45) *)
Definition sorted_items (its : list item) : list item := sort_by tgt its.

(* exact positions, in the order of the sorted layer list *)
Definition solve_layer_exact (o : lopts) (its : list item) : list Q :=
  solve_sorted o (sorted_items its).

(* currentPos = round(position) (removeOverlap.py:79-80) *)
Definition solve_layer (o : lopts) (its : list item) : list Z :=
  map pyround (solve_layer_exact o its).

(* force.py:43-54: the width handed to the layering step *)
Definition layer_width (mn mx : option Q) : option Q :=
  match mn, mx with
  | Some a, Some b => Some (b - a)
  | _, _ => None
  end.

(* ---- vocabulary of the property statements ---------------------------- *)

Definition opts_ok (o : lopts) : Prop := 0 <= nodeSp o /\ 0 <= lineSp o.
(* labels have positive width; stubs have the configured stub width >= 0 *)
Definition items_ok (its : list item) : Prop := Forall (fun a => 0 <= wid a) its.

(* positions of the wall variables in the model's solution (0 if absent) *)
Definition wallL (o : lopts) (s : list item) : Q := hd 0 (solve_full o s).
Definition wallR (o : lopts) (s : list item) : Q := last (solve_full o s) 0.

(* item positions y together with positions for the walls that exist *)
Definition with_walls (o : lopts) (yl : Q) (y : list Q) (yr : Q) : list Q :=
  ifsome (minP o) [yl] ++ y ++ ifsome (maxP o) [yr].

(* sum of squared distances to the targets *)
Definition sqdist (t y : list Q) : Q :=
  Qsum (map2 (fun ti yi => (yi - ti) * (yi - ti)) t y).

(* the objective the code hands to the solver (removeOverlap.py:47-73):
   unit-weight items, walls of weight 1e10 at the bounds *)
Definition wall_term (m : option Q) (y : Q) : Q :=
  match m with Some b => Wwall * ((y - b) * (y - b)) | None => 0 end.
Definition objective (o : lopts) (s : list item) (yl : Q) (y : list Q) (yr : Q) : Q :=
  wall_term (minP o) yl + sqdist (map tgt s) y + wall_term (maxP o) yr.

(* the constraints of that problem: item gaps, and half a width to each wall *)
Definition separated (o : lopts) (s : list item) (yl : Q) (y : list Q) (yr : Q) : Prop :=
  feasible (chain_g o s) (with_walls o yl y yr).

(* y keeps the item gaps and lies inside the bounds that exist *)
Definition inside (o : lopts) (s : list item) (y : list Q) : Prop :=
  match s with
  | [] => True
  | f :: _ =>
      (match minP o with Some a => a <= hd 0 y - wid f / 2 | None => True end) /\
      (match maxP o with Some b => last y 0 + wid (last s f) / 2 <= b | None => True end)
  end.

(* every item b standing between a and c is at least as wide as the spacing
   it could save:  wid b + sp(a,b) + sp(b,c) >= sp(a,c)  (DESIGN.md C01) *)
Definition chain_dominates (o : lopts) (s : list item) : Prop :=
  forall i k j a b c, (i < k < j)%nat ->
    nth_error s i = Some a -> nth_error s k = Some b -> nth_error s j = Some c ->
    spacing o a c <= wid b + spacing o a b + spacing o b c.

(* the length the layer needs: half the first width, all gaps, half the last *)
Definition needed_length (o : lopts) (s : list item) : Q :=
  match s with
  | [] => 0
  | f :: _ => wid f / 2 + Qsum (gaps o s) + wid (last s f) / 2
  end.

Definition fits (o : lopts) (s : list item) : Prop :=
  match minP o, maxP o with
  | Some a, Some b => needed_length o s <= b - a
  | _, _ => True
  end.

(* total displacement, and the slack the soft walls can give way *)
Definition displacement (t x : list Q) : Q := Qsum (map2 (fun ti xi => Qabs' (xi - ti)) t x).
Definition delta (o : lopts) (its : list item) : Q :=
  displacement (map tgt (sorted_items its)) (solve_layer_exact o its) / Wwall.
