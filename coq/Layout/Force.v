(* The layout engine with the real per-layer solver: Layout/ForceState.v
   (labella/force.py as a state machine) instantiated with Layout/Layer.v
   (labella/removeOverlap.py on the exact chain solver).  Model only: no
   proofs here (Layout/ForceProofs.v). *)
From Coq Require Import ZArith QArith List Bool Arith.
From Labella Require Import Layout.Distribute Layout.ForceState.
From Labella Require Layout.Layer.
Import ListNotations.

(* ---------- the adapter ----------------------------------------------------- *)
(* what ForceState hands to the solver is exactly removeOverlap's view of a
   layer: per item (targetPos, width, isStub()), and the options
   nodeSpacing, lineSpacing (2 unless the caller put one into the engine's
   options: force.py:66-70 copies every removeOverlap key), minPos, maxPos *)
Definition layer_item (it : litem) : Layer.item :=
  Layer.mkItem (li_target it) (li_width it) (li_stub it).
Definition layer_opts (lo : lopts) : Layer.lopts :=
  Layer.mkOpts (lo_nodeSpacing lo) (lo_lineSpacing lo) (lo_minPos lo) (lo_maxPos lo).

(* removeOverlap.py:47-82.  ForceState passes the layer already sorted by
   target; solve_layer's own stable sort leaves a sorted list as it is *)
Definition solve (lo : lopts) (its : list litem) : list Z :=
  Layer.solve_layer (layer_opts lo) (map layer_item its).

(* ---------- the closed engine ------------------------------------------------ *)
Definition force_compute (st : fstate) : fstate := ForceState.force_compute solve st.
Definition force_step (st : fstate) (o : op) : fstate := ForceState.force_step solve st o.
Definition force_run (ops : list op) : fstate := fold_left force_step ops init_state.

(* the engine states right after each Compute of a history *)
Fixpoint force_trace (st : fstate) (ops : list op) : list fstate :=
  match ops with
  | [] => []
  | o :: r =>
      let st' := force_step st o in
      match o with
      | Compute => st' :: force_trace st' r
      | _ => force_trace st' r
      end
  end.

(* ---------- the stateless layout ---------------------------------------------- *)
(* a fresh engine with options e lays out the node objects l, all stale fields reset *)
Definition layout_nodes (e : eopts) (l : list nodeobj) : fstate := ForceState.layout solve e l.

(* fresh Node objects for a label list; identity = index in the list *)
Definition label_nodes (labels : list label) : list nodeobj :=
  map (fun p => fresh_node (fst p) (l_pos (snd p)) (l_width (snd p)))
      (combine (seq 0 (length labels)) labels).

Definition layout (e : eopts) (labels : list label) : fstate := layout_nodes e (label_nodes labels).

(* the layout as the property reads it: per label (idealPos, width, layer, position) *)
Definition placed (st : fstate) : list (Q * Q * nat * Q) :=
  map (fun nd => (n_pos nd, n_width nd, n_layer nd, n_cur nd)) (st_nodes st).

(* ---------- the layers as removeOverlap sees them (for C01/C02 composition) --- *)
Section Trace.
  Variable e : eopts.
  Variable tbl : list nodeobj.

  (* the items of a layer in the order the solver receives them (after the
     stable sort by target), each with what the solver sees of it *)
  Definition sorted_pairs (prev : option (list ritem)) (l : list ritem) : list (ritem * litem) :=
    isort tgt_leb (map (fun r => (r, litem_of e tbl prev r)) l).

  (* per layer, nearest layer first; the previous layer is the *solved* one *)
  Fixpoint layer_pairs (prev : option (list ritem)) (ls : list (list ritem)) : list (list (ritem * litem)) :=
    match ls with
    | [] => []
    | l :: rest =>
        sorted_pairs prev l :: layer_pairs (Some (solve_layer solve e tbl prev l)) rest
    end.
End Trace.

(* the distributor's layers as node objects *)
Definition compute_ritems (st : fstate) : option (list (list ritem)) :=
  let e := st_opts st in
  let ns1 := map remove_stub (st_nodes st) in
  let ord := match e_alg e with AlgNone => ns1 | _ => isort nleb ns1 end in
  match distribute_on (dopts_of_eopts e) (map label_of ord) with
  | None => None
  | Some ls => Some (map (map (ritem_of ord)) ls)
  end.

(* per layer of a compute: the items in solver order with their solver view *)
Definition compute_pairs (st : fstate) : list (list (ritem * litem)) :=
  match compute_ritems st with
  | None => []
  | Some rs => layer_pairs (st_opts st) (isort nleb (map remove_stub (st_nodes st))) None rs
  end.

(* the problems handed to the solver *)
Definition compute_problems (st : fstate) : list (list Layer.item) :=
  map (map (fun x => layer_item (snd x))) (compute_pairs st).

(* the options removeOverlap runs with *)
Definition solver_opts (e : eopts) : Layer.lopts := layer_opts (lopts_of_eopts e).

(* exact (unrounded) positions per layer, in solver order *)
Definition compute_exact (st : fstate) : list (list Q) :=
  map (Layer.solve_layer_exact (solver_opts (st_opts st))) (compute_problems st).

(* ---------- a world of shared Node objects -------------------------------------- *)
(* Callers hold Node objects and hand (some of) them to the engine again and
   again; a layout mutates them.  The heap is the caller's objects by identity. *)
Record world := mkWorld { w_heap : list nodeobj; w_engine : fstate }.

Inductive wop :=
| WNodes (ids : list nat)        (* force.nodes([objects with these identities]) *)
| WOptions (u : eupdate)
| WCompute.

Fixpoint heap_put (nd : nodeobj) (h : list nodeobj) : list nodeobj :=
  match h with
  | [] => []
  | x :: h' => if Nat.eqb (n_id x) (n_id nd) then nd :: h' else x :: heap_put nd h'
  end.

Definition engine_op (w : world) (o : wop) : op :=
  match o with
  | WNodes ids => SetNodes (map (fun id => find_node id (w_heap w)) ids)
  | WOptions u => SetOptions u
  | WCompute => Compute
  end.

Definition world_step (w : world) (o : wop) : world :=
  let st' := force_step (w_engine w) (engine_op w o) in
  match o with
  | WCompute => mkWorld (fold_right heap_put (w_heap w) (st_nodes st')) st'
  | _ => mkWorld (w_heap w) st'
  end.

(* the worlds right after each compute *)
Fixpoint world_trace (w : world) (ops : list wop) : list world :=
  match ops with
  | [] => []
  | o :: r =>
      let w' := world_step w o in
      match o with
      | WCompute => w' :: world_trace w' r
      | _ => world_trace w' r
      end
  end.
