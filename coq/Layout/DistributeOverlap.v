(* Proofs about Layout/Distribute.v, part 4: the greedy loops of the overlap
   algorithm (distributor.py:95-134): what the inner and the outer loop
   guarantee, and that their fuel is never exhausted. *)
From Coq Require Import ZArith QArith List Bool Arith Lia Lqa Permutation.
From Labella Require Import Layout.Distribute Layout.DistributeBase.
Import ListNotations.
Open Scope nat_scope.

Section OverlapProofs.
  Variable srt : list label.
  Variable o : dopts.

  Definition sumw (ids : list nat) : Q := qsum (widths_of srt ids).

  Lemma sumw_cons i ids : sumw (i :: ids) = (width_at srt i + sumw ids)%Q.
  Proof. reflexivity. Qed.
  Lemma sumw_app a b : (sumw (a ++ b) == sumw a + sumw b)%Q.
  Proof. unfold sumw, widths_of. rewrite map_app. apply qsum_app. Qed.
  Lemma sumw_perm a b : Permutation a b -> (sumw a == sumw b)%Q.
  Proof. intro H. apply qsum_perm, Permutation_map, H. Qed.
  Lemma sumw_nil : sumw [] = 0%Q.
  Proof. reflexivity. Qed.

  Lemma req_sumw ids :
    (required_width (o_spacing o) (widths_of srt ids) == sumw ids + (qn (length ids) - 1) * o_spacing o)%Q.
  Proof. rewrite required_width_eq. unfold widths_of. rewrite map_length. reflexivity. Qed.

  Lemma dec_counts_fst f cur : map fst (dec_counts srt f cur) = map fst cur.
  Proof.
    unfold dec_counts. rewrite map_map. apply map_ext. intro e.
    destruct (ov srt f (fst e)); reflexivity.
  Qed.
  Lemma dec_counts_length f cur : length (dec_counts srt f cur) = length cur.
  Proof. apply map_length. Qed.
  Lemma count_overlaps_fst ps : map fst (count_overlaps srt ps) = ps.
  Proof. unfold count_overlaps. rewrite map_map. cbn [fst]. apply map_id. Qed.
  Lemma count_overlaps_length ps : length (count_overlaps srt ps) = length ps.
  Proof. apply map_length. Qed.

  Definition inner_cond (cur : list (nat * Z)) (cw : Q) : bool :=
    (2 <? length cur) && Qltb (max_width o) cw.

  Lemma inner_exit fuel cur cw punted :
    inner_cond cur cw = false -> inner srt o fuel cur cw punted = Some (map fst cur, punted).
  Proof. unfold inner_cond. intro C. destruct fuel; cbn [inner]; now rewrite C. Qed.

  (* what one run of the inner loop guarantees *)
  Lemma inner_spec : forall fuel cur cw punted layer punted',
    inner srt o fuel cur cw punted = Some (layer, punted') ->
    Permutation (map fst cur ++ punted) (layer ++ punted') /\
    (length cur <= 2 -> layer = map fst cur /\ punted' = punted) /\
    (2 <= length cur -> 2 <= length layer) /\
    length punted <= length punted' /\
    (2 < length cur -> (max_width o < cw)%Q -> length punted < length punted') /\
    exists cw',
      (cw' - sumw layer - qn (length punted') * o_stub o ==
       cw - sumw (map fst cur) - qn (length punted) * o_stub o)%Q /\
      (length layer <= 2 \/ (cw' <= max_width o)%Q).
  Proof.
    induction fuel as [|fuel IH]; intros cur cw punted layer punted' H.
    - (* no fuel: only the exit branch returns *)
      destruct (inner_cond cur cw) eqn:C.
      + cbn [inner] in H. unfold inner_cond in C. rewrite C in H. discriminate.
      + rewrite inner_exit in H by exact C. injection H as <- <-.
        unfold inner_cond in C. apply andb_false_iff in C.
        repeat split; try reflexivity; try lia.
        * now rewrite map_length.
        * intros L W. destruct C as [C|C]; [apply Nat.ltb_ge in C; lia|].
          apply Qltb_false in C. exfalso. eapply Qlt_not_le; eassumption.
        * exists cw. split; [reflexivity|]. rewrite map_length.
          destruct C as [C|C]; [left; apply Nat.ltb_ge in C; lia|right; now apply Qltb_false].
    - destruct (inner_cond cur cw) eqn:C.
      + cbn [inner] in H. unfold inner_cond in C. rewrite C in H.
        apply andb_true_iff in C. destruct C as [C1 C2].
        apply Nat.ltb_lt in C1. apply Qltb_true in C2.
        destruct (isort (cnt_geb) cur) as [|first rest] eqn:E; [discriminate|].
        pose proof (isort_perm cnt_geb cur) as P. rewrite E in P.
        pose proof (Permutation_length P) as PL. cbn [length] in PL.
        pose proof (Permutation_map fst P) as Pf. cbn [map] in Pf.
        destruct (IH _ _ _ _ _ H) as [HP [_ [H2 [HL [_ [cw' [Hcw Hcap]]]]]]].
        rewrite dec_counts_fst in HP, Hcw. rewrite dec_counts_length in H2.
        rewrite app_length in HL. cbn [length] in HL.
        split; [|split; [|split; [|split; [|split]]]].
        * etransitivity; [apply Permutation_app_tail; symmetry; exact Pf|].
          etransitivity; [|exact HP]. cbn [app].
          etransitivity; [apply Permutation_cons_append|]. rewrite <- app_assoc. reflexivity.
        * intro. lia.
        * intros _. apply H2. lia.
        * lia.
        * intros _ _. lia.
        * exists cw'. split; [|exact Hcap].
          rewrite Hcw. rewrite (sumw_perm _ _ (Permutation_sym Pf)), sumw_cons.
          rewrite app_length. cbn [length]. rewrite qn_plus.
          change (qn 1) with 1%Q.
          generalize (qn (length punted)) (sumw (map fst rest)) (width_at srt (fst first)).
          intros a b c. ring.
      + rewrite inner_exit in H by exact C. injection H as <- <-.
        unfold inner_cond in C. apply andb_false_iff in C.
        repeat split; try reflexivity; try lia.
        * now rewrite map_length.
        * intros L W. destruct C as [C|C]; [apply Nat.ltb_ge in C; lia|].
          apply Qltb_false in C. exfalso. eapply Qlt_not_le; eassumption.
        * exists cw. split; [reflexivity|]. rewrite map_length.
          destruct C as [C|C]; [left; apply Nat.ltb_ge in C; lia|right; now apply Qltb_false].
  Qed.

  Lemma inner_fuel : forall fuel cur cw punted,
    length cur <= fuel -> inner srt o fuel cur cw punted <> None.
  Proof.
    induction fuel as [|fuel IH]; intros cur cw punted Hf.
    - rewrite inner_exit; [discriminate|]. unfold inner_cond.
      replace (2 <? length cur) with false; [reflexivity|]. symmetry. apply Nat.ltb_ge. lia.
    - destruct (inner_cond cur cw) eqn:C; [|rewrite inner_exit by exact C; discriminate].
      cbn [inner]. unfold inner_cond in C. rewrite C.
      apply andb_true_iff in C. destruct C as [C1 _]. apply Nat.ltb_lt in C1.
      pose proof (isort_length cnt_geb cur) as L.
      destruct (isort cnt_geb cur) as [|first rest]; cbn [length] in L; [lia|].
      apply IH. rewrite dec_counts_length. lia.
  Qed.

  (* capacity of the label layers: layer b followed by the layers `post` holds
     the labels of b and one stub for every label of post *)
  Fixpoint cap_ok (bs : list (list nat)) : Prop :=
    match bs with
    | [] => True
    | b :: post =>
        (length b <= 2 \/
         (sumw b + qn (length (concat post)) * o_stub o
          + (qn (length b + length (concat post)) - 1) * o_spacing o <= max_width o)%Q)
        /\ cap_ok post
    end.

  Hypothesis Hbudget : (- o_spacing o <= max_width o)%Q.

  Lemma outer_cond_nonempty P :
    Qltb (max_width o) (required_width (o_spacing o) (widths_of srt P)) = true -> P <> [].
  Proof.
    intros C E. subst P. apply Qltb_true in C. cbn [widths_of map] in C.
    rewrite required_width_nil in C. eapply Qlt_not_le; eassumption.
  Qed.

  Lemma outer_spec : forall fuel P bs,
    outer srt o fuel P = Some bs ->
    Permutation (concat bs) P /\
    Forall (fun b => b <> []) bs /\
    cap_ok bs /\
    (P <> [] -> bs <> []) /\
    (2 < length P -> (max_width o < required_width (o_spacing o) (widths_of srt P))%Q -> 2 <= length bs).
  Proof.
    assert (Base : forall P bs,
      Qltb (max_width o) (required_width (o_spacing o) (widths_of srt P)) = false ->
      Some (match P with [] => [] | _ :: _ => [P] end) = Some bs ->
      Permutation (concat bs) P /\ Forall (fun b => b <> []) bs /\ cap_ok bs /\
      (P <> [] -> bs <> []) /\
      (2 < length P -> (max_width o < required_width (o_spacing o) (widths_of srt P))%Q -> 2 <= length bs)).
    { intros P bs C H. injection H as <-. apply Qltb_false in C.
      destruct P as [|p P].
      - repeat split; try constructor; try congruence. cbn. lia.
      - repeat split.
        + cbn [concat]. now rewrite app_nil_r.
        + constructor; [discriminate|constructor].
        + right. cbn [concat length]. rewrite qn_0, Nat.add_0_r. rewrite req_sumw in C.
          cbn [length] in C. lra.
        + discriminate.
        + intros _ W. exfalso. eapply Qlt_not_le; eassumption. }
    induction fuel as [|fuel IH]; intros P bs H; cbn [outer] in H;
      destruct (Qltb (max_width o) (required_width (o_spacing o) (widths_of srt P))) eqn:C;
      try discriminate; try (now apply Base).
    destruct (inner srt o (length P) (count_overlaps srt P)
                (required_width (o_spacing o) (widths_of srt P)) []) as [[layer P']|] eqn:EI; [|discriminate].
    destruct (outer srt o fuel P') as [rest|] eqn:EO; [|discriminate].
    injection H as <-.
    destruct (IH _ _ EO) as [RP [RF [RC [RN _]]]].
    destruct (inner_spec _ _ _ _ _ _ EI) as [HP [Hsmall [H2 [_ [Hpop [cw' [Hcw Hcap]]]]]]].
    rewrite count_overlaps_fst in HP, Hsmall, Hcw. rewrite count_overlaps_length in Hsmall, H2, Hpop.
    rewrite app_nil_r in HP.
    pose proof (outer_cond_nonempty P C) as HPne.
    pose proof (Permutation_length HP) as HPl. rewrite app_length in HPl.
    pose proof (Permutation_length RP) as RPl.
    split; [|split; [|split; [|split]]].
    - cbn [concat]. etransitivity; [apply Permutation_app_head, RP|]. now symmetry.
    - constructor; [|exact RF]. intro E. subst layer.
      destruct (Nat.le_gt_cases (length P) 2) as [L|L].
      + destruct (Hsmall L) as [E _]. congruence.
      + cbn [length] in H2. lia.
    - cbn [cap_ok]. split; [|exact RC].
      destruct Hcap as [Hc|Hc]; [now left|right].
      cbn [length] in Hcw. rewrite qn_0 in Hcw.
      rewrite req_sumw in Hcw. rewrite RPl, <- HPl.
      rewrite (sumw_perm _ _ HP), sumw_app in Hcw.
      generalize dependent (qn (length P)). generalize (qn (length P')) (sumw layer) (sumw P').
      intros a b c d Hcw. lra.
    - discriminate.
    - intros L W. cbn [length].
      assert (P' <> []) by (intro E; subst P'; specialize (Hpop L W); cbn in Hpop; lia).
      specialize (RN H). destruct rest; [congruence|cbn [length]; lia].
  Qed.

  Lemma outer_fuel : forall fuel P,
    length P < fuel \/ P = [] -> outer srt o fuel P <> None.
  Proof.
    induction fuel as [|fuel IH]; intros P HP; cbn [outer];
      destruct (Qltb (max_width o) (required_width (o_spacing o) (widths_of srt P))) eqn:C;
      try discriminate.
    - pose proof (outer_cond_nonempty P C). destruct HP; [lia|congruence].
    - pose proof (outer_cond_nonempty P C) as Hne.
      destruct HP as [HP|HP]; [|congruence].
      destruct (inner srt o (length P) (count_overlaps srt P)
                  (required_width (o_spacing o) (widths_of srt P)) []) as [[layer P']|] eqn:EI.
      + destruct (inner_spec _ _ _ _ _ _ EI) as [HPm [Hsmall [H2 _]]].
        rewrite count_overlaps_fst in HPm, Hsmall. rewrite count_overlaps_length in Hsmall, H2.
        rewrite app_nil_r in HPm.
        pose proof (Permutation_length HPm) as HPl. rewrite app_length in HPl.
        assert (G : outer srt o fuel P' <> None).
        { apply IH. destruct (Nat.le_gt_cases (length P) 2) as [L|L].
          - right. now destruct (Hsmall L).
          - left. assert (2 <= length layer) by (apply H2; lia). lia. }
        destruct (outer srt o fuel P'); [discriminate|congruence].
      + exfalso. eapply inner_fuel; [|exact EI]. rewrite count_overlaps_length. lia.
  Qed.
End OverlapProofs.
