(* Proofs about Layout/Layer.v (properties C01, C02, C03). *)
From Coq Require Import ZArith QArith Qround List Bool Lia Lqa Sorting.Permutation Sorting.Sorted.
From Labella Require Import Base.QUtil Base.QUtilProofs Base.Sort Base.SortProofs
  Layout.Pava Layout.PavaProofs Layout.Layer.
Import ListNotations.
Open Scope Q_scope.

(* ---------- A. the layer's chain problem is well formed ----------------- *)

Lemma gaps_length o s : length (gaps o s) = pred (length s).
Proof.
  induction s as [|a s IH]; [reflexivity|].
  destruct s as [|b s]; [reflexivity|].
  change (gaps o (a :: b :: s)) with (gap o a b :: gaps o (b :: s)).
  cbn [length] in *. rewrite IH. reflexivity.
Qed.

Lemma gaps_cons2 o a b s : gaps o (a :: b :: s) = gap o a b :: gaps o (b :: s).
Proof. reflexivity. Qed.

Lemma Wwall_pos : 0 < Wwall.
Proof. reflexivity. Qed.

Lemma ifsome_length {A} m (l : list A) :
  length (ifsome m l) = match m with Some _ => length l | None => O end.
Proof. destruct m; reflexivity. Qed.

Lemma optl_ifsome m : length (optl m) = length (ifsome m [0]).
Proof. destruct m; reflexivity. Qed.

Lemma all_pos_ones {A} (l : list A) : all_pos (map (fun _ => 1) l).
Proof. induction l; constructor; [reflexivity|assumption]. Qed.

Lemma chain_ok_layer o s : s <> [] -> chain_ok (chain_d o s) (chain_w o s) (chain_g o s).
Proof.
  intro N. destruct s as [|f s']; [congruence|].
  unfold chain_ok, chain_d, chain_w, chain_g.
  rewrite !app_length, !map_length, gaps_length.
  destruct (minP o), (maxP o); cbn [optl ifsome length app];
    (split; [|split]); try lia; unfold all_pos;
    try (constructor; [exact Wwall_pos|]);
    (apply Forall_app; split; [apply all_pos_ones|repeat constructor; exact Wwall_pos]).
Qed.

Lemma solve_full_length o s : s <> [] ->
  length (solve_full o s) = (length (optl (minP o)) + length s + length (optl (maxP o)))%nat.
Proof.
  intro N. unfold solve_full. rewrite (chain_lengths _ _ _ (chain_ok_layer o s N)).
  unfold chain_d. rewrite !app_length, map_length. lia.
Qed.

(* ---------- B. the solution as  [wall] items [wall]  -------------------- *)

Lemma firstn_last_split : forall (l : list Q) n, length l = S n -> l = firstn n l ++ [last l 0].
Proof.
  induction l as [|a l IH]; intros n L; [discriminate|].
  destruct l as [|b l].
  - destruct n; [reflexivity|discriminate].
  - destruct n as [|n]; [discriminate|].
    cbn [length] in L. injection L as L.
    change (last (a :: b :: l) 0) with (last (b :: l) 0).
    cbn [firstn app]. f_equal. apply IH. cbn [length]. lia.
Qed.

Lemma solve_view o s : s <> [] ->
  solve_full o s = with_walls o (wallL o s) (solve_sorted o s) (wallR o s) /\
  length (solve_sorted o s) = length s.
Proof.
  intro N. pose proof (solve_full_length o s N) as L.
  unfold with_walls, wallL, wallR, solve_sorted.
  destruct s as [|f s']; [congruence|]. cbv beta iota.
  remember (f :: s') as s eqn:Es. clear Es N f s'.
  remember (solve_full o s) as x eqn:Ex. clear Ex.
  destruct (minP o) as [m|], (maxP o) as [M|]; cbn [optl ifsome length app skipn] in *.
  - destruct x as [|xl x']; [discriminate|]. cbn [length] in L. injection L as L.
    cbn [hd skipn].
    assert (L' : length x' = S (length s)) by lia.
    pose proof (firstn_last_split x' (length s) L') as E.
    assert (EL : last (xl :: x') 0 = last x' 0) by (destruct x'; [discriminate|reflexivity]).
    rewrite EL. split; [f_equal; exact E|].
    rewrite firstn_length. lia.
  - destruct x as [|xl x']; [discriminate|]. cbn [length] in L. injection L as L.
    cbn [hd skipn]. rewrite app_nil_r.
    assert (E : firstn (length s) x' = x') by (apply firstn_all2; lia).
    rewrite E. split; [reflexivity|lia].
  - assert (L' : length x = S (length s)) by lia.
    pose proof (firstn_last_split x (length s) L') as E.
    split; [exact E|]. rewrite firstn_length. lia.
  - rewrite app_nil_r.
    assert (E : firstn (length s) x = x) by (apply firstn_all2; lia).
    rewrite E. split; [reflexivity|lia].
Qed.

Lemma solve_sorted_length o s : length (solve_sorted o s) = length s.
Proof.
  destruct s as [|f s'] eqn:E; [reflexivity|]. rewrite <- E.
  apply solve_view. rewrite E. discriminate.
Qed.

Lemma solve_layer_exact_length o its : length (solve_layer_exact o its) = length its.
Proof.
  unfold solve_layer_exact, sorted_items. rewrite solve_sorted_length. apply sort_length.
Qed.

Lemma solve_layer_length o its : length (solve_layer o its) = length its.
Proof. unfold solve_layer. rewrite map_length. apply solve_layer_exact_length. Qed.

(* ---------- C. feasibility of sub-chains; C01 --------------------------- *)

Lemma feasible_cons2 h g a b x :
  feasible (h :: g) (a :: b :: x) <-> h <= b - a /\ feasible g (b :: x).
Proof. cbn [feasible]. tauto. Qed.

Lemma feasible_single g a : feasible g [a].
Proof. cbn [feasible]. exact I. Qed.

Lemma feasible_snoc : forall x g h z, S (length g) = length x ->
  (feasible (g ++ [h]) (x ++ [z]) <-> feasible g x /\ h <= z - last x 0).
Proof.
  induction x as [|a x IH]; intros g h z L; [discriminate|].
  destruct x as [|b x].
  - destruct g; [|discriminate]. cbn [app last feasible]. tauto.
  - destruct g as [|gi g]; [discriminate|].
    cbn [length] in L. injection L as L.
    change ((gi :: g) ++ [h]) with (gi :: (g ++ [h])).
    change ((a :: b :: x) ++ [z]) with (a :: b :: (x ++ [z])).
    rewrite !feasible_cons2.
    change (b :: x ++ [z]) with ((b :: x) ++ [z]).
    rewrite (IH g h z) by (cbn [length]; lia).
    change (last (a :: b :: x) 0) with (last (b :: x) 0). tauto.
Qed.

(* the model's solution keeps all constraints of the layer's chain *)
Lemma solve_separated o s : s <> [] ->
  separated o s (wallL o s) (solve_sorted o s) (wallR o s).
Proof.
  intro N. unfold separated. rewrite <- (proj1 (solve_view o s N)).
  apply pava_feasible_list, chain_ok_layer, N.
Qed.

(* reading `separated` constraint by constraint *)
Lemma separated_iff o f s' yl y yr : length y = length (f :: s') ->
  (separated o (f :: s') yl y yr <->
   feasible (gaps o (f :: s')) y /\
   (match minP o with Some _ => wid f / 2 <= hd 0 y - yl | None => True end) /\
   (match maxP o with Some _ => wid (last (f :: s') f) / 2 <= yr - last y 0 | None => True end)).
Proof.
  intro L. unfold separated, chain_g, with_walls. cbv beta iota.
  set (s := f :: s') in *.
  assert (Lg : S (length (gaps o s)) = length y).
  { rewrite gaps_length, L. reflexivity. }
  destruct y as [|y0 y']; [discriminate|].
  destruct (minP o) as [m|], (maxP o) as [M|]; cbn [ifsome app hd].
  - change (yl :: y0 :: y' ++ [yr]) with (yl :: y0 :: (y' ++ [yr])).
    rewrite feasible_cons2. change (y0 :: y' ++ [yr]) with ((y0 :: y') ++ [yr]).
    rewrite (feasible_snoc _ _ _ _ Lg). tauto.
  - rewrite !app_nil_r. rewrite feasible_cons2. tauto.
  - change (y0 :: y' ++ [yr]) with ((y0 :: y') ++ [yr]).
    rewrite (feasible_snoc _ _ _ _ Lg). tauto.
  - rewrite !app_nil_r. tauto.
Qed.

Lemma solve_sorted_feasible o s : feasible (gaps o s) (solve_sorted o s).
Proof.
  destruct s as [|f s']; [exact I|].
  assert (N : f :: s' <> []) by discriminate.
  pose proof (solve_separated o _ N) as S.
  apply separated_iff in S; [tauto|apply solve_sorted_length].
Qed.

(* C01_separation on exact positions *)
Lemma solve_sorted_path o s i j : (i <= j)%nat -> (j < length s)%nat ->
  Qsum (slice i j (gaps o s)) <= qnth j (solve_sorted o s) - qnth i (solve_sorted o s).
Proof.
  intros Hij Hj. apply feasible_path; [apply solve_sorted_feasible| |exact Hij|].
  - rewrite gaps_length, solve_sorted_length. destruct s; [cbn in Hj; lia|reflexivity].
  - rewrite solve_sorted_length. exact Hj.
Qed.

Lemma map_qnth_pyround l i : (i < length l)%nat ->
  nth i (map pyround l) 0%Z = pyround (qnth i l).
Proof.
  intro H. unfold qnth. rewrite (nth_indep _ 0%Z (pyround 0)) by (rewrite map_length; exact H).
  apply map_nth.
Qed.

Theorem C01_separation_lemma o its i j : (i < j)%nat -> (j < length its)%nat ->
  let g := gaps o (sorted_items its) in
  let pos := solve_layer o its in
  Qsum (slice i j g) - 1 <= inject_Z (nth j pos 0%Z) - inject_Z (nth i pos 0%Z).
Proof.
  intros Hij Hj g pos. subst g pos. unfold solve_layer.
  pose proof (solve_layer_exact_length o its) as L.
  rewrite !map_qnth_pyround by lia.
  unfold solve_layer_exact in *.
  assert (Hj' : (j < length (sorted_items its))%nat).
  { unfold sorted_items. rewrite sort_length. exact Hj. }
  pose proof (solve_sorted_path o (sorted_items its) i j (Nat.lt_le_incl _ _ Hij) Hj') as P.
  pose proof (pyround_diff _ _ _ P). lra.
Qed.

(* gaps are non-negative for sane options *)
Lemma gaps_nonneg o s : opts_ok o -> items_ok s -> Forall (fun x => 0 <= x) (gaps o s).
Proof.
  intros [O1 O2] I. induction s as [|a s IH]; [constructor|].
  destruct s as [|b s]; [constructor|]. rewrite gaps_cons2.
  inversion I as [|? ? Ia I']; subst. inversion I' as [|? ? Ib _]; subst.
  constructor; [|apply IH; exact I'].
  unfold gap, spacing. destruct (stub a && stub b).
  - apply (Qle_trans _ ((wid a + wid b) / 2)); [|lra].
    apply Qle_shift_div_l; lra.
  - apply (Qle_trans _ ((wid a + wid b) / 2)); [|lra].
    apply Qle_shift_div_l; lra.
Qed.

Lemma Forall_firstn {A} (P : A -> Prop) n l : Forall P l -> Forall P (firstn n l).
Proof.
  revert n. induction l as [|a l IH]; intros n H; [rewrite firstn_nil; constructor|].
  destruct n; [constructor|]. inversion H; subst. cbn [firstn]. constructor; auto.
Qed.

Lemma Forall_skipn {A} (P : A -> Prop) n l : Forall P l -> Forall P (skipn n l).
Proof.
  revert n. induction l as [|a l IH]; intros n H; [rewrite skipn_nil; constructor|].
  destruct n; [exact H|]. inversion H; subst. cbn [skipn]. auto.
Qed.

Lemma slice_nonneg i j g : Forall (fun x => 0 <= x) g -> 0 <= Qsum (slice i j g).
Proof. intro H. apply Qsum_nonneg. unfold slice. apply Forall_firstn, Forall_skipn, H. Qed.

Theorem C01_order_lemma o its i j : opts_ok o -> items_ok its ->
  (i < j)%nat -> (j < length its)%nat ->
  let g := gaps o (sorted_items its) in
  let pos := solve_layer o its in
  (nth i pos 0 <= nth j pos 0)%Z /\
  (1 < Qsum (slice i j g) -> (nth i pos 0 < nth j pos 0)%Z).
Proof.
  intros O I Hij Hj g pos. subst g pos.
  assert (I' : items_ok (sorted_items its)).
  { unfold items_ok in *. rewrite Forall_forall in *. intros a Ha. apply I.
    unfold sorted_items in Ha. apply sort_in in Ha. exact Ha. }
  split.
  - unfold solve_layer. pose proof (solve_layer_exact_length o its) as L.
    rewrite !map_qnth_pyround by lia. apply pyround_mono.
    unfold solve_layer_exact.
    assert (Hj' : (j < length (sorted_items its))%nat).
    { unfold sorted_items. rewrite sort_length. exact Hj. }
    pose proof (solve_sorted_path o (sorted_items its) i j (Nat.lt_le_incl _ _ Hij) Hj') as P.
    pose proof (slice_nonneg i j _ (gaps_nonneg o _ O I')). lra.
  - intro G. pose proof (C01_separation_lemma o its i j Hij Hj) as S. cbn zeta in S.
    assert (X : inject_Z (nth i (solve_layer o its) 0%Z) < inject_Z (nth j (solve_layer o its) 0%Z)) by lra.
    rewrite <- Zlt_Qlt in X. exact X.
Qed.

(* ---------- C'. any two items, under chain_dominates --------------------- *)

Lemma slice_snoc : forall (g : list Q) i j, (i <= j)%nat -> (j < length g)%nat ->
  slice i (S j) g = slice i j g ++ [qnth j g].
Proof.
  induction g as [|a g IH]; intros i j Hij Hj; [cbn in Hj; lia|].
  destruct j as [|j].
  - assert (i = 0)%nat by lia. subst. reflexivity.
  - cbn [length] in Hj. destruct i as [|i].
    + rewrite !slice_0S. rewrite (IH 0%nat j) by lia. reflexivity.
    + rewrite !slice_SS. unfold qnth. cbn [nth]. apply IH; lia.
Qed.

Lemma gaps_nth o : forall s i a b,
  nth_error s i = Some a -> nth_error s (S i) = Some b ->
  qnth i (gaps o s) = gap o a b /\ (i < length (gaps o s))%nat.
Proof.
  induction s as [|x s IH]; intros i a b Ha Hb; [destruct i; discriminate|].
  destruct s as [|y s]; [destruct i; cbn in Hb; try discriminate; destruct i; discriminate|].
  rewrite gaps_cons2. destruct i as [|i].
  - cbn in Ha, Hb. injection Ha as <-. injection Hb as <-.
    split; [reflexivity|cbn [length]; lia].
  - cbn [nth_error] in Ha. change (nth_error (x :: y :: s) (S (S i))) with (nth_error (y :: s) (S i)) in Hb.
    destruct (IH i a b Ha Hb) as [E L]. unfold qnth in *. cbn [nth length]. split; [exact E|lia].
Qed.

Lemma gaps_dominate o s : chain_dominates o s ->
  forall j i a c, (i < j)%nat -> nth_error s i = Some a -> nth_error s j = Some c ->
  gap o a c <= Qsum (slice i j (gaps o s)).
Proof.
  intros D. induction j as [|j IH]; intros i a c Hij Ha Hc; [lia|].
  assert (Hjl : (j < length s)%nat).
  { assert (S j < length s)%nat by (apply nth_error_Some; congruence). lia. }
  destruct (nth_error s j) as [b|] eqn:Hb; [|apply nth_error_None in Hb; lia].
  destruct (gaps_nth o s j b c Hb Hc) as [E L].
  rewrite slice_snoc by lia. rewrite Qsum_app, Qsum_cons, Qsum_nil, E.
  destruct (Nat.eq_dec i j) as [->|Ne].
  - rewrite slice_same, Qsum_nil. assert (a = b) by congruence. subst. lra.
  - assert (Hij' : (i < j)%nat) by lia.
    pose proof (IH i a b Hij' Ha eq_refl) as B.
    pose proof (D i j (S j) a b c (conj Hij' (Nat.lt_succ_diag_r j)) Ha Hb Hc) as T.
    unfold gap in *.
    assert (X : (wid a + wid b) / 2 + (wid b + wid c) / 2 == (wid a + wid c) / 2 + wid b) by field.
    lra.
Qed.

Theorem C01_pairwise_lemma o its i j a c : chain_dominates o (sorted_items its) ->
  (i < j)%nat -> nth_error (sorted_items its) i = Some a -> nth_error (sorted_items its) j = Some c ->
  let pos := solve_layer o its in
  gap o a c - 1 <= inject_Z (nth j pos 0%Z) - inject_Z (nth i pos 0%Z).
Proof.
  intros D Hij Ha Hc pos. subst pos.
  assert (Hj : (j < length its)%nat).
  { assert (j < length (sorted_items its))%nat by (apply nth_error_Some; congruence).
    unfold sorted_items in *. rewrite sort_length in *. assumption. }
  pose proof (C01_separation_lemma o its i j Hij Hj) as S. cbn zeta in S.
  pose proof (gaps_dominate o _ D j i a c Hij Ha Hc). lra.
Qed.

(* chain_dominates can only fail for a label narrower than
   lineSp - 2 nodeSp standing between two stubs *)
Lemma chain_dominates_simple o s : opts_ok o -> items_ok s ->
  (forall b, In b s -> stub b = false -> lineSp o <= wid b + 2 * nodeSp o) ->
  chain_dominates o s.
Proof.
  intros [O1 O2] I H i k j a b c _ Ha Hb Hc.
  assert (Ib : In b s) by (eapply nth_error_In; exact Hb).
  assert (Wb : 0 <= wid b) by (unfold items_ok in I; rewrite Forall_forall in I; apply I; exact Ib).
  specialize (H b Ib). unfold spacing.
  destruct (stub a), (stub b), (stub c); cbn [andb]; try specialize (H eq_refl); lra.
Qed.

(* ---------- D. optimality: C02 ------------------------------------------ *)

Lemma cost_app : forall x1 d1 w1 d2 w2 x2,
  length d1 = length x1 -> length w1 = length x1 ->
  cost (d1 ++ d2) (w1 ++ w2) (x1 ++ x2) == cost d1 w1 x1 + cost d2 w2 x2.
Proof.
  induction x1 as [|a x1 IH]; intros d1 w1 d2 w2 x2 Ld Lw.
  - destruct d1; [|discriminate]. destruct w1; [|discriminate]. cbn [app].
    rewrite cost_nil_x. lra.
  - destruct d1 as [|di d1]; [discriminate|]. destruct w1 as [|wi w1]; [discriminate|].
    cbn [length] in Ld, Lw. injection Ld as Ld. injection Lw as Lw.
    cbn [app]. rewrite !cost_cons, (IH d1 w1 d2 w2 x2 Ld Lw). ring.
Qed.

Lemma sqdist_cons t ts y ys : sqdist (t :: ts) (y :: ys) == (y - t) * (y - t) + sqdist ts ys.
Proof. unfold sqdist. cbn [map2]. rewrite Qsum_cons. reflexivity. Qed.

Lemma cost_unit {A} : forall (s : list A) t y, length t = length s ->
  cost t (map (fun _ => 1) s) y == sqdist t y.
Proof.
  induction s as [|a s IH]; intros t y L.
  - destruct t; [|discriminate]. unfold sqdist. cbn [map map2]. apply cost_nil_d.
  - destruct t as [|ti t]; [discriminate|]. cbn [length] in L. injection L as L.
    destruct y as [|yi y]; [unfold sqdist; cbn [map map2]; apply cost_nil_x|].
    cbn [map]. rewrite cost_cons, sqdist_cons, (IH t y L). ring.
Qed.

Lemma sqdist_nonneg : forall t y, 0 <= sqdist t y.
Proof.
  induction t as [|ti t IH]; intro y; [unfold sqdist; cbn; lra|].
  destruct y as [|yi y]; [unfold sqdist; cbn; lra|].
  rewrite sqdist_cons. pose proof (IH y). set (c := yi - ti). nra.
Qed.

Definition wall_sq (m : option Q) (a y : Q) : Q :=
  match m with Some _ => Wwall * ((y - a) * (y - a)) | None => 0 end.

Lemma wall_sq_nonneg m a y : 0 <= wall_sq m a y.
Proof.
  unfold wall_sq. destruct m; [|lra]. pose proof Wwall_pos. set (c := y - a). nra.
Qed.

Lemma layer_cost_gen o s a t b yl y yr : length t = length s -> length y = length s ->
  cost (ifsome (minP o) [a] ++ t ++ ifsome (maxP o) [b]) (chain_w o s) (with_walls o yl y yr) ==
  wall_sq (minP o) a yl + sqdist t y + wall_sq (maxP o) b yr.
Proof.
  intros Lt Ly. unfold chain_w, with_walls, wall_sq.
  destruct (minP o) as [m|], (maxP o) as [M|]; cbn [ifsome].
  - rewrite (cost_app [yl] [a] [Wwall]) by reflexivity.
    rewrite (cost_app y t) by (rewrite ?map_length; congruence).
    rewrite (cost_unit s t y Lt), !cost_cons, !cost_nil_x. ring.
  - rewrite (cost_app [yl] [a] [Wwall]) by reflexivity.
    rewrite !app_nil_r. rewrite (cost_unit s t y Lt), !cost_cons, !cost_nil_x. ring.
  - cbn [app]. rewrite (cost_app y t) by (rewrite ?map_length; congruence).
    rewrite (cost_unit s t y Lt), !cost_cons, !cost_nil_x. ring.
  - cbn [app]. rewrite !app_nil_r. rewrite (cost_unit s t y Lt). ring.
Qed.

Lemma layer_cost o s yl y yr : length y = length s ->
  cost (chain_d o s) (chain_w o s) (with_walls o yl y yr) == objective o s yl y yr.
Proof.
  intro Ly. unfold objective, wall_term, chain_d.
  destruct (minP o) as [m|] eqn:Em, (maxP o) as [M|] eqn:EM; cbn [optl].
  - pose proof (layer_cost_gen o s m (map tgt s) M yl y yr) as G. rewrite Em, EM in G.
    cbn [ifsome wall_sq] in G. apply G; [apply map_length|exact Ly].
  - pose proof (layer_cost_gen o s m (map tgt s) 0 yl y yr) as G. rewrite Em, EM in G.
    cbn [ifsome wall_sq] in G. apply G; [apply map_length|exact Ly].
  - pose proof (layer_cost_gen o s 0 (map tgt s) M yl y yr) as G. rewrite Em, EM in G.
    cbn [ifsome wall_sq] in G. apply G; [apply map_length|exact Ly].
  - pose proof (layer_cost_gen o s 0 (map tgt s) 0 yl y yr) as G. rewrite Em, EM in G.
    cbn [ifsome wall_sq] in G. apply G; [apply map_length|exact Ly].
Qed.

Lemma with_walls_length o yl y yr s : length y = length s ->
  length (with_walls o yl y yr) = length (chain_d o s).
Proof.
  intro L. unfold with_walls, chain_d. rewrite !app_length, map_length, L.
  destruct (minP o), (maxP o); reflexivity.
Qed.

(* the model's solution minimises the coded objective, strictly *)
Theorem C02_layer_sorted o s yl y yr : s <> [] -> length y = length s ->
  separated o s yl y yr ->
  objective o s (wallL o s) (solve_sorted o s) (wallR o s) + sqdist (solve_sorted o s) y
    <= objective o s yl y yr.
Proof.
  intros N Ly S. destruct (solve_view o s N) as [V Lx].
  pose proof (pava_optimal_list _ _ _ (with_walls o yl y yr) (chain_ok_layer o s N)
                (with_walls_length o yl y yr s Ly) S) as O.
  fold (solve_full o s) in O. rewrite V in O.
  rewrite !layer_cost in O by assumption.
  pose proof (layer_cost_gen o s (wallL o s) (solve_sorted o s) (wallR o s) yl y yr Lx Ly) as G.
  unfold with_walls at 1 in O. rewrite G in O.
  pose proof (wall_sq_nonneg (minP o) (wallL o s) yl).
  pose proof (wall_sq_nonneg (maxP o) (wallR o s) yr). lra.
Qed.

Lemma objective_ge_sqdist o s yl y yr : sqdist (map tgt s) y <= objective o s yl y yr.
Proof.
  unfold objective, wall_term. pose proof Wwall_pos.
  destruct (minP o) as [m|], (maxP o) as [M|];
    try set (c1 := yl - m); try set (c2 := yr - M); nra.
Qed.

Definition bound_or0 (m : option Q) : Q := match m with Some b => b | None => 0 end.

(* a separated placement inside the bounds, with the walls put at the bounds *)
Lemma inside_separated o s y : s <> [] -> length y = length s ->
  feasible (gaps o s) y -> inside o s y ->
  separated o s (bound_or0 (minP o)) y (bound_or0 (maxP o)) /\
  objective o s (bound_or0 (minP o)) y (bound_or0 (maxP o)) == sqdist (map tgt s) y.
Proof.
  intros N Ly F I. destruct s as [|f s']; [congruence|].
  split.
  - apply separated_iff; [exact Ly|]. unfold inside in I. destruct I as [I1 I2].
    split; [exact F|].
    destruct (minP o) as [m|], (maxP o) as [M|]; cbn [bound_or0]; split; try exact I; lra.
  - unfold objective, wall_term, bound_or0.
    destruct (minP o) as [m|], (maxP o) as [M|]; ring.
Qed.

Theorem C02_beats_bounded_sorted o s y : s <> [] -> length y = length s ->
  feasible (gaps o s) y -> inside o s y ->
  sqdist (map tgt s) (solve_sorted o s) <= sqdist (map tgt s) y.
Proof.
  intros N Ly F I. destruct (inside_separated o s y N Ly F I) as [S E].
  pose proof (C02_layer_sorted o s _ y _ N Ly S) as O. rewrite E in O.
  pose proof (objective_ge_sqdist o s (wallL o s) (solve_sorted o s) (wallR o s)).
  pose proof (sqdist_nonneg (solve_sorted o s) y). lra.
Qed.

Lemma sqdist_same : forall t, sqdist t t == 0.
Proof.
  induction t as [|a t IH]; [reflexivity|]. rewrite sqdist_cons, IH. ring.
Qed.

Lemma sqdist_zero_eq : forall x y, length y = length x -> sqdist x y <= 0 -> Forall2 Qeq x y.
Proof.
  intros x y L H. apply (cost_zero_eq x (map (fun _ => 1) x) y).
  - apply all_pos_ones.
  - apply map_length.
  - exact L.
  - rewrite (cost_unit x x y eq_refl). exact H.
Qed.

Theorem C02_unmoved_sorted o s : s <> [] ->
  feasible (gaps o s) (map tgt s) -> inside o s (map tgt s) ->
  Forall2 Qeq (solve_sorted o s) (map tgt s).
Proof.
  intros N F I. assert (Ly : length (map tgt s) = length s) by apply map_length.
  destruct (inside_separated o s _ N Ly F I) as [S E].
  pose proof (C02_layer_sorted o s _ _ _ N Ly S) as O. rewrite E, sqdist_same in O.
  pose proof (objective_ge_sqdist o s (wallL o s) (solve_sorted o s) (wallR o s)).
  pose proof (sqdist_nonneg (map tgt s) (solve_sorted o s)).
  apply sqdist_zero_eq; [rewrite solve_sorted_length; exact Ly|lra].
Qed.

Lemma Forall2_map_pyround l l' : Forall2 Qeq l l' -> map pyround l = map pyround l'.
Proof.
  induction 1 as [|a b l l' E _ IH]; [reflexivity|]. cbn [map]. rewrite (pyround_comp _ _ E), IH. reflexivity.
Qed.

Lemma sorted_items_nonempty its : its <> [] -> sorted_items its <> [].
Proof.
  intros N E. apply N. apply length_zero_iff_nil.
  rewrite <- (sort_length _ tgt its). fold (sorted_items its). rewrite E. reflexivity.
Qed.

Theorem C02_rounded_lemma o its :
  Forall2 (fun z x => - (1 # 2) <= inject_Z z - x <= 1 # 2) (solve_layer o its) (solve_layer_exact o its).
Proof.
  unfold solve_layer. induction (solve_layer_exact o its) as [|a l IH]; cbn [map]; constructor.
  - apply pyround_near.
  - exact IH.
Qed.

(* ---------- E. the walls: C03 ------------------------------------------- *)

Lemma Qabs'_ge q : q <= Qabs' q /\ - q <= Qabs' q /\ 0 <= Qabs' q.
Proof.
  unfold Qabs'. destruct (Qle_bool 0 q) eqn:E.
  - apply Qle_bool_iff in E. lra.
  - assert (q < 0).
    { apply Qnot_le_lt. intro L. apply Qle_bool_iff in L. congruence. }
    lra.
Qed.

Lemma Qabs'_comp q q' : q == q' -> Qabs' q == Qabs' q'.
Proof.
  intro H. unfold Qabs'.
  assert (E : Qle_bool 0 q = Qle_bool 0 q').
  { destruct (Qle_bool 0 q') eqn:E'.
    - apply Qle_bool_iff. apply Qle_bool_iff in E'. lra.
    - destruct (Qle_bool 0 q) eqn:E''; [|reflexivity].
      apply Qle_bool_iff in E''. assert (X : Qle_bool 0 q' = true) by (apply Qle_bool_iff; lra). congruence. }
  rewrite E. destruct (Qle_bool 0 q'); lra.
Qed.

(* total absolute deviation  sum |w (x - d)| *)
Fixpoint ad (d w x : list Q) : Q :=
  match d, w, x with
  | di :: d', wi :: w', xi :: x' => Qabs' (wi * (xi - di)) + ad d' w' x'
  | _, _, _ => 0
  end.

Lemma ad_nonneg : forall d w x, 0 <= ad d w x.
Proof.
  induction d as [|di d IH]; intros w x; [cbn; lra|].
  destruct w as [|wi w]; [cbn; lra|]. destruct x as [|xi x]; [cbn; lra|].
  cbn [ad]. pose proof (IH w x). pose proof (Qabs'_ge (wi * (xi - di))). lra.
Qed.

Lemma Rs_abs_le_ad : forall d w x, Rs d w x <= ad d w x /\ - Rs d w x <= ad d w x.
Proof.
  induction d as [|di d IH]; intros w x; [cbn; lra|].
  destruct w as [|wi w]; [cbn; lra|]. destruct x as [|xi x]; [cbn; lra|].
  cbn [ad Rs]. pose proof (IH w x). pose proof (Qabs'_ge (wi * (xi - di))). lra.
Qed.

Lemma Rs_snoc : forall x d w dl wl xr, length d = length x -> length w = length x ->
  Rs (d ++ [dl]) (w ++ [wl]) (x ++ [xr]) == Rs d w x + wl * (xr - dl).
Proof.
  induction x as [|xi x IH]; intros d w dl wl xr Ld Lw.
  - destruct d; [|discriminate]. destruct w; [|discriminate]. cbn. ring.
  - destruct d as [|di d]; [discriminate|]. destruct w as [|wi w]; [discriminate|].
    cbn [length] in Ld, Lw. injection Ld as Ld. injection Lw as Lw.
    cbn [app Rs]. rewrite (IH d w dl wl xr Ld Lw). ring.
Qed.

Lemma ad_unit {A} : forall (s : list A) t x, length t = length s ->
  ad t (map (fun _ => 1) s) x == displacement t x.
Proof.
  induction s as [|a s IH]; intros t x L.
  - destruct t; [|discriminate]. reflexivity.
  - destruct t as [|ti t]; [discriminate|]. cbn [length] in L. injection L as L.
    destruct x as [|xi x]; [reflexivity|].
    cbn [map ad]. unfold displacement. cbn [map2]. rewrite Qsum_cons.
    fold (displacement t x). rewrite (IH t x L).
    rewrite (Qabs'_comp (1 * (xi - ti)) (xi - ti)) by ring. reflexivity.
Qed.

(* a chain that ends in a wall: either the wall's multiplier and the total
   gradient are bounded by the deviation of the items, or every constraint is
   tight and both are positive *)
Lemma kkt_right_wall dl wl xr : forall x d w gs,
  length d = length x -> length w = length x -> length gs = length x ->
  kkt (d ++ [dl]) (w ++ [wl]) gs (x ++ [xr]) ->
  (Rs (d ++ [dl]) (w ++ [wl]) (x ++ [xr]) <= ad d w x /\ wl * (xr - dl) <= ad d w x) \/
  (0 < Rs (d ++ [dl]) (w ++ [wl]) (x ++ [xr]) /\
   xr - hd 0 (x ++ [xr]) == Qsum gs /\ 0 < wl * (xr - dl)).
Proof.
  induction x as [|xi x IH]; intros d w gs Ld Lw Lg K.
  - destruct d; [|discriminate]. destruct w; [|discriminate]. destruct gs; [|discriminate].
    cbn [app Rs ad hd]. rewrite Qsum_nil.
    destruct (Qlt_le_dec 0 (wl * (xr - dl))) as [P|P]; [right|left]; repeat split; lra.
  - destruct d as [|di d]; [discriminate|]. destruct w as [|wi w]; [discriminate|].
    destruct gs as [|gi gs]; [discriminate|].
    cbn [length] in Ld, Lw, Lg. injection Ld as Ld. injection Lw as Lw. injection Lg as Lg.
    specialize (IH d w gs Ld Lw Lg).
    pose proof (Rs_snoc x d w dl wl xr Ld Lw) as ER.
    pose proof (Rs_abs_le_ad d w x) as [B1 B2].
    pose proof (ad_nonneg d w x) as An.
    pose proof (Qabs'_ge (wi * (xi - di))) as [Q1 [Q2 Q3]].
    cbn [app Rs ad hd] in *.
    remember (x ++ [xr]) as z eqn:Ez. remember (d ++ [dl]) as D eqn:ED. remember (w ++ [wl]) as WW eqn:EW.
    destruct z as [|xj z]; [destruct x; discriminate|].
    cbn [kkt] in K. destruct K as [K1 [K2 [K3 K4]]].
    cbn [hd] in IH. rewrite Qsum_cons.
    destruct (IH K4) as [[I1 I2]|[I1 [I2 I3]]].
    + left. split; lra.
    + assert (T : xj - xi == gi) by (destruct K3 as [K3|K3]; [lra|exact K3]).
      destruct (Qlt_le_dec 0 (wi * (xi - di) + Rs D WW (xj :: z))) as [P|P].
      * right. repeat split; lra.
      * left. split; lra.
Qed.

Lemma last_indep {A} (l : list A) d d' : l <> [] -> last l d = last l d'.
Proof.
  induction l as [|a l IH]; intro N; [congruence|].
  destruct l as [|b l]; [reflexivity|].
  change (last (a :: b :: l) d) with (last (b :: l) d).
  change (last (a :: b :: l) d') with (last (b :: l) d').
  apply IH. discriminate.
Qed.

Lemma spacing_nonneg o a b : opts_ok o -> 0 <= spacing o a b.
Proof. intros [O1 O2]. unfold spacing. destruct (stub a && stub b); assumption. Qed.

Lemma half_eq (a b : Q) : (a + b) / 2 == a / 2 + b / 2.
Proof. field. Qed.

(* every item starts right of a point its first neighbour starts right of *)
Lemma left_edges o lo : opts_ok o -> forall s xs, items_ok s -> length xs = length s ->
  feasible (gaps o s) xs ->
  (match s, xs with a :: _, x0 :: _ => lo <= x0 - wid a / 2 | _, _ => True end) ->
  Forall2 (fun a xi => lo <= xi - wid a / 2) s xs.
Proof.
  intros O. induction s as [|a s IH]; intros xs Ik L F H.
  - destruct xs; [constructor|discriminate].
  - destruct xs as [|x0 xs]; [discriminate|]. cbn [length] in L. injection L as L.
    inversion Ik as [|? ? Ia I']; subst.
    constructor; [exact H|]. apply IH; [exact I'|exact L| |].
    + destruct s as [|b s]; [destruct xs; [exact I|discriminate]|].
      destruct xs as [|x1 xs]; [discriminate|]. rewrite gaps_cons2 in F.
      exact (proj2 (proj1 (feasible_cons2 _ _ _ _ _) F)).
    + destruct s as [|b s]; [exact I|]. destruct xs as [|x1 xs]; [discriminate|].
      rewrite gaps_cons2 in F. destruct (proj1 (feasible_cons2 _ _ _ _ _) F) as [F1 _]. clear F. rename F1 into F.
      unfold gap in F. rewrite half_eq in F. pose proof (spacing_nonneg o a b O).
      inversion I' as [|? ? Ib _]; subst.
      assert (0 <= wid a / 2) by (apply Qle_shift_div_l; lra).
      lra.
Qed.

Lemma right_edges o hi : opts_ok o -> forall s xs f, items_ok s -> length xs = length s ->
  feasible (gaps o s) xs ->
  (s <> [] -> last xs 0 + wid (last s f) / 2 <= hi) ->
  Forall2 (fun a xi => xi + wid a / 2 <= hi) s xs.
Proof.
  intros O. induction s as [|a s IH]; intros xs f Ik L F H.
  - destruct xs; [constructor|discriminate].
  - destruct xs as [|x0 xs]; [discriminate|]. cbn [length] in L. injection L as L.
    inversion Ik as [|? ? Ia I']; subst.
    destruct s as [|b s].
    + destruct xs; [|discriminate]. constructor; [|constructor].
      cbn [last] in H. apply H. discriminate.
    + destruct xs as [|x1 xs]; [discriminate|]. rewrite gaps_cons2 in F.
      destruct (proj1 (feasible_cons2 _ _ _ _ _) F) as [F1 F2].
      assert (T : Forall2 (fun a xi => xi + wid a / 2 <= hi) (b :: s) (x1 :: xs)).
      { apply (IH (x1 :: xs) f I' L F2). intros _.
        change (last (x0 :: x1 :: xs) 0) with (last (x1 :: xs) 0) in H.
        change (last (a :: b :: s) f) with (last (b :: s) f) in H. apply H. discriminate. }
      constructor; [|exact T]. inversion T as [|? ? ? ? T1 _]; subst.
      unfold gap in F1. rewrite half_eq in F1. pose proof (spacing_nonneg o a b O).
      inversion I' as [|? ? Ib _]; subst.
      assert (0 <= wid b / 2) by (apply Qle_shift_div_l; lra).
      lra.
Qed.

(* how far the walls give way: weight * displacement of a wall is at most the
   total displacement of the items, if the layer fits *)
Lemma wall_bounds o s : s <> [] -> fits o s ->
  (forall m, minP o = Some m ->
     Wwall * (m - wallL o s) <= displacement (map tgt s) (solve_sorted o s)) /\
  (forall M, maxP o = Some M ->
     Wwall * (wallR o s - M) <= displacement (map tgt s) (solve_sorted o s)).
Proof.
  intros N FT. destruct (solve_view o s N) as [V Lx].
  destruct (pava_kkt _ _ _ (chain_ok_layer o s N)) as [K [R _]].
  fold (solve_full o s) in K, R. rewrite V in K, R.
  pose proof (ad_unit s (map tgt s) (solve_sorted o s) (map_length _ _)) as EA.
  pose proof (Rs_abs_le_ad (map tgt s) (map (fun _ => 1) s) (solve_sorted o s)) as [B1 B2].
  pose proof Wwall_pos as WP.
  unfold chain_d, chain_w, chain_g, with_walls, fits, needed_length in *.
  destruct s as [|f s']; [congruence|].
  remember (f :: s') as s eqn:Es.
  remember (solve_sorted o s) as xs eqn:Exs.
  remember (wallL o s) as xl eqn:Exl. remember (wallR o s) as xr eqn:Exr.
  set (t := map tgt s) in *. set (ones := map (fun _ : item => 1) s) in *.
  assert (Lt : length t = length xs) by (unfold t; rewrite map_length; congruence).
  assert (Lo : length ones = length xs) by (unfold ones; rewrite map_length; congruence).
  destruct (minP o) as [m|] eqn:Em, (maxP o) as [M|] eqn:EM; cbn [optl ifsome app] in *.
  - (* both walls *)
    destruct xs as [|x0 xs']; [rewrite Es in Lx; discriminate|].
    cbn [Rs] in R.
    change ((x0 :: xs') ++ [xr]) with (x0 :: (xs' ++ [xr])) in K.
    cbn [kkt] in K. destruct K as [K1 [K2 [K3 K4]]].
    change (x0 :: xs' ++ [xr]) with ((x0 :: xs') ++ [xr]) in K2, K3, K4.
    assert (Lg : length (gaps o s ++ [wid (last s f) / 2]) = length (x0 :: xs')).
    { rewrite app_length, gaps_length, Lx, Es. cbn [length]. lia. }
    destruct (kkt_right_wall M Wwall xr (x0 :: xs') t ones _ Lt Lo Lg K4) as [[I1 I2]|[I1 [I2 I3]]].
    + split; intros b Hb; injection Hb as <-; lra.
    + exfalso. cbn [app hd] in I2. rewrite Qsum_app, Qsum_cons, Qsum_nil in I2.
      assert (T : x0 - xl == wid f / 2) by (destruct K3 as [K3|K3]; [lra|exact K3]).
      set (R1 := Rs (t ++ [M]) (ones ++ [Wwall]) ((x0 :: xs') ++ [xr])) in *.
      assert (xl < m) by nra. assert (M < xr) by nra. lra.
  - (* lower wall only *)
    rewrite !app_nil_r in R. cbn [Rs] in R.
    split; intros b Hb; [injection Hb as <-; lra|discriminate].
  - (* upper wall only *)
    rewrite (Rs_snoc xs t ones M Wwall xr Lt Lo) in R.
    split; intros b Hb; [discriminate|injection Hb as <-; lra].
  - split; intros b Hb; discriminate.
Qed.

Definition delta_sorted (o : lopts) (s : list item) : Q :=
  displacement (map tgt s) (solve_sorted o s) / Wwall.

Theorem C03_inside_sorted o s : s <> [] -> opts_ok o -> items_ok s -> fits o s ->
  (forall m, minP o = Some m ->
     Forall2 (fun a xi => m - delta_sorted o s <= xi - wid a / 2) s (solve_sorted o s)) /\
  (forall M, maxP o = Some M ->
     Forall2 (fun a xi => xi + wid a / 2 <= M + delta_sorted o s) s (solve_sorted o s)).
Proof.
  intros N O Ik FT. destruct (wall_bounds o s N FT) as [BL BR].
  pose proof (solve_separated o s N) as S. pose proof (solve_sorted_length o s) as Lx.
  pose proof Wwall_pos as WP.
  destruct s as [|f s']; [congruence|].
  apply separated_iff in S; [|exact Lx]. destruct S as [F [SL SR]].
  unfold delta_sorted.
  split.
  - intros m Em. rewrite Em in SL. specialize (BL m Em).
    apply (left_edges o _ O _ _ Ik Lx F).
    destruct (solve_sorted o (f :: s')) as [|x0 xs]; [exact I|]. cbn [hd] in SL.
    assert (D : m - wallL o (f :: s') <= displacement (map tgt (f :: s')) (x0 :: xs) / Wwall).
    { apply Qle_shift_div_l; [exact WP|]. lra. }
    lra.
  - intros M EM. rewrite EM in SR. specialize (BR M EM).
    apply (right_edges o _ O _ _ f Ik Lx F). intros _.
    assert (D : wallR o (f :: s') - M <= displacement (map tgt (f :: s')) (solve_sorted o (f :: s')) / Wwall).
    { apply Qle_shift_div_l; [exact WP|]. lra. }
    lra.
Qed.

Lemma Forall2_map_r {A B C} (P : A -> C -> Prop) (f : B -> C) l m :
  Forall2 (fun a b => P a (f b)) l m -> Forall2 P l (map f m).
Proof. induction 1; cbn [map]; constructor; assumption. Qed.

Lemma Forall2_impl {A B} (P Q : A -> B -> Prop) l m :
  (forall a b, P a b -> Q a b) -> Forall2 P l m -> Forall2 Q l m.
Proof. intros H. induction 1; constructor; auto. Qed.

Lemma sorted_items_ok its : items_ok its -> items_ok (sorted_items its).
Proof.
  unfold items_ok. rewrite !Forall_forall. intros H a Ha. apply H.
  unfold sorted_items in Ha. apply sort_in in Ha. exact Ha.
Qed.

Theorem C03_inside_lemma o its : its <> [] -> opts_ok o -> items_ok its ->
  fits o (sorted_items its) ->
  (forall m, minP o = Some m ->
     Forall2 (fun a z => m - (1 # 2) - delta o its <= inject_Z z - wid a / 2)
             (sorted_items its) (solve_layer o its)) /\
  (forall M, maxP o = Some M ->
     Forall2 (fun a z => inject_Z z + wid a / 2 <= M + (1 # 2) + delta o its)
             (sorted_items its) (solve_layer o its)).
Proof.
  intros N O Ik FT.
  destruct (C03_inside_sorted o _ (sorted_items_nonempty its N) O (sorted_items_ok its Ik) FT) as [L R].
  unfold delta, solve_layer, solve_layer_exact. fold (delta_sorted o (sorted_items its)).
  split.
  - intros m Em. apply Forall2_map_r. eapply Forall2_impl; [|exact (L m Em)].
    intros a x H. cbn beta in *. pose proof (pyround_near x). lra.
  - intros M EM. apply Forall2_map_r. eapply Forall2_impl; [|exact (R M EM)].
    intros a x H. cbn beta in *. pose proof (pyround_near x). lra.
Qed.

(* ---------- F. spill ------------------------------------------------------ *)

Lemma Forall2_conj {A B} (P Q : A -> B -> Prop) l m :
  Forall2 P l m -> Forall2 Q l m -> Forall2 (fun a b => P a b /\ Q a b) l m.
Proof.
  intro H. induction H as [|a b l m Hab _ IH]; intro H2; [constructor|].
  inversion H2; subst. constructor; [split; assumption|apply IH; assumption].
Qed.

Lemma Forall_Forall2_l {A B} (P : A -> Prop) (Q : A -> B -> Prop) l m :
  Forall P l -> Forall2 Q l m -> Forall2 (fun a b => P a /\ Q a b) l m.
Proof.
  intros H H2. induction H2 as [|a b l m Hab _ IH]; [constructor|].
  inversion H; subst. constructor; [split; assumption|apply IH; assumption].
Qed.

Definition qlen {A} (l : list A) : Q := inject_Z (Z.of_nat (length l)).

Lemma qlen_cons {A} (a : A) l : qlen (a :: l) == qlen l + 1.
Proof.
  unfold qlen. cbn [length]. rewrite Nat2Z.inj_succ. unfold Z.succ.
  rewrite inject_Z_plus. reflexivity.
Qed.

Lemma disp_bound B : forall s xs,
  Forall2 (fun a xi => - B <= xi - tgt a <= B) s xs ->
  displacement (map tgt s) xs <= qlen s * B.
Proof.
  induction 1 as [|a xi s xs H _ IH].
  - unfold displacement, qlen. cbn [map map2 length]. rewrite Qsum_nil.
    change (inject_Z (Z.of_nat 0)) with 0. lra.
  - cbn [map]. unfold displacement in *. cbn [map2]. rewrite Qsum_cons, qlen_cons.
    assert (Qabs' (xi - tgt a) <= B).
    { unfold Qabs'. destruct (Qle_bool 0 (xi - tgt a)); lra. }
    lra.
Qed.

Theorem C01_separation_le o its i j : (i <= j)%nat -> (j < length its)%nat ->
  Qsum (slice i j (gaps o (sorted_items its))) - 1 <=
  inject_Z (nth j (solve_layer o its) 0%Z) - inject_Z (nth i (solve_layer o its) 0%Z).
Proof.
  intros Hij Hj. destruct (Nat.eq_dec i j) as [->|Ne].
  - rewrite slice_same, Qsum_nil. lra.
  - apply (C01_separation_lemma o its i j); lia.
Qed.

Theorem C03_spill_lemma o its f : its <> [] ->
  let s := sorted_items its in
  let pos := solve_layer o its in
  needed_length o s - 1 <=
  (inject_Z (nth (length its - 1) pos 0%Z) + wid (last s f) / 2) -
  (inject_Z (nth 0 pos 0%Z) - wid (hd f s) / 2).
Proof.
  intros N s pos. subst pos.
  assert (Ls : length s = length its) by (unfold s, sorted_items; apply sort_length).
  assert (Ns : s <> []) by (apply sorted_items_nonempty; exact N).
  assert (Hn : (length its - 1 < length its)%nat).
  { destruct its; [congruence|cbn [length]; lia]. }
  pose proof (C01_separation_le o its 0 (length its - 1) (Nat.le_0_l _) Hn) as S.
  fold s in S.
  assert (E : slice 0 (length its - 1) (gaps o s) = gaps o s).
  { unfold slice. rewrite Nat.sub_0_r. cbn [skipn].
    replace (length its - 1)%nat with (length (gaps o s)) by (rewrite gaps_length, Ls; lia).
    apply firstn_all. }
  rewrite E in S. unfold needed_length.
  destruct s as [|f0 s'] eqn:Es; [congruence|].
  rewrite (last_indep (f0 :: s') f f0) by discriminate. cbn [hd]. lra.
Qed.

Theorem C03_layer_width_lemma :
  (forall a b, layer_width (Some a) (Some b) = Some (b - a)) /\
  (forall mx, layer_width None mx = None) /\
  (forall mn, layer_width mn None = None).
Proof. repeat split; try reflexivity. intros [a|]; reflexivity. Qed.

(* ---------- G. the statements for an arbitrary (unsorted) layer list ----- *)

Theorem C02_layer_lemma o its yl y yr : its <> [] ->
  let s := sorted_items its in
  length y = length its -> separated o s yl y yr ->
  objective o s (wallL o s) (solve_layer_exact o its) (wallR o s) + sqdist (solve_layer_exact o its) y
    <= objective o s yl y yr.
Proof.
  intros N s Ly S. apply C02_layer_sorted; [apply sorted_items_nonempty; exact N| |exact S].
  unfold s, sorted_items. rewrite sort_length. exact Ly.
Qed.

Theorem C02_unique_lemma o its yl y yr : its <> [] ->
  let s := sorted_items its in
  length y = length its -> separated o s yl y yr ->
  objective o s yl y yr <= objective o s (wallL o s) (solve_layer_exact o its) (wallR o s) ->
  Forall2 Qeq (solve_layer_exact o its) y.
Proof.
  intros N s Ly S H. pose proof (C02_layer_lemma o its yl y yr N Ly S) as O. cbn zeta in O. fold s in O.
  apply sqdist_zero_eq; [rewrite solve_layer_exact_length; exact Ly|lra].
Qed.

Theorem C02_beats_bounded_lemma o its y : its <> [] ->
  let s := sorted_items its in
  length y = length its -> feasible (gaps o s) y -> inside o s y ->
  sqdist (map tgt s) (solve_layer_exact o its) <= sqdist (map tgt s) y.
Proof.
  intros N s Ly F I. apply C02_beats_bounded_sorted; try assumption.
  - apply sorted_items_nonempty; exact N.
  - unfold s, sorted_items. rewrite sort_length. exact Ly.
Qed.

Theorem C02_unmoved_lemma o its : its <> [] ->
  let s := sorted_items its in
  feasible (gaps o s) (map tgt s) -> inside o s (map tgt s) ->
  Forall2 Qeq (solve_layer_exact o its) (map tgt s) /\
  solve_layer o its = map (fun a => pyround (tgt a)) s.
Proof.
  intros N s F I.
  pose proof (C02_unmoved_sorted o s (sorted_items_nonempty its N) F I) as U.
  split; [exact U|].
  unfold solve_layer, solve_layer_exact. fold s. rewrite (Forall2_map_pyround _ _ U).
  rewrite map_map. reflexivity.
Qed.

(* the sorted list really is the layer in target order *)
Theorem sorted_items_spec its :
  Permutation its (sorted_items its) /\
  StronglySorted (fun a b => tgt a <= tgt b) (sorted_items its) /\
  (forall k, filter (fun a => Qeq_bool (tgt a) k) (sorted_items its) =
             filter (fun a => Qeq_bool (tgt a) k) its).
Proof.
  unfold sorted_items. split; [apply sort_perm|]. split; [apply sort_strongly_sorted|].
  intro k. apply (sort_stable item tgt k its).
Qed.

(* ---------- H. the bound on delta in the form of DESIGN.md ---------------
   Proof: the layer fits, so packing the items from minP rightwards is a
   separated placement y inside the bounds; each |y_i - t_i| <= B := maxP - minP + Mg.
   By C02_beats_bounded  sum (x_i - t_i)^2 <= sum (y_i - t_i)^2 <= n B^2, and
   2 B |c| <= c^2 + B^2 summed over the items gives  sum |x_i - t_i| <= n B. *)

Fixpoint pack (o : lopts) (a : Q) (s : list item) : list Q :=
  match s with
  | [] => []
  | it :: r => a :: match r with
                    | [] => []
                    | b :: _ => pack o (a + gap o it b) r
                    end
  end.

Lemma pack_cons2 o a it b r : pack o a (it :: b :: r) = a :: pack o (a + gap o it b) (b :: r).
Proof. reflexivity. Qed.

Lemma pack_length o : forall s a, length (pack o a s) = length s.
Proof.
  induction s as [|it s IH]; intro a; [reflexivity|].
  destruct s as [|b r]; [reflexivity|]. rewrite pack_cons2. cbn [length]. rewrite IH. reflexivity.
Qed.

Lemma pack_feasible o : forall s a, feasible (gaps o s) (pack o a s).
Proof.
  induction s as [|it s IH]; intro a; [exact I|].
  destruct s as [|b r]; [exact I|]. rewrite pack_cons2, gaps_cons2.
  specialize (IH (a + gap o it b)).
  destruct r as [|c r].
  - cbn [pack]. apply feasible_cons2. split; [lra|exact I].
  - rewrite pack_cons2 in *. apply feasible_cons2. split; [lra|exact IH].
Qed.

Lemma pack_range o : opts_ok o -> forall s a, items_ok s ->
  Forall (fun y => a <= y <= a + Qsum (gaps o s)) (pack o a s).
Proof.
  intros O. induction s as [|it s IH]; intros a Ik; [constructor|].
  pose proof (Qsum_nonneg _ (gaps_nonneg o _ O Ik)) as GN.
  destruct s as [|b r].
  - cbn [pack gaps] in *. rewrite Qsum_nil in *. constructor; [lra|constructor].
  - rewrite pack_cons2, gaps_cons2 in *. rewrite Qsum_cons in *.
    inversion Ik as [|? ? _ Ik']; subst.
    pose proof (Qsum_nonneg _ (gaps_nonneg o _ O Ik')) as GN'.
    assert (G0 : 0 <= gap o it b).
    { pose proof (gaps_nonneg o _ O Ik) as F. rewrite gaps_cons2 in F. inversion F; assumption. }
    constructor; [lra|].
    eapply Forall_impl; [|exact (IH (a + gap o it b) Ik')].
    intros y Hy. cbn beta in Hy. lra.
Qed.

Lemma Forall_last {A} (P : A -> Prop) l d : Forall P l -> l <> [] -> P (last l d).
Proof.
  induction 1 as [|a l Ha Hl IH]; intro N; [congruence|].
  destruct l as [|b l]; [exact Ha|]. change (last (a :: b :: l) d) with (last (b :: l) d).
  apply IH. discriminate.
Qed.

Lemma Forall_Forall_Forall2 {A B} (P : A -> Prop) (Q : B -> Prop) : forall l m,
  Forall P l -> Forall Q m -> length l = length m -> Forall2 (fun a b => P a /\ Q b) l m.
Proof.
  induction l as [|a l IH]; intros m Hl Hm L; destruct m as [|b m]; try discriminate; [constructor|].
  inversion Hl; subst. inversion Hm; subst. cbn [length] in L. injection L as L.
  constructor; [split; assumption|apply IH; assumption].
Qed.

Lemma sqdist_bound B : forall s ys,
  Forall2 (fun a y => - B <= y - tgt a <= B) s ys ->
  sqdist (map tgt s) ys <= qlen s * (B * B).
Proof.
  induction 1 as [|a y s ys H _ IH].
  - unfold sqdist, qlen. cbn [map map2 length]. rewrite Qsum_nil.
    change (inject_Z (Z.of_nat 0)) with 0. lra.
  - cbn [map]. rewrite sqdist_cons, qlen_cons. set (c := y - tgt a) in *. nra.
Qed.

Lemma amgm_sum B : forall s xs, length xs = length s ->
  displacement (map tgt s) xs * (2 * B) <= sqdist (map tgt s) xs + qlen s * (B * B).
Proof.
  induction s as [|a s IH]; intros xs L.
  - destruct xs; [|discriminate]. unfold displacement, sqdist, qlen. cbn [map map2 length].
    rewrite !Qsum_nil. change (inject_Z (Z.of_nat 0)) with 0. lra.
  - destruct xs as [|x xs]; [discriminate|]. cbn [length] in L. injection L as L.
    specialize (IH xs L). cbn [map]. rewrite sqdist_cons, qlen_cons.
    unfold displacement in *. cbn [map2]. rewrite Qsum_cons.
    set (c := x - tgt a) in *.
    assert (Qabs' c * (2 * B) <= c * c + B * B).
    { unfold Qabs'. destruct (Qle_bool 0 c).
      - assert (0 <= (c - B) * (c - B)) by (set (e := c - B); nra). nra.
      - assert (0 <= (c + B) * (c + B)) by (set (e := c + B); nra). nra. }
    lra.
Qed.

Lemma disp_eq0 : forall t x, Forall2 Qeq t x -> displacement t x == 0.
Proof.
  induction 1 as [|a b t x E _ IH]; [reflexivity|].
  unfold displacement in *. cbn [map2]. rewrite Qsum_cons, IH.
  rewrite (Qabs'_comp (b - a) 0) by lra. reflexivity.
Qed.

Lemma qlen_nonneg {A} (l : list A) : 0 <= qlen l.
Proof. unfold qlen. change 0 with (inject_Z 0). rewrite <- Zle_Qle. lia. Qed.

Theorem C03_displacement_bound o s m M Mg : s <> [] -> opts_ok o -> items_ok s ->
  minP o = Some m -> maxP o = Some M -> fits o s ->
  Forall (fun a => m - Mg <= tgt a <= M + Mg) s ->
  displacement (map tgt s) (solve_sorted o s) <= qlen s * (M - m + Mg).
Proof.
  intros N O Ik Em EM FT T.
  destruct s as [|f s'] eqn:Es; [congruence|]. rewrite <- Es in *.
  assert (Wf : 0 <= wid f) by (rewrite Es in Ik; inversion Ik; assumption).
  assert (Wl : 0 <= wid (last s f)).
  { apply (Forall_last (fun a => 0 <= wid a) s f Ik N). }
  assert (Hf : 0 <= wid f / 2) by (apply Qle_shift_div_l; lra).
  assert (Hl : 0 <= wid (last s f) / 2) by (apply Qle_shift_div_l; lra).
  set (y := pack o (m + wid f / 2) s).
  assert (Ly : length y = length s) by apply pack_length.
  pose proof (pack_range o O s (m + wid f / 2) Ik) as R. fold y in R.
  assert (Ny : y <> []) by (intro E; rewrite E in Ly; rewrite Es in Ly; discriminate).
  unfold fits in FT. rewrite Em, EM in FT. unfold needed_length in FT. rewrite Es in FT. rewrite <- Es in FT.
  assert (In : inside o s y).
  { unfold inside. rewrite Es. rewrite <- Es. rewrite Em, EM. split.
    - unfold y. rewrite Es. cbn [pack hd]. lra.
    - pose proof (Forall_last _ y 0 R Ny) as Hl'. cbn beta in Hl'. lra. }
  pose proof (C02_beats_bounded_sorted o s y N Ly (pack_feasible o s _) In) as Opt.
  set (B := M - m + Mg).
  assert (F2 : Forall2 (fun a yi => - B <= yi - tgt a <= B) s y).
  { eapply Forall2_impl; [|exact (Forall_Forall_Forall2 _ _ s y T R (eq_sym Ly))].
    intros a yi [[T1 T2] [R1 R2]]. cbn beta in *. unfold B. lra. }
  pose proof (sqdist_bound B s y F2) as SB.
  pose proof (amgm_sum B s (solve_sorted o s) (solve_sorted_length o s)) as AG.
  pose proof (qlen_nonneg s) as QN.
  assert (B0 : 0 <= B).
  { rewrite Es in F2. destruct y as [|y0 y']; [congruence|]. inversion F2; subst. lra. }
  destruct (Qlt_le_dec 0 B) as [Bp|Bn].
  - apply (Qmult_le_cancel _ _ (2 * B)); [lra|]. nra.
  - assert (Bz : B == 0) by lra.
    assert (Z : sqdist (map tgt s) (solve_sorted o s) <= 0) by (rewrite Bz in SB; lra).
    apply sqdist_zero_eq in Z; [|rewrite solve_sorted_length, map_length; reflexivity].
    rewrite (disp_eq0 _ _ Z), Bz. lra.
Qed.

Theorem C03_delta_bound_lemma o its m M Mg : its <> [] -> opts_ok o -> items_ok its ->
  minP o = Some m -> maxP o = Some M -> fits o (sorted_items its) ->
  Forall (fun a => m - Mg <= tgt a <= M + Mg) its ->
  delta o its <= qlen its * (M - m + Mg) / Wwall.
Proof.
  intros N O Ik Em EM FT T.
  assert (EL : qlen (sorted_items its) = qlen its).
  { unfold qlen, sorted_items. rewrite sort_length. reflexivity. }
  rewrite <- EL. unfold delta, solve_layer_exact.
  assert (T' : Forall (fun a => m - Mg <= tgt a <= M + Mg) (sorted_items its)).
  { rewrite Forall_forall in *. intros a Ha. apply T. unfold sorted_items in Ha. apply sort_in in Ha. exact Ha. }
  pose proof (C03_displacement_bound o _ m M Mg (sorted_items_nonempty its N) O
                (sorted_items_ok its Ik) Em EM FT T') as D.
  pose proof Wwall_pos.
  apply Qle_shift_div_l; [assumption|].
  assert (E : displacement (map tgt (sorted_items its)) (solve_sorted o (sorted_items its)) / Wwall * Wwall ==
              displacement (map tgt (sorted_items its)) (solve_sorted o (sorted_items its))) by (field; lra).
  rewrite E. exact D.
Qed.

(* ---------- I. an item with room around its target is not moved ---------- *)

Lemma qnth_app1 i (A B : list Q) : (i < length A)%nat -> qnth i (A ++ B) = qnth i A.
Proof. intro H. unfold qnth. apply app_nth1. exact H. Qed.

Lemma qnth_app_last (A : list Q) c : qnth (length A) (A ++ [c]) = c.
Proof. unfold qnth. rewrite app_nth2 by lia. rewrite Nat.sub_diag. reflexivity. Qed.

Lemma qnth_S i a (l : list Q) : qnth (S i) (a :: l) = qnth i l.
Proof. reflexivity. Qed.

Lemma qnth_map_tgt s i a : nth_error s i = Some a -> qnth i (map tgt s) = tgt a.
Proof.
  intro H. unfold qnth. rewrite (nth_indep _ 0 (tgt a)).
  - rewrite map_nth. f_equal. apply nth_error_nth. exact H.
  - rewrite map_length. apply nth_error_Some. congruence.
Qed.

Lemma nth_error_last {A} : forall (s : list A) i a d, nth_error s i = Some a -> S i = length s -> last s d = a.
Proof.
  induction s as [|b s IH]; intros i a d H L; [destruct i; discriminate|].
  destruct s as [|c s].
  - destruct i; [cbn in *; congruence|cbn in L; lia].
  - destruct i as [|i]; [cbn in L; lia|].
    change (last (b :: c :: s) d) with (last (c :: s) d). apply (IH i); [exact H|cbn [length] in *; lia].
Qed.

(* Item i of the layer (in target order): if its left neighbour's solved
   position plus the gap is not right of its target (for the first item: the
   left wall plus half its width, if there is a lower bound), and likewise on
   the right, then it sits exactly at its target. *)
Theorem C02_unmoved_item_lemma o its i a : nth_error (sorted_items its) i = Some a ->
  let s := sorted_items its in
  let x := solve_layer_exact o its in
  let g := gaps o s in
  match i with
  | O => match minP o with Some _ => wallL o s + wid a / 2 <= tgt a | None => True end
  | S i' => qnth i' x + qnth i' g <= tgt a
  end ->
  (if (S i =? length its)%nat
   then match maxP o with Some _ => tgt a <= wallR o s - wid a / 2 | None => True end
   else tgt a <= qnth (S i) x - qnth i g) ->
  qnth i x == tgt a /\ nth i (solve_layer o its) 0%Z = pyround (tgt a).
Proof.
  intros Ha s x g HL HR. subst x g. unfold solve_layer_exact in *. fold s in Ha, HL, HR |- *.
  assert (Ls : length s = length its) by (unfold s, sorted_items; apply sort_length).
  assert (Hi : (i < length s)%nat) by (apply nth_error_Some; congruence).
  assert (N : s <> []) by (intro E; rewrite E in Hi; cbn in Hi; lia).
  cut (qnth i (solve_sorted o s) == tgt a).
  { intro E. split; [exact E|]. unfold solve_layer, solve_layer_exact. fold s.
    rewrite map_qnth_pyround by (rewrite solve_sorted_length; exact Hi). apply pyround_comp. exact E. }
  destruct (solve_view o s N) as [V Lx].
  pose proof (chain_ok_layer o s N) as CK.
  pose proof (qnth_map_tgt s i a Ha) as Td.
  pose proof (gaps_length o s) as Lgp.
  rewrite <- Ls in HR.
  destruct s as [|f s'] eqn:Es; [congruence|]. rewrite <- Es in *.
  assert (Ef : i = 0%nat -> a = f) by (intros ->; rewrite Es in Ha; cbn in Ha; congruence).
  assert (El : S i = length s -> last s f = a) by (intro E; apply (nth_error_last s i a f Ha E)).
  set (xs := solve_sorted o s) in *. set (xl := wallL o s) in *. set (xr := wallR o s) in *.
  assert (Lm : length (map tgt s) = length s) by apply map_length.
  unfold with_walls in V.
  destruct (minP o) as [m|] eqn:Em, (maxP o) as [M|] eqn:EM; cbn [ifsome app] in V.
  - (* both walls: chain index S i *)
    pose proof (pava_unmoved_item _ _ _ (S i) CK) as U. fold (solve_full o s) in U.
    unfold chain_d, chain_g in U. rewrite Em, EM, Es in U. rewrite <- Es in U.
    cbn [optl ifsome app length] in U. rewrite V in U.
    rewrite !qnth_S in U. rewrite (qnth_app1 i xs) in U by lia.
    rewrite (qnth_app1 i (map tgt s)) in U by lia. rewrite Td in U.
    apply U; clear U; rewrite ?app_nil_r.
    + rewrite app_length, Lm. cbn [length]. lia.
    + destruct i as [|i'].
      * unfold qnth. cbn [nth]. rewrite <- (Ef eq_refl). lra.
      * rewrite !qnth_S. rewrite (qnth_app1 i' xs) by lia. rewrite (qnth_app1 i' (gaps o s)) by lia. exact HL.
    + right. destruct (Nat.eqb_spec (S i) (length s)) as [E|E].
      * assert (E1 : i = length (gaps o s)) by lia. assert (E2 : S i = length xs) by lia.
        replace (qnth (S i) (xs ++ [xr])) with xr by (rewrite E2; symmetry; apply qnth_app_last).
        replace (qnth i (gaps o s ++ [wid (last s f) / 2])) with (wid (last s f) / 2)
          by (rewrite E1 at 1; symmetry; apply qnth_app_last).
        rewrite (El E). lra.
      * rewrite (qnth_app1 (S i) xs) by lia. rewrite (qnth_app1 i (gaps o s)) by lia. exact HR.
  - (* lower wall only *)
    pose proof (pava_unmoved_item _ _ _ (S i) CK) as U. fold (solve_full o s) in U.
    unfold chain_d, chain_g in U. rewrite Em, EM, Es in U. rewrite <- Es in U.
    cbn [optl ifsome app length] in U. rewrite !app_nil_r in U, V. rewrite V in U.
    rewrite !qnth_S in U. rewrite Td in U.
    apply U; clear U; rewrite ?app_nil_r.
    + rewrite Lm. lia.
    + destruct i as [|i'].
      * unfold qnth. cbn [nth]. rewrite <- (Ef eq_refl). lra.
      * rewrite !qnth_S. exact HL.
    + destruct (Nat.eqb_spec (S i) (length s)) as [E|E]; [left; rewrite Lm; lia|right; exact HR].
  - (* upper wall only: chain index i *)
    pose proof (pava_unmoved_item _ _ _ i CK) as U. fold (solve_full o s) in U.
    unfold chain_d, chain_g in U. rewrite Em, EM, Es in U. rewrite <- Es in U.
    cbn [optl ifsome app length] in U. rewrite V in U.
    rewrite (qnth_app1 i xs) in U by lia.
    rewrite (qnth_app1 i (map tgt s)) in U by lia. rewrite Td in U.
    apply U; clear U; rewrite ?app_nil_r.
    + rewrite app_length, Lm. cbn [length]. lia.
    + destruct i as [|i']; [exact I|].
      rewrite (qnth_app1 i' xs) by lia. rewrite (qnth_app1 i' (gaps o s)) by lia. exact HL.
    + right. destruct (Nat.eqb_spec (S i) (length s)) as [E|E].
      * assert (E1 : i = length (gaps o s)) by lia. assert (E2 : S i = length xs) by lia.
        replace (qnth (S i) (xs ++ [xr])) with xr by (rewrite E2; symmetry; apply qnth_app_last).
        replace (qnth i (gaps o s ++ [wid (last s f) / 2])) with (wid (last s f) / 2)
          by (rewrite E1 at 1; symmetry; apply qnth_app_last).
        rewrite (El E). lra.
      * rewrite (qnth_app1 (S i) xs) by lia. rewrite (qnth_app1 i (gaps o s)) by lia. exact HR.
  - (* no walls *)
    pose proof (pava_unmoved_item _ _ _ i CK) as U. fold (solve_full o s) in U.
    unfold chain_d, chain_g in U. rewrite Em, EM, Es in U. rewrite <- Es in U.
    cbn [optl ifsome app length] in U. rewrite !app_nil_r in U, V. rewrite V in U.
    rewrite Td in U.
    apply U; clear U; rewrite ?app_nil_r.
    + rewrite Lm. lia.
    + destruct i as [|i']; [exact I|exact HL].
    + destruct (Nat.eqb_spec (S i) (length s)) as [E|E]; [left; rewrite Lm; lia|right; exact HR].
Qed.

(* ---------- J. any two items of which one is a label: no guard needed ------
   The gaps between items i < j add up to both half widths, all widths in
   between and one spacing per hop; a hop that leaves or enters a label uses
   nodeSp (only stub/stub hops use lineSp).  So if item i or item j is not a
   stub, the sum is at least (w_i + w_j)/2 + nodeSp = gap o a c. *)

Lemma items_ok_nth s i a : items_ok s -> nth_error s i = Some a -> 0 <= wid a.
Proof.
  intros I H. unfold items_ok in I. rewrite Forall_forall in I. apply I. eapply nth_error_In; exact H.
Qed.

(* both half widths are always in the sum *)
Lemma gaps_halfwidths o s : opts_ok o -> items_ok s ->
  forall j i a c, (i < j)%nat -> nth_error s i = Some a -> nth_error s j = Some c ->
  wid a / 2 + wid c / 2 <= Qsum (slice i j (gaps o s)).
Proof.
  intros O I. induction j as [|j IH]; intros i a c Hij Ha Hc; [lia|].
  assert (Hjl : (j < length s)%nat).
  { assert (S j < length s)%nat by (apply nth_error_Some; congruence). lia. }
  destruct (nth_error s j) as [b|] eqn:Hb; [|apply nth_error_None in Hb; lia].
  destruct (gaps_nth o s j b c Hb Hc) as [E L].
  rewrite slice_snoc by lia. rewrite Qsum_app, Qsum_cons, Qsum_nil, E.
  pose proof (spacing_nonneg o b c O) as Sp.
  pose proof (items_ok_nth s j b I Hb) as Wb.
  assert (Hb2 : 0 <= wid b / 2) by (apply Qle_shift_div_l; lra).
  unfold gap. rewrite half_eq.
  destruct (Nat.eq_dec i j) as [->|Ne].
  - rewrite slice_same, Qsum_nil. assert (a = b) by congruence. subst. lra.
  - pose proof (IH i a b ltac:(lia) Ha eq_refl). lra.
Qed.

Lemma gaps_from_label o s : opts_ok o -> items_ok s ->
  forall j i a c, (i < j)%nat -> nth_error s i = Some a -> nth_error s j = Some c ->
  stub a = false ->
  (wid a + wid c) / 2 + nodeSp o <= Qsum (slice i j (gaps o s)).
Proof.
  intros O I. induction j as [|j IH]; intros i a c Hij Ha Hc Sa; [lia|].
  assert (Hjl : (j < length s)%nat).
  { assert (S j < length s)%nat by (apply nth_error_Some; congruence). lia. }
  destruct (nth_error s j) as [b|] eqn:Hb; [|apply nth_error_None in Hb; lia].
  destruct (gaps_nth o s j b c Hb Hc) as [E L].
  rewrite slice_snoc by lia. rewrite Qsum_app, Qsum_cons, Qsum_nil, E.
  pose proof (spacing_nonneg o b c O) as Sp.
  pose proof (items_ok_nth s j b I Hb) as Wb.
  rewrite half_eq. unfold gap. rewrite half_eq.
  destruct (Nat.eq_dec i j) as [->|Ne].
  - rewrite slice_same, Qsum_nil. assert (a = b) by congruence. subst.
    unfold spacing. rewrite Sa. cbn [andb]. lra.
  - pose proof (IH i a b ltac:(lia) Ha eq_refl Sa) as B. rewrite half_eq in B.
    assert (0 <= wid b / 2) by (apply Qle_shift_div_l; lra). lra.
Qed.

Lemma gaps_to_label o s : opts_ok o -> items_ok s ->
  forall j i a c, (i < j)%nat -> nth_error s i = Some a -> nth_error s j = Some c ->
  stub c = false ->
  (wid a + wid c) / 2 + nodeSp o <= Qsum (slice i j (gaps o s)).
Proof.
  intros O I j i a c Hij Ha Hc Sc. destruct j as [|j]; [lia|].
  assert (Hjl : (j < length s)%nat).
  { assert (S j < length s)%nat by (apply nth_error_Some; congruence). lia. }
  destruct (nth_error s j) as [b|] eqn:Hb; [|apply nth_error_None in Hb; lia].
  destruct (gaps_nth o s j b c Hb Hc) as [E L].
  rewrite slice_snoc by lia. rewrite Qsum_app, Qsum_cons, Qsum_nil, E.
  pose proof (items_ok_nth s j b I Hb) as Wb.
  rewrite half_eq. unfold gap. rewrite half_eq.
  assert (Sp : spacing o b c = nodeSp o).
  { unfold spacing. rewrite Sc. destruct (stub b); reflexivity. }
  rewrite Sp.
  destruct (Nat.eq_dec i j) as [->|Ne].
  - rewrite slice_same, Qsum_nil. assert (a = b) by congruence. subst. lra.
  - pose proof (gaps_halfwidths o s O I j i a b ltac:(lia) Ha Hb).
    assert (0 <= wid b / 2) by (apply Qle_shift_div_l; lra). lra.
Qed.

(* C01 for any two items of a layer of which at least one is a label *)
Theorem C01_pairwise_labels_lemma o its i j a c : opts_ok o -> items_ok its ->
  (i < j)%nat -> nth_error (sorted_items its) i = Some a -> nth_error (sorted_items its) j = Some c ->
  stub a = false \/ stub c = false ->
  let pos := solve_layer o its in
  (wid a + wid c) / 2 + nodeSp o - 1 <= inject_Z (nth j pos 0%Z) - inject_Z (nth i pos 0%Z).
Proof.
  intros O I Hij Ha Hc S pos. subst pos.
  assert (Hj : (j < length its)%nat).
  { assert (j < length (sorted_items its))%nat by (apply nth_error_Some; congruence).
    unfold sorted_items in *. rewrite sort_length in *. assumption. }
  pose proof (C01_separation_lemma o its i j Hij Hj) as Sep. cbn zeta in Sep.
  pose proof (sorted_items_ok its I) as I'.
  destruct S as [S|S].
  - pose proof (gaps_from_label o _ O I' j i a c Hij Ha Hc S). lra.
  - pose proof (gaps_to_label o _ O I' j i a c Hij Ha Hc S). lra.
Qed.
