(* Proofs about Layout/Distribute.v, part 2: the round-robin algorithm
   ("simple", distributor.py:74-89). *)
From Coq Require Import ZArith QArith List Bool Arith Lia Permutation.
From Labella Require Import Layout.Distribute Layout.DistributeBase.
Import ListNotations.
Open Scope nat_scope.

Lemma nth_repeat_nil {A} L j : nth j (repeat (@nil A) L) [] = [].
Proof. revert j; induction L as [|L IH]; intros [|j]; cbn; auto. Qed.

Lemma concat_repeat_nil {A} L : concat (repeat (@nil A) L) = [].
Proof. induction L; cbn; auto. Qed.

Lemma weighted_repeat_nil L : forall k, weighted k (repeat [] L) = 0.
Proof. induction L as [|L IH]; intro k; cbn [repeat weighted]; [reflexivity|]. rewrite IH. cbn. lia. Qed.

(* effect of the two updates on the total length and on the weighted label count *)
Lemma concat_app_at_length k x ls :
  k < length ls -> length (concat (app_at k x ls)) = S (length (concat ls)).
Proof.
  revert k; induction ls as [|l ls IH]; intros k Hk; cbn [length] in Hk; [lia|].
  destruct k as [|k]; cbn [app_at concat]; rewrite !app_length.
  - cbn [length]. lia.
  - rewrite IH by lia. lia.
Qed.

Lemma weighted_app_at_lab k i ls : forall b,
  k < length ls -> weighted b (app_at k (mk_lab i) ls) = weighted b ls + (b + k + 1).
Proof.
  revert k; induction ls as [|l ls IH]; intros k b Hk; cbn [length] in Hk; [lia|].
  destruct k as [|k]; cbn [app_at weighted].
  - rewrite nonstubs_app, app_length. cbn [nonstubs filter mk_lab snd negb length]. lia.
  - rewrite IH by lia. lia.
Qed.

Lemma concat_app_upto_length k x : forall ls,
  k <= length ls -> length (concat (app_upto k x ls)) = length (concat ls) + k.
Proof.
  induction k as [|k IH]; intros ls Hk.
  - cbn [app_upto]. destruct ls; lia.
  - destruct ls as [|l ls]; cbn [length] in Hk; [lia|].
    cbn [app_upto concat]. rewrite !app_length, IH by lia. cbn [length]. lia.
Qed.

Lemma weighted_app_upto_stub k i : forall ls b,
  weighted b (app_upto k (mk_stub i) ls) = weighted b ls.
Proof.
  induction k as [|k IH]; intros ls b.
  - cbn [app_upto]. destruct ls; reflexivity.
  - destruct ls as [|l ls]; [reflexivity|].
    cbn [app_upto weighted]. rewrite nonstubs_app, IH.
    cbn [nonstubs filter mk_stub snd negb]. now rewrite app_nil_r.
Qed.

Lemma lab_stub_neq i j : mk_lab i <> mk_stub j.
Proof. discriminate. Qed.

Section Simple.
  Variable L : nat.
  Hypothesis HL : 0 < L.

  Definition simple_state (m : nat) : list (list item) :=
    fold_left (simple_step L) (seq 0 m) (repeat [] L).

  Lemma simple_state_S m : simple_state (S m) = simple_step L (simple_state m) m.
  Proof. unfold simple_state. rewrite seq_S, fold_left_app. reflexivity. Qed.

  Lemma simple_length m : length (simple_state m) = L.
  Proof.
    induction m as [|m IH]; [apply repeat_length|].
    rewrite simple_state_S. unfold simple_step. now rewrite app_upto_length, app_at_length.
  Qed.

  Lemma simple_nth_S m j : j < L ->
    nth j (simple_state (S m)) [] =
    (nth j (simple_state m) [] ++ (if j =? m mod L then [mk_lab m] else []))
      ++ (if j <? m mod L then [mk_stub m] else []).
  Proof.
    intro Hj. rewrite simple_state_S. unfold simple_step.
    assert (Hm : m mod L < L) by (apply Nat.mod_upper_bound; lia).
    rewrite nth_app_upto, app_at_length, nth_app_at, simple_length.
    replace (j <? L) with true by (symmetry; now apply Nat.ltb_lt).
    replace (m mod L <? L) with true by (symmetry; now apply Nat.ltb_lt).
    rewrite !andb_true_r.
    destruct (j <? m mod L) eqn:A, (j =? m mod L) eqn:B; rewrite ?app_nil_r; reflexivity.
  Qed.

  Lemma simple_counts m : forall j i, j < L ->
    cnt (nth j (simple_state m) []) (mk_lab i) = (if (i <? m) && (j =? i mod L) then 1 else 0) /\
    cnt (nth j (simple_state m) []) (mk_stub i) = (if (i <? m) && (j <? i mod L) then 1 else 0).
  Proof.
    induction m as [|m IH]; intros j i Hj.
    - unfold simple_state. cbn [seq fold_left]. rewrite nth_repeat_nil. now split.
    - rewrite simple_nth_S by exact Hj. rewrite !cnt_app.
      destruct (IH j i Hj) as [IH1 IH2]. rewrite IH1, IH2.
      assert (Em : (i <? S m) = (i <? m) || (i =? m)).
      { destruct (i <? S m) eqn:A, (i <? m) eqn:B, (i =? m) eqn:C; try reflexivity;
        repeat match goal with
               | H : (_ <? _) = true |- _ => apply Nat.ltb_lt in H
               | H : (_ <? _) = false |- _ => apply Nat.ltb_ge in H
               | H : (_ =? _) = true |- _ => apply Nat.eqb_eq in H
               | H : (_ =? _) = false |- _ => apply Nat.eqb_neq in H
               end; lia. }
      rewrite Em.
      destruct (i =? m) eqn:C.
      + apply Nat.eqb_eq in C. subst i.
        replace (m <? m) with false by (symmetry; apply Nat.ltb_irrefl). cbn [orb andb].
        split.
        * destruct (j =? m mod L), (j <? m mod L); rewrite ?cnt_single, ?cnt_nil;
            repeat match goal with |- context [item_dec ?a ?b] => destruct (item_dec a b) end;
            try discriminate; try congruence; try lia.
        * destruct (j =? m mod L), (j <? m mod L); rewrite ?cnt_single, ?cnt_nil;
            repeat match goal with |- context [item_dec ?a ?b] => destruct (item_dec a b) end;
            try discriminate; try congruence; try lia.
      + apply Nat.eqb_neq in C. rewrite orb_false_r.
        assert (N1 : forall b : bool, cnt (if b then [mk_lab m] else []) (mk_lab i) = 0).
        { intros []; [|reflexivity]. rewrite cnt_single.
          destruct (item_dec _ _) as [E|E]; [apply mk_lab_inj in E; congruence|reflexivity]. }
        assert (N2 : forall b : bool, cnt (if b then [mk_stub m] else []) (mk_lab i) = 0).
        { intros []; [|reflexivity]. rewrite cnt_single. destruct (item_dec _ _); [discriminate|reflexivity]. }
        assert (N3 : forall b : bool, cnt (if b then [mk_lab m] else []) (mk_stub i) = 0).
        { intros []; [|reflexivity]. rewrite cnt_single. destruct (item_dec _ _); [discriminate|reflexivity]. }
        assert (N4 : forall b : bool, cnt (if b then [mk_stub m] else []) (mk_stub i) = 0).
        { intros []; [|reflexivity]. rewrite cnt_single.
          destruct (item_dec _ _) as [E|E]; [apply mk_stub_inj in E; congruence|reflexivity]. }
        rewrite N1, N2, N3, N4. split; lia.
  Qed.

  Lemma simple_total m : length (concat (simple_state m)) = weighted 0 (simple_state m).
  Proof.
    induction m as [|m IH].
    - unfold simple_state. cbn [seq fold_left]. now rewrite concat_repeat_nil, weighted_repeat_nil.
    - rewrite simple_state_S. unfold simple_step.
      assert (Hm : m mod L < L) by (apply Nat.mod_upper_bound; lia).
      rewrite concat_app_upto_length by (rewrite app_at_length, simple_length; lia).
      rewrite concat_app_at_length by (rewrite simple_length; lia).
      rewrite weighted_app_upto_stub, weighted_app_at_lab by (rewrite simple_length; lia).
      lia.
  Qed.

  Lemma simple_well_layered n : well_layered n (fun i => i mod L) (simple_state n).
  Proof.
    split.
    - intros i _. rewrite simple_length. apply Nat.mod_upper_bound. lia.
    - intros j i Hj Hi. rewrite simple_length in Hj.
      destruct (simple_counts n j i Hj) as [H _]. rewrite H.
      apply Nat.ltb_lt in Hi. now rewrite Hi.
    - intros j i Hj Hi. rewrite simple_length in Hj.
      destruct (simple_counts n j i Hj) as [_ H]. rewrite H.
      apply Nat.ltb_lt in Hi. now rewrite Hi.
    - intros j [i b] H. cbn [fst].
      pose proof (nth_In_lt _ _ _ H) as Hj. rewrite simple_length in Hj.
      apply cnt_In in H. destruct (simple_counts n j i Hj) as [H1 H2].
      destruct b.
      + change (i, true) with (mk_stub i) in H. rewrite H2 in H.
        destruct (i <? n) eqn:E; [now apply Nat.ltb_lt|cbn in H; lia].
      + change (i, false) with (mk_lab i) in H. rewrite H1 in H.
        destruct (i <? n) eqn:E; [now apply Nat.ltb_lt|cbn in H; lia].
  Qed.

  (* layers 0 .. min(n,L)-1 are non-empty, the later ones are empty *)
  Lemma simple_contiguous n j : j < L -> (nth j (simple_state n) [] <> [] <-> j < n).
  Proof.
    intro Hj. pose proof (simple_well_layered n) as W. split.
    - intro Hne. destruct (nth j (simple_state n) []) as [|[i b] l] eqn:E; [congruence|].
      assert (Hin : In (i, b) (nth j (simple_state n) [])) by (rewrite E; now left).
      assert (Hi : i mod L <= i) by (apply Nat.mod_le; lia).
      destruct b.
      + destruct (wl_stub_layer _ _ _ W j i Hin) as [Hn Hl]. cbn beta in Hl. lia.
      + destruct (wl_label_layer _ _ _ W j i Hin) as [Hn Hl]. cbn beta in Hl. lia.
    - intros Hn Hnil.
      pose proof (wl_label_in _ _ _ W j Hn) as Hin. cbn beta in Hin.
      rewrite Nat.mod_small in Hin by exact Hj. rewrite Hnil in Hin. contradiction.
  Qed.
End Simple.

Lemma alg_simple_state L n : alg_simple L n = simple_state L n.
Proof. reflexivity. Qed.
