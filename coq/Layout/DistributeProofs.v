(* Proofs about Layout/Distribute.v, part 5: the theorems about `distribute`
   that property C04 states (coq/Props/C04.v). *)
From Coq Require Import ZArith QArith List Bool Arith Lia Lqa Permutation.
From Labella Require Import Layout.Distribute Layout.DistributeBase Layout.DistributeSimple
  Layout.DistributeStubs Layout.DistributeOverlap.
Import ListNotations.
Open Scope nat_scope.

(* ---------- small facts -------------------------------------------------- *)
Lemma widths_of_seq srt : widths_of srt (seq 0 (length srt)) = map l_width srt.
Proof.
  unfold widths_of, width_at, lab_at.
  rewrite <- (map_map (fun i => nth i srt label0) l_width), map_nth_seq. reflexivity.
Qed.

Lemma qsum_const (c : Q) {A} (l : list A) : (qsum (map (fun _ => c) l) == qn (length l) * c)%Q.
Proof.
  induction l as [|x l IH]; cbn [map length].
  - rewrite qn_0. change (qsum []) with 0%Q. ring.
  - rewrite qsum_cons, IH, qn_S. ring.
Qed.

Lemma layer_width_lab_stub o srt b c :
  (layer_required_width o srt (map mk_lab b ++ map mk_stub c) ==
   sumw srt b + qn (length c) * o_stub o + (qn (length b + length c) - 1) * o_spacing o)%Q.
Proof.
  unfold layer_required_width. rewrite required_width_eq.
  rewrite map_app, !map_map, app_length, !map_length, qsum_app.
  cbn [item_width is_stub mk_lab mk_stub snd fst].
  rewrite (qsum_const (o_stub o) c). unfold sumw, widths_of, width_at, lab_at. reflexivity.
Qed.

Lemma layer_width_all o srt :
  (layer_required_width o srt (all_labels (length srt)) ==
   required_width (o_spacing o) (map l_width srt))%Q.
Proof.
  unfold layer_required_width, all_labels. rewrite map_map.
  cbn [item_width is_stub mk_lab snd fst].
  rewrite <- (map_map (fun i => nth i srt label0) l_width), map_nth_seq. reflexivity.
Qed.

Lemma dist_sorted_perm o labels : Permutation (dist_sorted o labels) labels.
Proof. unfold dist_sorted. destruct (o_alg o); try apply sort_labels_perm. reflexivity. Qed.

Lemma dist_sorted_length o labels : length (dist_sorted o labels) = length labels.
Proof. apply Permutation_length, dist_sorted_perm. Qed.

Lemma dist_perm_perm o labels : Permutation (dist_perm o labels) (seq 0 (length labels)).
Proof. unfold dist_perm. destruct (o_alg o); try apply sort_perm_perm. reflexivity. Qed.

Lemma dist_sorted_via_perm o labels :
  dist_sorted o labels = map (fun i => nth i labels label0) (dist_perm o labels).
Proof.
  unfold dist_sorted, dist_perm. destruct (o_alg o); try apply sort_labels_via_perm.
  symmetry. apply map_nth_seq.
Qed.

Lemma dom_sorted_widths o labels : dist_dom o labels ->
  forall w, In w (map l_width (sort_labels labels)) -> (0 < w)%Q.
Proof.
  intros [Hw _] w H. apply in_map_iff in H. destruct H as [l [<- Hl]].
  apply Hw. eapply Permutation_in; [apply sort_labels_perm|exact Hl].
Qed.

Lemma dom_required_pos o labels : dist_dom o labels -> labels <> [] ->
  (0 < required_width (o_spacing o) (map l_width (sort_labels labels)))%Q.
Proof.
  intros D Hne. apply required_width_pos.
  - intro E. apply Hne. apply map_eq_nil in E.
    apply length_zero_iff_nil. rewrite <- (sort_labels_length labels), E. reflexivity.
  - exact (dom_sorted_widths o labels D).
  - apply D.
Qed.

(* when a split is requested on the domain, the budget is positive *)
Lemma dom_split_budget o labels : dist_dom o labels -> labels <> [] ->
  need_to_split o (map l_width (sort_labels labels)) = true ->
  layer_width_set o = true /\ (0 < max_width o)%Q.
Proof.
  intros D Hne H. apply (need_to_split_budget_pos o (map l_width (sort_labels labels))); [|exact H].
  apply Qlt_le_weak. now apply dom_required_pos.
Qed.

(* ---------- unfolding distribute ------------------------------------------ *)
Inductive dist_case (o : dopts) (labels : list label) : option (list (list item)) -> Prop :=
| DC_empty : labels = [] -> dist_case o labels (Some [])
| DC_single : labels <> [] ->
    (o_alg o = AlgNone \/ need_to_split o (map l_width (sort_labels labels)) = false) ->
    dist_case o labels (Some [all_labels (length labels)])
| DC_simple : labels <> [] -> o_alg o = AlgSimple ->
    need_to_split o (map l_width (sort_labels labels)) = true ->
    dist_case o labels
      (Some (alg_simple (Z.to_nat (estimate_layers o (map l_width (sort_labels labels)))) (length labels)))
| DC_overlap : labels <> [] -> o_alg o = AlgOverlap ->
    need_to_split o (map l_width (sort_labels labels)) = true ->
    dist_case o labels (alg_overlap o (sort_labels labels)).

Lemma distribute_cases o labels : dist_case o labels (distribute o labels).
Proof.
  unfold distribute. destruct labels as [|l labels]; [now constructor|].
  set (lab := l :: labels). assert (Hne : lab <> []) by discriminate.
  destruct (o_alg o) eqn:A.
  - destruct (need_to_split o (map l_width (sort_labels lab))) eqn:S; cbn [negb].
    + now apply DC_overlap.
    + apply DC_single; auto.
  - destruct (need_to_split o (map l_width (sort_labels lab))) eqn:S; cbn [negb].
    + now apply DC_simple.
    + apply DC_single; auto.
  - apply DC_single; auto.
Qed.

(* ---------- the overlap algorithm as a whole ------------------------------ *)
Section OverlapWhole.
  Variable o : dopts.
  Variable labels : list label.
  Hypothesis D : dist_dom o labels.
  Hypothesis Hne : labels <> [].
  Hypothesis Hsplit : need_to_split o (map l_width (sort_labels labels)) = true.

  Let srt := sort_labels labels.
  Let n := length labels.

  Lemma ow_budget : (- o_spacing o <= max_width o)%Q.
  Proof.
    destruct (dom_split_budget o labels D Hne Hsplit) as [_ H].
    destruct D as [_ [Hs _]]. lra.
  Qed.

  Lemma ow_exceeds :
    (max_width o < required_width (o_spacing o) (widths_of srt (seq 0 (length srt))))%Q.
  Proof.
    destruct (dom_split_budget o labels D Hne Hsplit) as [Hset Hmw].
    rewrite widths_of_seq. now apply need_to_split_pos.
  Qed.

  Lemma ow_fuel : alg_overlap o srt <> None.
  Proof.
    unfold alg_overlap.
    pose proof (outer_fuel srt o ow_budget (S (length srt)) (seq 0 (length srt))) as F.
    destruct (outer srt o (S (length srt)) (seq 0 (length srt))); [discriminate|].
    exfalso. apply F; [|reflexivity]. left. rewrite seq_length. lia.
  Qed.

  Lemma ow_spec ls : alg_overlap o srt = Some ls ->
    exists bs, ls = stub_pass (map (map mk_lab) bs) /\
      Permutation (concat bs) (seq 0 n) /\ Forall (fun b => b <> []) bs /\ cap_ok srt o bs /\
      (2 < n -> 2 <= length bs).
  Proof.
    unfold alg_overlap. intro H.
    destruct (outer srt o (S (length srt)) (seq 0 (length srt))) as [bs|] eqn:E; [|discriminate].
    injection H as <-. exists bs.
    destruct (outer_spec srt o ow_budget _ _ _ E) as [P [F [C [_ S2]]]].
    assert (Ln : length srt = n) by apply sort_labels_length.
    rewrite Ln in P.
    repeat split; auto.
    intro L. apply S2; [rewrite seq_length; lia|apply ow_exceeds].
  Qed.
End OverlapWhole.

(* ---------- fuel ---------------------------------------------------------- *)
Theorem distribute_fuel_enough o labels : dist_dom o labels -> distribute o labels <> None.
Proof.
  intro D. destruct (distribute_cases o labels); try discriminate.
  now apply ow_fuel.
Qed.

(* ---------- structure ----------------------------------------------------- *)
Lemma well_layered_nil lay : well_layered 0 lay [].
Proof.
  split; cbn [length]; try (intros; lia).
  intros j it H. destruct j; contradiction.
Qed.

Theorem distribute_well_layered o labels ls :
  dist_dom o labels -> distribute o labels = Some ls ->
  exists lay, well_layered (length labels) lay ls /\ length (concat ls) = weighted 0 ls.
Proof.
  intros D H. destruct (distribute_cases o labels) as [E|Hne _|Hne A S|Hne A S].
  - injection H as <-. subst labels. exists (fun _ => 0). split; [apply well_layered_nil|reflexivity].
  - injection H as <-. exists (fun _ => 0). split; [|apply single_total].
    apply single_well_layered. destruct labels; [congruence|cbn; lia].
  - injection H as <-. rewrite alg_simple_state.
    set (L := Z.to_nat (estimate_layers o (map l_width (sort_labels labels)))).
    assert (HL : 0 < L).
    { unfold need_to_split in S. apply Z.ltb_lt in S. unfold L. lia. }
    exists (fun i => i mod L). split; [now apply simple_well_layered|now apply simple_total].
  - destruct (ow_spec o labels D Hne S ls H) as [bs [-> [P _]]].
    exists (find_layer bs). split; [now apply stub_pass_well_layered|apply stub_pass_labs_total].
Qed.

Theorem distribute_conservation o labels ls :
  dist_dom o labels -> distribute o labels = Some ls ->
  Permutation (labels_of ls) (seq 0 (length labels)) /\
  Permutation (map (fun i => nth i (dist_sorted o labels) label0) (labels_of ls)) labels.
Proof.
  intros D H. destruct (distribute_well_layered o labels ls D H) as [lay [W _]].
  pose proof (wl_conservation _ _ _ W) as P. split; [exact P|].
  etransitivity; [apply Permutation_map, P|].
  rewrite <- (dist_sorted_length o labels), map_nth_seq. apply dist_sorted_perm.
Qed.

Lemma In_lab_nonstubs i l : In (mk_lab i) l -> nonstubs l <> [].
Proof.
  intros H E. assert (G : In (mk_lab i) (nonstubs l)) by (apply filter_In; split; [exact H|reflexivity]).
  rewrite E in G. contradiction.
Qed.

(* contiguity: overlap and none never return a layer without a label; simple
   returns numLayers layers of which exactly the first min(n, numLayers) hold
   labels, the others are empty *)
Theorem distribute_contiguous o labels ls :
  dist_dom o labels -> distribute o labels = Some ls ->
  (o_alg o <> AlgSimple -> Forall (fun l => nonstubs l <> []) ls) /\
  (o_alg o = AlgSimple -> forall j, j < length ls ->
     (nonstubs (nth j ls []) <> [] <-> j < length labels) /\
     (nth j ls [] <> [] <-> j < length labels)).
Proof.
  intros D H. destruct (distribute_cases o labels) as [E|Hne _|Hne A S|Hne A S].
  - injection H as <-. split; [constructor|]. cbn [length]. intros; lia.
  - injection H as <-.
    assert (Hn : 0 < length labels) by (destruct labels; [congruence|cbn; lia]).
    assert (N : nonstubs (all_labels (length labels)) <> []).
    { unfold all_labels. rewrite nonstubs_map_lab. destruct (length labels); [lia|discriminate]. }
    split.
    + intros _. constructor; [exact N|constructor].
    + intros _ j Hj. cbn [length] in Hj. assert (j = 0) by lia. subst j. cbn [nth].
      split; split; intro; try lia; try exact N.
      intro E. rewrite E in N. now apply N.
  - injection H as <-. rewrite alg_simple_state in *.
    set (L := Z.to_nat (estimate_layers o (map l_width (sort_labels labels)))).
    assert (HL : 0 < L).
    { unfold need_to_split in S. apply Z.ltb_lt in S. unfold L. lia. }
    split; [congruence|]. intros _ j Hj. fold L in Hj. rewrite simple_length in Hj by exact HL.
    pose proof (simple_contiguous L HL (length labels) j Hj) as C. fold L.
    split; [|exact C]. split.
    + intro N. apply C. intro E. rewrite E in N. now apply N.
    + intro Hn. pose proof (wl_label_in _ _ _ (simple_well_layered L HL (length labels)) j Hn) as Hin.
      cbn beta in Hin. rewrite Nat.mod_small in Hin by exact Hj. eapply In_lab_nonstubs, Hin.
  - split; [|congruence]. intros _.
    destruct (ow_spec o labels D Hne S ls H) as [bs [-> [_ [F _]]]].
    clear - F. induction bs as [|b bs IH]; [constructor|].
    rewrite stub_pass_labs_cons. inversion F; subst. constructor; [|now apply IH].
    rewrite nonstubs_lab_stub. destruct b; [congruence|discriminate].
Qed.

(* ---------- single layer --------------------------------------------------- *)
Theorem distribute_single o labels :
  labels <> [] ->
  o_alg o = AlgNone \/ layer_width_set o = false \/
  (dist_dom o labels /\ (0 < max_width o)%Q /\
   (required_width (o_spacing o) (map l_width labels) <= max_width o)%Q) ->
  distribute o labels = Some [all_labels (length labels)].
Proof.
  intros Hne Hc. destruct (distribute_cases o labels) as [E|_ _|_ A S|_ A S]; try congruence; exfalso.
  all: destruct Hc as [Hc|[Hc|[D [Hmw Hreq]]]];
    [congruence|rewrite need_to_split_unset in S by exact Hc; discriminate|].
  all: destruct (dom_split_budget o labels D Hne S) as [Hset _];
    apply (need_to_split_pos o _ Hset Hmw) in S;
    rewrite (required_width_perm _ _ _ (Permutation_map l_width (sort_labels_perm labels))) in S;
    eapply Qlt_not_le; eassumption.
Qed.

(* ---------- overlap: split and capacity ------------------------------------ *)
Theorem distribute_splits o labels :
  dist_dom o labels -> o_alg o = AlgOverlap -> 3 <= length labels ->
  layer_width_set o = true -> (0 < max_width o)%Q ->
  (max_width o < required_width (o_spacing o) (map l_width labels))%Q ->
  exists ls, distribute o labels = Some ls /\ 2 <= length ls.
Proof.
  intros D A Hn Hset Hmw Hreq.
  assert (Hne : labels <> []) by (destruct labels; [cbn in Hn; lia|discriminate]).
  assert (S : need_to_split o (map l_width (sort_labels labels)) = true).
  { apply (need_to_split_pos o _ Hset Hmw).
    now rewrite (required_width_perm _ _ _ (Permutation_map l_width (sort_labels_perm labels))). }
  pose proof (distribute_fuel_enough o labels D) as F.
  destruct (distribute o labels) as [ls|] eqn:E; [|congruence].
  exists ls. split; [reflexivity|].
  destruct (distribute_cases o labels) as [E0|_ [A'|S']|_ A' _|_ _ _]; try congruence.
  destruct (ow_spec o labels D Hne S ls E) as [bs [-> [_ [_ [_ L]]]]].
  rewrite stub_pass_length, map_length. apply L. lia.
Qed.

Lemma cap_layers o srt bs : cap_ok srt o bs ->
  forall l, In l (stub_pass (map (map mk_lab) bs)) ->
    length (nonstubs l) <= 2 \/ (layer_required_width o srt l <= max_width o)%Q.
Proof.
  induction bs as [|b bs IH]; intros C l Hl; [cbn in Hl; contradiction|].
  rewrite stub_pass_labs_cons in Hl. destruct C as [Cb C]. destruct Hl as [<-|Hl]; [|now apply IH].
  rewrite nonstubs_lab_stub, map_length.
  destruct Cb as [Cb|Cb]; [now left|right].
  rewrite layer_width_lab_stub, concat_rev_length. exact Cb.
Qed.

Theorem distribute_capacity o labels ls :
  dist_dom o labels -> o_alg o = AlgOverlap ->
  layer_width_set o = true -> (0 < max_width o)%Q ->
  distribute o labels = Some ls ->
  forall l, In l ls ->
    length (nonstubs l) <= 2 \/
    (layer_required_width o (dist_sorted o labels) l <= max_width o)%Q.
Proof.
  intros D A Hset Hmw H l Hl.
  assert (Es : dist_sorted o labels = sort_labels labels) by (unfold dist_sorted; now rewrite A).
  rewrite Es.
  destruct (distribute_cases o labels) as [E|Hne [A'|S]|_ A' _|Hne _ S]; try congruence.
  - injection H as <-. contradiction.
  - injection H as <-. destruct Hl as [<-|[]]. right.
    rewrite <- (sort_labels_length labels), layer_width_all.
    destruct (Qlt_le_dec (max_width o) (required_width (o_spacing o) (map l_width (sort_labels labels)))) as [L|L];
      [|exact L].
    apply (need_to_split_pos o _ Hset Hmw) in L. congruence.
  - destruct (ow_spec o labels D Hne S ls H) as [bs [-> [_ [_ [C _]]]]].
    now apply (cap_layers o (sort_labels labels) bs C).
Qed.

(* ---------- the engine ------------------------------------------------------ *)
Theorem force_layers_reported f labels :
  force_layers f labels = distribute (dopts_of_fopts f) labels /\
  o_alg (dopts_of_fopts f) = f_alg f /\ o_density (dopts_of_fopts f) = f_density f /\
  o_spacing (dopts_of_fopts f) = f_spacing f /\ o_stub (dopts_of_fopts f) = f_stub f /\
  o_layerWidth (dopts_of_fopts f) =
    match f_minPos f, f_maxPos f with Some a, Some b => Some (b - a)%Q | _, _ => None end.
Proof. repeat split. Qed.

(* ---------- statements in terms of the option record ----------------------- *)
Lemma lw_unset_none o : o_layerWidth o = None -> layer_width_set o = false.
Proof. unfold layer_width_set. now intros ->. Qed.

Lemma lw_unset_zero o lw : o_layerWidth o = Some lw -> (lw == 0)%Q -> layer_width_set o = false.
Proof.
  unfold layer_width_set. intros -> E. apply negb_false_iff. now apply Qeq_bool_iff.
Qed.

Lemma lw_set_pos o lw : o_layerWidth o = Some lw -> (0 < lw)%Q -> (0 < o_density o)%Q ->
  layer_width_set o = true /\ max_width o = (o_density o * lw)%Q /\ (0 < max_width o)%Q.
Proof.
  unfold layer_width_set, max_width. intros -> L Dn. repeat split.
  - apply negb_true_iff. destruct (Qeq_bool lw 0) eqn:E; [|reflexivity].
    apply Qeq_bool_iff in E. rewrite E in L. exfalso. now apply (Qlt_irrefl 0).
  - apply Qmult_lt_0_compat; assumption.
Qed.

Theorem distribute_chains o labels ls :
  dist_dom o labels -> distribute o labels = Some ls ->
  (forall k i, In (mk_lab i) (nth k ls []) ->
     i < length labels /\
     (forall j, cnt (nth j ls []) (mk_lab i) = if j =? k then 1 else 0) /\
     (forall j, cnt (nth j ls []) (mk_stub i) = if j <? k then 1 else 0)) /\
  (forall j i, In (mk_stub i) (nth j ls []) ->
     exists k, j < k /\ In (mk_lab i) (nth k ls [])) /\
  (forall j it, In it (nth j ls []) -> fst it < length labels) /\
  length (concat ls) = weighted 0 ls.
Proof.
  intros D H. destruct (distribute_well_layered o labels ls D H) as [lay [W T]].
  repeat split.
  - now destruct (wl_label_layer _ _ _ W _ _ H0).
  - now apply (wl_unique_label _ _ _ W).
  - now apply (wl_chains _ _ _ W).
  - now apply (wl_stub_owner _ _ _ W).
  - apply (wl_range _ _ _ W).
  - exact T.
Qed.

Theorem distribute_single_opts o labels :
  labels <> [] ->
  o_alg o = AlgNone \/ o_layerWidth o = None \/
  (exists lw, o_layerWidth o = Some lw /\
     ((lw == 0)%Q \/
      ((0 < lw)%Q /\ dist_dom o labels /\
       (required_width (o_spacing o) (map l_width labels) <= o_density o * lw)%Q))) ->
  distribute o labels = Some [all_labels (length labels)].
Proof.
  intros Hne [A|[N|[lw [E [Z|[L [D R]]]]]]]; apply distribute_single; auto.
  - right; left. now apply lw_unset_none.
  - right; left. now apply (lw_unset_zero o lw).
  - right; right. destruct (lw_set_pos o lw E L) as [_ [Em Hm]]; [apply D|].
    split; [exact D|]. split; [exact Hm|]. now rewrite Em.
Qed.

Theorem distribute_splits_opts o labels lw :
  dist_dom o labels -> o_alg o = AlgOverlap -> o_layerWidth o = Some lw -> (0 < lw)%Q ->
  3 <= length labels ->
  (o_density o * lw < required_width (o_spacing o) (map l_width labels))%Q ->
  exists ls, distribute o labels = Some ls /\ 2 <= length ls.
Proof.
  intros D A E L Hn R. destruct (lw_set_pos o lw E L) as [Hset [Em Hm]]; [apply D|].
  apply distribute_splits; auto. now rewrite Em.
Qed.

Theorem distribute_capacity_opts o labels lw ls :
  dist_dom o labels -> o_alg o = AlgOverlap -> o_layerWidth o = Some lw -> (0 < lw)%Q ->
  distribute o labels = Some ls ->
  forall l, In l ls ->
    length (nonstubs l) <= 2 \/
    (layer_required_width o (dist_sorted o labels) l <= o_density o * lw)%Q.
Proof.
  intros D A E L H l Hl. destruct (lw_set_pos o lw E L) as [Hset [Em Hm]]; [apply D|].
  rewrite <- Em. now apply (distribute_capacity o labels ls).
Qed.

Lemma dist_dom_b_sound o labels : dist_dom_b o labels = true -> dist_dom o labels.
Proof.
  unfold dist_dom_b, dist_dom. rewrite !andb_true_iff. intros [[[A B] C] E].
  repeat split.
  - intros l Hl. rewrite forallb_forall in A. apply Qltb_true. now apply A.
  - now apply Qle_bool_iff.
  - now apply Qle_bool_iff.
  - now apply Qltb_true.
Qed.
