(* Proofs about Layout/Force.v: the engine with the real per-layer solver.
   Part 1: history independence (instances of Layout/ForceStateProofs.v).
   Part 2: composition with the layer theorems (C01_all_layers, C02_targets).
   Part 3: permutation of the labels (C06_permutation), tie order. *)
From Coq Require Import ZArith QArith List Bool Arith Lia Lqa Permutation Sorting.Sorted.
From Labella Require Base.QUtil Base.QUtilProofs Base.Sort Base.SortProofs Layout.Layer Layout.LayerProofs.
From Labella Require Import Layout.Distribute Layout.DistributeBase Layout.DistributeStubs
  Layout.DistributeProofs Layout.ForceState Layout.ForceStateProofs Layout.Force.
Import ListNotations.
Open Scope nat_scope.

(* ====================== Part 1: histories ================================== *)
Definition track (ops : list op) : list nodeobj * eopts :=
  fold_left track_step ops ([], default_eopts).

Theorem scrub_real st :
  engine_dom (st_opts st) (st_nodes st) ->
  force_out (force_compute st) = force_out (force_compute (scrub_state st)) /\
  st_layers (force_compute st) = st_layers (force_compute (scrub_state st)).
Proof. exact (force_scrub solve st). Qed.

Theorem history_real ops :
  NoDup (map n_id (fst (track ops))) -> engine_dom (snd (track ops)) (fst (track ops)) ->
  Permutation (force_out (force_compute (force_run ops)))
              (force_out (layout_nodes (snd (track ops)) (fst (track ops)))) /\
  st_layers (force_compute (force_run ops)) = st_layers (layout_nodes (snd (track ops)) (fst (track ops))).
Proof. exact (force_history solve ops). Qed.

(* the states right after the computes of a history are the computes of its prefixes *)
Lemma force_trace_app st pre post :
  force_trace st (pre ++ post) = force_trace st pre ++ force_trace (fold_left force_step pre st) post.
Proof.
  revert st; induction pre as [|o pre IH]; intro st; [reflexivity|].
  cbn [app force_trace fold_left]. destruct o; rewrite IH; reflexivity.
Qed.

Theorem trace_prefix pre post :
  force_trace init_state (pre ++ Compute :: post) =
  force_trace init_state pre ++ force_compute (force_run pre) :: force_trace (force_compute (force_run pre)) post.
Proof. rewrite force_trace_app. reflexivity. Qed.

Theorem recompute_real st :
  NoDup (map n_id (st_nodes st)) -> engine_dom (st_opts st) (st_nodes st) ->
  Permutation (force_out (force_compute (force_compute st))) (force_out (force_compute st)) /\
  st_layers (force_compute (force_compute st)) = st_layers (force_compute st).
Proof. exact (force_recompute solve st). Qed.

Lemma track_app ops o : track (ops ++ [o]) = track_step (track ops) o.
Proof. unfold track. rewrite fold_left_app. reflexivity. Qed.

(* an engine with any past, handed a (different) label list, lays it out like a fresh engine *)
Theorem reuse_real ops L :
  L <> [] -> NoDup (map n_id L) -> engine_dom (snd (track ops)) L ->
  Permutation (force_out (force_compute (force_run (ops ++ [SetNodes L]))))
              (force_out (layout_nodes (snd (track ops)) L)) /\
  st_layers (force_compute (force_run (ops ++ [SetNodes L]))) = st_layers (layout_nodes (snd (track ops)) L).
Proof.
  intros Hne N D.
  assert (E : track (ops ++ [SetNodes L]) = (L, snd (track ops))).
  { rewrite track_app. cbn [track_step]. destruct L; [congruence|reflexivity]. }
  pose proof (history_real (ops ++ [SetNodes L])) as H. rewrite E in H. now apply H.
Qed.

(* a fresh engine configured by one set_options and handed the labels *is* the stateless layout *)
Theorem fresh_engine_real u L :
  L <> [] -> NoDup (map n_id L) -> engine_dom (apply_update default_eopts u) L ->
  Permutation (force_out (force_compute (force_run [SetOptions u; SetNodes L])))
              (force_out (layout_nodes (apply_update default_eopts u) L)) /\
  st_layers (force_compute (force_run [SetOptions u; SetNodes L])) =
  st_layers (layout_nodes (apply_update default_eopts u) L).
Proof. intros Hne N D. exact (reuse_real [SetOptions u] L Hne N D). Qed.

(* ====================== Part 2: the layers ================================= *)
Lemma sorted_pairs_lsorted e tbl prev l : lsorted tgt_leb (sorted_pairs e tbl prev l).
Proof. apply isort_lsorted. intros a b. apply Qle_bool_total. Qed.

Lemma lsorted_items_Sorted (S : list (ritem * litem)) :
  lsorted tgt_leb S ->
  Sorted (SortProofs.key_le Layer.item Layer.tgt) (map (fun x => layer_item (snd x)) S).
Proof.
  induction S as [|a S IH]; intro H; [constructor|].
  destruct H as [Hd H]. cbn [map]. constructor; [now apply IH|].
  destruct S as [|b S]; cbn [map]; constructor.
  unfold SortProofs.key_le, layer_item. cbn [Layer.tgt].
  unfold tgt_leb in Hd. now apply Qle_bool_iff.
Qed.

(* removeOverlap's own sort finds the layer already in target order *)
Lemma problem_sorted e tbl prev l :
  Layer.sorted_items (map (fun x => layer_item (snd x)) (sorted_pairs e tbl prev l)) =
  map (fun x => layer_item (snd x)) (sorted_pairs e tbl prev l).
Proof.
  unfold Layer.sorted_items. apply SortProofs.sort_sorted_id.
  apply lsorted_items_Sorted, sorted_pairs_lsorted.
Qed.

Lemma combine_seq_map {A B C} (g : A -> B -> C) (d : B) : forall (S : list A) (sol : list B),
  length sol = length S ->
  map (fun jr => g (snd jr) (nth (fst jr) sol d)) (combine (seq 0 (length S)) S) =
  map (fun xz => g (fst xz) (snd xz)) (combine S sol).
Proof.
  induction S as [|x S IH]; intros [|z sol] L; cbn [length] in L; try discriminate; [reflexivity|].
  cbn [length seq combine map fst snd nth]. f_equal.
  rewrite <- seq_shift.
  assert (E : forall (l1 : list nat) (l2 : list A),
             combine (map Datatypes.S l1) l2 = map (fun p => (Datatypes.S (fst p), snd p)) (combine l1 l2)).
  { induction l1 as [|a l1 IH1]; intros [|b l2]; cbn; try reflexivity. now rewrite IH1. }
  rewrite E, map_map. cbn [fst snd nth]. apply IH. lia.
Qed.

(* one layer of the engine is one call of the layer model on the sorted problem *)
Definition assign (S : list (ritem * litem)) (sol : list Z) : list ritem :=
  map (fun xz => mkRitem (r_id (fst (fst xz))) (r_stub (fst (fst xz))) (inject_Z (snd xz))) (combine S sol).

Lemma solve_layer_view e tbl prev l :
  ForceState.solve_layer solve e tbl prev l =
  assign (sorted_pairs e tbl prev l)
         (Layer.solve_layer (solver_opts e) (map (fun x => layer_item (snd x)) (sorted_pairs e tbl prev l))).
Proof.
  unfold ForceState.solve_layer, assign. fold (sorted_pairs e tbl prev l).
  set (S := sorted_pairs e tbl prev l).
  assert (Es : solve (lopts_of_eopts e) (map snd S) =
               Layer.solve_layer (solver_opts e) (map (fun x => layer_item (snd x)) S)).
  { unfold solve, solver_opts. now rewrite map_map. }
  rewrite Es.
  apply (combine_seq_map (fun (x : ritem * litem) z => mkRitem (r_id (fst x)) (r_stub (fst x)) (inject_Z z)) 0%Z).
  now rewrite LayerProofs.solve_layer_length, map_length.
Qed.

Lemma assign_cur S sol : length sol = length S -> map r_cur (assign S sol) = map inject_Z sol.
Proof.
  unfold assign. rewrite map_map. cbn [r_cur]. intro L.
  rewrite <- (map_map snd inject_Z). f_equal. now apply map_snd_combine.
Qed.

Lemma assign_shape S sol : length sol = length S ->
  map shape (assign S sol) = map (fun x => shape (fst x)) S.
Proof.
  unfold assign. rewrite map_map. unfold shape. cbn [r_id r_stub]. intro L.
  rewrite <- (map_map fst (fun x : ritem * litem => (r_id (fst x), r_stub (fst x)))). f_equal.
  now apply map_fst_combine.
Qed.

Lemma run_pairs e tbl : forall ls prev,
  Forall2 (fun s ps => s = assign ps (Layer.solve_layer (solver_opts e) (map (fun x => layer_item (snd x)) ps)) /\
                       exists prev' l, ps = sorted_pairs e tbl prev' l)
          (run_layers solve e tbl prev ls) (layer_pairs e tbl prev ls).
Proof.
  induction ls as [|l ls IH]; intro prev; [constructor|].
  cbn [run_layers layer_pairs]. constructor; [|apply IH].
  split; [apply solve_layer_view|now exists prev, l].
Qed.

(* what a compute does, with the pieces named *)
Lemma compute_unfold st :
  engine_dom (st_opts st) (st_nodes st) ->
  exists rs ls,
    let e := st_opts st in
    let ns1 := map remove_stub (st_nodes st) in
    let T := isort nleb ns1 in
    distribute (dopts_of_eopts e) (map label_of ns1) = Some ls /\
    rs = map (map (ritem_of (ord_of (e_alg e) ns1))) ls /\
    compute_ritems st = Some rs /\
    compute_pairs st = layer_pairs e T None rs /\
    st_layers (force_compute st) =
      Some (map (map (fun r => (r_id r, r_stub r, r_cur r))) (run_layers solve e T None rs)) /\
    st_nodes (force_compute st) =
      map (write_back (run_layers solve e T None rs)) (match e_alg e with AlgNone => T | _ => ns1 end).
Proof.
  intro D. unfold force_compute, ForceState.force_compute, compute_pairs, compute_ritems.
  set (e := st_opts st). set (ns1 := map remove_stub (st_nodes st)).
  assert (Eord0 : (match e_alg e with AlgNone => ns1 | _ => isort nleb ns1 end) = ord_of (e_alg e) ns1)
    by (unfold ord_of; destruct (e_alg e); reflexivity).
  rewrite Eord0.
  assert (Ea : e_alg e = o_alg (dopts_of_eopts e)) by reflexivity.
  assert (Hdist : distribute_on (dopts_of_eopts e) (map label_of (ord_of (e_alg e) ns1)) =
                  distribute (dopts_of_eopts e) (map label_of ns1))
    by (rewrite Ea; apply distribute_on_nodes).
  assert (D1 : dist_dom (dopts_of_eopts e) (map label_of ns1))
    by (unfold ns1; rewrite label_of_remove_stub; exact D).
  rewrite Hdist.
  destruct (distribute (dopts_of_eopts e) (map label_of ns1)) as [ls|] eqn:EL.
  2:{ exfalso. now apply (distribute_fuel_enough _ _ D1). }
  exists (map (map (ritem_of (ord_of (e_alg e) ns1))) ls), ls. cbn zeta.
  repeat split; reflexivity.
Qed.

(* C01_all_layers *)
Definition lineSp_ok (e : eopts) : Prop :=
  match e_lineSpacing e with Some x => (0 <= x)%Q | None => True end.

Lemma solver_opts_ok e L : engine_dom e L -> lineSp_ok e -> Layer.opts_ok (solver_opts e).
Proof.
  intros [_ [Hs _]] Hl. unfold Layer.opts_ok, solver_opts, layer_opts, lopts_of_eopts.
  cbn [Layer.nodeSp Layer.lineSp lo_nodeSpacing lo_lineSpacing]. split; [exact Hs|].
  unfold lineSp_ok in Hl. destruct (e_lineSpacing e); [exact Hl|discriminate].
Qed.

Lemma find_node_In id l : find_node id l = node0 \/ In (find_node id l) l.
Proof.
  induction l as [|nd l IH]; [now left|]. cbn [find_node].
  destruct (n_id nd =? id); [right; now left|]. destruct IH; [now left|right; now right].
Qed.

Lemma pairs_items_ok e tbl prev l :
  (0 <= e_stub e)%Q -> (forall nd, In nd tbl -> (0 <= n_width nd)%Q) ->
  Layer.items_ok (map (fun x => layer_item (snd x)) (sorted_pairs e tbl prev l)).
Proof.
  intros Hs Hw. unfold Layer.items_ok. apply Forall_forall. intros it Hit.
  apply in_map_iff in Hit. destruct Hit as [[r li] [<- Hin]].
  unfold sorted_pairs in Hin. eapply Permutation_in in Hin; [|apply isort_perm].
  apply in_map_iff in Hin. destruct Hin as [r' [E _]]. injection E as -> <-.
  unfold layer_item, litem_of. cbn [Layer.wid li_width snd].
  destruct (r_stub r); [exact Hs|].
  unfold node_of. destruct (find_node_In (r_id r) tbl) as [-> |H]; [cbn; lra|now apply Hw].
Qed.

Definition layer_separated (o : Layer.lopts) (its : list Layer.item) : Prop :=
  forall i j, i < j -> j < length its ->
    (QUtil.Qsum (QUtil.slice i j (Layer.gaps o its)) - 1 <=
     inject_Z (nth j (Layer.solve_layer o its) 0%Z) - inject_Z (nth i (Layer.solve_layer o its) 0%Z))%Q.

Definition layer_ordered (o : Layer.lopts) (its : list Layer.item) : Prop :=
  forall i j, i < j -> j < length its ->
    (nth i (Layer.solve_layer o its) 0 <= nth j (Layer.solve_layer o its) 0)%Z /\
    ((1 < QUtil.Qsum (QUtil.slice i j (Layer.gaps o its)))%Q ->
     (nth i (Layer.solve_layer o its) 0 < nth j (Layer.solve_layer o its) 0)%Z).

(* every reported layer is the layer model's answer to that layer's problem,
   the problem is in target order, and the C01 statements hold for it *)
Definition layer_report_ok (e : eopts) (rep : list report_item) (ps : list (ritem * litem)) : Prop :=
  let o := solver_opts e in
  let its := map (fun x => layer_item (snd x)) ps in
  map rshape rep = map (fun x => shape (fst x)) ps /\
  map snd rep = map inject_Z (Layer.solve_layer o its) /\
  Layer.sorted_items its = its /\
  layer_separated o its /\ layer_ordered o its.

Theorem all_layers_real st :
  engine_dom (st_opts st) (st_nodes st) -> lineSp_ok (st_opts st) ->
  exists rep, st_layers (force_compute st) = Some rep /\
              Forall2 (layer_report_ok (st_opts st)) rep (compute_pairs st).
Proof.
  intros D Hl. destruct (compute_unfold st D) as [rs [ls [_ [_ [_ [Ep [El _]]]]]]].
  cbn zeta in Ep, El. eexists. split; [exact El|]. rewrite Ep.
  set (e := st_opts st) in *. set (T := isort nleb (map remove_stub (st_nodes st))).
  apply Forall2_map_l.
  eapply Forall2_impl; [|apply run_pairs].
  intros s ps [-> [prev' [l' Eps]]]. cbn beta.
  assert (HT : forall nd, In nd T -> (0 <= n_width nd)%Q).
  { intros nd H. unfold T in H. eapply Permutation_in in H; [|apply isort_perm].
    apply in_map_iff in H. destruct H as [x [<- Hx]]. cbn [remove_stub n_width].
    destruct D as [Hw _]. apply Qlt_le_weak, (Hw (label_of x)). now apply in_map. }
  assert (Hstub : (0 <= e_stub e)%Q) by (destruct D as [_ [_ [H _]]]; exact H).
  set (its := map (fun x => layer_item (snd x)) ps).
  set (o := solver_opts e).
  assert (Len : length (Layer.solve_layer o its) = length ps)
    by (unfold its; now rewrite LayerProofs.solve_layer_length, map_length).
  assert (Srt : Layer.sorted_items its = its) by (unfold its; rewrite Eps; apply problem_sorted).
  assert (Iok : Layer.items_ok its) by (unfold its; rewrite Eps; now apply pairs_items_ok).
  assert (Ook : Layer.opts_ok o) by (apply (solver_opts_ok e (st_nodes st)); assumption).
  unfold layer_report_ok. fold o its.
  split; [|split; [|split; [exact Srt|split]]].
  - rewrite map_map. cbn [rshape fst snd]. rewrite <- (assign_shape ps _ Len). reflexivity.
  - rewrite map_map. cbn [snd]. rewrite <- (assign_cur ps _ Len). reflexivity.
  - intros i j Hij Hj. pose proof (LayerProofs.C01_separation_lemma o its i j Hij Hj) as H.
    cbn zeta in H. now rewrite Srt in H.
  - intros i j Hij Hj. pose proof (LayerProofs.C01_order_lemma o its i j Ook Iok Hij Hj) as H.
    cbn zeta in H. now rewrite Srt in H.
Qed.

(* ---------- C02_targets ------------------------------------------------------ *)
Lemma nth_layer_pairs e tbl : forall ls prev j, j < length ls ->
  nth j (layer_pairs e tbl prev ls) [] =
  sorted_pairs e tbl (match j with 0 => prev | S j' => Some (nth j' (run_layers solve e tbl prev ls) []) end)
               (nth j ls []).
Proof.
  induction ls as [|l ls IH]; intros prev j Hj; cbn [length] in Hj; [lia|].
  cbn [layer_pairs run_layers]. destruct j as [|j]; [reflexivity|].
  cbn [nth]. rewrite IH by lia. destruct j; reflexivity.
Qed.

Lemma layer_pairs_length e tbl : forall ls prev, length (layer_pairs e tbl prev ls) = length ls.
Proof. induction ls as [|l ls IH]; intro prev; cbn [layer_pairs length]; [reflexivity|now rewrite IH]. Qed.

Lemma run_layers_length e tbl : forall ls prev, length (run_layers solve e tbl prev ls) = length ls.
Proof. induction ls as [|l ls IH]; intro prev; cbn [run_layers length]; [reflexivity|now rewrite IH]. Qed.

Lemma sorted_pairs_In e tbl prev l r li :
  In (r, li) (sorted_pairs e tbl prev l) -> In r l /\ li = litem_of e tbl prev r.
Proof.
  intro H. unfold sorted_pairs in H. eapply Permutation_in in H; [|apply isort_perm].
  apply in_map_iff in H. destruct H as [r' [E Hr]]. injection E as -> <-. now split.
Qed.

Lemma find_ritem_some id : forall l p, find_ritem id l = Some p -> In p l /\ r_id p = id.
Proof.
  induction l as [|r l IH]; intros p H; cbn [find_ritem] in H; [discriminate|].
  destruct (r_id r =? id) eqn:E.
  - injection H as <-. split; [now left|now apply Nat.eqb_eq].
  - destruct (IH p H). split; [now right|assumption].
Qed.

Lemma cnt_map_inj_on {A} (f : A -> item) (dec : forall x y : A, {x = y} + {x <> y}) (a : A) : forall l,
  (forall x, In x l -> f x = f a -> x = a) ->
  cnt (map f l) (f a) = count_occ dec l a.
Proof.
  induction l as [|x l IH]; intro H; [reflexivity|]. cbn [map]. unfold cnt in *. cbn [count_occ].
  destruct (item_dec (f x) (f a)) as [E|E], (dec x a) as [E'|E'].
  - f_equal. apply IH. intros; apply H; [now right|assumption].
  - exfalso. apply E', H; [now left|exact E].
  - subst. congruence.
  - apply IH. intros; apply H; [now right|assumption].
Qed.

Lemma cnt_one_unique {A} (f : A -> item) y : forall l a b,
  cnt (map f l) y = 1 -> In a l -> In b l -> f a = y -> f b = y -> a = b.
Proof.
  induction l as [|x l IH]; intros a b C Ha Hb Fa Fb; [contradiction|].
  cbn [map] in C. unfold cnt in C. cbn [count_occ] in C.
  destruct (item_dec (f x) y) as [E|E].
  - assert (Z0 : cnt (map f l) y = 0) by (unfold cnt; lia).
    assert (N : forall z, In z l -> f z <> y).
    { intros z Hz Fz. assert (0 < cnt (map f l) y); [|lia].
      apply cnt_In. rewrite <- Fz. now apply in_map. }
    destruct Ha as [<-|Ha]; [|exfalso; now apply (N a)].
    destruct Hb as [<-|Hb]; [reflexivity|exfalso; now apply (N b)].
  - destruct Ha as [<-|Ha]; [congruence|]. destruct Hb as [<-|Hb]; [congruence|].
    now apply IH.
Qed.

Lemma ids_nth_inj ord i i' :
  NoDup (map n_id ord) -> i < length ord -> i' < length ord ->
  n_id (nth i ord node0) = n_id (nth i' ord node0) -> i = i'.
Proof.
  intros N Hi Hi' E.
  apply (proj1 (NoDup_nth (map n_id ord) 0) N); rewrite ?map_length; try assumption.
  change 0 with (n_id node0). now rewrite !map_nth.
Qed.

Lemma shape_ritem_of ord (l : list item) : map shape (map (ritem_of ord) l) = map (ishape ord) l.
Proof. rewrite map_map. apply map_ext. intros [i b]. reflexivity. Qed.

(* layer j' holds, for an item of layer j'+1, exactly one object with that
   label's identity, and it is a stub *)
Lemma prev_layer_stub o labels ls ord j' it :
  dist_dom o labels -> distribute o labels = Some ls ->
  NoDup (map n_id ord) -> length ord = length labels ->
  In it (nth (S j') ls []) ->
  let S' := map (ishape ord) (nth j' ls []) in
  let id := n_id (nth (fst it) ord node0) in
  cnt S' (id, true) = 1 /\ forall b, In (id, b) S' -> b = true.
Proof.
  intros D H N Ln Hit S' id.
  destruct (distribute_chains o labels ls D H) as [C1 [C2 [C3 _]]].
  assert (Hi : fst it < length ord) by (rewrite Ln; eapply C3, Hit).
  destruct it as [i b0]. cbn [fst] in *.
  (* the label i lives in some layer k > j' *)
  assert (K : exists k, j' < k /\ In (mk_lab i) (nth k ls [])).
  { destruct b0.
    - destruct (C2 _ _ Hit) as [k [Hk Hin]]. exists k. split; [lia|exact Hin].
    - exists (S j'). split; [lia|exact Hit]. }
  destruct K as [k [Hk Hlab]]. destruct (C1 k i Hlab) as [_ [Clab Cstub]].
  assert (Inj : forall b x, In x (nth j' ls []) -> ishape ord x = ishape ord (i, b) -> x = (i, b)).
  { intros b [i' b'] Hx E. unfold ishape in E. cbn [fst snd] in E. injection E as E1 E2. subst b'.
    f_equal. apply (ids_nth_inj ord i' i N); [rewrite Ln; eapply (C3 j' (i', b)), Hx|exact Hi|exact E1]. }
  split.
  - change (id, true) with (ishape ord (i, true)). unfold S'.
    rewrite (cnt_map_inj_on (ishape ord) item_dec (i, true)) by (apply Inj).
    change (count_occ item_dec (nth j' ls []) (i, true)) with (cnt (nth j' ls []) (mk_stub i)).
    rewrite Cstub. replace (j' <? k) with true; [reflexivity|]. symmetry. apply Nat.ltb_lt. lia.
  - intros b Hb. destruct b; [reflexivity|exfalso].
    unfold S' in Hb. apply in_map_iff in Hb. destruct Hb as [x [E Hx]].
    pose proof (Inj false x Hx E) as Ex0. subst x.
    apply cnt_In in Hx. change (i, false) with (mk_lab i) in Hx. rewrite Clab in Hx.
    replace (j' =? k) with false in Hx; [lia|]. symmetry. apply Nat.eqb_neq. lia.
Qed.

Lemma Forall2_nth {A B} (R : A -> B -> Prop) (da : A) (db : B) :
  R da db -> forall a b, Forall2 R a b -> forall j, R (nth j a da) (nth j b db).
Proof.
  intros H0 a b F. induction F as [|x y a b Hxy F IH]; intro j; destruct j; cbn [nth]; auto.
Qed.

Lemma nth_map_map {A B} (f : A -> B) (ls : list (list A)) j :
  nth j (map (map f) ls) [] = map f (nth j ls []).
Proof. exact (map_nth (map f) ls [] j). Qed.

Definition report (r : ritem) : report_item := (r_id r, r_stub r, r_cur r).

Theorem targets_real st :
  engine_dom (st_opts st) (st_nodes st) -> NoDup (map n_id (st_nodes st)) ->
  exists rep, st_layers (force_compute st) = Some rep /\
    forall j r li, In (r, li) (nth j (compute_pairs st) []) ->
      match j with
      | 0 => exists nd, In nd (st_nodes st) /\ n_id nd = r_id r /\ li_target li = n_pos nd
      | S j' => exists c, In (r_id r, true, c) (nth j' rep []) /\ li_target li = c /\
                          forall b c', In (r_id r, b, c') (nth j' rep []) -> b = true /\ c' = c
      end.
Proof.
  intros D N. destruct (compute_unfold st D) as [rs [ls [Hd [Ers [_ [Ep [El _]]]]]]].
  cbn zeta in *. eexists. split; [exact El|].
  set (e := st_opts st) in *. set (ns1 := map remove_stub (st_nodes st)) in *.
  set (T := isort nleb ns1) in *. set (ord := ord_of (e_alg e) ns1) in *.
  set (solved := run_layers solve e T None rs).
  assert (D1 : dist_dom (dopts_of_eopts e) (map label_of ns1))
    by (unfold ns1; rewrite label_of_remove_stub; exact D).
  assert (Nns : NoDup (map n_id ns1)) by (unfold ns1; rewrite map_map; exact N).
  assert (Pord : Permutation ord ns1) by apply ord_of_perm.
  assert (Nord : NoDup (map n_id ord))
    by (eapply Permutation_NoDup; [symmetry; apply Permutation_map, Pord|exact Nns]).
  assert (NT : NoDup (map n_id T))
    by (eapply Permutation_NoDup; [symmetry; apply Permutation_map, isort_perm|exact Nns]).
  assert (Lord : length ord = length (map label_of ns1))
    by (rewrite map_length; apply Permutation_length, Pord).
  destruct (distribute_chains _ _ _ D1 Hd) as [_ [_ [C3 _]]].
  intros j r li Hin. rewrite Ep in Hin.
  assert (Hj : j < length rs).
  { destruct (Nat.lt_ge_cases j (length rs)) as [L|L]; [exact L|].
    rewrite nth_overflow in Hin by (now rewrite layer_pairs_length). contradiction. }
  rewrite nth_layer_pairs in Hin by exact Hj.
  apply sorted_pairs_In in Hin. destruct Hin as [Hr ->].
  (* r is the object of some item of the distributor's layer j *)
  assert (Hit : exists it, In it (nth j ls []) /\ r = ritem_of ord it).
  { rewrite Ers in Hr. change (@nil ritem) with (map (ritem_of ord) []) in Hr.
    rewrite map_nth in Hr. apply in_map_iff in Hr. destruct Hr as [it [E Hit]]. now exists it. }
  destruct Hit as [it [Hit ->]].
  assert (Hi : fst it < length ord) by (rewrite Lord; eapply C3, Hit).
  set (nd := nth (fst it) ord node0).
  assert (Hnd : In nd ns1) by (eapply Permutation_in; [exact Pord|apply nth_In, Hi]).
  assert (HndT : In nd T) by (eapply Permutation_in; [symmetry; apply isort_perm|exact Hnd]).
  assert (Fnd : find_node (n_id nd) T = nd) by (now apply find_node_NoDup).
  destruct j as [|j'].
  - (* layer 0: the label's ideal position *)
    unfold ns1 in Hnd. apply in_map_iff in Hnd. destruct Hnd as [x [Ex Hx]].
    exists x. split; [exact Hx|].
    assert (Er : r_id (ritem_of ord it) = n_id nd) by reflexivity.
    split; [rewrite Er, <- Ex; reflexivity|].
    unfold litem_of, target, node_of. cbn [li_target]. rewrite Er, Fnd.
    rewrite <- Ex. cbn [remove_stub n_parent n_pos]. now destruct (r_stub (ritem_of ord it)).
  - (* deeper layers: the stub of the same label in the solved layer j' *)
    set (pl := nth j' solved []).
    assert (Hj' : j' < length rs) by lia.
    assert (Ppl : Permutation (map shape pl) (map (ishape ord) (nth j' ls []))).
    { pose proof (run_layers_shapes solve e T rs None) as F. fold solved in F.
      pose proof (Forall2_nth (fun s l => Permutation (map shape s) (map shape l)) [] []
                    (Permutation_refl _) _ _ F j') as G.
      unfold pl. etransitivity; [exact G|].
      rewrite Ers. change (@nil ritem) with (map (ritem_of ord) []).
      rewrite map_nth, shape_ritem_of. reflexivity. }
    destruct (prev_layer_stub _ _ _ ord j' it D1 Hd Nord Lord Hit) as [Cnt Only].
    cbn zeta in Cnt, Only. fold nd in Cnt, Only.
    assert (CntP : cnt (map shape pl) (n_id nd, true) = 1).
    { rewrite <- Cnt. apply (Permutation_count_occ item_dec), Ppl. }
    assert (OnlyP : forall p, In p pl -> r_id p = n_id nd -> r_stub p = true).
    { intros p Hp Hid. apply (Only (r_stub p)).
      eapply Permutation_in; [exact Ppl|]. apply in_map_iff. exists p. split; [|exact Hp].
      unfold shape. now rewrite Hid. }
    assert (Ex : exists p, In p pl /\ shape p = (n_id nd, true)).
    { assert (H0 : In (n_id nd, true) (map shape pl)) by (apply cnt_In; lia).
      apply in_map_iff in H0. destruct H0 as [p [E Hp]]. now exists p. }
    destruct Ex as [p [Hp Sp]].
    assert (Uniq : forall p', In p' pl -> r_id p' = n_id nd -> p' = p).
    { intros p' Hp' Hid. apply (cnt_one_unique shape (n_id nd, true) pl); auto.
      unfold shape. rewrite Hid, (OnlyP p' Hp' Hid). reflexivity. }
    exists (r_cur p).
    rewrite nth_map_map. fold pl. change (fun r : ritem => (r_id r, r_stub r, r_cur r)) with report.
    unfold shape in Sp. injection Sp as Sp1 Sp2.
    split; [|split].
    + apply in_map_iff. exists p. split; [|exact Hp]. unfold report. cbn [ritem_of r_id]. fold nd.
      now rewrite Sp1, Sp2.
    + unfold litem_of, target. cbn [li_target ritem_of r_id]. fold nd. fold solved. fold pl.
      destruct (find_ritem (n_id nd) pl) as [p0|] eqn:F.
      * destruct (find_ritem_some _ _ _ F) as [Hp0 Hid0]. now rewrite (Uniq p0 Hp0 Hid0).
      * exfalso. rewrite find_ritem_none in F. now apply (F p Hp).
    + intros b c' Hbc. apply in_map_iff in Hbc. destruct Hbc as [p' [E Hp']].
      unfold report in E. cbn [ritem_of r_id] in E. fold nd in E. injection E as E1 E2 E3.
      rewrite (Uniq p' Hp' E1) in E2, E3. subst. now split.
Qed.

(* ====================== Part 3: renaming label identities ==================== *)
(* A layout uses the identities of the node objects only to tell them apart:
   it commutes with every renaming that is injective on the identities present. *)
Definition ren_node (rho : nat -> nat) (nd : nodeobj) : nodeobj :=
  mkNode (rho (n_id nd)) (n_pos nd) (n_width nd) (n_child nd) (n_cur nd) (n_layer nd) (n_parent nd) (n_ocount nd).
Definition ren_ritem (rho : nat -> nat) (r : ritem) : ritem := mkRitem (rho (r_id r)) (r_stub r) (r_cur r).
Definition ren_report (rho : nat -> nat) (x : report_item) : report_item := (rho (fst (fst x)), snd (fst x), snd x).
Definition ren_state (rho : nat -> nat) (st : fstate) : fstate :=
  mkState (map (ren_node rho) (st_nodes st)) (st_opts st)
          (option_map (map (map (ren_report rho))) (st_layers st)).
Definition inj_on (S : list nat) (rho : nat -> nat) : Prop :=
  forall a b, In a S -> In b S -> rho a = rho b -> a = b.

Lemma inj_on_incl S S' rho : incl S' S -> inj_on S rho -> inj_on S' rho.
Proof. intros I H a b Ha Hb. apply H; now apply I. Qed.

Section Renaming.
  Variable solve0 : lopts -> list litem -> list Z.
  Variable rho : nat -> nat.
  Variable S : list nat.
  Hypothesis Inj : inj_on S rho.

  Lemma find_node_ren : forall tbl id, incl (map n_id tbl) S -> In id (map n_id tbl) ->
    find_node (rho id) (map (ren_node rho) tbl) = ren_node rho (find_node id tbl).
  Proof.
    induction tbl as [|nd tbl IH]; intros id I H; [contradiction|].
    cbn [map find_node ren_node n_id].
    destruct (n_id nd =? id) eqn:E.
    - apply Nat.eqb_eq in E. rewrite E, Nat.eqb_refl. reflexivity.
    - apply Nat.eqb_neq in E.
      assert (E' : (rho (n_id nd) =? rho id) = false).
      { apply Nat.eqb_neq. intro R. apply E, Inj; [apply I; now left|apply I; exact H|exact R]. }
      rewrite E'. apply IH.
      + intros x Hx. apply I. now right.
      + destruct H as [H|H]; [congruence|exact H].
  Qed.

  Lemma find_ritem_ren : forall l id, (forall r, In r l -> In (r_id r) S) -> In id S ->
    find_ritem (rho id) (map (ren_ritem rho) l) = option_map (ren_ritem rho) (find_ritem id l).
  Proof.
    induction l as [|r l IH]; intros id I H; [reflexivity|].
    cbn [map find_ritem ren_ritem r_id].
    destruct (r_id r =? id) eqn:E.
    - apply Nat.eqb_eq in E. rewrite E, Nat.eqb_refl. reflexivity.
    - apply Nat.eqb_neq in E.
      assert (E' : (rho (r_id r) =? rho id) = false).
      { apply Nat.eqb_neq. intro R. apply E, Inj; [apply I; now left|exact H|exact R]. }
      rewrite E'. apply IH; [intros; apply I; now right|exact H].
  Qed.

  Definition ids_in (l : list ritem) : Prop := forall r, In r l -> In (r_id r) S.
  Definition oids_in (prev : option (list ritem)) : Prop :=
    match prev with Some pl => ids_in pl | None => True end.

  Lemma litem_of_ren e tbl prev r :
    incl (map n_id tbl) S -> In (r_id r) (map n_id tbl) -> oids_in prev ->
    litem_of e (map (ren_node rho) tbl) (option_map (map (ren_ritem rho)) prev) (ren_ritem rho r) =
    litem_of e tbl prev r.
  Proof.
    intros I Hr Hp. unfold litem_of, target, node_of. cbn [ren_ritem r_id r_stub].
    rewrite find_node_ren by assumption. cbn [ren_node n_pos n_width n_child n_parent].
    destruct prev as [pl|]; cbn [option_map]; [|reflexivity].
    rewrite find_ritem_ren; [|exact Hp|apply I, Hr].
    destruct (find_ritem (r_id r) pl); reflexivity.
  Qed.

  Definition ren_pair (x : (nat * bool) * litem) : (nat * bool) * litem :=
    ((rho (fst (fst x)), snd (fst x)), snd x).

  Lemma solve_shapes_ren e pairs :
    solve_shapes solve0 e (map ren_pair pairs) = map (ren_ritem rho) (solve_shapes solve0 e pairs).
  Proof.
    unfold solve_shapes.
    rewrite (isort_map ren_pair leb2 leb2) by reflexivity.
    rewrite !map_length, combine_map_r, !map_map. cbn [ren_pair snd].
    apply map_ext. intros [j [[i b] li]]. reflexivity.
  Qed.

  Lemma solve_layer_ren e tbl prev l :
    incl (map n_id tbl) S -> (forall r, In r l -> In (r_id r) (map n_id tbl)) -> oids_in prev ->
    ForceState.solve_layer solve0 e (map (ren_node rho) tbl) (option_map (map (ren_ritem rho)) prev)
                           (map (ren_ritem rho) l) =
    map (ren_ritem rho) (ForceState.solve_layer solve0 e tbl prev l).
  Proof.
    intros I Hl Hp. rewrite !solve_layer_shapes, <- solve_shapes_ren. f_equal.
    rewrite !map_map. apply map_ext_in. intros r Hr.
    unfold ren_pair. cbn [fst snd]. rewrite litem_of_ren by auto. reflexivity.
  Qed.

  Lemma solve_layer_ids e tbl prev l r :
    In r (ForceState.solve_layer solve0 e tbl prev l) -> In (r_id r) (map r_id l).
  Proof.
    intro H.
    assert (P : Permutation (map r_id (ForceState.solve_layer solve0 e tbl prev l)) (map r_id l)).
    { pose proof (solve_layer_shape_perm solve0 e tbl prev l) as P.
      apply (Permutation_map fst) in P. rewrite !map_map in P. exact P. }
    eapply Permutation_in; [exact P|]. now apply in_map.
  Qed.

  Lemma run_layers_ren e tbl : incl (map n_id tbl) S ->
    forall ls prev, (forall l, In l ls -> forall r, In r l -> In (r_id r) (map n_id tbl)) -> oids_in prev ->
    run_layers solve0 e (map (ren_node rho) tbl) (option_map (map (ren_ritem rho)) prev)
               (map (map (ren_ritem rho)) ls) =
    map (map (ren_ritem rho)) (run_layers solve0 e tbl prev ls).
  Proof.
    intro I. induction ls as [|l ls IH]; intros prev Hl Hp; [reflexivity|].
    cbn [map run_layers].
    rewrite solve_layer_ren; [|exact I|apply Hl; now left|exact Hp]. f_equal.
    apply (IH (Some (ForceState.solve_layer solve0 e tbl prev l))).
    - intros l' Hl'. apply Hl. now right.
    - intros r Hr. apply I. apply solve_layer_ids in Hr. apply in_map_iff in Hr.
      destruct Hr as [r' [<- Hr']]. apply (Hl l); [now left|exact Hr'].
  Qed.

  Lemma run_layers_ids e tbl : forall ls prev l r,
    In l (run_layers solve0 e tbl prev ls) -> In r l ->
    exists l0, In l0 ls /\ In (r_id r) (map r_id l0).
  Proof.
    induction ls as [|l0 ls IH]; intros prev l r Hl Hr; [contradiction|].
    cbn [run_layers] in Hl. destruct Hl as [<-|Hl].
    - exists l0. split; [now left|]. eapply solve_layer_ids, Hr.
    - destruct (IH _ _ _ Hl Hr) as [l1 [H1 H2]]. exists l1. split; [now right|exact H2].
  Qed.

  Lemma rlabels_ren l : rlabels (map (ren_ritem rho) l) = map (ren_ritem rho) (rlabels l).
  Proof.
    unfold rlabels. induction l as [|r l IH]; [reflexivity|]. cbn [map filter ren_ritem r_stub].
    destruct (negb (r_stub r)); cbn [map]; now rewrite IH.
  Qed.

  Lemma ids_in_rlabels l : ids_in l -> ids_in (rlabels l).
  Proof. intros H r Hr. apply H. unfold rlabels in Hr. now apply filter_In in Hr. Qed.

  Lemma locate_ren id : In id S -> forall solved k prev,
    (forall l, In l solved -> ids_in l) -> oids_in prev ->
    locate (rho id) k (option_map (map (ren_ritem rho)) prev) (map (map (ren_ritem rho)) solved) =
    locate id k prev solved.
  Proof.
    intro Hid. induction solved as [|l solved IH]; intros k prev Hs Hp; [reflexivity|].
    cbn [map locate]. rewrite rlabels_ren.
    rewrite find_ritem_ren; [|apply ids_in_rlabels, Hs; now left|exact Hid].
    destruct (find_ritem id (rlabels l)) as [r|]; cbn [option_map].
    - cbn [ren_ritem r_cur]. destruct prev as [pl|]; cbn [option_map]; [|reflexivity].
      rewrite find_ritem_ren; [|exact Hp|exact Hid].
      destruct (find_ritem id pl); reflexivity.
    - apply (IH (Datatypes.S k) (Some l)); [intros; apply Hs; now right|apply Hs; now left].
  Qed.

  Lemma write_back_ren solved nd : In (n_id nd) S -> (forall l, In l solved -> ids_in l) ->
    write_back (map (map (ren_ritem rho)) solved) (ren_node rho nd) = ren_node rho (write_back solved nd).
  Proof.
    intros Hid Hs. unfold write_back. cbn [ren_node n_id].
    pose proof (locate_ren (n_id nd) Hid solved 0 None Hs I) as L. cbn [option_map] in L. rewrite L.
    destruct (locate (n_id nd) 0 None solved) as [[[k c] p]|]; reflexivity.
  Qed.
End Renaming.

Lemma nleb_ren rho a b : nleb (ren_node rho a) (ren_node rho b) = nleb a b.
Proof. reflexivity. Qed.

Lemma isort_ren rho l : isort nleb (map (ren_node rho) l) = map (ren_node rho) (isort nleb l).
Proof. apply isort_map, nleb_ren. Qed.

Theorem force_compute_ren solve0 rho st :
  inj_on (map n_id (st_nodes st)) rho -> engine_dom (st_opts st) (st_nodes st) ->
  ForceState.force_compute solve0 (ren_state rho st) = ren_state rho (ForceState.force_compute solve0 st).
Proof.
  intros Inj D. unfold ForceState.force_compute. cbn [ren_state st_nodes st_opts].
  set (e := st_opts st). set (ns := st_nodes st) in *.
  assert (E1 : map remove_stub (map (ren_node rho) ns) = map (ren_node rho) (map remove_stub ns))
    by (rewrite !map_map; reflexivity).
  rewrite E1, isort_ren. set (ns1 := map remove_stub ns). set (T := isort nleb ns1).
  assert (Eord : (match e_alg e with AlgNone => map (ren_node rho) ns1 | _ => map (ren_node rho) T end)
                 = map (ren_node rho) (ord_of (e_alg e) ns1)) by (unfold ord_of; destruct (e_alg e); reflexivity).
  assert (Eord0 : (match e_alg e with AlgNone => ns1 | _ => T end) = ord_of (e_alg e) ns1)
    by (unfold ord_of; destruct (e_alg e); reflexivity).
  rewrite Eord, Eord0. set (ord := ord_of (e_alg e) ns1).
  assert (Elab : map label_of (map (ren_node rho) ord) = map label_of ord) by (rewrite map_map; reflexivity).
  rewrite Elab.
  assert (Ea : e_alg e = o_alg (dopts_of_eopts e)) by reflexivity.
  assert (Hdist : distribute_on (dopts_of_eopts e) (map label_of ord) =
                  distribute (dopts_of_eopts e) (map label_of ns1))
    by (unfold ord; rewrite Ea; apply distribute_on_nodes).
  assert (D1 : dist_dom (dopts_of_eopts e) (map label_of ns1))
    by (unfold ns1; rewrite label_of_remove_stub; exact D).
  destruct (distribute_on (dopts_of_eopts e) (map label_of ord)) as [ls|] eqn:EL; [|reflexivity].
  symmetry in Hdist. destruct (distribute_chains _ _ _ D1 Hdist) as [_ [_ [C3 _]]].
  assert (Pord : Permutation ord ns1) by apply ord_of_perm.
  assert (Lord : length ord = length (map label_of ns1)) by (rewrite map_length; apply Permutation_length, Pord).
  assert (Ids1 : map n_id ns1 = map n_id ns) by (unfold ns1; rewrite map_map; reflexivity).
  assert (IT : incl (map n_id T) (map n_id ns)).
  { rewrite <- Ids1. intros x Hx. eapply Permutation_in; [apply Permutation_map, isort_perm|exact Hx]. }
  assert (Iord : forall i, i < length ord -> In (n_id (nth i ord node0)) (map n_id T)).
  { intros i Hi. apply in_map. eapply Permutation_in; [symmetry; apply isort_perm|].
    eapply Permutation_in; [exact Pord|]. now apply nth_In. }
  (* the objects of the layers *)
  assert (Erit : map (map (ritem_of (map (ren_node rho) ord))) ls =
                 map (map (ren_ritem rho)) (map (map (ritem_of ord)) ls)).
  { rewrite map_map. apply map_ext_in. intros l Hl. rewrite map_map. apply map_ext_in. intros it Hit.
    destruct (In_nth _ _ [] Hl) as [j [_ Ej]]. subst l.
    assert (Hi : fst it < length ord) by (rewrite Lord; eapply C3, Hit).
    unfold ritem_of, ren_ritem. cbn [r_id r_stub r_cur].
    rewrite (nth_indep _ node0 (ren_node rho node0)) by (now rewrite map_length).
    rewrite map_nth. reflexivity. }
  rewrite Erit.
  assert (Hls : forall l, In l (map (map (ritem_of ord)) ls) -> forall r, In r l -> In (r_id r) (map n_id T)).
  { intros l Hl r Hr. apply in_map_iff in Hl. destruct Hl as [l0 [<- Hl0]].
    apply in_map_iff in Hr. destruct Hr as [it [<- Hit]].
    destruct (In_nth _ _ [] Hl0) as [j [_ Ej]]. subst l0.
    apply Iord. rewrite Lord. eapply C3, Hit. }
  pose proof (run_layers_ren solve0 rho (map n_id ns) Inj e T IT _ None Hls I) as RL.
  cbn [option_map] in RL. rewrite RL.
  set (solved := run_layers solve0 e T None (map (map (ritem_of ord)) ls)).
  assert (Hsol : forall l, In l solved -> ids_in (map n_id ns) l).
  { intros l Hl r Hr. destruct (run_layers_ids solve0 _ _ _ _ _ _ Hl Hr) as [l0 [H0 H1]].
    apply IT. apply in_map_iff in H1. destruct H1 as [r0 [<- Hr0]]. now apply (Hls l0). }
  assert (Ebase : (match e_alg e with AlgNone => map (ren_node rho) T | _ => map (ren_node rho) ns1 end)
                  = map (ren_node rho) (match e_alg e with AlgNone => T | _ => ns1 end))
    by (destruct (e_alg e); reflexivity).
  rewrite Ebase. set (base := match e_alg e with AlgNone => T | _ => ns1 end).
  assert (Hbase : forall nd, In nd base -> In (n_id nd) (map n_id ns)).
  { intros nd H. unfold base in H. destruct (e_alg e);
      try (rewrite <- Ids1; now apply in_map); apply IT; now apply in_map. }
  unfold ren_state. cbn [st_nodes st_opts st_layers option_map]. f_equal.
  - rewrite !map_map. apply map_ext_in. intros nd Hnd.
    apply (write_back_ren rho (map n_id ns) Inj); [now apply Hbase|exact Hsol].
  - f_equal. rewrite !map_map. apply map_ext. intro l. rewrite !map_map. apply map_ext. intro r. reflexivity.
Qed.

(* ---------- C06_permutation ---------------------------------------------------- *)
Definition core (nd : nodeobj) : Q * Q * bool := (n_pos nd, n_width nd, n_child nd).

(* labels that share a data position are the same label (same representation
   of the position, same width) *)
Definition ties_agree (l : list nodeobj) : Prop :=
  forall a b, In a l -> In b l -> (n_pos a == n_pos b)%Q -> core a = core b.

Definition cpos (c : Q * Q * bool) : Q := fst (fst c).
Definition cleb (a b : Q * Q * bool) : bool := Qle_bool (cpos a) (cpos b).

Lemma lsorted_head_min (x : Q * Q * bool) r : lsorted cleb (x :: r) -> forall y, In y r -> (cpos x <= cpos y)%Q.
Proof.
  revert x. induction r as [|z r IH]; intros x H y Hy; [contradiction|].
  destruct H as [Hd H]. unfold cleb in Hd. apply Qle_bool_iff in Hd.
  destruct Hy as [<-|Hy]; [exact Hd|].
  eapply Qle_trans; [exact Hd|]. now apply IH.
Qed.

Lemma lsorted_tail {A} (leb : A -> A -> bool) x r : lsorted leb (x :: r) -> lsorted leb r.
Proof. now intros [_ H]. Qed.

(* key lemma: two position-sorted lists of the same labels are the same list
   when equal positions carry equal labels *)
Lemma sorted_cores_eq : forall C C',
  lsorted cleb C -> lsorted cleb C' -> Permutation C C' ->
  (forall a b, In a C -> In b C -> (cpos a == cpos b)%Q -> a = b) -> C = C'.
Proof.
  induction C as [|x r IH]; intros C' S S' P Ties.
  - apply Permutation_nil in P. now subst.
  - destruct C' as [|y r']; [apply Permutation_sym, Permutation_nil in P; discriminate|].
    assert (Hxy : x = y).
    { apply Ties; [now left|eapply Permutation_in; [symmetry; exact P|now left]|].
      apply Qle_antisym.
      - assert (Hy : In y (x :: r)) by (eapply Permutation_in; [symmetry; exact P|now left]).
        destruct Hy as [->|Hy]; [apply Qle_refl|now apply (lsorted_head_min x r S)].
      - assert (Hx : In x (y :: r')) by (eapply Permutation_in; [exact P|now left]).
        destruct Hx as [->|Hx]; [apply Qle_refl|now apply (lsorted_head_min y r' S')]. }
    subst y. f_equal. apply IH.
    + eapply lsorted_tail, S.
    + eapply lsorted_tail, S'.
    + eapply Permutation_cons_inv, P.
    + intros a b Ha Hb. apply Ties; now right.
Qed.

Lemma lsorted_map_core T : lsorted nleb T -> lsorted cleb (map core T).
Proof.
  induction T as [|x T IH]; intro S; [exact I|]. destruct S as [Hd S]. cbn [map lsorted]. split; [|now apply IH].
  destruct T as [|y T]; [exact I|]. exact Hd.
Qed.

(* the identity renaming that carries the tied-label order of T' to that of T *)
Fixpoint rho_of (T' T : list nodeobj) (id : nat) : nat :=
  match T', T with
  | a' :: r', a :: r => if n_id a' =? id then n_id a else rho_of r' r id
  | _, _ => id
  end.

Lemma rho_of_In : forall T' T id, length T' = length T -> In id (map n_id T') -> In (rho_of T' T id) (map n_id T).
Proof.
  induction T' as [|a' r' IH]; intros [|a r] id L H; cbn [length] in L; try discriminate; [contradiction|].
  cbn [rho_of map]. destruct (n_id a' =? id) eqn:E; [now left|].
  right. apply IH; [lia|]. apply Nat.eqb_neq in E. destruct H as [H|H]; [congruence|exact H].
Qed.

Lemma rho_of_inj : forall T' T, length T' = length T -> NoDup (map n_id T) ->
  inj_on (map n_id T') (rho_of T' T).
Proof.
  induction T' as [|a' r' IH]; intros [|a r] L N x y Hx Hy E; cbn [length] in L; try discriminate; [contradiction|].
  cbn [map] in N. inversion N as [|? ? Hn N']; subst.
  cbn [rho_of] in E. cbn [map] in Hx, Hy.
  destruct (n_id a' =? x) eqn:Ex, (n_id a' =? y) eqn:Ey.
  - apply Nat.eqb_eq in Ex, Ey. congruence.
  - exfalso. apply Hn. rewrite E. apply rho_of_In; [lia|].
    apply Nat.eqb_neq in Ey. destruct Hy as [Hy|Hy]; [congruence|exact Hy].
  - exfalso. apply Hn. rewrite <- E. apply rho_of_In; [lia|].
    apply Nat.eqb_neq in Ex. destruct Hx as [Hx|Hx]; [congruence|exact Hx].
  - apply Nat.eqb_neq in Ex, Ey. apply (IH r); [lia|exact N'| | |exact E].
    + destruct Hx as [Hx|Hx]; [congruence|exact Hx].
    + destruct Hy as [Hy|Hy]; [congruence|exact Hy].
Qed.

Lemma rho_of_maps : forall T' T, NoDup (map n_id T') ->
  Forall2 (fun a' a => forall i, ren_node (fun _ => i) a' = ren_node (fun _ => i) a) T' T ->
  map (ren_node (rho_of T' T)) T' = T.
Proof.
  intros T' T N F. induction F as [|a' a r' r Haa F IH]; [reflexivity|].
  cbn [map] in N. inversion N as [|? ? Hn N']; subst.
  cbn [map]. f_equal.
  - specialize (Haa (n_id a)). unfold ren_node in *. cbn [rho_of n_id]. rewrite Nat.eqb_refl.
    rewrite Haa. destruct a; reflexivity.
  - rewrite <- (IH N') at 2. apply map_ext_in. intros x Hx.
    unfold ren_node. cbn [rho_of]. replace (n_id a' =? n_id x) with false; [reflexivity|].
    symmetry. apply Nat.eqb_neq. intro E. apply Hn. rewrite E. now apply in_map.
Qed.

Lemma scrubbed_same_core a' a :
  scrub_node a' = a' -> scrub_node a = a -> core a' = core a ->
  forall i, ren_node (fun _ => i) a' = ren_node (fun _ => i) a.
Proof.
  intros S' S C i. rewrite <- S', <- S. unfold core in C. injection C as C1 C2 C3.
  unfold ren_node, scrub_node. cbn. now rewrite C1, C2, C3.
Qed.

Lemma Forall2_of_map_eq {A B} (f : A -> B) (R : A -> A -> Prop) : forall l l',
  map f l = map f l' -> (forall a b, In a l -> In b l' -> f a = f b -> R a b) -> Forall2 R l l'.
Proof.
  induction l as [|a l IH]; intros [|b l'] E H; cbn [map] in E; try discriminate; [constructor|].
  injection E as E1 E2. constructor; [apply H; [now left|now left|exact E1]|].
  apply IH; [exact E2|]. intros; apply H; [now right|now right|assumption].
Qed.

Lemma NoDup_map_inj_on (f : nat -> nat) : forall l, inj_on l f -> NoDup l -> NoDup (map f l).
Proof.
  induction l as [|x l IH]; intros I N; [constructor|]. cbn [map]. inversion N; subst. constructor.
  - intro H. apply in_map_iff in H. destruct H as [y [Ey Hy]].
    apply I in Ey; [subst; contradiction|now right|now left].
  - apply IH; [|assumption]. intros a b Ha Hb. apply I; now right.
Qed.

Definition lab_of (E : list nodeobj) (id : nat) : Q * Q := (n_pos (find_node id E), n_width (find_node id E)).

Lemma placed_of_out E A B :
  (forall nd, In nd (st_nodes A) -> lab_of E (n_id nd) = (n_pos nd, n_width nd)) ->
  (forall nd, In nd (st_nodes B) -> lab_of E (n_id nd) = (n_pos nd, n_width nd)) ->
  Permutation (force_out A) (force_out B) -> Permutation (placed A) (placed B).
Proof.
  intros HA HB P.
  assert (G : forall X, (forall nd, In nd (st_nodes X) -> lab_of E (n_id nd) = (n_pos nd, n_width nd)) ->
            placed X = map (fun x : nat * (nat * Q) => (fst (lab_of E (fst x)), snd (lab_of E (fst x)), fst (snd x), snd (snd x)))
                           (force_out X)).
  { intros X HX. unfold placed, force_out. rewrite map_map. apply map_ext_in. intros nd Hnd.
    cbn [fst snd]. now rewrite (HX nd Hnd). }
  rewrite (G A HA), (G B HB). now apply Permutation_map.
Qed.

Lemma nodes_after_compute solve0 E e lay nd :
  NoDup (map n_id E) -> (forall x, In x E -> scrub_node x = x) ->
  In nd (st_nodes (ForceState.force_compute solve0 (mkState E e lay))) ->
  lab_of E (n_id nd) = (n_pos nd, n_width nd).
Proof.
  intros N Sc H.
  assert (T : tracks (mkState E e lay) (E, e)) by (split; reflexivity).
  apply (compute_tracks solve0) in T. destruct T as [_ Hc]. cbn [fst] in Hc.
  apply canon_eq_perm in Hc.
  assert (Hs : In (scrub_node nd) (map scrub_node E)).
  { eapply Permutation_in; [exact Hc|]. now apply in_map. }
  apply in_map_iff in Hs. destruct Hs as [x [Ex Hx]]. rewrite (Sc x Hx) in Ex.
  unfold lab_of.
  assert (Eid : n_id nd = n_id x) by (rewrite Ex; reflexivity).
  rewrite Eid, (find_node_NoDup x E N Hx), Ex. reflexivity.
Qed.

Lemma placed_ren rho st : placed (ren_state rho st) = placed st.
Proof. unfold placed, ren_state. cbn [st_nodes]. rewrite map_map. reflexivity. Qed.

Theorem permutation_real e L L' :
  Permutation L L' -> NoDup (map n_id L) -> ties_agree L -> engine_dom e L ->
  Permutation (placed (layout_nodes e L)) (placed (layout_nodes e L')).
Proof.
  intros P N Ties D.
  set (E := map scrub_node L). set (E' := map scrub_node L').
  set (T := isort nleb E). set (T' := isort nleb E').
  assert (PE : Permutation E E') by (apply Permutation_map, P).
  assert (PT : Permutation T T').
  { etransitivity; [apply isort_perm|]. etransitivity; [exact PE|]. symmetry. apply isort_perm. }
  assert (NE : NoDup (map n_id E)) by (unfold E; rewrite map_map; exact N).
  assert (NE' : NoDup (map n_id E'))
    by (eapply Permutation_NoDup; [apply Permutation_map, PE|exact NE]).
  assert (NT : NoDup (map n_id T))
    by (eapply Permutation_NoDup; [symmetry; apply Permutation_map, isort_perm|exact NE]).
  assert (NT' : NoDup (map n_id T'))
    by (eapply Permutation_NoDup; [symmetry; apply Permutation_map, isort_perm|exact NE']).
  assert (ScE : forall X x, In x (map scrub_node X) -> scrub_node x = x).
  { intros X x H. apply in_map_iff in H. destruct H as [y [<- _]]. reflexivity. }
  (* the two sorted lists carry the same labels, position by position *)
  assert (Cores : map core T' = map core T).
  { apply sorted_cores_eq.
    - apply lsorted_map_core, isort_lsorted, nleb_total.
    - apply lsorted_map_core, isort_lsorted, nleb_total.
    - apply Permutation_map. now symmetry.
    - intros a b Ha Hb Hab. apply in_map_iff in Ha, Hb.
      destruct Ha as [x [<- Hx]]. destruct Hb as [y [<- Hy]].
      assert (InE : forall z, In z T' -> exists z0, In z0 L /\ core z0 = core z /\ n_pos z0 = n_pos z).
      { intros z Hz. eapply Permutation_in in Hz; [|apply isort_perm].
        eapply Permutation_in in Hz; [|symmetry; exact PE]. unfold E in Hz.
        apply in_map_iff in Hz. destruct Hz as [z0 [<- Hz0]]. exists z0. repeat split; assumption. }
      destruct (InE x Hx) as [x0 [Hx0 [Cx Px]]]. destruct (InE y Hy) as [y0 [Hy0 [Cy Py]]].
      rewrite <- Cx, <- Cy. apply Ties; try assumption.
      unfold cpos, core in Hab. cbn [fst] in Hab. now rewrite Px, Py. }
  assert (F : Forall2 (fun a' a => forall i, ren_node (fun _ => i) a' = ren_node (fun _ => i) a) T' T).
  { apply (Forall2_of_map_eq core); [exact Cores|].
    intros a b Ha Hb C. apply scrubbed_same_core; [| |exact C].
    - apply (ScE L'). eapply Permutation_in; [apply isort_perm|exact Ha].
    - apply (ScE L). eapply Permutation_in; [apply isort_perm|exact Hb]. }
  set (rho := rho_of T' T).
  assert (Len : length T' = length T) by (symmetry; apply Permutation_length, PT).
  assert (Maps : map (ren_node rho) T' = T) by (now apply rho_of_maps).
  assert (InjT : inj_on (map n_id T') rho) by (now apply rho_of_inj).
  assert (InjE : inj_on (map n_id E') rho).
  { eapply inj_on_incl; [|exact InjT]. intros x Hx.
    eapply Permutation_in; [symmetry; apply Permutation_map, isort_perm|exact Hx]. }
  assert (DE' : engine_dom e E').
  { unfold engine_dom in *. eapply dist_dom_perm; [|exact D].
    unfold E'. rewrite label_of_scrub. now apply Permutation_map. }
  (* the layout of L', renamed, is the layout of an engine whose canonical list is T *)
  unfold layout_nodes, ForceState.layout. fold E E'.
  pose proof (force_compute_ren solve rho (mkState E' e None) InjE DE') as Eq.
  unfold ren_state in Eq at 1. cbn [st_nodes st_opts st_layers option_map] in Eq.
  rewrite <- (placed_ren rho (ForceState.force_compute solve (mkState E' e None))), <- Eq.
  assert (ER : map (ren_node rho) E' = map scrub_node (map (ren_node rho) L'))
    by (unfold E'; rewrite !map_map; reflexivity).
  rewrite ER.
  assert (Hc : isort nleb (map scrub_node L) = isort nleb (map scrub_node (map (ren_node rho) L'))).
  { rewrite <- ER, isort_ren. fold T'. now rewrite Maps. }
  destruct (compute_canon solve L (map (ren_node rho) L') e None None Hc) as [Pout _].
  - rewrite map_map. cbn [ren_node n_id]. rewrite <- (map_map n_id rho).
    assert (NL' : NoDup (map n_id L')) by (eapply Permutation_NoDup; [apply Permutation_map, P|exact N]).
    apply NoDup_map_inj_on; [|exact NL'].
    unfold E' in InjE. rewrite map_map in InjE. exact InjE.
  - unfold engine_dom in *. rewrite map_map. cbn [label_of ren_node n_pos n_width].
    eapply dist_dom_perm; [|exact D]. now apply Permutation_map.
  - fold E in Pout. rewrite <- ER in Pout |- *.
    apply (placed_of_out E); [| |exact Pout].
    + intros nd H. now apply (nodes_after_compute solve E e None nd NE (ScE L)).
    + intros nd H. 
      (* the renamed engine holds the nodes of T up to order *)
      assert (T2 : tracks (mkState (map (ren_node rho) E') e None) (E, e)).
      { split; [reflexivity|]. cbn [st_nodes fst]. unfold canon.
        assert (Es : map scrub_node (map (ren_node rho) E') = map (ren_node rho) E')
          by (unfold E'; rewrite !map_map; reflexivity).
        rewrite Es, isort_ren. fold T'. rewrite Maps.
        assert (Es2 : map scrub_node E = E) by (unfold E; rewrite map_map; reflexivity).
        now rewrite Es2. }
      apply (compute_tracks solve) in T2. destruct T2 as [_ Hc2]. cbn [fst] in Hc2.
      apply canon_eq_perm in Hc2.
      assert (Hs : In (scrub_node nd) (map scrub_node E))
        by (eapply Permutation_in; [exact Hc2|now apply in_map]).
      apply in_map_iff in Hs. destruct Hs as [x [Ex Hx]]. rewrite (ScE L x Hx) in Ex.
      unfold lab_of.
      assert (Eid : n_id nd = n_id x) by (rewrite Ex; reflexivity).
      rewrite Eid, (find_node_NoDup x E NE Hx), Ex. reflexivity.
Qed.

(* ---------- tie order: both sorts are stable ------------------------------------ *)
Lemma insert_sort_by {A} (key : A -> Q) x l :
  insert (fun a b => Qle_bool (key a) (key b)) x l = Sort.insert key x l.
Proof.
  induction l as [|y l IH]; [reflexivity|]. cbn [insert Sort.insert].
  unfold QUtil.Qltb. destruct (Qle_bool (key x) (key y)); cbn [negb]; [reflexivity|now rewrite IH].
Qed.

Lemma isort_sort_by {A} (key : A -> Q) l :
  isort (fun a b => Qle_bool (key a) (key b)) l = Sort.sort_by key l.
Proof. induction l as [|x l IH]; [reflexivity|]. cbn [isort Sort.sort_by]. now rewrite IH, insert_sort_by. Qed.

(* sorted(nodes, key=idealPos): labels with equal positions keep their input order *)
Theorem position_sort_stable l k :
  filter (fun nd => Qeq_bool (n_pos nd) k) (isort nleb l) = filter (fun nd => Qeq_bool (n_pos nd) k) l.
Proof.
  change nleb with (fun a b => Qle_bool (n_pos a) (n_pos b)). rewrite isort_sort_by.
  exact (SortProofs.sort_stable nodeobj n_pos k l).
Qed.

(* removeOverlap's sort: items with equal targets keep their layer-list order *)
Theorem target_sort_stable e tbl prev l k :
  map fst (filter (fun x : ritem * litem => Qeq_bool (li_target (snd x)) k) (sorted_pairs e tbl prev l)) =
  filter (fun r => Qeq_bool (target tbl prev r) k) l.
Proof.
  unfold sorted_pairs. change tgt_leb with (fun a b : ritem * litem => Qle_bool (li_target (snd a)) (li_target (snd b))).
  rewrite isort_sort_by.
  rewrite (SortProofs.sort_stable (ritem * litem) (fun x => li_target (snd x)) k).
  unfold SortProofs.has_key.
  induction l as [|r l IH]; [reflexivity|]. cbn [map filter snd].
  assert (E : li_target (litem_of e tbl prev r) = target tbl prev r) by reflexivity.
  rewrite E. destruct (Qeq_bool (target tbl prev r) k); cbn [map fst]; now rewrite IH.
Qed.

(* ---------- tie order in a single-layer layout ----------------------------------- *)
Definition before {A} (x y : A) (l : list A) : Prop := exists l1 l2 l3, l = l1 ++ x :: l2 ++ y :: l3.

Lemma before_map {A B} (f : A -> B) x y l : before x y l -> before (f x) (f y) (map f l).
Proof.
  intros [l1 [l2 [l3 ->]]]. exists (map f l1), (map f l2), (map f l3).
  rewrite map_app. cbn [map]. rewrite map_app. reflexivity.
Qed.

Lemma before_cons {A} (z x y : A) l : before x y l -> before x y (z :: l).
Proof. intros [l1 [l2 [l3 ->]]]. now exists (z :: l1), l2, l3. Qed.

Lemma before_of_filter {A} (f : A -> bool) x y : forall l, before x y (filter f l) -> before x y l.
Proof.
  induction l as [|z l IH]; intros [m1 [m2 [m3 E]]].
  - destruct m1; discriminate.
  - cbn [filter] in E. destruct (f z) eqn:Fz.
    + destruct m1 as [|w m1]; cbn [app] in E; injection E as Ez E.
      * subst z. assert (Hy : In y (filter f l)) by (rewrite E; apply in_or_app; right; now left).
        apply filter_In in Hy. destruct Hy as [Hy _]. apply in_split in Hy. destruct Hy as [p [q ->]].
        now exists [], p, q.
      * apply before_cons, IH. now exists m1, m2, m3.
    + apply before_cons, IH. now exists m1, m2, m3.
Qed.

Lemma before_to_filter {A} (f : A -> bool) x y l : f x = true -> f y = true -> before x y l -> before x y (filter f l).
Proof.
  intros Fx Fy [l1 [l2 [l3 ->]]]. exists (filter f l1), (filter f l2), (filter f l3).
  rewrite filter_app. cbn [filter]. rewrite Fx, filter_app. cbn [filter]. now rewrite Fy.
Qed.

Lemma before_index {A} (x y : A) l d : before x y l ->
  exists i j, i < j /\ j < length l /\ nth i l d = x /\ nth j l d = y.
Proof.
  intros [l1 [l2 [l3 ->]]]. exists (length l1), (length l1 + S (length l2)).
  repeat split.
  - lia.
  - rewrite !app_length. cbn [length]. rewrite app_length. cbn [length]. lia.
  - rewrite app_nth2 by lia. now rewrite Nat.sub_diag.
  - rewrite app_nth2 by lia. replace (length l1 + S (length l2) - length l1) with (S (length l2)) by lia.
    cbn [nth]. rewrite app_nth2 by lia. now rewrite Nat.sub_diag.
Qed.

(* a stable sort keeps two elements with equal keys in their order *)
Lemma before_isort {A} (key : A -> Q) x y l :
  (key x == key y)%Q -> before x y l ->
  before x y (isort (fun a b => Qle_bool (key a) (key b)) l).
Proof.
  intros E B. rewrite isort_sort_by.
  apply (before_of_filter (SortProofs.has_key A key (key x))).
  rewrite SortProofs.sort_stable. apply before_to_filter; [| |exact B].
  - unfold SortProofs.has_key. apply Qeq_bool_iff. reflexivity.
  - unfold SortProofs.has_key. apply Qeq_bool_iff. now symmetry.
Qed.

Lemma filter_all {A} (f : A -> bool) : forall l, (forall x, In x l -> f x = true) -> filter f l = l.
Proof.
  induction l as [|x l IH]; intro H; [reflexivity|]. cbn [filter]. rewrite (H x) by now left.
  f_equal. apply IH. intros; apply H; now right.
Qed.

Lemma find_ritem_nth : forall l i d, NoDup (map r_id l) -> i < length l ->
  find_ritem (r_id (nth i l d)) l = Some (nth i l d).
Proof.
  induction l as [|r l IH]; intros i d N Hi; cbn [length] in Hi; [lia|].
  cbn [map] in N. inversion N as [|? ? Hn N']; subst.
  destruct i as [|i]; cbn [nth find_ritem]; [now rewrite Nat.eqb_refl|].
  replace (r_id r =? r_id (nth i l d)) with false; [apply IH; [exact N'|lia]|].
  symmetry. apply Nat.eqb_neq. intro E. apply Hn. rewrite E. apply in_map, nth_In. lia.
Qed.

Lemma nth_assign S sol i d : i < length S -> length sol = length S ->
  nth i (assign S sol) d =
  mkRitem (r_id (fst (nth i S (d, mkLitem 0 0 false)))) (r_stub (fst (nth i S (d, mkLitem 0 0 false))))
          (inject_Z (nth i sol 0%Z)).
Proof.
  revert sol i. induction S as [|x S IH]; intros [|z sol] i Hi L; cbn [length] in *; try lia.
  destruct i as [|i]; cbn [assign combine map nth]; [reflexivity|]. apply IH; lia.
Qed.

Theorem tie_single_layer_real st l1 a l2 b l3 :
  engine_dom (st_opts st) (st_nodes st) -> NoDup (map n_id (st_nodes st)) -> lineSp_ok (st_opts st) ->
  distribute (dopts_of_eopts (st_opts st)) (map label_of (st_nodes st)) = Some [all_labels (length (st_nodes st))] ->
  st_nodes st = l1 ++ a :: l2 ++ b :: l3 -> (n_pos a == n_pos b)%Q ->
  forall a' b', In a' (st_nodes (force_compute st)) -> In b' (st_nodes (force_compute st)) ->
    n_id a' = n_id a -> n_id b' = n_id b -> (n_cur a' <= n_cur b')%Q.
Proof.
  intros D N Hl Hsingle Esplit Epos a' b' Ha' Hb' Ia Ib.
  destruct (compute_unfold st D) as [rs [ls [Hd [Ers [_ [_ [_ En]]]]]]]. cbn zeta in *.
  set (e := st_opts st) in *. set (ns1 := map remove_stub (st_nodes st)) in *.
  set (T := isort nleb ns1) in *. set (ord := ord_of (e_alg e) ns1) in *.
  assert (Els : ls = [all_labels (length (st_nodes st))]).
  { unfold ns1 in Hd. rewrite label_of_remove_stub in Hd. congruence. }
  set (a1 := remove_stub a). set (b1 := remove_stub b).
  assert (Nns : NoDup (map n_id ns1)) by (unfold ns1; rewrite map_map; exact N).
  assert (Pord : Permutation ord ns1) by apply ord_of_perm.
  assert (Nord : NoDup (map n_id ord))
    by (eapply Permutation_NoDup; [symmetry; apply Permutation_map, Pord|exact Nns]).
  assert (NT : NoDup (map n_id T))
    by (eapply Permutation_NoDup; [symmetry; apply Permutation_map, isort_perm|exact Nns]).
  assert (Lord : length ord = length (st_nodes st))
    by (rewrite (Permutation_length Pord); unfold ns1; apply map_length).
  (* a before b in the list the distributor works on *)
  assert (B1 : before a1 b1 ns1) by (unfold ns1; apply before_map; now exists l1, l2, l3).
  assert (Bord : before a1 b1 ord).
  { unfold ord, ord_of. destruct (e_alg e); try exact B1;
      apply (before_isort n_pos a1 b1 ns1 Epos B1). }
  (* the single layer's objects and what the solver sees of them *)
  set (R := fun nd : nodeobj => mkRitem (n_id nd) false (n_cur nd)).
  assert (Ers1 : rs = [map R ord]).
  { rewrite Ers, Els. cbn [map]. f_equal. unfold all_labels. rewrite <- Lord, !map_map.
    rewrite <- (map_nth_seq ord node0) at 2. rewrite map_map. reflexivity. }
  set (F := fun nd : nodeobj => (R nd, litem_of e T None (R nd))).
  assert (InT : forall nd, In nd ord -> In nd T).
  { intros nd H. eapply Permutation_in; [symmetry; apply isort_perm|].
    eapply Permutation_in; [exact Pord|exact H]. }
  assert (Tgt : forall nd, In nd ord -> li_target (snd (F nd)) = n_pos nd).
  { intros nd H. unfold F, R, litem_of, target, node_of. cbn [snd li_target r_id r_stub].
    rewrite (find_node_NoDup nd T NT (InT nd H)).
    assert (Hp : n_parent nd = None).
    { apply (remove_stub_parent (st_nodes st)). eapply Permutation_in; [exact Pord|exact H]. }
    now rewrite Hp. }
  assert (Ia1 : In a1 ord) by (destruct Bord as [p [q [r ->]]]; apply in_or_app; right; now left).
  assert (Ib1 : In b1 ord).
  { destruct Bord as [p [q [r ->]]]. apply in_or_app. right. right. apply in_or_app. right. now left. }
  set (S := sorted_pairs e T None (map R ord)).
  assert (BS : before (F a1) (F b1) S).
  { unfold S, sorted_pairs. rewrite map_map. fold F.
    apply (before_isort (fun x : ritem * litem => li_target (snd x))); [|now apply before_map].
    now rewrite (Tgt a1 Ia1), (Tgt b1 Ib1). }
  destruct (before_index _ _ _ (R node0, mkLitem 0 0 false) BS) as [i [j [Hij [Hj [Ni Nj]]]]].
  set (o := solver_opts e). set (its := map (fun x => layer_item (snd x)) S).
  set (sol := Layer.solve_layer o its).
  assert (Ls : length sol = length S) by (unfold sol, its; now rewrite LayerProofs.solve_layer_length, map_length).
  assert (Esolved : run_layers solve e T None rs = [assign S sol]).
  { rewrite Ers1. cbn [run_layers]. now rewrite solve_layer_view. }
  (* positions ascend along the sorted list *)
  assert (Ord : (nth i sol 0 <= nth j sol 0)%Z).
  { assert (Srt : Layer.sorted_items its = its) by apply problem_sorted.
    assert (HT : forall nd, In nd T -> (0 <= n_width nd)%Q).
    { intros nd H. unfold T in H. eapply Permutation_in in H; [|apply isort_perm].
      apply in_map_iff in H. destruct H as [x [<- Hx]]. cbn [remove_stub n_width].
      destruct D as [Hw _]. apply Qlt_le_weak, (Hw (label_of x)). now apply in_map. }
    assert (Iok : Layer.items_ok its)
      by (apply pairs_items_ok; [destruct D as [_ [_ [H _]]]; exact H|exact HT]).
    assert (Ook : Layer.opts_ok o) by (apply (solver_opts_ok e (st_nodes st)); assumption).
    assert (Hj' : j < length its) by (unfold its; now rewrite map_length).
    pose proof (LayerProofs.C01_order_lemma o its i j Ook Iok Hij Hj') as H. cbn zeta in H.
    now destruct H as [H _]. }
  (* where the two labels are written back from *)
  assert (NS : NoDup (map r_id (assign S sol))).
  { assert (E : map r_id (assign S sol) = map fst (map shape (assign S sol))) by (rewrite map_map; reflexivity).
    rewrite E, (assign_shape S sol Ls), map_map.
    eapply Permutation_NoDup; [|exact Nord].
    assert (P : Permutation (map (fun x : ritem * litem => r_id (fst x)) S) (map n_id ord)).
    { unfold S, sorted_pairs. etransitivity; [apply Permutation_map, isort_perm|].
      rewrite !map_map. reflexivity. }
    now symmetry. }
  assert (AllLab : rlabels (assign S sol) = assign S sol).
  { unfold rlabels. apply filter_all. intros r Hr. apply negb_true_iff.
    unfold assign in Hr. apply in_map_iff in Hr. destruct Hr as [[x z] [<- Hx]]. cbn [r_stub fst].
    apply in_combine_l in Hx. unfold S, sorted_pairs in Hx.
    eapply Permutation_in in Hx; [|apply isort_perm]. apply in_map_iff in Hx.
    destruct Hx as [r0 [<- Hr0]]. apply in_map_iff in Hr0. destruct Hr0 as [nd [<- _]]. reflexivity. }
  assert (WB : forall k nd, k < length S -> n_id nd = r_id (fst (nth k S (R node0, mkLitem 0 0 false))) ->
               n_cur (write_back [assign S sol] nd) = inject_Z (nth k sol 0%Z)).
  { intros k nd Hk Hid. unfold write_back. cbn [locate]. rewrite AllLab.
    assert (Ek : r_id (nth k (assign S sol) (R node0)) = n_id nd).
    { rewrite nth_assign by assumption. cbn [r_id]. now symmetry. }
    rewrite <- Ek, find_ritem_nth; [|exact NS|unfold assign; rewrite map_length, combine_length; lia].
    cbn [n_cur]. now rewrite nth_assign by assumption. }
  rewrite Esolved in En.
  assert (Get : forall x' x (k : nat), In x' (st_nodes (force_compute st)) -> n_id x' = n_id x ->
                 k < length S -> fst (nth k S (R node0, mkLitem 0 0 false)) = R (remove_stub x) ->
                 n_cur x' = inject_Z (nth k sol 0%Z)).
  { intros x' x k Hx' Hid Hk Hnk. rewrite En in Hx'. apply in_map_iff in Hx'.
    destruct Hx' as [y [<- Hy]]. apply WB; [exact Hk|].
    rewrite Hnk. cbn [R r_id remove_stub n_id].
    assert (Ey : n_id (write_back [assign S sol] y) = n_id y).
    { unfold write_back. destruct (locate _ _ _ _) as [[[? ?] ?]|]; reflexivity. }
    now rewrite <- Hid, Ey. }
  rewrite (Get a' a i Ha' Ia (Nat.lt_trans _ _ _ Hij Hj)) by (now rewrite Ni).
  rewrite (Get b' b j Hb' Ib Hj) by (now rewrite Nj).
  rewrite <- Zle_Qle. exact Ord.
Qed.
