(* Proofs about Layout/Distribute.v, part 3: the stub-creation pass of the
   overlap algorithm (distributor.py:136-151) and its closed form:
     stub_pass (l0 :: rest) = (l0 ++ stubs of rest's labels, farthest layer first) :: stub_pass rest *)
From Coq Require Import ZArith QArith List Bool Arith Lia Permutation.
From Labella Require Import Layout.Distribute Layout.DistributeBase.
Import ListNotations.
Open Scope nat_scope.

Definition to_stub (it : item) : item := mk_stub (fst it).
Definition stubs_of (l : list item) : list item := map to_stub (nonstubs l).

Definition stub_fn (i : nat) (acc : list (list item)) (it : item) : list (list item) :=
  if is_stub it then acc else app_upto i (mk_stub (fst it)) acc.

Lemma stub_step_eq ls i : stub_step ls i = fold_left (stub_fn i) (nth i ls []) ls.
Proof. reflexivity. Qed.

(* reading a layer and appending to layer 0 and to the tail *)
Lemma fold_stub_fn_cons i items : forall l0 rest,
  fold_left (stub_fn (S i)) items (l0 :: rest) =
  (l0 ++ stubs_of items) :: fold_left (stub_fn i) items rest.
Proof.
  induction items as [|[x b] items IH]; intros l0 rest.
  - cbn [fold_left]. unfold stubs_of. cbn. now rewrite app_nil_r.
  - cbn [fold_left]. unfold stub_fn at 2 4. cbn [is_stub snd fst].
    destruct b.
    + rewrite IH. unfold stubs_of, nonstubs. cbn [filter snd negb]. reflexivity.
    + cbn [app_upto]. rewrite IH. unfold stubs_of, nonstubs. cbn [filter snd negb map to_stub fst].
      rewrite <- app_assoc. reflexivity.
Qed.

Lemma stub_step_cons l0 rest i :
  stub_step (l0 :: rest) (S i) = (l0 ++ stubs_of (nth i rest [])) :: stub_step rest i.
Proof. rewrite !stub_step_eq. cbn [nth]. apply fold_stub_fn_cons. Qed.

Lemma fold_stub_fn_0 items : forall ls, fold_left (stub_fn 0) items ls = ls.
Proof.
  induction items as [|it items IH]; intro ls; [reflexivity|].
  cbn [fold_left]. unfold stub_fn at 2. destruct (is_stub it); [apply IH|].
  cbn [app_upto]. destruct ls; apply IH.
Qed.

Lemma stub_step_0 ls : stub_step ls 0 = ls.
Proof. rewrite stub_step_eq. apply fold_stub_fn_0. Qed.

(* the pass only ever appends stubs *)
Lemma nonstubs_app_upto_stub k x : forall ls,
  map nonstubs (app_upto k (mk_stub x) ls) = map nonstubs ls.
Proof.
  induction k as [|k IH]; intros [|l ls]; try reflexivity.
  cbn [app_upto map]. rewrite IH, nonstubs_app.
  cbn [nonstubs filter mk_stub snd negb]. now rewrite app_nil_r.
Qed.

Lemma nonstubs_fold_stub_fn i items : forall ls,
  map nonstubs (fold_left (stub_fn i) items ls) = map nonstubs ls.
Proof.
  induction items as [|it items IH]; intro ls; [reflexivity|].
  cbn [fold_left]. rewrite IH. unfold stub_fn. destruct (is_stub it); [reflexivity|].
  apply nonstubs_app_upto_stub.
Qed.

Lemma nonstubs_stub_step ls i : map nonstubs (stub_step ls i) = map nonstubs ls.
Proof. rewrite stub_step_eq. apply nonstubs_fold_stub_fn. Qed.

Lemma stubs_of_nth_nonstubs ls ls' i :
  map nonstubs ls = map nonstubs ls' -> stubs_of (nth i ls []) = stubs_of (nth i ls' []).
Proof.
  intro H. unfold stubs_of.
  assert (E : forall l : list (list item), nonstubs (nth i l []) = nth i (map nonstubs l) [])
    by (intro l; symmetry; exact (map_nth nonstubs l [] i)).
  now rewrite !E, H.
Qed.

Lemma fold_stub_step_cons (is : list nat) : forall l0 rest,
  fold_left stub_step (map S is) (l0 :: rest) =
  (l0 ++ concat (map (fun i => stubs_of (nth i rest [])) is)) :: fold_left stub_step is rest.
Proof.
  induction is as [|i is IH]; intros l0 rest.
  - cbn. now rewrite app_nil_r.
  - cbn [map fold_left]. rewrite stub_step_cons, IH. cbn [concat]. rewrite <- app_assoc.
    f_equal. f_equal. f_equal. f_equal. apply map_ext. intro k.
    apply stubs_of_nth_nonstubs, nonstubs_stub_step.
Qed.

Lemma map_nth_seq {A} (l : list A) d : map (fun i => nth i l d) (seq 0 (length l)) = l.
Proof.
  induction l as [|x l IH]; [reflexivity|].
  cbn [length seq map nth]. f_equal. rewrite <- seq_shift, map_map. exact IH.
Qed.

(* the recursion equation of the pass *)
Theorem stub_pass_cons l0 rest :
  stub_pass (l0 :: rest) = (l0 ++ concat (map stubs_of (rev rest))) :: stub_pass rest.
Proof.
  unfold stub_pass at 1. cbn [length]. replace (S (length rest) - 1) with (length rest) by lia.
  rewrite <- seq_shift, <- map_rev, fold_stub_step_cons. f_equal.
  - f_equal. rewrite <- (map_map (fun i => nth i rest []) stubs_of), map_rev, map_nth_seq. reflexivity.
  - unfold stub_pass. destruct rest as [|l1 rest']; [reflexivity|].
    cbn [length]. replace (S (length rest') - 1) with (length rest') by lia.
    change (seq 0 (S (length rest'))) with (0 :: seq 1 (length rest')).
    cbn [rev]. rewrite fold_left_app. cbn [fold_left]. apply stub_step_0.
Qed.

Lemma stub_pass_nil : stub_pass [] = [].
Proof. reflexivity. Qed.

Lemma stub_pass_length ls : length (stub_pass ls) = length ls.
Proof. induction ls as [|l ls IH]; [reflexivity|]. rewrite stub_pass_cons. cbn [length]. now rewrite IH. Qed.

(* ---------- applied to layers of labels --------------------------------- *)
Lemma stubs_of_map_lab b : stubs_of (map mk_lab b) = map mk_stub b.
Proof. unfold stubs_of. rewrite nonstubs_map_lab, map_map. reflexivity. Qed.

Lemma stubs_rev_labs (bs : list (list nat)) :
  concat (map stubs_of (rev (map (map mk_lab) bs))) = map mk_stub (concat (rev bs)).
Proof.
  rewrite <- map_rev, map_map, concat_map. f_equal.
  apply map_ext. intro b. apply stubs_of_map_lab.
Qed.

(* the final layers in closed form: layer j = labels of b_j, then the stubs of
   the labels of the layers after j, last layer first *)
Lemma stub_pass_labs_cons b bs :
  stub_pass (map (map mk_lab) (b :: bs)) =
  (map mk_lab b ++ map mk_stub (concat (rev bs))) :: stub_pass (map (map mk_lab) bs).
Proof. cbn [map]. rewrite stub_pass_cons, stubs_rev_labs. reflexivity. Qed.

Lemma concat_rev_perm {A} (bs : list (list A)) : Permutation (concat (rev bs)) (concat bs).
Proof.
  induction bs as [|b bs IH]; [reflexivity|].
  cbn [rev concat]. rewrite concat_app. cbn [concat]. rewrite app_nil_r.
  etransitivity; [apply Permutation_app_comm|]. now apply Permutation_app_head.
Qed.

Lemma concat_rev_length {A} (bs : list (list A)) : length (concat (rev bs)) = length (concat bs).
Proof. apply Permutation_length, concat_rev_perm. Qed.

(* layer of a label in a list of bases *)
Fixpoint find_layer (bs : list (list nat)) (i : nat) : nat :=
  match bs with
  | [] => 0
  | b :: r => if in_dec Nat.eq_dec i b then 0 else S (find_layer r i)
  end.

Lemma find_layer_lt bs i : In i (concat bs) -> find_layer bs i < length bs.
Proof.
  induction bs as [|b bs IH]; cbn [concat find_layer length]; [contradiction|].
  intro H. destruct (in_dec Nat.eq_dec i b); [lia|].
  apply in_app_or in H. destruct H; [contradiction|]. apply IH in H. lia.
Qed.

Lemma count_NoDup_in (l : list nat) i : NoDup l -> In i l -> count_occ Nat.eq_dec l i = 1.
Proof. intros N H. now apply NoDup_count_occ'. Qed.

Lemma stub_pass_labs_range bs : forall j it,
  In it (nth j (stub_pass (map (map mk_lab) bs)) []) -> In (fst it) (concat bs).
Proof.
  induction bs as [|b bs IH]; intros j it H.
  - cbn in H. destruct j; contradiction.
  - rewrite stub_pass_labs_cons in H. cbn [concat]. destruct j as [|j]; cbn [nth] in H.
    + apply in_app_or in H. destruct H as [H|H]; apply in_map_iff in H; destruct H as [x [E Hx]]; subst it; cbn [fst mk_lab mk_stub].
      * apply in_or_app. now left.
      * apply in_or_app. right. eapply Permutation_in; [apply concat_rev_perm|exact Hx].
    + apply in_or_app. right. eapply IH, H.
Qed.

Lemma stub_pass_labs_counts bs : NoDup (concat bs) ->
  forall j i, j < length bs -> In i (concat bs) ->
    cnt (nth j (stub_pass (map (map mk_lab) bs)) []) (mk_lab i) = (if j =? find_layer bs i then 1 else 0) /\
    cnt (nth j (stub_pass (map (map mk_lab) bs)) []) (mk_stub i) = (if j <? find_layer bs i then 1 else 0).
Proof.
  induction bs as [|b bs IH]; intros N j i Hj Hi; cbn [length] in Hj; [lia|].
  cbn [concat] in N, Hi. rewrite stub_pass_labs_cons. cbn [find_layer].
  destruct (NoDup_app_inv _ _ N) as [Nb [Nbs Disj]].
  destruct j as [|j]; cbn [nth].
  - rewrite !cnt_app, cnt_map_lab, cnt_map_stub_lab, cnt_map_lab_stub, cnt_map_stub.
    destruct (in_dec Nat.eq_dec i b) as [Hb|Hb].
    + rewrite (count_NoDup_in b i Nb Hb). cbn [Nat.eqb Nat.ltb Nat.leb].
      rewrite (proj1 (count_occ_not_In Nat.eq_dec _ i)); [split; reflexivity|].
      intro Hc. apply (Disj i Hb). eapply Permutation_in; [apply concat_rev_perm|exact Hc].
    + apply in_app_or in Hi. destruct Hi as [Hi|Hi]; [contradiction|].
      rewrite (proj1 (count_occ_not_In Nat.eq_dec _ i) Hb). cbn [Nat.eqb Nat.ltb Nat.leb].
      rewrite count_NoDup_in; [split; reflexivity| |].
      * eapply Permutation_NoDup; [symmetry; apply concat_rev_perm|exact Nbs].
      * eapply Permutation_in; [symmetry; apply concat_rev_perm|exact Hi].
  - destruct (in_dec Nat.eq_dec i b) as [Hb|Hb].
    + cbn [Nat.eqb]. replace (S j <? 0) with false by reflexivity.
      split; apply cnt_not_In; intro Hin; apply stub_pass_labs_range in Hin; cbn [fst mk_lab mk_stub] in Hin;
        exact (Disj i Hb Hin).
    + apply in_app_or in Hi. destruct Hi as [Hi|Hi]; [contradiction|].
      change (S j =? S (find_layer bs i)) with (j =? find_layer bs i).
      change (S j <? S (find_layer bs i)) with (j <? find_layer bs i).
      apply IH; [exact Nbs|lia|exact Hi].
Qed.

(* total number of items of the closed form *)
Lemma nonstubs_lab_stub b c : nonstubs (map mk_lab b ++ map mk_stub c) = map mk_lab b.
Proof. now rewrite nonstubs_app, nonstubs_map_lab, nonstubs_map_stub, app_nil_r. Qed.

Lemma stub_pass_labs_nonstubs bs :
  length (nonstubs (concat (stub_pass (map (map mk_lab) bs)))) = length (concat bs).
Proof.
  induction bs as [|b bs IH]; [reflexivity|].
  rewrite stub_pass_labs_cons. cbn [concat]. rewrite nonstubs_app, nonstubs_lab_stub, !app_length, map_length.
  now rewrite IH.
Qed.

Lemma stub_pass_labs_total bs :
  length (concat (stub_pass (map (map mk_lab) bs))) = weighted 0 (stub_pass (map (map mk_lab) bs)).
Proof.
  induction bs as [|b bs IH]; [reflexivity|].
  rewrite stub_pass_labs_cons. cbn [concat weighted].
  rewrite nonstubs_lab_stub, weighted_shift, <- IH, stub_pass_labs_nonstubs.
  rewrite !app_length, !map_length, concat_rev_length. lia.
Qed.

Theorem stub_pass_well_layered n bs :
  Permutation (concat bs) (seq 0 n) ->
  well_layered n (find_layer bs) (stub_pass (map (map mk_lab) bs)).
Proof.
  intro P.
  assert (N : NoDup (concat bs)) by (eapply Permutation_NoDup; [symmetry; exact P|apply seq_NoDup]).
  assert (I : forall i, i < n <-> In i (concat bs)).
  { intro i. split; intro H.
    - eapply Permutation_in; [symmetry; exact P|]. apply in_seq. lia.
    - eapply Permutation_in in H; [|exact P]. apply in_seq in H. lia. }
  split.
  - intros i Hi. rewrite stub_pass_length, map_length. apply find_layer_lt. now apply I.
  - intros j i Hj Hi. rewrite stub_pass_length, map_length in Hj.
    apply (stub_pass_labs_counts bs N j i Hj). now apply I.
  - intros j i Hj Hi. rewrite stub_pass_length, map_length in Hj.
    apply (stub_pass_labs_counts bs N j i Hj). now apply I.
  - intros j it H. apply I. eapply stub_pass_labs_range, H.
Qed.
