(* Proofs about Layout/ForceState.v: the engine's layout does not depend on
   what earlier layouts left in the node objects (C06_scrub) nor on the
   history of the engine (C06_history).  All statements are universally
   quantified over the per-layer solver. *)
From Coq Require Import ZArith QArith List Bool Arith Lia Permutation.
From Labella Require Import Layout.Distribute Layout.DistributeBase Layout.DistributeStubs
  Layout.DistributeProofs Layout.ForceState.
Import ListNotations.
Open Scope nat_scope.

(* ---------- stable sort: commutation with maps, idempotence ---------------- *)
Lemma insert_map {A B} (f : A -> B) (leb : A -> A -> bool) (leb' : B -> B -> bool) a l :
  (forall b, In b l -> leb' (f a) (f b) = leb a b) ->
  insert leb' (f a) (map f l) = map f (insert leb a l).
Proof.
  induction l as [|b l IH]; intro H; [reflexivity|].
  cbn [map insert]. rewrite (H b) by now left.
  destruct (leb a b); [reflexivity|]. cbn [map]. f_equal. apply IH. intros; apply H; now right.
Qed.

Lemma isort_map_in {A B} (f : A -> B) (leb : A -> A -> bool) (leb' : B -> B -> bool) l :
  (forall a b, In a l -> In b l -> leb' (f a) (f b) = leb a b) ->
  isort leb' (map f l) = map f (isort leb l).
Proof.
  induction l as [|a l IH]; intro H; [reflexivity|].
  cbn [map isort]. rewrite IH by (intros; apply H; now right).
  apply insert_map. intros b Hb. apply H; [now left|right].
  eapply Permutation_in; [apply isort_perm|exact Hb].
Qed.

Lemma isort_map {A B} (f : A -> B) (leb : A -> A -> bool) (leb' : B -> B -> bool) l :
  (forall a b, leb' (f a) (f b) = leb a b) ->
  isort leb' (map f l) = map f (isort leb l).
Proof. intro H. apply isort_map_in. intros; apply H. Qed.

Fixpoint lsorted {A} (leb : A -> A -> bool) (l : list A) : Prop :=
  match l with
  | [] => True
  | x :: l' => match l' with [] => True | y :: _ => leb x y = true end /\ lsorted leb l'
  end.

Lemma insert_lsorted {A} (leb : A -> A -> bool) :
  (forall a b, leb a b = false -> leb b a = true) ->
  forall x l, lsorted leb l -> lsorted leb (insert leb x l).
Proof.
  intros Tot x l. induction l as [|y l IH]; intro S; [cbn; auto|].
  cbn [insert]. destruct (leb x y) eqn:E.
  - cbn [lsorted]. split; [exact E|exact S].
  - destruct S as [Hd S]. specialize (IH S). cbn [lsorted]. split; [|exact IH].
    destruct l as [|z l]; cbn [insert].
    + now apply Tot.
    + destruct (leb x z); [now apply Tot|exact Hd].
Qed.

Lemma isort_lsorted {A} (leb : A -> A -> bool) :
  (forall a b, leb a b = false -> leb b a = true) -> forall l, lsorted leb (isort leb l).
Proof.
  intros Tot l. induction l as [|x l IH]; [exact I|]. cbn [isort]. now apply insert_lsorted.
Qed.

Lemma isort_of_lsorted {A} (leb : A -> A -> bool) l : lsorted leb l -> isort leb l = l.
Proof.
  induction l as [|x l IH]; intro S; [reflexivity|].
  destruct S as [Hd S]. cbn [isort]. rewrite IH by exact S.
  destruct l as [|y l]; [reflexivity|]. cbn [insert]. now rewrite Hd.
Qed.

Lemma isort_idem {A} (leb : A -> A -> bool) :
  (forall a b, leb a b = false -> leb b a = true) ->
  forall l, isort leb (isort leb l) = isort leb l.
Proof. intros Tot l. apply isort_of_lsorted, isort_lsorted, Tot. Qed.

Lemma Qle_bool_total a b : Qle_bool a b = false -> Qle_bool b a = true.
Proof.
  intro H. apply Qle_bool_iff. destruct (Qlt_le_dec a b) as [L|L]; [|exact L].
  apply Qlt_le_weak in L. apply Qle_bool_iff in L. congruence.
Qed.

Lemma nleb_total a b : nleb a b = false -> nleb b a = true.
Proof. apply Qle_bool_total. Qed.

(* ---------- distribute through the ordered list ---------------------------- *)
Definition lleb (a b : label) : bool := Qle_bool (l_pos a) (l_pos b).

Lemma sort_labels_isort labels : sort_labels labels = isort lleb labels.
Proof.
  unfold sort_labels, sort_indexed.
  rewrite <- (isort_map snd pos_leb lleb) by reflexivity.
  now rewrite map_snd_combine by (now rewrite seq_length).
Qed.

Lemma sort_labels_nodes ns : sort_labels (map label_of ns) = map label_of (isort nleb ns).
Proof. rewrite sort_labels_isort. apply isort_map. reflexivity. Qed.

Lemma distribute_eq_on o labels : distribute o labels = distribute_on o (dist_sorted o labels).
Proof.
  unfold distribute, distribute_on, dist_sorted.
  destruct labels as [|l labels]; [destruct (o_alg o); reflexivity|].
  destruct (o_alg o) eqn:A; try reflexivity.
  all: pose proof (sort_labels_length (l :: labels)) as L;
    remember (sort_labels (l :: labels)) as S eqn:ES;
    destruct S as [|s S]; [cbn in L; lia|]; rewrite <- L; reflexivity.
Qed.

Definition ord_of (a : algo) (ns : list nodeobj) : list nodeobj :=
  match a with AlgNone => ns | _ => isort nleb ns end.

Lemma dist_sorted_nodes o ns :
  dist_sorted o (map label_of ns) = map label_of (ord_of (o_alg o) ns).
Proof. unfold dist_sorted, ord_of. destruct (o_alg o); try apply sort_labels_nodes. reflexivity. Qed.

Lemma distribute_on_nodes o ns :
  distribute_on o (map label_of (ord_of (o_alg o) ns)) = distribute o (map label_of ns).
Proof. now rewrite distribute_eq_on, dist_sorted_nodes. Qed.

Lemma ord_of_perm a ns : Permutation (ord_of a ns) ns.
Proof. destruct a; cbn [ord_of]; try apply isort_perm. reflexivity. Qed.

(* ---------- scrubbing -------------------------------------------------------- *)
Definition drop_oc (nd : nodeobj) : nodeobj :=
  mkNode (n_id nd) (n_pos nd) (n_width nd) (n_child nd) (n_cur nd) (n_layer nd) (n_parent nd) 0.

Lemma scrub_remove_stub nd : scrub_node (remove_stub nd) = scrub_node nd.
Proof. reflexivity. Qed.
Lemma remove_stub_scrub nd : remove_stub (scrub_node nd) = scrub_node nd.
Proof. reflexivity. Qed.
Lemma scrub_node0 : scrub_node node0 = node0.
Proof. reflexivity. Qed.
Lemma scrub_idem nd : scrub_node (scrub_node nd) = scrub_node nd.
Proof. reflexivity. Qed.

Lemma nleb_scrub a b : nleb (scrub_node a) (scrub_node b) = nleb a b.
Proof. reflexivity. Qed.

Lemma isort_scrub ns : isort nleb (map scrub_node ns) = map scrub_node (isort nleb ns).
Proof. apply isort_map, nleb_scrub. Qed.

Lemma label_of_scrub ns : map label_of (map scrub_node ns) = map label_of ns.
Proof. rewrite map_map. reflexivity. Qed.

Lemma find_node_scrub id l : find_node id (map scrub_node l) = scrub_node (find_node id l).
Proof.
  induction l as [|nd l IH]; [reflexivity|]. cbn [map find_node n_id scrub_node].
  destruct (n_id nd =? id); [reflexivity|exact IH].
Qed.

Lemma find_node_parent id l : (forall nd, In nd l -> n_parent nd = None) -> n_parent (find_node id l) = None.
Proof.
  induction l as [|nd l IH]; intro H; [reflexivity|]. cbn [find_node].
  destruct (n_id nd =? id); [apply H; now left|apply IH; intros; apply H; now right].
Qed.

Definition shape (r : ritem) : nat * bool := (r_id r, r_stub r).

Lemma find_ritem_none id l : find_ritem id l = None <-> (forall r, In r l -> r_id r <> id).
Proof.
  induction l as [|r l IH]; cbn [find_ritem]; [split; [intros _ r []|reflexivity]|].
  destruct (r_id r =? id) eqn:E.
  - apply Nat.eqb_eq in E. split; [discriminate|]. intro H. exfalso. apply (H r); [now left|exact E].
  - apply Nat.eqb_neq in E. rewrite IH. split; intro H.
    + intros r' [<-|Hr]; [exact E|now apply H].
    + intros r' Hr. apply H. now right.
Qed.

Section EngineProofs.
  Variable solve : lopts -> list litem -> list Z.

  (* ---------- one layer depends on the items' shapes and targets only ------ *)
  Definition leb2 (a b : (nat * bool) * litem) : bool :=
    Qle_bool (li_target (snd a)) (li_target (snd b)).

  Definition solve_shapes (e : eopts) (pairs : list ((nat * bool) * litem)) : list ritem :=
    let sorted := isort leb2 pairs in
    let sol := solve (lopts_of_eopts e) (map snd sorted) in
    map (fun jr => mkRitem (fst (fst (snd jr))) (snd (fst (snd jr))) (inject_Z (nth (fst jr) sol 0%Z)))
        (combine (seq 0 (length sorted)) sorted).

  Lemma combine_map_r {A B C} (f : B -> C) (l : list A) (l' : list B) :
    combine l (map f l') = map (fun p => (fst p, f (snd p))) (combine l l').
  Proof.
    revert l'; induction l as [|a l IH]; intros [|b l']; cbn; try reflexivity. now rewrite IH.
  Qed.

  Lemma solve_layer_shapes e tbl prev l :
    solve_layer solve e tbl prev l =
    solve_shapes e (map (fun r => (shape r, litem_of e tbl prev r)) l).
  Proof.
    unfold solve_layer, solve_shapes.
    set (X := map (fun r => (r, litem_of e tbl prev r)) l).
    set (f := fun p : ritem * litem => (shape (fst p), snd p)).
    replace (map (fun r => (shape r, litem_of e tbl prev r)) l) with (map f X)
      by (unfold X; rewrite map_map; reflexivity).
    rewrite (isort_map f (tgt_leb) leb2) by reflexivity.
    rewrite !map_length, combine_map_r, !map_map. cbn [fst snd f shape].
    apply map_ext. intros [j [r li]]. reflexivity.
  Qed.

  Lemma map_snd_combine_seq {A B} (g : A -> B) (S : list A) :
    map (fun jr => g (snd jr)) (combine (seq 0 (length S)) S) = map g S.
  Proof.
    rewrite <- (map_map snd g), map_snd_combine by (now rewrite seq_length). reflexivity.
  Qed.

  Lemma solve_shapes_perm e pairs :
    Permutation (map shape (solve_shapes e pairs)) (map fst pairs).
  Proof.
    unfold solve_shapes. rewrite map_map. cbn [shape r_id r_stub].
    rewrite (map_snd_combine_seq (fun x : (nat * bool) * litem => (fst (fst x), snd (fst x)))).
    etransitivity; [|apply Permutation_map, isort_perm].
    apply Permutation_refl'. apply map_ext. intros [[a b] li]. reflexivity.
  Qed.

  Lemma solve_layer_shape_perm e tbl prev l :
    Permutation (map shape (solve_layer solve e tbl prev l)) (map shape l).
  Proof.
    rewrite solve_layer_shapes. etransitivity; [apply solve_shapes_perm|].
    rewrite map_map. reflexivity.
  Qed.

  Lemma map_pair_ext {A B C} (s : A -> B) (g g' : A -> C) : forall l l',
    map s l = map s l' ->
    (forall r r', s r = s r' -> g' r' = g r) ->
    map (fun r => (s r, g r)) l = map (fun r => (s r, g' r)) l'.
  Proof.
    induction l as [|r l IH]; intros [|r' l'] H G; cbn in *; try discriminate; [reflexivity|].
    injection H as H1 H2. rewrite (G r r' H1), H1. f_equal. now apply IH.
  Qed.

  (* the table after scrubbing looks the same to one layer *)
  Lemma litem_of_scrub e tbl prev r r' :
    (forall nd, In nd tbl -> n_parent nd = None) -> shape r = shape r' ->
    litem_of e (map scrub_node tbl) prev r' = litem_of e tbl prev r.
  Proof.
    intros Hp S. unfold shape in S. injection S as S1 S2.
    unfold litem_of, target, node_of. rewrite <- S1, <- S2, find_node_scrub.
    cbn [scrub_node n_pos n_width n_child n_parent].
    rewrite (find_node_parent (r_id r) tbl Hp). reflexivity.
  Qed.

  Lemma solve_layer_scrub e tbl prev l l' :
    (forall nd, In nd tbl -> n_parent nd = None) -> map shape l = map shape l' ->
    solve_layer solve e (map scrub_node tbl) prev l' = solve_layer solve e tbl prev l.
  Proof.
    intros Hp S. rewrite !solve_layer_shapes. f_equal. symmetry.
    apply map_pair_ext; [exact S|]. intros r r' E. now apply litem_of_scrub.
  Qed.

  Lemma run_layers_scrub e tbl : (forall nd, In nd tbl -> n_parent nd = None) ->
    forall ls ls' prev, Forall2 (fun l l' => map shape l = map shape l') ls ls' ->
    run_layers solve e (map scrub_node tbl) prev ls' = run_layers solve e tbl prev ls.
  Proof.
    intros Hp ls ls' prev F. revert prev. induction F as [|l l' ls ls' S F IH]; intro prev; [reflexivity|].
    cbn [run_layers]. rewrite (solve_layer_scrub e tbl prev l l' Hp S). f_equal. apply IH.
  Qed.

  Lemma ritems_scrub_shapes ord (ls : list (list item)) :
    Forall2 (fun l l' => map shape l = map shape l')
            (map (map (ritem_of ord)) ls) (map (map (ritem_of (map scrub_node ord))) ls).
  Proof.
    induction ls as [|l ls IH]; [constructor|]. cbn [map]. constructor; [|exact IH].
    rewrite !map_map. apply map_ext. intros [i b]. unfold shape, ritem_of. cbn [fst snd r_id r_stub].
    rewrite <- scrub_node0 at 2. rewrite map_nth. reflexivity.
  Qed.

  (* ---------- every label is found again -------------------------------------- *)
  Lemma locate_some id : forall solved k prev,
    (exists l r, In l solved /\ In r l /\ r_id r = id /\ r_stub r = false) ->
    locate id k prev solved <> None.
  Proof.
    induction solved as [|l solved IH]; intros k prev [l0 [r [Hl [Hr [Hid Hs]]]]]; [contradiction|].
    cbn [locate]. destruct (find_ritem id (rlabels l)) eqn:E; [destruct prev; discriminate|].
    apply IH. destruct Hl as [<-|Hl]; [|now exists l0, r].
    exfalso. rewrite find_ritem_none in E. apply (E r); [|exact Hid].
    unfold rlabels. apply filter_In. split; [exact Hr|]. now rewrite Hs.
  Qed.

  Lemma run_layers_shapes e tbl : forall ls prev,
    Forall2 (fun s l => Permutation (map shape s) (map shape l)) (run_layers solve e tbl prev ls) ls.
  Proof.
    induction ls as [|l ls IH]; intro prev; [constructor|]. cbn [run_layers].
    constructor; [apply solve_layer_shape_perm|apply IH].
  Qed.

  Lemma Forall2_In_r {A B} (R : A -> B -> Prop) l l' b :
    Forall2 R l l' -> In b l' -> exists a, In a l /\ R a b.
  Proof.
    induction 1 as [|x y l l' Hxy F IH]; intro H; [contradiction|].
    destruct H as [<-|H]; [exists x; split; [now left|exact Hxy]|].
    destruct (IH H) as [a [Ha Ra]]. exists a. split; [now right|exact Ra].
  Qed.

  Lemma labels_in_layers (ls : list (list item)) i :
    In i (labels_of ls) -> exists l, In l ls /\ In (mk_lab i) l.
  Proof.
    unfold labels_of. intro H. apply in_map_iff in H. destruct H as [[j b] [E H]]. cbn in E. subst j.
    unfold nonstubs in H. apply filter_In in H. destruct H as [H Hb]. cbn in Hb. destruct b; [discriminate|].
    apply in_concat in H. destruct H as [l [Hl Hin]]. now exists l.
  Qed.

  Lemma located e tbl ord ls nd :
    Permutation (labels_of ls) (seq 0 (length ord)) -> In nd ord ->
    locate (n_id nd) 0 None (run_layers solve e tbl None (map (map (ritem_of ord)) ls)) <> None.
  Proof.
    intros P Hnd. apply locate_some.
    destruct (In_nth _ _ node0 Hnd) as [i [Hi Ei]].
    assert (Hin : In i (labels_of ls)) by (eapply Permutation_in; [symmetry; exact P|apply in_seq; lia]).
    destruct (labels_in_layers ls i Hin) as [l [Hl Hil]].
    pose proof (run_layers_shapes e tbl (map (map (ritem_of ord)) ls) None) as F.
    destruct (Forall2_In_r _ _ _ (map (ritem_of ord) l) F) as [s [Hs Ps]]; [now apply in_map|].
    assert (Hsh : In (n_id nd, false) (map shape s)).
    { eapply Permutation_in; [symmetry; exact Ps|]. rewrite map_map.
      apply in_map_iff. exists (mk_lab i). split; [|exact Hil].
      unfold shape, ritem_of, mk_lab. cbn [fst snd r_id r_stub]. now rewrite Ei. }
    apply in_map_iff in Hsh. destruct Hsh as [r [Er Hr]]. unfold shape in Er. injection Er as E1 E2.
    now exists s, r.
  Qed.

  Lemma write_back_scrub solved nd :
    locate (n_id nd) 0 None solved <> None ->
    drop_oc (write_back solved (scrub_node nd)) = drop_oc (write_back solved nd).
  Proof.
    unfold write_back. cbn [scrub_node n_id]. intro H.
    destruct (locate (n_id nd) 0 None solved) as [[[k c] p]|]; [reflexivity|congruence].
  Qed.

  Lemma write_back_core solved nd :
    scrub_node (write_back solved nd) = scrub_node nd.
  Proof.
    unfold write_back. destruct (locate (n_id nd) 0 None solved) as [[[k c] p]|]; reflexivity.
  Qed.

  (* ---------- C06_scrub --------------------------------------------------------- *)
  Definition scrub_state (st : fstate) : fstate :=
    mkState (map scrub_node (st_nodes st)) (st_opts st) (st_layers st).

  Definition state_eqv (a b : fstate) : Prop :=
    map drop_oc (st_nodes a) = map drop_oc (st_nodes b) /\
    st_opts a = st_opts b /\ st_layers a = st_layers b.

  Definition engine_dom (e : eopts) (l : list nodeobj) : Prop :=
    dist_dom (dopts_of_eopts e) (map label_of l).

  Lemma remove_stub_parent ns nd : In nd (map remove_stub ns) -> n_parent nd = None.
  Proof. intro H. apply in_map_iff in H. destruct H as [x [<- _]]. reflexivity. Qed.

  Lemma label_of_remove_stub ns : map label_of (map remove_stub ns) = map label_of ns.
  Proof. rewrite map_map. reflexivity. Qed.

  Theorem force_compute_scrub st :
    engine_dom (st_opts st) (st_nodes st) ->
    state_eqv (force_compute solve st) (force_compute solve (scrub_state st)).
  Proof.
    intro D. unfold force_compute. cbn [scrub_state st_nodes st_opts].
    set (e := st_opts st). set (ns1 := map remove_stub (st_nodes st)).
    assert (E1 : map remove_stub (map scrub_node (st_nodes st)) = map scrub_node ns1).
    { unfold ns1. rewrite !map_map. reflexivity. }
    rewrite E1, isort_scrub.
    set (sorted := isort nleb ns1).
    assert (Eord : (match e_alg e with AlgNone => map scrub_node ns1 | _ => map scrub_node sorted end)
                   = map scrub_node (ord_of (e_alg e) ns1)) by (unfold ord_of; destruct (e_alg e); reflexivity).
    assert (Eord0 : (match e_alg e with AlgNone => ns1 | _ => sorted end) = ord_of (e_alg e) ns1)
      by (unfold ord_of; destruct (e_alg e); reflexivity).
    rewrite Eord, Eord0, label_of_scrub.
    set (ord := ord_of (e_alg e) ns1).
    assert (Ea : e_alg e = o_alg (dopts_of_eopts e)) by reflexivity.
    assert (Hdist : distribute_on (dopts_of_eopts e) (map label_of ord) =
                    distribute (dopts_of_eopts e) (map label_of ns1))
      by (unfold ord; rewrite Ea; apply distribute_on_nodes).
    assert (D1 : dist_dom (dopts_of_eopts e) (map label_of ns1))
      by (unfold ns1; rewrite label_of_remove_stub; exact D).
    destruct (distribute_on (dopts_of_eopts e) (map label_of ord)) as [ls|] eqn:EL.
    2:{ exfalso. symmetry in Hdist. now apply (distribute_fuel_enough _ _ D1). }
    symmetry in Hdist.
    destruct (distribute_conservation _ _ _ D1 Hdist) as [P _].
    assert (Hp : forall nd, In nd sorted -> n_parent nd = None).
    { intros nd H. apply (remove_stub_parent (st_nodes st)).
      eapply Permutation_in; [apply isort_perm|exact H]. }
    rewrite (run_layers_scrub e sorted Hp _ _ None (ritems_scrub_shapes ord ls)).
    set (solved := run_layers solve e sorted None (map (map (ritem_of ord)) ls)).
    assert (Lord : length ord = length (map label_of ns1)).
    { rewrite map_length. apply Permutation_length, ord_of_perm. }
    assert (Hloc : forall nd, In nd ns1 -> locate (n_id nd) 0 None solved <> None).
    { intros nd H. apply located; [now rewrite Lord|].
      eapply Permutation_in; [symmetry; apply ord_of_perm|exact H]. }
    assert (Ebase : (match e_alg e with AlgNone => map scrub_node sorted | _ => map scrub_node ns1 end)
                    = map scrub_node (match e_alg e with AlgNone => sorted | _ => ns1 end))
      by (destruct (e_alg e); reflexivity).
    rewrite Ebase.
    set (base := match e_alg e with AlgNone => sorted | _ => ns1 end).
    assert (Hbase : forall nd, In nd base -> In nd ns1).
    { intros nd H. unfold base in H. destruct (e_alg e); try exact H.
      eapply Permutation_in; [apply isort_perm|exact H]. }
    split; [|split; reflexivity]. cbn [st_nodes].
    rewrite !map_map. symmetry. apply map_ext_in. intros nd H.
    apply write_back_scrub, Hloc, Hbase, H.
  Qed.
End EngineProofs.

(* ---------- C06_history --------------------------------------------------------- *)
(* the canonical form of the engine's node list: stale fields reset, stably
   sorted by ideal position.  A layout depends on the node list through it only. *)
Definition canon (l : list nodeobj) : list nodeobj := isort nleb (map scrub_node l).

(* what a history says the current labels and the effective options are *)
Definition track_step (s : list nodeobj * eopts) (o : op) : list nodeobj * eopts :=
  match o with
  | SetNodes l => (match l with [] => fst s | _ => l end, snd s)
  | SetOptions u => (fst s, apply_update (snd s) u)
  | Compute => s
  end.

Lemma find_node_NoDup nd : forall T, NoDup (map n_id T) -> In nd T -> find_node (n_id nd) T = nd.
Proof.
  induction T as [|x T IH]; intros N H; [contradiction|]. cbn [find_node].
  cbn [map] in N. inversion N as [|a l Hn N']; subst.
  destruct H as [->|H]; [now rewrite Nat.eqb_refl|].
  destruct (n_id x =? n_id nd) eqn:E; [|now apply IH].
  apply Nat.eqb_eq in E. exfalso. apply Hn. rewrite E. now apply in_map.
Qed.

Lemma canon_perm l : Permutation (canon l) (map scrub_node l).
Proof. apply isort_perm. Qed.

Lemma canon_eq_perm E L : canon E = canon L -> Permutation (map scrub_node E) (map scrub_node L).
Proof.
  intro H. etransitivity; [symmetry; apply canon_perm|]. rewrite H. apply canon_perm.
Qed.

Lemma label_of_scrub_node nd : label_of (scrub_node nd) = label_of nd.
Proof. reflexivity. Qed.

Lemma dist_dom_perm o l l' : Permutation l l' -> dist_dom o l -> dist_dom o l'.
Proof.
  intros P [H R]. split; [|exact R]. intros x Hx. apply H.
  eapply Permutation_in; [symmetry; exact P|exact Hx].
Qed.

Section History.
  Variable solve : lopts -> list litem -> list Z.

  Definition tracks (st : fstate) (s : list nodeobj * eopts) : Prop :=
    st_opts st = snd s /\ canon (st_nodes st) = canon (fst s).

  Lemma canon_write_back solved base :
    isort nleb (map scrub_node (map (write_back solved) base)) = isort nleb (map scrub_node base).
  Proof. rewrite map_map. f_equal. apply map_ext. intro nd. apply write_back_core. Qed.

  Lemma compute_tracks st s : tracks st s -> tracks (force_compute solve st) s.
  Proof.
    intros [Ho Hc]. unfold force_compute.
    destruct (distribute_on _ _) as [ls|]; [|now split].
    split; [exact Ho|]. cbn [st_nodes]. rewrite <- Hc. unfold canon.
    rewrite canon_write_back.
    assert (E : map scrub_node (map remove_stub (st_nodes st)) = map scrub_node (st_nodes st))
      by (rewrite map_map; reflexivity).
    destruct (e_alg (st_opts st)).
    - now rewrite E.
    - now rewrite E.
    - rewrite <- isort_scrub, E. apply isort_idem, nleb_total.
  Qed.

  Lemma step_tracks st s o : tracks st s -> tracks (force_step solve st o) (track_step s o).
  Proof.
    intros [Ho Hc]. destruct o as [l|u|]; cbn [force_step track_step].
    - destruct l; [now split|]. split; [exact Ho|reflexivity].
    - split; cbn [st_opts st_nodes fst snd]; [now rewrite Ho|exact Hc].
    - now apply compute_tracks.
  Qed.

  Lemma fold_tracks ops : forall st s, tracks st s ->
    tracks (fold_left (force_step solve) ops st) (fold_left track_step ops s).
  Proof.
    induction ops as [|o ops IH]; intros st s T; [exact T|].
    cbn [fold_left]. apply IH. now apply step_tracks.
  Qed.

  Lemma force_out_eqv a b : state_eqv a b -> force_out a = force_out b.
  Proof.
    intros [H _]. unfold force_out.
    assert (G : forall l, map (fun nd => (n_id nd, (n_layer nd, n_cur nd))) l
                          = map (fun nd => (n_id nd, (n_layer nd, n_cur nd))) (map drop_oc l))
      by (intro l; rewrite map_map; reflexivity).
    now rewrite (G (st_nodes a)), (G (st_nodes b)), H.
  Qed.

  (* two engines holding scrubbed node lists with the same canonical form *)
  Lemma compute_canon E L e lay1 lay2 :
    isort nleb (map scrub_node E) = isort nleb (map scrub_node L) ->
    NoDup (map n_id L) -> engine_dom e L ->
    Permutation (force_out (force_compute solve (mkState (map scrub_node E) e lay1)))
                (force_out (force_compute solve (mkState (map scrub_node L) e lay2))) /\
    st_layers (force_compute solve (mkState (map scrub_node E) e lay1)) =
    st_layers (force_compute solve (mkState (map scrub_node L) e lay2)).
  Proof.
    intros Hc N D. unfold force_compute. cbn [st_nodes st_opts].
    assert (RS : forall X, map remove_stub (map scrub_node X) = map scrub_node X)
      by (intro X; rewrite map_map; reflexivity).
    rewrite !RS, Hc.
    set (E' := map scrub_node E). set (L' := map scrub_node L).
    set (T := isort nleb L').
    assert (PEL : Permutation E' L') by (apply canon_eq_perm; exact Hc).
    assert (PT : Permutation T L') by apply isort_perm.
    assert (DL : dist_dom (dopts_of_eopts e) (map label_of L'))
      by (unfold L'; rewrite label_of_scrub; exact D).
    assert (Ea : e_alg e = o_alg (dopts_of_eopts e)) by reflexivity.
    destruct (e_alg e) eqn:A.
    1,2: (destruct (distribute_on (dopts_of_eopts e) (map label_of T)) as [ls|] eqn:EL;
      [ split; [|reflexivity]; unfold force_out; cbn [st_nodes];
        apply Permutation_map, Permutation_map; exact PEL
      | exfalso; apply (distribute_fuel_enough _ _ DL);
        rewrite <- (distribute_on_nodes (dopts_of_eopts e) L'), <- Ea; exact EL ]).
    (* algorithm none: the single layer is sorted before it is solved *)
    assert (Len : length E' = length L') by (apply Permutation_length, PEL).
    unfold distribute_on. rewrite <- Ea.
    destruct (map label_of E') as [|a la] eqn:ME; destruct (map label_of L') as [|b lb] eqn:ML.
    { apply map_eq_nil in ME, ML. unfold T. rewrite ME, ML. cbn. split; [constructor|reflexivity]. }
    { apply (f_equal (@length _)) in ME, ML. rewrite map_length in ME, ML. cbn in ME, ML. lia. }
    { apply (f_equal (@length _)) in ME, ML. rewrite map_length in ME, ML. cbn in ME, ML. lia. }
    rewrite <- ME, <- ML, !map_length, Len.
    cbn [map run_layers].
    assert (NT : NoDup (map n_id T)).
    { eapply Permutation_NoDup; [symmetry; apply Permutation_map, PT|].
      unfold L'. rewrite map_map. exact N. }
    assert (ScrT : forall nd, In nd T -> n_parent nd = None).
    { intros nd H. eapply Permutation_in in H; [|exact PT]. unfold L' in H.
      apply in_map_iff in H. destruct H as [z [<- _]]. reflexivity. }
    (* the sorted pairs the solver sees depend on T only *)
    set (F0 := fun nd : nodeobj => ((n_id nd, false), mkLitem (n_pos nd) (if false then e_stub e else n_width nd) (false || n_child nd))).
    assert (Key : forall X, Permutation X L' -> isort nleb X = T ->
              solve_layer solve e T None (map (ritem_of X) (all_labels (length L'))) =
              solve_shapes solve e (map F0 T)).
    { intros X PX SX. rewrite solve_layer_shapes, <- (Permutation_length PX).
      unfold all_labels. rewrite !map_map.
      assert (M : map (fun i => (shape (ritem_of X (mk_lab i)), litem_of e T None (ritem_of X (mk_lab i))))
                      (seq 0 (length X)) = map F0 X).
      { rewrite <- (map_nth_seq X node0) at 2. rewrite map_map.
        apply map_ext_in. intros i Hi. apply in_seq in Hi.
        unfold shape, ritem_of, litem_of, target, node_of, F0, mk_lab. cbn [fst snd r_id r_stub].
        assert (InT : In (nth i X node0) T).
        { eapply Permutation_in; [symmetry; etransitivity; [exact PT|symmetry; exact PX]|].
          apply nth_In. lia. }
        rewrite (find_node_NoDup _ T NT InT), (ScrT _ InT). reflexivity. }
      rewrite M. unfold solve_shapes.
      assert (HH: forall a b, leb2 (F0 a) (F0 b) = nleb a b). { intros n1 n2. reflexivity. }
      rewrite (isort_map F0 nleb leb2 X HH), (isort_map F0 nleb leb2 T HH), SX.
      assert (IT : isort nleb T = T) by (unfold T; apply (isort_idem nleb nleb_total)).
      rewrite IT. reflexivity. }
    rewrite (Key E' PEL Hc), (Key L' (Permutation_refl _) eq_refl).
    split; reflexivity.
  Qed.

  Theorem compute_tracked st L e :
    tracks st (L, e) -> NoDup (map n_id L) -> engine_dom e L ->
    Permutation (force_out (force_compute solve st)) (force_out (layout solve e L)) /\
    st_layers (force_compute solve st) = st_layers (layout solve e L).
  Proof.
    intros [Ho Hc] N D. cbn [fst snd] in Ho, Hc.
    assert (DE : engine_dom (st_opts st) (st_nodes st)).
    { rewrite Ho. unfold engine_dom in *.
      eapply dist_dom_perm; [|exact D].
      rewrite <- (label_of_scrub L), <- (label_of_scrub (st_nodes st)).
      apply Permutation_map. symmetry. now apply canon_eq_perm. }
    pose proof (force_compute_scrub solve st DE) as Eq.
    rewrite (force_out_eqv _ _ Eq). destruct Eq as [_ [_ ->]].
    unfold scrub_state, layout. rewrite Ho. now apply compute_canon.
  Qed.

  (* after ANY history, a compute outputs the layout of the current labels
     under the effective options *)
  Theorem force_history ops :
    let st := fold_left (force_step solve) ops init_state in
    let s := fold_left track_step ops ([], default_eopts) in
    NoDup (map n_id (fst s)) -> engine_dom (snd s) (fst s) ->
    Permutation (force_out (force_compute solve st)) (force_out (layout solve (snd s) (fst s))) /\
    st_layers (force_compute solve st) = st_layers (layout solve (snd s) (fst s)).
  Proof.
    intros st s N D.
    assert (T : tracks st s) by (apply fold_tracks; split; reflexivity).
    destruct s as [L e]. now apply compute_tracked.
  Qed.

  (* a stale engine state and a scrubbed one are indistinguishable *)
  Theorem force_scrub st :
    engine_dom (st_opts st) (st_nodes st) ->
    force_out (force_compute solve st) = force_out (force_compute solve (scrub_state st)) /\
    st_layers (force_compute solve st) = st_layers (force_compute solve (scrub_state st)).
  Proof.
    intro D. pose proof (force_compute_scrub solve st D) as Eq.
    split; [now apply force_out_eqv|apply Eq].
  Qed.
End History.

(* ---------- the engine reports the distributor's layering (C04) ---------------- *)
Definition rshape (x : report_item) : nat * bool := (fst (fst x), snd (fst x)).
(* identity of the label an item of the distributor's result refers to *)
Definition ishape (ord : list nodeobj) (it : item) : nat * bool :=
  (n_id (nth (fst it) ord node0), snd it).

Lemma Forall2_map_l {A B A'} (f : A -> A') (R : A' -> B -> Prop) l l' :
  Forall2 (fun a b => R (f a) b) l l' -> Forall2 R (map f l) l'.
Proof. induction 1; cbn [map]; constructor; auto. Qed.

Lemma Forall2_unmap_r {A B B'} (g : B -> B') (R : A -> B' -> Prop) : forall l l',
  Forall2 R l (map g l') -> Forall2 (fun a b => R a (g b)) l l'.
Proof.
  intros l l'. revert l. induction l' as [|b l' IH]; intros l F; cbn [map] in F; inversion F; subst; constructor; auto.
Qed.

Lemma Forall2_impl {A B} (R R' : A -> B -> Prop) l l' :
  (forall a b, R a b -> R' a b) -> Forall2 R l l' -> Forall2 R' l l'.
Proof. intros H F. induction F; constructor; auto. Qed.

Lemma ord_of_remove_stub a ns i :
  n_id (nth i (ord_of a (map remove_stub ns)) node0) = n_id (nth i (ord_of a ns) node0).
Proof.
  assert (E : ord_of a (map remove_stub ns) = map remove_stub (ord_of a ns)).
  { unfold ord_of. destruct a; try reflexivity; apply isort_map; reflexivity. }
  rewrite E. change node0 with (remove_stub node0) at 1. rewrite map_nth. reflexivity.
Qed.

(* After compute(), whatever the node objects held before and whatever the
   solver returns, getLayers() reports one list per layer of
   `distribute (options) (labels)`, holding exactly that layer's items (the
   labels and stubs, named by the identity of their label); only the order
   inside a list differs (removeOverlap's in-place sort by target). *)
Theorem force_reports_distribution solve st :
  engine_dom (st_opts st) (st_nodes st) ->
  exists ls rep,
    distribute (dopts_of_eopts (st_opts st)) (map label_of (st_nodes st)) = Some ls /\
    st_layers (force_compute solve st) = Some rep /\
    Forall2 (fun r l => Permutation (map rshape r)
                          (map (ishape (ord_of (e_alg (st_opts st)) (st_nodes st))) l)) rep ls.
Proof.
  intro D. unfold force_compute.
  set (e := st_opts st). set (ns1 := map remove_stub (st_nodes st)).
  assert (Eord0 : (match e_alg e with AlgNone => ns1 | _ => isort nleb ns1 end) = ord_of (e_alg e) ns1)
    by (unfold ord_of; destruct (e_alg e); reflexivity).
  rewrite Eord0.
  assert (Ea : e_alg e = o_alg (dopts_of_eopts e)) by reflexivity.
  assert (Hdist : distribute_on (dopts_of_eopts e) (map label_of (ord_of (e_alg e) ns1)) =
                  distribute (dopts_of_eopts e) (map label_of (st_nodes st))).
  { rewrite Ea, distribute_on_nodes. unfold ns1. now rewrite label_of_remove_stub. }
  rewrite Hdist.
  destruct (distribute (dopts_of_eopts e) (map label_of (st_nodes st))) as [ls|] eqn:EL.
  2:{ exfalso. now apply (distribute_fuel_enough _ _ D). }
  eexists. eexists. split; [reflexivity|]. split; [reflexivity|].
  apply Forall2_map_l.
  pose proof (run_layers_shapes solve e (isort nleb ns1) (map (map (ritem_of (ord_of (e_alg e) ns1))) ls) None) as F.
  apply Forall2_unmap_r in F.
  eapply Forall2_impl; [|exact F].
  intros s l P. cbn beta in P |- *. rewrite !map_map in *. cbn [rshape fst snd].
  etransitivity; [exact P|]. apply Permutation_refl'. apply map_ext. intros [i b].
  unfold shape, ritem_of, ishape. cbn [fst snd r_id r_stub]. f_equal. apply ord_of_remove_stub.
Qed.

(* computing again on the same engine changes nothing *)
Corollary force_recompute solve st :
  NoDup (map n_id (st_nodes st)) -> engine_dom (st_opts st) (st_nodes st) ->
  Permutation (force_out (force_compute solve (force_compute solve st)))
              (force_out (force_compute solve st)) /\
  st_layers (force_compute solve (force_compute solve st)) = st_layers (force_compute solve st).
Proof.
  intros N D.
  assert (T : tracks st (st_nodes st, st_opts st)) by (split; reflexivity).
  destruct (compute_tracked solve st _ _ T N D) as [P1 L1].
  destruct (compute_tracked solve (force_compute solve st) _ _ (compute_tracks solve st _ T) N D) as [P2 L2].
  split; [|now rewrite L1, L2].
  etransitivity; [exact P2|]. now symmetry.
Qed.

Print Assumptions force_history.
Print Assumptions force_recompute.
Print Assumptions force_scrub.
Print Assumptions force_reports_distribution.
