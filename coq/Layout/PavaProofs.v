(* Proofs about Layout/Pava.v: the stack algorithm returns a KKT point of the
   chain problem (feasible, non-negative multipliers, complementary
   slackness), hence the unique optimum.

   Structure.
   1. A ghost stack of segments (lists of (e,w) pairs) mirrors the stack of
      blocks; each segment is `good` (every non-empty prefix has weighted mean
      >= the segment's mean) and the means increase from bottom to top.
   2. `expand` therefore yields a certificate `cert` in e-coordinates
      (y = x - offset): y non-decreasing, suffix sums of w(y-e) non-negative,
      zero wherever y increases, zero in total.
   3. Transfer to the chain coordinates: `kkt d w g x`.
   4. kkt => feasible; kkt => optimal by summation by parts. *)
From Coq Require Import ZArith QArith Qround List Bool Lia Lqa.
From Labella Require Import Base.QUtil Base.QUtilProofs Layout.Pava.
Import ListNotations.
Open Scope Q_scope.

(* ---------- 0. small facts --------------------------------------------- *)

Lemma Qmult_le_cancel a b c : 0 < c -> a * c <= b * c -> a <= b.
Proof. intros Hc H. apply Qmult_lt_0_le_reg_r in H; assumption. Qed.

Lemma Qmult_lt_cancel a b c : 0 < c -> a * c < b * c -> a < b.
Proof. intros Hc H. apply Qmult_lt_r in H; assumption. Qed.

(* ---------- 1. segments, ghost stack ----------------------------------- *)

Definition seg := list (Q * Q).            (* (e, w) pairs *)
Definition Wt (s : seg) : Q := Qsum (map snd s).
Definition St (s : seg) : Q := Qsum (map (fun p => snd p * fst p) s).
Definition wpos (s : seg) : Prop := Forall (fun p => 0 < snd p) s.

Lemma Wt_app a b : Wt (a ++ b) == Wt a + Wt b.
Proof. unfold Wt. rewrite map_app. apply Qsum_app. Qed.
Lemma St_app a b : St (a ++ b) == St a + St b.
Proof. unfold St. rewrite map_app. apply Qsum_app. Qed.
Lemma Wt_cons p s : Wt (p :: s) == snd p + Wt s.
Proof. reflexivity. Qed.
Lemma St_cons p s : St (p :: s) == snd p * fst p + St s.
Proof. reflexivity. Qed.

Lemma Wt_nonneg s : wpos s -> 0 <= Wt s.
Proof.
  induction 1 as [|p s Hp _ IH]; [unfold Wt; cbn; lra|].
  rewrite Wt_cons. lra.
Qed.

Lemma Wt_pos s : wpos s -> s <> [] -> 0 < Wt s.
Proof.
  intros H N. destruct s as [|p s]; [congruence|].
  inversion H as [|? ? Hp Hs]; subst. rewrite Wt_cons.
  pose proof (Wt_nonneg s Hs). lra.
Qed.

Lemma wpos_app a b : wpos a -> wpos b -> wpos (a ++ b).
Proof. intros; apply Forall_app; split; assumption. Qed.

Lemma wpos_app_inv a b : wpos (a ++ b) -> wpos a /\ wpos b.
Proof. intro H. apply Forall_app in H. exact H. Qed.

(* every non-empty prefix has mean >= the segment's mean *)
Definition good (s : seg) : Prop :=
  forall p q, s = p ++ q -> p <> [] -> St s * Wt p <= St p * Wt s.

Lemma good_single e w : good [(e, w)].
Proof.
  intros p q E N. destruct p as [|x p]; [congruence|].
  destruct p; [|destruct p; discriminate].
  cbn in E. injection E as <- <-. lra.
Qed.

(* the merge step of the prefix-mean invariant *)
Lemma good_app a b : a <> [] -> b <> [] -> wpos a -> wpos b -> good a -> good b ->
  St b * Wt a < St a * Wt b -> good (a ++ b).
Proof.
  intros Na Nb Pa Pb Ga Gb M p q E Np.
  pose proof (Wt_pos a Pa Na) as WA. pose proof (Wt_pos b Pb Nb) as WB.
  rewrite St_app, Wt_app.
  apply app_eq_app in E. destruct E as [l [[E1 E2]|[E1 E2]]]; [rename E1 into F1; rename E2 into F2|].
  - (* a = p ++ l *)
    assert (Pp : wpos p) by (subst a; apply wpos_app_inv in Pa; tauto).
    pose proof (Wt_pos p Pp Np) as WP.
    pose proof (Ga p l F1 Np) as G.
    set (SP := St p) in *. set (WP' := Wt p) in *.
    set (SA := St a) in *. set (WA' := Wt a) in *.
    set (SB := St b) in *. set (WB' := Wt b) in *.
    assert (H1 : SB * WP' <= SP * WB').
    { apply (Qmult_le_cancel _ _ WA' WA).
      assert (SP * WA' * WB' >= SA * WP' * WB') by nra.
      assert (SA * WB' * WP' >= SB * WA' * WP') by nra.
      nra. }
    nra.
  - (* p = a ++ l, b = l ++ q *)
    subst p. rewrite St_app, Wt_app.
    destruct l as [|x l].
    + assert (Z1 : St [] == 0) by reflexivity. assert (Z2 : Wt [] == 0) by reflexivity.
      rewrite Z1, Z2.
      set (SA := St a) in *. set (WA' := Wt a) in *.
      set (SB := St b) in *. set (WB' := Wt b) in *. nra.
    + assert (Nl : x :: l <> []) by discriminate.
      pose proof (Gb (x :: l) q E2 Nl) as G.
      assert (Pl : wpos (x :: l)) by (subst b; apply wpos_app_inv in Pb; tauto).
      pose proof (Wt_pos _ Pl Nl) as WL.
      assert (Pq : 0 <= Wt q) by (subst b; apply wpos_app_inv in Pb; apply Wt_nonneg; tauto).
      assert (EW : Wt b == Wt (x :: l) + Wt q) by (rewrite E2 at 1; apply Wt_app).
      assert (ES : St b == St (x :: l) + St q) by (rewrite E2 at 1; apply St_app).
      set (SL := St (x :: l)) in *. set (WL' := Wt (x :: l)) in *.
      set (SA := St a) in *. set (WA' := Wt a) in *.
      set (SB := St b) in *. set (WB' := Wt b) in *.
      (* mean a >= mean of the rest q of b *)
      apply (Qmult_le_cancel _ _ WB' WB).
      assert (H1 : (SB - SL) * WB' <= SB * (WB' - WL')) by nra.
      assert (H2 : SA * (WB' - WL') * WB' >= SB * WA' * (WB' - WL')) by nra.
      assert (H3 : SB * (WB' - WL') * WA' >= (SB - SL) * WB' * WA') by nra.
      nra.
Qed.

(* ghost block of a segment, equality of blocks up to == *)
Definition blk (s : seg) : block := mkB (Wt s) (St s) (length s).
Definition repr (b : block) (s : seg) : Prop :=
  bw b == Wt s /\ bs b == St s /\ bn b = length s.

Definition gmean_gt (t s : seg) : bool := Qltb (St s * Wt t) (St t * Wt s).

Fixpoint gpush (sb : seg) (segs : list seg) : list seg :=
  match segs with
  | [] => [sb]
  | t :: r => if gmean_gt t sb then gpush (t ++ sb) r else sb :: segs
  end.

Fixpoint gbuild (ew : seg) (segs : list seg) : list seg :=
  match ew with
  | [] => segs
  | p :: r => gbuild r (gpush [p] segs)
  end.

Lemma Qltb_comp a a' b b' : a == a' -> b == b' -> Qltb a b = Qltb a' b'.
Proof.
  intros Ha Hb. destruct (Qltb a' b') eqn:E.
  - apply Qltb_lt. apply Qltb_lt in E. lra.
  - apply Qltb_ge. apply Qltb_ge in E. lra.
Qed.

Lemma mean_gt_repr t b st sb : repr t st -> repr b sb -> mean_gt t b = gmean_gt st sb.
Proof.
  intros [W1 [S1 _]] [W2 [S2 _]]. unfold mean_gt, gmean_gt.
  apply Qltb_comp; [rewrite S2, W1|rewrite S1, W2]; reflexivity.
Qed.

Lemma merge_repr t b st sb : repr t st -> repr b sb -> repr (merge t b) (st ++ sb).
Proof.
  intros [W1 [S1 N1]] [W2 [S2 N2]]. unfold repr, merge. cbn [bw bs bn].
  rewrite !Qred_correct, Wt_app, St_app, app_length, W1, W2, S1, S2, N1, N2.
  repeat split; reflexivity.
Qed.

Lemma push_ghost : forall st segs b sb, Forall2 repr st segs -> repr b sb ->
  Forall2 repr (push b st) (gpush sb segs).
Proof.
  induction st as [|t st IH]; intros segs b sb H Hb; inversion H as [|? s ? segs' Ht Hr]; subst.
  - cbn [push gpush]. constructor; [exact Hb|constructor].
  - cbn [push gpush]. rewrite (mean_gt_repr t b s sb Ht Hb).
    destruct (gmean_gt s sb).
    + apply IH; [exact Hr|apply merge_repr; assumption].
    + constructor; [exact Hb|exact H].
Qed.

Lemma single_repr e w : repr (single e w) [(e, w)].
Proof.
  unfold repr, single, Wt, St. cbn. repeat split; try reflexivity; ring.
Qed.

Lemma build_ghost : forall ew st segs, Forall2 repr st segs ->
  Forall2 repr (build ew st) (gbuild ew segs).
Proof.
  induction ew as [|[e w] r IH]; intros st segs H; cbn [build gbuild]; [exact H|].
  apply IH. apply push_ghost; [exact H|apply single_repr].
Qed.

(* the ghost stack covers exactly the items pushed so far *)
Lemma gpush_concat : forall segs sb, concat (rev (gpush sb segs)) = concat (rev segs) ++ sb.
Proof.
  induction segs as [|t r IH]; intro sb; cbn [gpush].
  - cbn. rewrite app_nil_r. reflexivity.
  - destruct (gmean_gt t sb).
    + rewrite IH. cbn [rev]. rewrite concat_app. cbn [concat]. rewrite app_nil_r, app_assoc. reflexivity.
    + cbn [rev]. rewrite !concat_app. cbn [concat]. rewrite !app_nil_r. reflexivity.
Qed.

Lemma gbuild_concat : forall ew segs, concat (rev (gbuild ew segs)) = concat (rev segs) ++ ew.
Proof.
  induction ew as [|p r IH]; intro segs; cbn [gbuild]; [rewrite app_nil_r; reflexivity|].
  rewrite IH, gpush_concat, <- app_assoc. reflexivity.
Qed.

(* invariant of the ghost stack (top first): segments are non-empty, have
   positive weights, are good, and the means do not increase downwards *)
Definition segok (s : seg) : Prop := s <> [] /\ wpos s /\ good s.
Definition mean_le (s1 s2 : seg) : Prop := St s1 * Wt s2 <= St s2 * Wt s1.

Fixpoint means_sorted (segs : list seg) : Prop :=
  match segs with
  | t1 :: r => match r with
               | t2 :: _ => mean_le t2 t1 /\ means_sorted r
               | [] => True
               end
  | [] => True
  end.

Definition ginv (segs : list seg) : Prop := Forall segok segs /\ means_sorted segs.

Lemma ginv_tail t r : ginv (t :: r) -> ginv r.
Proof.
  intros [F M]. split; [inversion F; assumption|].
  destruct r; [exact I|]. cbn [means_sorted] in M. tauto.
Qed.

Lemma gpush_inv : forall segs sb, ginv segs -> segok sb -> ginv (gpush sb segs).
Proof.
  induction segs as [|t r IH]; intros sb G K; cbn [gpush].
  - split; [constructor; [exact K|constructor]|exact I].
  - destruct (gmean_gt t sb) eqn:E.
    + apply IH; [eapply ginv_tail; exact G|].
      destruct G as [F _]. inversion F as [|? ? [Nt [Pt Gt]] _]; subst.
      destruct K as [Ns [Ps Gs]].
      split; [|split].
      * destruct t; [congruence|discriminate].
      * apply wpos_app; assumption.
      * apply good_app; try assumption. apply Qltb_lt in E. exact E.
    + destruct G as [F M]. split; [constructor; assumption|].
      cbn [means_sorted]. split; [|exact M].
      apply Qltb_ge in E. unfold mean_le. exact E.
Qed.

Lemma gbuild_inv : forall ew segs, wpos ew -> ginv segs -> ginv (gbuild ew segs).
Proof.
  induction ew as [|[e w] r IH]; intros segs P G; cbn [gbuild]; [exact G|].
  inversion P as [|? ? Hw Pr]; subst. apply IH; [exact Pr|].
  apply gpush_inv; [exact G|].
  split; [discriminate|split; [constructor; [exact Hw|constructor]|apply good_single]].
Qed.

(* ---------- 2. the certificate in e-coordinates ------------------------- *)

(* sum of w (y - e) over the common length: minus half the gradient *)
Fixpoint Rsum (ew : seg) (y : list Q) : Q :=
  match ew, y with
  | (e, w) :: r, v :: yr => w * (v - e) + Rsum r yr
  | _, _ => 0
  end.

(* y non-decreasing; every proper suffix sum is >= 0 and vanishes where y
   increases *)
Fixpoint cert (ew : seg) (y : list Q) : Prop :=
  match ew, y with
  | (e, w) :: r, v :: yr =>
      cert r yr /\ 0 <= Rsum r yr /\
      match yr with
      | v2 :: _ => v <= v2 /\ (Rsum r yr == 0 \/ v == v2)
      | [] => True
      end
  | _, _ => True
  end.

Definition head_ge (v : Q) (l : list Q) : Prop :=
  match l with a :: _ => v <= a | [] => True end.

Lemma block_cert (s : seg) v rest acc :
  wpos s -> good s -> v * Wt s == St s ->
  cert rest acc -> Rsum rest acc == 0 -> head_ge v acc ->
  forall q p, s = p ++ q ->
    cert (q ++ rest) (repeat v (length q) ++ acc) /\
    Rsum (q ++ rest) (repeat v (length q) ++ acc) == v * Wt q - St q /\
    head_ge v (repeat v (length q) ++ acc).
Proof.
  intros P G V C R0 H. induction q as [|[e w] q IH]; intros p E.
  - cbn [app length repeat]. unfold Wt, St. cbn [map Qsum fold_right].
    split; [exact C|split; [rewrite R0; ring|exact H]].
  - assert (E' : s = (p ++ [(e, w)]) ++ q) by (rewrite <- app_assoc; exact E).
    destruct (IH _ E') as [C1 [R1 H1]].
    cbn [app length repeat cert Rsum].
    assert (Np : p ++ [(e, w)] <> []) by (destruct p; discriminate).
    pose proof (G _ _ E' Np) as Gp.
    assert (EW : Wt s == Wt (p ++ [(e, w)]) + Wt q) by (rewrite E' at 1; apply Wt_app).
    assert (ES : St s == St (p ++ [(e, w)]) + St q) by (rewrite E' at 1; apply St_app).
    assert (Pp : wpos (p ++ [(e, w)])) by (rewrite E' in P; apply wpos_app_inv in P; tauto).
    pose proof (Wt_pos _ Pp Np) as WP.
    assert (Pq : 0 <= Wt q) by (rewrite E' in P; apply wpos_app_inv in P; apply Wt_nonneg; tauto).
    assert (R1pos : 0 <= v * Wt q - St q).
    { set (SP := St (p ++ [(e, w)])) in *. set (WP' := Wt (p ++ [(e, w)])) in *.
      set (Sq := St q) in *. set (Wq := Wt q) in *. set (Ss := St s) in *. set (Ws := Wt s) in *.
      assert (WS : 0 < Ws) by lra.
      assert (X : v * WP' <= SP).
      { apply (Qmult_le_cancel _ _ Ws WS). nra. }
      nra. }
    split; [|split].
    + split; [exact C1|]. split; [rewrite R1; exact R1pos|].
      destruct q as [|[e2 w2] q'].
      * cbn [length repeat app] in *. destruct acc as [|a acc']; [exact I|].
        split; [exact H|]. left. rewrite R1. unfold Wt, St. cbn [map Qsum fold_right]. ring.
      * cbn [length repeat app]. split; [lra|right; reflexivity].
    + rewrite R1, Wt_cons, St_cons. cbn [fst snd]. ring.
    + cbn [head_ge]. lra.
Qed.

(* relation between a block's value and its segment *)
Lemma bval_repr b s : repr b s -> wpos s -> s <> [] -> bval b * Wt s == St s.
Proof.
  intros [W [S _]] P N. unfold bval. rewrite Qred_correct, W, S.
  pose proof (Wt_pos s P N). field. lra.
Qed.

Lemma expand_cert : forall st segs rest acc,
  Forall2 repr st segs -> ginv segs ->
  length acc = length rest -> cert rest acc -> Rsum rest acc == 0 ->
  (match st with b :: _ => head_ge (bval b) acc | [] => True end) ->
  cert (concat (rev segs) ++ rest) (expand st acc) /\
  Rsum (concat (rev segs) ++ rest) (expand st acc) == 0 /\
  length (expand st acc) = length (concat (rev segs) ++ rest).
Proof.
  induction st as [|b st IH]; intros segs rest acc F G L C R0 H;
    inversion F as [|? s ? segs' Hb Hr]; subst.
  - cbn [rev concat app expand]. tauto.
  - cbn [expand]. destruct G as [FG MG].
    inversion FG as [|? ? [Ns [Ps Gs]] FG']; subst.
    pose proof (bval_repr b s Hb Ps Ns) as V.
    destruct Hb as [Wb [Sb Nb]].
    destruct (block_cert s (bval b) rest acc Ps Gs V C R0 H s [] eq_refl) as [C1 [R1 H1]].
    rewrite Nb.
    assert (E : concat (rev (s :: segs')) ++ rest = concat (rev segs') ++ (s ++ rest)).
    { cbn [rev]. rewrite concat_app. cbn [concat]. rewrite app_nil_r, <- app_assoc. reflexivity. }
    rewrite E. apply IH.
    + exact Hr.
    + split; [exact FG'|]. destruct segs'; [exact I|]. cbn [means_sorted] in MG. tauto.
    + rewrite !app_length, repeat_length, L. reflexivity.
    + exact C1.
    + rewrite R1, V. ring.
    + destruct st as [|b2 st']; [exact I|].
      inversion Hr as [|? s2 ? segs'' Hb2 Hr']; subst.
      inversion FG' as [|? ? [Ns2 [Ps2 Gs2]] _]; subst.
      cbn [means_sorted] in MG. destruct MG as [M _].
      pose proof (bval_repr b2 s2 Hb2 Ps2 Ns2) as V2.
      pose proof (Wt_pos s Ps Ns) as W1. pose proof (Wt_pos s2 Ps2 Ns2) as W2.
      destruct s as [|x s']; [congruence|]. cbn [length repeat app head_ge].
      unfold mean_le in M.
      set (v := bval b) in *. set (v2 := bval b2) in *.
      set (S1 := St (x :: s')) in *. set (WW1 := Wt (x :: s')) in *.
      set (S2 := St s2) in *. set (WW2 := Wt s2) in *.
      assert (X : v2 * (WW1 * WW2) <= v * (WW1 * WW2)) by nra.
      apply (Qmult_le_cancel _ _ (WW1 * WW2)); [nra|exact X].
Qed.

Theorem iso_cert ew : wpos ew ->
  cert ew (iso ew) /\ Rsum ew (iso ew) == 0 /\ length (iso ew) = length ew.
Proof.
  intro P. unfold iso.
  pose proof (build_ghost ew [] [] (Forall2_nil _)) as F.
  assert (G : ginv (gbuild ew [])) by (apply gbuild_inv; [exact P|split; [constructor|exact I]]).
  pose proof (gbuild_concat ew []) as E. cbn [rev concat app] in E.
  destruct (expand_cert _ _ [] [] F G eq_refl I (Qeq_refl 0)) as [C [R L]].
  { destruct (build ew []); exact I. }
  rewrite app_nil_r, E in C, R, L. tauto.
Qed.

(* ---------- 3. the KKT system of the chain problem ---------------------- *)

(* suffix sums of w (x - d): R_{i+1} is half the multiplier of constraint i *)
Fixpoint Rs (d w x : list Q) : Q :=
  match d, w, x with
  | di :: d', wi :: w', xi :: x' => wi * (xi - di) + Rs d' w' x'
  | _, _, _ => 0
  end.

(* primal feasibility, dual feasibility, complementary slackness *)
Fixpoint kkt (d w g x : list Q) : Prop :=
  match d, w, x with
  | di :: d', wi :: w', xi :: x' =>
      match x', g with
      | xj :: _, gi :: g' =>
          gi <= xj - xi /\ 0 <= Rs d' w' x' /\ (Rs d' w' x' == 0 \/ xj - xi == gi) /\
          kkt d' w' g' x'
      | _, _ => True
      end
  | _, _, _ => True
  end.

Lemma offsets_cons a x r : offsets a (x :: r) = a :: offsets (Qred (a + x)) r.
Proof. reflexivity. Qed.
Lemma offsets_nil a : offsets a [] = [a].
Proof. reflexivity. Qed.
Lemma offsets_length g : forall a, length (offsets a g) = S (length g).
Proof. induction g as [|x r IH]; intro a; [reflexivity|]. rewrite offsets_cons. cbn [length]. rewrite IH. reflexivity. Qed.
Lemma offsets_head a g : exists r, offsets a g = a :: r.
Proof. destruct g; eexists; reflexivity. Qed.

Lemma cert_kkt : forall g a d w y,
  length d = S (length g) -> length w = length d -> length y = length d ->
  cert (combine (map2 Qminus d (offsets a g)) w) y ->
  kkt d w g (map2 Qplus y (offsets a g)) /\
  Rs d w (map2 Qplus y (offsets a g)) == Rsum (combine (map2 Qminus d (offsets a g)) w) y.
Proof.
  induction g as [|gi g IH]; intros a d w y Ld Lw Ly C.
  - destruct d as [|d0 [|? ?]]; try discriminate.
    destruct w as [|w0 [|? ?]]; try discriminate.
    destruct y as [|y0 [|? ?]]; try discriminate.
    rewrite offsets_nil. cbn [map2 combine kkt Rs Rsum]. split; [exact I|ring].
  - destruct d as [|d0 d]; [discriminate|]. destruct w as [|w0 w]; [discriminate|].
    destruct y as [|y0 y]; [discriminate|].
    cbn [length] in Ld, Lw, Ly. injection Ld as Ld. injection Lw as Lw. injection Ly as Ly.
    rewrite offsets_cons in *. cbn [map2 combine] in *.
    cbn [cert] in C. destruct C as [C1 [C2 C3]].
    destruct (IH (Qred (a + gi)) d w y Ld Lw Ly C1) as [K R].
    cbn [Rs Rsum]. split; [|rewrite R; ring].
    destruct d as [|d1 d]; [discriminate|]. destruct w as [|w1 w]; [discriminate|].
    destruct y as [|y1 y]; [discriminate|].
    destruct (offsets_head (Qred (a + gi)) g) as [r Er]. rewrite Er in *.
    cbn [map2] in *. cbn [kkt]. fold (kkt (d1 :: d) (w1 :: w) g (y1 + Qred (a + gi) :: map2 Qplus y r)).
    destruct C3 as [C3 C4].
    assert (Q : Qred (a + gi) == a + gi) by apply Qred_correct.
    split; [lra|]. split; [rewrite R; exact C2|]. split; [|exact K].
    destruct C4 as [C4|C4]; [left; rewrite R; exact C4|right; lra].
Qed.

Lemma chain_lengths d w g : chain_ok d w g ->
  length (pava d w g) = length d.
Proof.
  intros [Lw [Lg P]]. unfold pava.
  assert (Le : length (map2 Qminus d (offsets 0 g)) = length d).
  { rewrite map2_length, offsets_length, Lg. apply Nat.min_id. }
  assert (Pe : wpos (combine (map2 Qminus d (offsets 0 g)) w)).
  { unfold wpos. apply Forall_forall. intros [e x] H. apply in_combine_r in H.
    unfold all_pos in P. rewrite Forall_forall in P. apply P. exact H. }
  destruct (iso_cert _ Pe) as [_ [_ L]].
  rewrite map2_length, L, combine_length, Le, Lw, offsets_length, Lg, !Nat.min_id. reflexivity.
Qed.

Theorem pava_kkt d w g : chain_ok d w g ->
  kkt d w g (pava d w g) /\ Rs d w (pava d w g) == 0 /\ length (pava d w g) = length d.
Proof.
  intros H. pose proof (chain_lengths d w g H) as L. destruct H as [Lw [Lg P]].
  assert (Le : length (map2 Qminus d (offsets 0 g)) = length d).
  { rewrite map2_length, offsets_length, Lg. apply Nat.min_id. }
  assert (Pe : wpos (combine (map2 Qminus d (offsets 0 g)) w)).
  { unfold wpos. apply Forall_forall. intros [e x] H. apply in_combine_r in H.
    unfold all_pos in P. rewrite Forall_forall in P. apply P. exact H. }
  destruct (iso_cert _ Pe) as [C [R Li]].
  rewrite combine_length, Le, Lw, Nat.min_id in Li.
  destruct (cert_kkt g 0 d w _ (eq_sym Lg) Lw Li C) as [K R'].
  unfold pava. split; [exact K|]. split; [rewrite R'; exact R|exact L].
Qed.

(* ---------- 4. feasibility and optimality from the KKT system ----------- *)

Lemma kkt_feasible : forall x d w g, length d = length x -> length w = length x ->
  kkt d w g x -> feasible g x.
Proof.
  induction x as [|xi x IH]; intros d w g Ld Lw K; [exact I|].
  destruct d as [|di d]; [discriminate|]. destruct w as [|wi w]; [discriminate|].
  cbn [length] in Ld, Lw. injection Ld as Ld. injection Lw as Lw.
  cbn [kkt] in K. cbn [feasible].
  destruct x as [|xj x]; [exact I|]. destruct g as [|gi g]; [exact I|].
  destruct K as [K1 [_ [_ K4]]]. split; [exact K1|]. apply (IH d w g Ld Lw K4).
Qed.

Theorem pava_feasible_list d w g : chain_ok d w g -> feasible g (pava d w g).
Proof.
  intro H. destruct (pava_kkt d w g H) as [K [_ L]]. destruct H as [Lw _].
  apply (kkt_feasible _ d w g); [symmetry; exact L|rewrite L; exact Lw|exact K].
Qed.

(* cost, unfolded *)
Lemma cost_cons di d wi w xi x :
  cost (di :: d) (wi :: w) (xi :: x) == wi * ((xi - di) * (xi - di)) + cost d w x.
Proof. unfold cost. cbn [map2]. rewrite Qsum_cons. reflexivity. Qed.

Lemma cost_nil_x d w : cost d w [] == 0.
Proof. unfold cost. cbn [map2]. destruct w; reflexivity. Qed.

Lemma cost_nil_d w x : cost [] w x == 0.
Proof. unfold cost. destruct x; cbn [map2]; destruct w; reflexivity. Qed.

Lemma cost_nil_w d x : cost d [] x == 0.
Proof. reflexivity. Qed.

Lemma cost_nonneg : forall x d w, all_pos w -> 0 <= cost d w x.
Proof.
  induction x as [|xi x IH]; intros d w P; [rewrite cost_nil_x; lra|].
  destruct d as [|di d]; [rewrite cost_nil_d; lra|].
  destruct w as [|wi w]; [rewrite cost_nil_w; lra|].
  inversion P as [|? ? Hw Pw]; subst. rewrite cost_cons.
  pose proof (IH d w Pw). set (c := xi - di). nra.
Qed.

(* cross term  sum w (x - d)(y - x) *)
Fixpoint cross (d w x y : list Q) : Q :=
  match d, w, x, y with
  | di :: d', wi :: w', xi :: x', yi :: y' => wi * (xi - di) * (yi - xi) + cross d' w' x' y'
  | _, _, _, _ => 0
  end.

Lemma cost_split : forall x d w y,
  length d = length x -> length w = length x -> length y = length x ->
  cost d w y == cost d w x + cost x w y + 2 * cross d w x y.
Proof.
  induction x as [|xi x IH]; intros d w y Ld Lw Ly.
  - destruct y; [|discriminate]. destruct d; [|discriminate]. destruct w; [|discriminate].
    unfold cost. cbn. ring.
  - destruct d as [|di d]; [discriminate|]. destruct w as [|wi w]; [discriminate|].
    destruct y as [|yi y]; [discriminate|].
    cbn [length] in Ld, Lw, Ly. injection Ld as Ld. injection Lw as Lw. injection Ly as Ly.
    rewrite !cost_cons. cbn [cross]. rewrite (IH d w y Ld Lw Ly). ring.
Qed.

(* summation by parts: the cross term is bounded below by the total suffix
   sum times the first difference *)
Lemma cross_ge : forall x d w g y,
  length d = length x -> length w = length x -> length y = length x ->
  S (length g) = length x ->
  kkt d w g x -> feasible g y ->
  match x, y with
  | xi :: _, yi :: _ => Rs d w x * (yi - xi) <= cross d w x y
  | _, _ => True
  end.
Proof.
  induction x as [|xi x IH]; intros d w g y Ld Lw Ly Lg K F; [exact I|].
  destruct d as [|di d]; [discriminate|]. destruct w as [|wi w]; [discriminate|].
  destruct y as [|yi y]; [discriminate|].
  cbn [length] in Ld, Lw, Ly, Lg. injection Ld as Ld. injection Lw as Lw. injection Ly as Ly.
  injection Lg as Lg.
  cbn [Rs cross].
  destruct x as [|xj x].
  - destruct d; [|discriminate]. destruct w; [|discriminate]. destruct y; [|discriminate].
    cbn [Rs cross]. lra.
  - destruct y as [|yj y]; [discriminate|].
    cbn [kkt] in K. cbn [feasible] in F.
    destruct g as [|gi g].
    + discriminate.
    + destruct K as [K1 [K2 [K3 K4]]]. destruct F as [F1 F2].
      pose proof (IH d w g (yj :: y) Ld Lw Ly Lg K4 F2) as B. cbn beta iota in B.
      set (R := Rs d w (xj :: x)) in *. set (X := cross d w (xj :: x) (yj :: y)) in *.
      destruct K3 as [K3|K3]; nra.
Qed.

Theorem kkt_optimal x d w g y :
  length d = length x -> length w = length x -> length y = length x ->
  S (length g) = length x ->
  kkt d w g x -> Rs d w x == 0 -> feasible g y ->
  cost d w x + cost x w y <= cost d w y.
Proof.
  intros Ld Lw Ly Lg K R F.
  rewrite (cost_split x d w y Ld Lw Ly).
  pose proof (cross_ge x d w g y Ld Lw Ly Lg K F) as B.
  destruct x as [|xi x]; [discriminate|]. destruct y as [|yi y]; [discriminate|].
  rewrite R in B. lra.
Qed.

Theorem pava_optimal_list d w g y : chain_ok d w g ->
  length y = length d -> feasible g y ->
  cost d w (pava d w g) + cost (pava d w g) w y <= cost d w y.
Proof.
  intros H Ly F. destruct (pava_kkt d w g H) as [K [R L]]. destruct H as [Lw [Lg P]].
  apply (kkt_optimal _ d w g y); try assumption; congruence.
Qed.

(* a vanishing weighted distance means equality *)
Lemma cost_zero_eq : forall x w y, all_pos w ->
  length w = length x -> length y = length x ->
  cost x w y <= 0 -> Forall2 Qeq x y.
Proof.
  induction x as [|xi x IH]; intros w y P Lw Ly C.
  - destruct y; [constructor|discriminate].
  - destruct w as [|wi w]; [discriminate|]. destruct y as [|yi y]; [discriminate|].
    cbn [length] in Lw, Ly. injection Lw as Lw. injection Ly as Ly.
    inversion P as [|? ? Hw Pw]; subst. rewrite cost_cons in C.
    pose proof (cost_nonneg y x w Pw) as N.
    set (c := yi - xi) in *.
    assert (S0 : 0 <= c * c) by nra.
    assert (Z : c * c <= 0) by nra.
    assert (E : c == 0) by nra.
    constructor; [unfold c in E; lra|].
    apply (IH w y Pw Lw Ly). nra.
Qed.

Theorem pava_unique d w g y : chain_ok d w g ->
  length y = length d -> feasible g y ->
  cost d w y <= cost d w (pava d w g) -> Forall2 Qeq (pava d w g) y.
Proof.
  intros H Ly F C. pose proof (pava_optimal_list d w g y H Ly F) as O.
  pose proof (chain_lengths d w g H) as L. destruct H as [Lw [Lg P]].
  apply (cost_zero_eq _ w y P); [congruence|congruence|lra].
Qed.

(* ---------- 5. index-based reading of feasibility ----------------------- *)

Lemma slice_SS {A} i j (a : A) l : slice (S i) (S j) (a :: l) = slice i j l.
Proof. reflexivity. Qed.

Lemma slice_0S {A} j (a : A) l : slice 0 (S j) (a :: l) = a :: slice 0 j l.
Proof. unfold slice. rewrite !Nat.sub_0_r. reflexivity. Qed.

Lemma slice_nil {A} i j : slice i j (@nil A) = [].
Proof. unfold slice. destruct i; destruct (j - _)%nat; reflexivity. Qed.

Lemma slice_same {A} i (l : list A) : slice i i l = [].
Proof. unfold slice. rewrite Nat.sub_diag. reflexivity. Qed.

Lemma feasible_tail g gi a x : feasible (gi :: g) (a :: x) -> feasible g x.
Proof. cbn [feasible]. destruct x; [intros; exact I|tauto]. Qed.

Lemma feasible_path : forall x g, feasible g x -> S (length g) = length x ->
  forall i j, (i <= j)%nat -> (j < length x)%nat ->
  Qsum (slice i j g) <= qnth j x - qnth i x.
Proof.
  induction x as [|a x IH]; intros g F Lg i j Hij Hj; [cbn in Hj; lia|].
  destruct j as [|j].
  - assert (i = 0)%nat by lia. subst. rewrite slice_same, Qsum_nil. lra.
  - destruct x as [|b x]; [cbn in Hj; lia|].
    destruct g as [|gi g]; [discriminate|].
    cbn [length] in Lg, Hj. injection Lg as Lg.
    assert (Lg' : S (length g) = length (b :: x)) by (cbn [length]; congruence).
    pose proof (feasible_tail _ _ _ _ F) as F'.
    destruct i as [|i].
    + rewrite slice_0S, Qsum_cons.
      assert (B : Qsum (slice 0 j g) <= qnth j (b :: x) - qnth 0 (b :: x)).
      { apply IH; [exact F'|exact Lg'|lia|cbn [length]; lia]. }
      cbn [feasible] in F. destruct F as [F1 _].
      unfold qnth in *. cbn [nth] in *. lra.
    + rewrite slice_SS. unfold qnth. cbn [nth].
      apply (IH g F' Lg' i j); [lia|cbn [length]; lia].
Qed.

Lemma slice_one : forall i (g : list Q), (i < length g)%nat -> slice i (S i) g = [qnth i g].
Proof.
  induction i as [|i IH]; intros [|a g] H; cbn [length] in H; try lia.
  - reflexivity.
  - rewrite slice_SS. unfold qnth. cbn [nth]. apply IH. lia.
Qed.

Lemma feasible_nth x g : feasible g x -> S (length g) = length x ->
  forall i, (S i < length x)%nat -> qnth i g <= qnth (S i) x - qnth i x.
Proof.
  intros F L i H. pose proof (feasible_path x g F L i (S i) (Nat.le_succ_diag_r i) H) as P.
  rewrite slice_one in P by lia. rewrite Qsum_cons, Qsum_nil in P. lra.
Qed.

(* the recursive predicate `feasible` is the pointwise statement *)
Lemma feasible_of_nth : forall x g,
  (forall i, (S i < length x)%nat -> (i < length g)%nat -> qnth i g <= qnth (S i) x - qnth i x) ->
  feasible g x.
Proof.
  induction x as [|a x IH]; intros g H; [exact I|].
  destruct x as [|b x]; [exact I|]. destruct g as [|gi g]; [exact I|].
  change (gi <= b - a /\ feasible g (b :: x)). split.
  - apply (H 0%nat); cbn [length]; lia.
  - apply IH. intros i Hi Hg. apply (H (S i)); cbn [length] in *; lia.
Qed.

Theorem pava_feasible_nth d w g : chain_ok d w g ->
  forall i, (S i < length d)%nat ->
  qnth i g <= qnth (S i) (pava d w g) - qnth i (pava d w g).
Proof.
  intros H i Hi. pose proof (chain_lengths d w g H) as L.
  apply feasible_nth; [apply pava_feasible_list; exact H| |rewrite L; exact Hi].
  destruct H as [_ [Lg _]]. congruence.
Qed.

(* ---------- 6. the KKT system read at an index; an item with room stays -- *)

(* suffix sum of w (x - d) from index k on *)
Definition Rk (k : nat) (d w x : list Q) : Q := Rs (skipn k d) (skipn k w) (skipn k x).

Lemma kkt_at : forall x d w g k,
  length d = length x -> length w = length x -> S (length g) = length x ->
  kkt d w g x -> (S k < length x)%nat ->
  qnth k g <= qnth (S k) x - qnth k x /\ 0 <= Rk (S k) d w x /\
  (Rk (S k) d w x == 0 \/ qnth (S k) x - qnth k x == qnth k g).
Proof.
  induction x as [|xi x IH]; intros d w g k Ld Lw Lg K Hk; [cbn in Hk; lia|].
  destruct d as [|di d]; [discriminate|]. destruct w as [|wi w]; [discriminate|].
  destruct x as [|xj x]; [cbn in Hk; lia|]. destruct g as [|gi g]; [discriminate|].
  cbn [length] in Ld, Lw, Lg, Hk. injection Ld as Ld. injection Lw as Lw. injection Lg as Lg.
  cbn [kkt] in K. destruct K as [K1 [K2 [K3 K4]]].
  destruct k as [|k].
  - unfold Rk, qnth. cbn [skipn nth]. tauto.
  - unfold Rk, qnth in *. cbn [skipn nth].
    apply (IH d w g k); cbn [length]; try lia; try congruence.
Qed.

Lemma Rk_step : forall k d w x, length d = length x -> length w = length x -> (k < length x)%nat ->
  Rk k d w x == qnth k w * (qnth k x - qnth k d) + Rk (S k) d w x.
Proof.
  induction k as [|k IH]; intros d w x Ld Lw Hk;
    destruct x as [|xi x]; try (cbn in Hk; lia);
    (destruct d as [|di d]; [discriminate|]); (destruct w as [|wi w]; [discriminate|]).
  - unfold Rk, qnth. cbn [skipn nth Rs]. reflexivity.
  - cbn [length] in Ld, Lw, Hk. injection Ld as Ld. injection Lw as Lw.
    unfold Rk, qnth in *. cbn [skipn nth]. apply IH; try assumption. lia.
Qed.

Lemma Rk_end d w x : length d = length x -> Rk (length x) d w x == 0.
Proof. intro L. unfold Rk. rewrite <- L at 1. rewrite skipn_all. reflexivity. Qed.

Lemma all_pos_nth w k : all_pos w -> (k < length w)%nat -> 0 < qnth k w.
Proof.
  intros P H. unfold all_pos in P. rewrite Forall_forall in P. apply P. unfold qnth. apply nth_In. exact H.
Qed.

(* An item whose neighbours' solved positions leave the required gaps around
   its desired position sits exactly there. *)
Theorem pava_unmoved_item d w g k : chain_ok d w g -> (k < length d)%nat ->
  let x := pava d w g in
  match k with O => True | S k' => qnth k' x + qnth k' g <= qnth k d end ->
  (S k = length d \/ qnth k d <= qnth (S k) x - qnth k g) ->
  qnth k x == qnth k d.
Proof.
  intros H Hk x HL HR. destruct (pava_kkt d w g H) as [K [R L]]. fold x in K, R, L.
  destruct H as [Lw [Lg P]].
  assert (Ld : length d = length x) by congruence.
  assert (Lw' : length w = length x) by congruence.
  assert (Lg' : S (length g) = length x) by congruence.
  assert (Hk' : (k < length x)%nat) by congruence.
  pose proof (Rk_step k d w x Ld Lw' Hk') as ST.
  pose proof (all_pos_nth w k P ltac:(congruence)) as Wk.
  (* Rk k >= 0, and == 0 or the left constraint is tight *)
  assert (A : 0 <= Rk k d w x /\ (Rk k d w x == 0 \/
             match k with O => False | S k' => qnth k x - qnth k' x == qnth k' g end)).
  { destruct k as [|k']; [split; [|left]; unfold Rk; cbn [skipn]; rewrite R; lra|].
    destruct (kkt_at x d w g k' Ld Lw' Lg' K Hk') as [_ [A1 A2]]. tauto. }
  assert (B : 0 <= Rk (S k) d w x /\ (Rk (S k) d w x == 0 \/
             ((S k < length x)%nat /\ qnth (S k) x - qnth k x == qnth k g))).
  { destruct (Nat.eq_dec (S k) (length x)) as [E|E].
    - rewrite E. rewrite (Rk_end d w x Ld). split; [lra|left; reflexivity].
    - assert (Hs : (S k < length x)%nat) by lia.
      destruct (kkt_at x d w g k Ld Lw' Lg' K Hs) as [_ [B1 B2]]. split; [exact B1|].
      destruct B2 as [B2|B2]; [left; exact B2|right; split; assumption]. }
  destruct A as [A1 A2]. destruct B as [B1 B2].
  set (c := qnth k x - qnth k d) in *.
  destruct (Qlt_le_dec 0 c) as [Cp|Cn].
  - (* pushed right: the left constraint would be tight *)
    exfalso. assert (0 < Rk k d w x) by nra.
    destruct A2 as [A2|A2]; [lra|]. destruct k as [|k']; [exact A2|]. unfold c in Cp. lra.
  - destruct (Qlt_le_dec c 0) as [Cq|Cz]; [|unfold c in *; lra].
    (* pushed left: the right constraint would be tight *)
    exfalso. assert (0 < Rk (S k) d w x) by nra.
    destruct B2 as [B2|[Hs B2]]; [lra|].
    destruct HR as [HR|HR]; [lia|]. unfold c in Cq. lra.
Qed.
