(* Proofs about Layout/Force.v, continued: algorithm "simple" keeps the
   sorted-index order in every layer, so labels of one layer are placed in the
   order of the position-sorted list (tied labels: in input order). *)
From Coq Require Import ZArith QArith List Bool Arith Lia Lqa Permutation Sorting.Sorted.
From Labella Require Base.QUtil Base.QUtilProofs Base.Sort Base.SortProofs Layout.Layer Layout.LayerProofs.
From Labella Require Import Layout.Distribute Layout.DistributeBase Layout.DistributeSimple Layout.DistributeStubs
  Layout.DistributeProofs Layout.ForceState Layout.ForceStateProofs Layout.Force Layout.ForceProofs.
Import ListNotations.
Open Scope nat_scope.

(* ---------- index-ascending layer lists ------------------------------------- *)
Fixpoint inc_from (lo : nat) (l : list item) : Prop :=
  match l with
  | [] => True
  | it :: r => lo <= fst it /\ inc_from (S (fst it)) r
  end.

Lemma inc_from_weaken l : forall lo lo', lo' <= lo -> inc_from lo l -> inc_from lo' l.
Proof. destruct l as [|it r]; intros lo lo' H I; [exact I|]. destruct I as [I1 I2]. split; [lia|exact I2]. Qed.

Lemma inc_from_ge l : forall lo it, inc_from lo l -> In it l -> lo <= fst it.
Proof.
  induction l as [|x r IH]; intros lo it I H; [contradiction|]. destruct I as [I1 I2].
  destruct H as [<-|H]; [exact I1|]. specialize (IH _ _ I2 H). lia.
Qed.

Lemma inc_from_app_one l : forall lo m b, inc_from lo l -> (forall it, In it l -> fst it < m) -> lo <= m ->
  inc_from lo (l ++ [(m, b)]).
Proof.
  induction l as [|x r IH]; intros lo m b I H Hlo; cbn [app inc_from fst]; [split; [exact Hlo|exact Logic.I]|].
  destruct I as [I1 I2]. split; [exact I1|]. apply IH; [exact I2|intros; apply H; now right|].
  specialize (H x (or_introl eq_refl)). lia.
Qed.

Lemma inc_from_nth l : forall lo p q d, inc_from lo l -> p < q -> q < length l -> fst (nth p l d) < fst (nth q l d).
Proof.
  induction l as [|x r IH]; intros lo p q d I Hpq Hq; cbn [length] in Hq; [lia|]. destruct I as [I1 I2].
  destruct q as [|q]; [lia|]. destruct p as [|p]; cbn [nth].
  - assert (S (fst x) <= fst (nth q r d)) by (apply (inc_from_ge r); [exact I2|apply nth_In; lia]). lia.
  - apply (IH (S (fst x))); [exact I2|lia|lia].
Qed.

Lemma inc_from_seq b : forall n s lo, lo <= s -> inc_from lo (map (fun i => (i, b)) (seq s n)).
Proof.
  induction n as [|n IH]; intros s lo H; cbn [seq map inc_from fst]; [exact I|]. split; [exact H|]. apply IH. lia.
Qed.

(* the layers of `simple` *)
Lemma simple_layers_inc L (HL : 0 < L) : forall m j, j < L ->
  inc_from 0 (nth j (simple_state L m) []) /\ forall it, In it (nth j (simple_state L m) []) -> fst it < m.
Proof.
  induction m as [|m IH]; intros j Hj.
  - unfold simple_state. cbn [seq fold_left]. rewrite nth_repeat_nil. split; [exact I|intros it []].
  - destruct (IH j Hj) as [I1 I2]. rewrite simple_nth_S by assumption.
    assert (R : forall it, In it (nth j (simple_state L m) []) -> fst it < S m) by (intros it H; specialize (I2 it H); lia).
    destruct (j =? m mod L) eqn:A, (j <? m mod L) eqn:B.
    + apply Nat.eqb_eq in A. apply Nat.ltb_lt in B. lia.
    + rewrite app_nil_r. split.
      * apply inc_from_app_one; [exact I1|exact I2|lia].
      * intros it H. apply in_app_or in H. destruct H as [H|[<-|[]]]; [now apply R|cbn; lia].
    + rewrite app_nil_r. split.
      * apply inc_from_app_one; [exact I1|exact I2|lia].
      * intros it H. apply in_app_or in H. destruct H as [H|[<-|[]]]; [now apply R|cbn; lia].
    + rewrite !app_nil_r. split; [exact I1|exact R].
Qed.

Definition layer_inc (n : nat) (l : list item) : Prop := inc_from 0 l /\ forall it, In it l -> fst it < n.

Lemma simple_distribute_inc o labels ls :
  o_alg o = AlgSimple -> distribute o labels = Some ls -> Forall (layer_inc (length labels)) ls.
Proof.
  intros A H. destruct (distribute_cases o labels) as [E|Hne _|Hne _ S|Hne A' _]; try congruence.
  - injection H as <-. constructor.
  - injection H as <-. constructor; [|constructor]. split.
    + apply inc_from_seq. lia.
    + intros it Hit. unfold all_labels in Hit. apply in_map_iff in Hit. destruct Hit as [i [<- Hi]].
      apply in_seq in Hi. cbn. lia.
  - injection H as <-. rewrite alg_simple_state.
    set (L := Z.to_nat (estimate_layers o (map l_width (sort_labels labels)))).
    assert (HL : 0 < L) by (unfold need_to_split in S; apply Z.ltb_lt in S; unfold L; lia).
    apply Forall_forall. intros l Hl. destruct (In_nth _ _ [] Hl) as [j [Hj <-]].
    rewrite simple_length in Hj by exact HL. now apply simple_layers_inc.
Qed.

(* every item of layer k+1 has an item of the same label in layer k *)
Lemma prev_layer_has o labels ls k it :
  dist_dom o labels -> distribute o labels = Some ls -> In it (nth (S k) ls []) ->
  In (mk_stub (fst it)) (nth k ls []).
Proof.
  intros D H Hit. destruct (distribute_chains o labels ls D H) as [C1 [C2 _]].
  destruct it as [i b]. cbn [fst].
  assert (K : exists k', k < k' /\ In (mk_lab i) (nth k' ls [])).
  { destruct b.
    - destruct (C2 _ _ Hit) as [k' [Hk Hin]]. exists k'. split; [lia|exact Hin].
    - exists (S k). split; [lia|exact Hit]. }
  destruct K as [k' [Hk Hlab]]. destruct (C1 k' i Hlab) as [_ [_ Cstub]].
  apply cnt_In. rewrite Cstub. replace (k <? k') with true; [lia|]. symmetry. now apply Nat.ltb_lt.
Qed.

(* ---------- one layer whose list is already in target order -------------------- *)
Lemma lsorted_of_adjacent {A} (leb : A -> A -> bool) (d : A) : forall l,
  (forall p, S p < length l -> leb (nth p l d) (nth (S p) l d) = true) -> lsorted leb l.
Proof.
  induction l as [|x l IH]; intro H; [exact I|]. cbn [lsorted]. split.
  - destruct l as [|y l]; [exact I|]. apply (H 0). cbn; lia.
  - apply IH. intros p Hp. apply (H (S p)). cbn [length]. lia.
Qed.

Definition cur_of (id : nat) (s : list ritem) : Q :=
  match find_ritem id s with Some r => r_cur r | None => 0%Q end.

Section OneLayer.
  Variable e : eopts.
  Variable T : list nodeobj.
  Hypothesis NT : NoDup (map n_id T).
  Hypothesis WT : forall nd, In nd T -> (0 <= n_width nd)%Q.
  Hypothesis Hstub : (0 <= e_stub e)%Q.
  Hypothesis Ook : Layer.opts_ok (solver_opts e).

  Definition rid (it : item) : nat := n_id (nth (fst it) T node0).
  Definition d0 : item := (0, false).

  Definition tgt_asc (prev : option (list ritem)) (its : list item) : Prop :=
    forall p q, p <= q -> q < length its ->
      (target T prev (ritem_of T (nth p its d0)) <= target T prev (ritem_of T (nth q its d0)))%Q.

  Definition layer_result (its : list item) (s : list ritem) : Prop :=
    (forall p q, p <= q -> q < length its ->
       (cur_of (rid (nth p its d0)) s <= cur_of (rid (nth q its d0)) s)%Q) /\
    (forall p, p < length its -> exists r, find_ritem (rid (nth p its d0)) s = Some r /\ In r s /\
                                           r_stub r = snd (nth p its d0)).

  Lemma rid_inj its p q : layer_inc (length T) its -> p < length its -> q < length its ->
    rid (nth p its d0) = rid (nth q its d0) -> p = q.
  Proof.
    intros [I R] Hp Hq E. unfold rid in E.
    apply (ids_nth_inj T) in E; [|exact NT|apply R, nth_In, Hp|apply R, nth_In, Hq].
    destruct (Nat.lt_trichotomy p q) as [L|[L|L]]; [|exact L|].
    - pose proof (inc_from_nth its 0 p q d0 I L Hq). lia.
    - pose proof (inc_from_nth its 0 q p d0 I L Hp). lia.
  Qed.

  Lemma solve_sorted_layer prev its :
    layer_inc (length T) its -> tgt_asc prev its ->
    layer_result its (ForceState.solve_layer solve e T prev (map (ritem_of T) its)).
  Proof.
    intros LI TA. destruct LI as [I R].
    set (l := map (ritem_of T) its).
    set (X := map (fun r => (r, litem_of e T prev r)) l).
    assert (LX : length X = length its) by (unfold X, l; now rewrite !map_length).
    assert (NX : forall p, p < length its ->
              nth p X (ritem_of T d0, litem_of e T prev (ritem_of T d0)) =
              (ritem_of T (nth p its d0), litem_of e T prev (ritem_of T (nth p its d0)))).
    { intros p Hp. unfold X, l. rewrite map_map.
      now rewrite (map_nth (fun it => (ritem_of T it, litem_of e T prev (ritem_of T it)))). }
    assert (SX : lsorted tgt_leb X).
    { apply (lsorted_of_adjacent tgt_leb (ritem_of T d0, litem_of e T prev (ritem_of T d0))).
      intros p Hp. rewrite LX in Hp. rewrite !NX by lia. unfold tgt_leb. cbn [snd litem_of li_target].
      apply Qle_bool_iff. apply TA; lia. }
    assert (ES : sorted_pairs e T prev l = X) by (unfold sorted_pairs; fold X; now apply isort_of_lsorted).
    rewrite solve_layer_view, ES.
    set (its' := map (fun x : ritem * litem => layer_item (snd x)) X).
    set (sol := Layer.solve_layer (solver_opts e) its').
    assert (Ls : length sol = length X) by (unfold sol, its'; now rewrite LayerProofs.solve_layer_length, map_length).
    assert (Srt : Layer.sorted_items its' = its').
    { unfold its'. rewrite <- ES. apply problem_sorted. }
    assert (Iok : Layer.items_ok its') by (unfold its'; rewrite <- ES; now apply pairs_items_ok).
    assert (Asc : forall p q, p <= q -> q < length its -> (nth p sol 0 <= nth q sol 0)%Z).
    { intros p q Hpq Hq. destruct (Nat.eq_dec p q) as [->|Ne]; [lia|].
      assert (Hq' : q < length its') by (unfold its'; now rewrite map_length, LX).
      pose proof (LayerProofs.C01_order_lemma (solver_opts e) its' p q Ook Iok ltac:(lia) Hq') as H.
      cbn zeta in H. fold sol in H. now destruct H as [H _]. }
    set (s := assign X sol).
    assert (Nth : forall p, p < length its ->
              nth p s (ritem_of T d0) = mkRitem (rid (nth p its d0)) (snd (nth p its d0)) (inject_Z (nth p sol 0%Z))).
    { intros p Hp. unfold s.
      rewrite (nth_assign X sol p (ritem_of T d0)) by (first [exact Ls|rewrite LX; exact Hp]).
      assert (E : nth p X (ritem_of T d0, mkLitem 0 0 false) = nth p X (ritem_of T d0, litem_of e T prev (ritem_of T d0)))
        by (apply nth_indep; now rewrite LX).
      rewrite E, NX by exact Hp. reflexivity. }
    assert (Lsz : length s = length its)
      by (unfold s, assign; rewrite map_length, combine_length, Ls, LX; lia).
    assert (NS : NoDup (map r_id s)).
    { apply (NoDup_nth (map r_id s) (r_id (ritem_of T d0))). intros p q Hp Hq E.
      rewrite map_length, Lsz in Hp, Hq.
      rewrite !map_nth, !Nth in E by assumption. cbn [r_id] in E.
      apply (rid_inj its); [split; assumption|assumption|assumption|exact E]. }
    assert (Find : forall p, p < length its ->
              find_ritem (rid (nth p its d0)) s = Some (nth p s (ritem_of T d0))).
    { intros p Hp. pose proof (find_ritem_nth s p (ritem_of T d0) NS ltac:(lia)) as F.
      rewrite Nth in F at 1 by exact Hp. cbn [r_id] in F. exact F. }
    split.
    - intros p q Hpq Hq. unfold cur_of. rewrite !Find, !Nth by lia. cbn [r_cur].
      rewrite <- Zle_Qle. now apply Asc.
    - intros p Hp. exists (nth p s (ritem_of T d0)). split; [now apply Find|]. split.
      + apply nth_In. lia.
      + rewrite Nth by exact Hp. reflexivity.
  Qed.

  (* the next layer reads its targets from this one *)
  Lemma next_tgt_asc its s its' :
    layer_inc (length T) its -> layer_inc (length T) its' -> layer_result its s ->
    (forall it', In it' its' -> exists p, p < length its /\ fst (nth p its d0) = fst it') ->
    tgt_asc (Some s) its'.
  Proof.
    intros [I R] [I' R'] [Mono Found] Chain p q Hpq Hq.
    assert (Hp : p < length its') by lia.
    destruct (Chain _ (nth_In its' d0 Hp)) as [p0 [Hp0 Ep]].
    destruct (Chain _ (nth_In its' d0 Hq)) as [q0 [Hq0 Eq]].
    assert (Tg : forall t t0, t0 < length its -> fst (nth t0 its d0) = fst (nth t its' d0) ->
                 target T (Some s) (ritem_of T (nth t its' d0)) = cur_of (rid (nth t0 its d0)) s).
    { intros t t0 Ht0 E. unfold target, cur_of. cbn [ritem_of r_id]. unfold rid. rewrite E.
      destruct (Found t0 Ht0) as [r [F _]]. unfold rid in F. rewrite E in F. now rewrite F. }
    rewrite (Tg p p0 Hp0 Ep), (Tg q q0 Hq0 Eq).
    apply Mono; [|exact Hq0].
    destruct (Nat.le_gt_cases p0 q0) as [L|L]; [exact L|exfalso].
    pose proof (inc_from_nth its 0 q0 p0 d0 I L Hp0) as H1. rewrite Ep, Eq in H1.
    destruct (Nat.eq_dec p q) as [->|Ne]; [lia|].
    pose proof (inc_from_nth its' 0 p q d0 I' ltac:(lia) Hq). lia.
  Qed.

  Fixpoint chained (below : list item) (lss : list (list item)) : Prop :=
    match lss with
    | [] => True
    | l :: r => (forall it', In it' l -> exists p, p < length below /\ fst (nth p below d0) = fst it') /\ chained l r
    end.

  Lemma run_sorted_layers : forall lss prev,
    Forall (layer_inc (length T)) lss ->
    match lss with [] => True | l :: r => tgt_asc prev l /\ chained l r end ->
    Forall2 (fun s its => layer_result its s)
            (run_layers solve e T prev (map (map (ritem_of T)) lss)) lss.
  Proof.
    induction lss as [|l lss IH]; intros prev F H; [constructor|].
    inversion F as [|? ? Fl Fr]; subst. destruct H as [TA Ch]. cbn [map run_layers].
    pose proof (solve_sorted_layer prev l Fl TA) as LR.
    constructor; [exact LR|]. apply IH; [exact Fr|].
    destruct lss as [|l' lss]; [exact I|]. destruct Ch as [Ch1 Ch2]. split; [|exact Ch2].
    inversion Fr; subst. now apply (next_tgt_asc l _ l').
  Qed.
End OneLayer.

(* ---------- locate ---------------------------------------------------------------- *)
Lemma locate_spec id : forall solved k prev k' c p,
  locate id k prev solved = Some (k', c, p) ->
  exists j r, k' = k + j /\ j < length solved /\ find_ritem id (rlabels (nth j solved [])) = Some r /\ c = r_cur r.
Proof.
  induction solved as [|l solved IH]; intros k prev k' c p H; cbn [locate] in H; [discriminate|].
  destruct (find_ritem id (rlabels l)) as [r|] eqn:F.
  - injection H as <- <- _. exists 0, r. cbn [nth length]. repeat split; [lia|lia|exact F].
  - destruct (IH _ _ _ _ _ H) as [j [r [E [Hj [Fr Ec]]]]]. exists (S j), r. cbn [nth length].
    repeat split; [lia|lia|exact Fr|exact Ec].
Qed.

Lemma lsorted_nleb_nth T : lsorted nleb T -> forall i j, i <= j -> j < length T ->
  (n_pos (nth i T node0) <= n_pos (nth j T node0))%Q.
Proof.
  induction T as [|x T IH]; intros S i j Hij Hj; cbn [length] in Hj; [lia|].
  destruct S as [Hd S]. destruct j as [|j]; [assert (i = 0) by lia; subst; apply Qle_refl|].
  destruct i as [|i]; cbn [nth].
  - destruct T as [|y T]; [cbn in Hj; lia|]. unfold nleb in Hd. apply Qle_bool_iff in Hd.
    eapply Qle_trans; [exact Hd|]. apply (IH S 0 j); [lia|lia].
  - apply IH; [exact S|lia|lia].
Qed.

Lemma skipn_cons_nth {A} : forall (l : list A) k x r d, skipn k l = x :: r -> nth k l d = x /\ skipn (S k) l = r.
Proof.
  induction l as [|y l IH]; intros k x r d H; [destruct k; discriminate|].
  destruct k as [|k]; cbn [skipn nth] in *; [injection H as -> ->; now split|now apply IH].
Qed.

(* ---------- the theorem ------------------------------------------------------------ *)
Theorem simple_order_real st a b :
  e_alg (st_opts st) = AlgSimple ->
  engine_dom (st_opts st) (st_nodes st) -> NoDup (map n_id (st_nodes st)) -> lineSp_ok (st_opts st) ->
  before (remove_stub a) (remove_stub b) (isort nleb (map remove_stub (st_nodes st))) ->
  forall a' b', In a' (st_nodes (force_compute st)) -> In b' (st_nodes (force_compute st)) ->
    n_id a' = n_id a -> n_id b' = n_id b -> n_layer a' = n_layer b' -> (n_cur a' <= n_cur b')%Q.
Proof.
  intros Alg D N Hl Bef a' b' Ha' Hb' Ia Ib Elay.
  destruct (compute_unfold st D) as [rs [ls [Hd [Ers [_ [_ [_ En]]]]]]]. cbn zeta in *.
  set (e := st_opts st) in *. set (ns1 := map remove_stub (st_nodes st)) in *.
  set (T := isort nleb ns1) in *.
  assert (Eord : ord_of (e_alg e) ns1 = T) by (rewrite Alg; reflexivity).
  rewrite Eord in Ers. rewrite Alg in En.
  assert (D1 : dist_dom (dopts_of_eopts e) (map label_of ns1))
    by (unfold ns1; rewrite label_of_remove_stub; exact D).
  assert (Nns : NoDup (map n_id ns1)) by (unfold ns1; rewrite map_map; exact N).
  assert (PT : Permutation T ns1) by apply isort_perm.
  assert (NT : NoDup (map n_id T))
    by (eapply Permutation_NoDup; [symmetry; apply Permutation_map, PT|exact Nns]).
  assert (LT : length T = length (map label_of ns1)) by (rewrite map_length; apply Permutation_length, PT).
  assert (WT : forall nd, In nd T -> (0 <= n_width nd)%Q).
  { intros nd H. eapply Permutation_in in H; [|exact PT]. unfold ns1 in H.
    apply in_map_iff in H. destruct H as [x [<- Hx]]. cbn [remove_stub n_width].
    destruct D as [Hw _]. apply Qlt_le_weak, (Hw (label_of x)). now apply in_map. }
  assert (Hstub : (0 <= e_stub e)%Q) by (destruct D as [_ [_ [H _]]]; exact H).
  assert (Ook : Layer.opts_ok (solver_opts e)) by (apply (solver_opts_ok e (st_nodes st)); assumption).
  assert (ParT : forall nd, In nd T -> n_parent nd = None).
  { intros nd H. apply (remove_stub_parent (st_nodes st)). eapply Permutation_in; [exact PT|exact H]. }
  assert (Inc : Forall (layer_inc (length T)) ls).
  { rewrite LT. apply (simple_distribute_inc (dopts_of_eopts e)); [exact Alg|exact Hd]. }
  set (solved := run_layers solve e T None rs) in *.
  (* layer 0 is in target order, every deeper layer is chained to the one before *)
  assert (Chain : forall (r' : list (list item)) k, skipn (S k) ls = r' -> chained (nth k ls []) r').
  { induction r' as [|l' r' IH]; intros k Hk; [exact I|].
    destruct (skipn_cons_nth _ _ _ _ [] Hk) as [E1 E2]. split.
    - intros it' Hit'. rewrite <- E1 in Hit'.
      pose proof (prev_layer_has _ _ _ k it' D1 Hd Hit') as Hs.
      destruct (In_nth _ _ d0 Hs) as [p [Hp Ep]]. exists p. split; [exact Hp|]. now rewrite Ep.
    - rewrite <- E1. now apply IH. }
  specialize (Chain (skipn 1 ls) 0 eq_refl).
  assert (Start : match ls with [] => True | l :: r => tgt_asc T None l /\ chained l r end).
  { destruct ls as [|l0 r]; [exact I|]. split; [|exact Chain].
    intros p q Hpq Hq. inversion Inc as [|? ? [I0 R0] _]; subst.
    assert (Tg : forall t, t < length l0 ->
                 target T None (ritem_of T (nth t l0 (d0))) = n_pos (nth (fst (nth t l0 d0)) T node0)).
    { intros t Ht. unfold target, node_of. cbn [ritem_of r_id r_stub].
      set (nd := nth (fst (nth t l0 d0)) T node0).
      assert (Hnd : In nd T) by (apply nth_In, R0, nth_In, Ht).
      rewrite (find_node_NoDup nd T NT Hnd), (ParT nd Hnd). now destruct (snd (nth t l0 d0)). }
    rewrite !Tg by lia.
    apply lsorted_nleb_nth; [apply isort_lsorted, nleb_total| |apply R0, nth_In, Hq].
    destruct (Nat.eq_dec p q) as [->|Ne]; [lia|].
    pose proof (inc_from_nth l0 0 p q d0 I0 ltac:(lia) Hq). lia. }
  pose proof (run_sorted_layers e T NT WT Hstub Ook ls None Inc Start) as Res.
  rewrite <- Ers in Res. fold solved in Res.
  (* where a and b are written back from *)
  assert (Locate : forall x' x, In x' (map (write_back solved) ns1) -> n_id x' = n_id x -> In (remove_stub x) T ->
            exists k r its, n_layer x' = k /\ n_cur x' = r_cur r /\ nth k ls [] = its /\ k < length ls /\
                            find_ritem (n_id x) (rlabels (nth k solved [])) = Some r).
  { intros x' x Hx' Hid HxT. apply in_map_iff in Hx'. destruct Hx' as [y [<- Hy]].
    assert (Eid : n_id (write_back solved y) = n_id y)
      by (unfold write_back; destruct (locate _ _ _ _) as [[[? ?] ?]|]; reflexivity).
    rewrite Eid in Hid.
    assert (Loc : locate (n_id y) 0 None solved <> None).
    { unfold solved. rewrite Ers. apply located.
      - destruct (distribute_conservation _ _ _ D1 Hd) as [P _]. now rewrite LT.
      - eapply Permutation_in; [symmetry; exact PT|exact Hy]. }
    unfold write_back. destruct (locate (n_id y) 0 None solved) as [[[k c] p]|] eqn:EL; [|congruence].
    destruct (locate_spec _ _ _ _ _ _ _ EL) as [j [r [Ek [Hj [Fr Ec]]]]]. cbn [Nat.add] in Ek. subst k.
    exists j, r, (nth j ls []). cbn [n_layer n_cur]. rewrite <- Hid.
    repeat split; try assumption.
    unfold solved in Hj. rewrite run_layers_length, Ers, map_length in Hj. exact Hj. }
  rewrite En in Ha', Hb'.
  assert (IaT : In (remove_stub a) T) by (destruct Bef as [p [q [r ->]]]; apply in_or_app; right; now left).
  assert (IbT : In (remove_stub b) T).
  { destruct Bef as [p [q [r ->]]]. apply in_or_app. right. right. apply in_or_app. right. now left. }
  destruct (Locate a' a Ha' Ia IaT) as [ka [ra [_ [Eka [Eca [_ [Hka Fa]]]]]]].
  destruct (Locate b' b Hb' Ib IbT) as [kb [rb [_ [Ekb [Ecb [_ [Hkb Fb]]]]]]].
  assert (Ek : kb = ka) by congruence. rewrite Ek in Hkb, Fb. clear Ek Ekb. rewrite Eca, Ecb.
  (* indices of a and b in T *)
  destruct (before_index _ _ _ node0 Bef) as [ia [ib [Hiab [Hib [Nia Nib]]]]].
  set (its := nth ka ls []).
  assert (LI : layer_inc (length T) its) by (apply (proj1 (Forall_forall _ _) Inc), nth_In, Hka).
  assert (LR : layer_result T its (nth ka solved [])).
  { apply (Forall2_nth (fun s its => layer_result T its s) [] []); [|exact Res].
    split; [intros p q _ Hq; cbn in Hq; lia|intros p Hp; cbn in Hp; lia]. }
  destruct LR as [Mono Found].
  (* the label items of a and b in this layer *)
  assert (Pos : forall (x : nodeobj) (i : nat) r, i < length T -> nth i T node0 = remove_stub x ->
            find_ritem (n_id x) (rlabels (nth ka solved [])) = Some r ->
            exists p, p < length its /\ fst (nth p its (d0)) = i /\ cur_of (rid T (nth p its d0)) (nth ka solved []) = r_cur r).
  { intros x i r Hi Ni F. destruct (find_ritem_some _ _ _ F) as [Hr Hid].
    unfold rlabels in Hr. apply filter_In in Hr. destruct Hr as [Hr Hs].
    (* shapes of the solved layer are those of its items *)
    assert (Psh : Permutation (map shape (nth ka solved [])) (map (ishape T) its)).
    { pose proof (run_layers_shapes solve e T rs None) as F2. fold solved in F2.
      pose proof (Forall2_nth (fun s l => Permutation (map shape s) (map shape l)) [] []
                    (Permutation_refl _) _ _ F2 ka) as G.
      etransitivity; [exact G|]. rewrite Ers. change (@nil ritem) with (map (ritem_of T) []).
      rewrite map_nth, shape_ritem_of. reflexivity. }
    assert (Hsh : In (shape r) (map (ishape T) its))
      by (eapply Permutation_in; [exact Psh|now apply in_map]).
    apply in_map_iff in Hsh. destruct Hsh as [it [Eit Hit]].
    destruct (In_nth _ _ d0 Hit) as [p [Hp Ep]]. exists p. split; [exact Hp|].
    unfold ishape, shape in Eit. injection Eit as E1 E2.
    assert (Ei : fst it = i).
    { apply (ids_nth_inj T); [exact NT|apply (proj2 LI), Hit|exact Hi|].
      rewrite E1, Hid, Ni. reflexivity. }
    split; [now rewrite Ep|].
    destruct (Found p Hp) as [r' [F' [Hr' _]]].
    unfold cur_of. rewrite F'.
    (* r' and r carry the same identity in a layer with distinct identities *)
    assert (Er : r' = r).
    { assert (Cnt : cnt (map shape (nth ka solved [])) (shape r) = 1).
      { rewrite (proj1 (Permutation_count_occ item_dec _ _) Psh).
        change (shape r) with (r_id r, r_stub r). rewrite <- E1, <- E2.
        change (n_id (nth (fst it) T node0), snd it) with (ishape T it).
        rewrite (cnt_map_inj_on (ishape T) item_dec it).
        - destruct (proj1 (NoDup_count_occ' item_dec its)) with (x := it) as [];
            [|exact Hit|reflexivity].
          apply (NoDup_nth its d0). intros p1 p2 H1 H2 E.
          destruct (Nat.lt_trichotomy p1 p2) as [L|[L|L]]; [|exact L|].
          + pose proof (inc_from_nth its 0 p1 p2 d0 (proj1 LI) L H2). rewrite E in H. lia.
          + pose proof (inc_from_nth its 0 p2 p1 d0 (proj1 LI) L H1). rewrite E in H. lia.
        - intros [j bj] Hj Ej. unfold ishape in Ej. cbn [fst snd] in Ej. injection Ej as Ej1 Ej2.
          destruct it as [i0 b0]. cbn [fst snd] in *. subst bj. f_equal.
          apply (ids_nth_inj T); [exact NT|apply ((proj2 LI) (j, b0)), Hj|apply ((proj2 LI) (i0, b0)), Hit|exact Ej1]. }
      destruct (find_ritem_some _ _ _ F') as [_ Hid'].
      apply (cnt_one_unique shape (shape r) (nth ka solved [])); auto.
      (* same identity -> same item of the layer -> same shape *)
      destruct (Found p Hp) as [r'' [F'' [_ Hst]]]. rewrite F' in F''. injection F'' as <-.
      unfold shape. f_equal.
      - rewrite Hid'. unfold rid. rewrite Ep, Ei, Ni. cbn [remove_stub n_id]. now rewrite Hid.
      - rewrite Hst, Ep. exact E2. }
    now rewrite Er. }
  assert (Hia : ia < length T) by lia.
  destruct (Pos a ia ra Hia Nia Fa) as [pa [Hpa [Epa Eca']]].
  destruct (Pos b ib rb Hib Nib Fb) as [pb [Hpb [Epb Ecb']]].
  rewrite <- Eca', <- Ecb'. apply Mono; [|exact Hpb].
  destruct (Nat.le_gt_cases pa pb) as [L|L]; [exact L|exfalso].
  pose proof (inc_from_nth its 0 pb pa d0 (proj1 LI) L Hpa). lia.
Qed.

(* tied labels: the position sort is stable, so input order is sorted order *)
Theorem tie_simple_real st l1 a l2 b l3 :
  e_alg (st_opts st) = AlgSimple ->
  engine_dom (st_opts st) (st_nodes st) -> NoDup (map n_id (st_nodes st)) -> lineSp_ok (st_opts st) ->
  st_nodes st = l1 ++ a :: l2 ++ b :: l3 -> (n_pos a == n_pos b)%Q ->
  forall a' b', In a' (st_nodes (force_compute st)) -> In b' (st_nodes (force_compute st)) ->
    n_id a' = n_id a -> n_id b' = n_id b -> n_layer a' = n_layer b' -> (n_cur a' <= n_cur b')%Q.
Proof.
  intros Alg D N Hl Esplit Epos. apply simple_order_real; try assumption.
  apply (before_isort n_pos (remove_stub a) (remove_stub b)); [exact Epos|].
  apply before_map. now exists l1, l2, l3.
Qed.

Print Assumptions simple_order_real.
Print Assumptions tie_simple_real.
