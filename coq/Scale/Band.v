(* Ambiguity band of the tie (DESIGN.md 3.4, 5/C13): the outcomes the DOUBLE
   computation of scale.py may legitimately reach where the exact model sits
   on (or within 1e-9 of) a discontinuity: the thresholds 0.15/0.35/0.75 of the
   step selection, and floor/ceil of x/step when x is within 1e-9 (relative to
   max(1,|x/step|)) of a multiple of the step.  Used ONLY by the correspondence
   harness to classify a disagreement as `ambiguous`; no theorem mentions
   these definitions.  Model only: no proofs here. *)
From Coq Require Import ZArith QArith Qround List.
From Labella Require Import Scale.Ticks Scale.Nice.
Import ListNotations.
Open Scope Q_scope.

Definition band : Q := 1 # 1000000000.

(* the quantity compared with the thresholds (scale.py:106) *)
Definition tick_err (span : Q) (m : Z) : Q :=
  if Qeq_bool span 0 then 0
  else inject_Z m / span * pow10 (ilog10 (span / inject_Z m)).

Definition step_alts (span : Q) (m : Z) : list Q :=
  if Qeq_bool span 0 then [0]
  else
    let s0 := pow10 (ilog10 (span / inject_Z m)) in
    let err := tick_err span m in
    let lo t := t * (1 - band) in
    let hi t := t * (1 + band) in
    (if Qle_bool err (hi (15 # 100)) then [Qred (s0 * 10)] else [])
    ++ (if Qle_bool (lo (15 # 100)) err && Qle_bool err (hi (35 # 100)) then [Qred (s0 * 5)] else [])
    ++ (if Qle_bool (lo (35 # 100)) err && Qle_bool err (hi (75 # 100)) then [Qred (s0 * 2)] else [])
    ++ (if Qle_bool (lo (75 # 100)) err then [Qred s0] else []).

Definition qabs (x : Q) : Q := if Qlt_le_dec x 0 then - x else x.
Definition end_band (t : Q) : Q := band * (if Qlt_le_dec (qabs t) 1 then 1 else qabs t).

(* integers floor(fl(x/step)) may be *)
Definition floor_alts (step x : Q) : list Q :=
  if Qeq_bool step 0 then [x]
  else
    let t := x / step in
    let k := Qfloor t in
    let f := t - inject_Z k in
    [Qred (inject_Z k * step)]
    ++ (if Qle_bool f (end_band t) then [Qred (inject_Z (k - 1) * step)] else [])
    ++ (if Qle_bool (1 - f) (end_band t) then [Qred (inject_Z (k + 1) * step)] else []).

Definition ceil_alts (step x : Q) : list Q :=
  if Qeq_bool step 0 then [x]
  else
    let t := x / step in
    let k := Qceiling t in
    let g := inject_Z k - t in
    [Qred (inject_Z k * step)]
    ++ (if Qle_bool g (end_band t) then [Qred (inject_Z (k + 1) * step)] else [])
    ++ (if Qle_bool (1 - g) (end_band t) then [Qred (inject_Z (k - 1) * step)] else []).

Definition pairs {A B} (l : list A) (r : list B) : list (A * B) :=
  flat_map (fun x => map (fun y => (x, y)) r) l.

Definition nice_pass_alts (m : Z) (d : Q * Q) : list (Q * Q) :=
  let (a, b) := d in
  flat_map (fun step =>
              if Qlt_le_dec b a
              then pairs (ceil_alts step a) (floor_alts step b)
              else pairs (floor_alts step a) (ceil_alts step b))
           (step_alts (span_of a b) m).

(* head of the list = the exact result *)
Definition nice_alts (m : Z) (d : Q * Q) : list (Q * Q) :=
  flat_map (nice_pass_alts m) (nice_pass_alts m d).

(* is a nice() on this domain inside the band?  (thresholds of either pass,
   pass-one ends near a multiple, or a pass-two step that is not an integer,
   in which case k*step and (k*step)/step are not exact in doubles) *)
Definition is_integer (q : Q) : bool := Z.eqb (Zpos (Qden (Qred q))) 1.
Definition nice_sensitive (m : Z) (d : Q * Q) : bool :=
  negb (Nat.eqb (length (nice_pass_alts m d)) 1)
  || negb (Nat.eqb (length (step_alts (span_of (fst (nice_pass m d)) (snd (nice_pass m d))) m)) 1)
  || negb (is_integer (step2 m d))
  || negb (is_integer (fst (nice_pass m d))) || negb (is_integer (snd (nice_pass m d))).

(* ---------- ticks: the admissible tick lists ------------------------------
   d3_scale_linearTickRange computes ceil(lo/step) and floor(hi/step) in
   doubles; where lo/step (hi/step) is within the band of an integer the
   double may fall on the other side, i.e. the first (last) multiple is
   present or absent; where err is within the band of a threshold either step
   may be chosen.  Every admissible outcome is a full list of multiples. *)
Definition ceil_alts_z (t : Q) : list Z :=
  let k := Qceiling t in
  let g := inject_Z k - t in
  [k] ++ (if Qle_bool g (end_band t) then [(k + 1)%Z] else [])
      ++ (if Qle_bool (1 - g) (end_band t) then [(k - 1)%Z] else []).

Definition floor_alts_z (t : Q) : list Z :=
  let k := Qfloor t in
  let f := t - inject_Z k in
  [k] ++ (if Qle_bool f (end_band t) then [(k - 1)%Z] else [])
      ++ (if Qle_bool (1 - f) (end_band t) then [(k + 1)%Z] else []).

Definition mults (step : Q) (c : Z) (n : nat) : list Q :=
  map (fun i => Qred (inject_Z (c + Z.of_nat i) * step)) (seq 0 n).

(* (step, ticks) for every admissible combination of decisions *)
Definition ticks_alts (a b : Q) (m : Z) : list (Q * list Q) :=
  let (lo, hi) := extent a b in
  flat_map (fun step =>
              if Qeq_bool step 0 then [(0, [])]
              else flat_map (fun c =>
                               map (fun f => (step, mults step c (Z.to_nat (f - c + 1))))
                                   (floor_alts_z (hi / step)))
                            (ceil_alts_z (lo / step)))
           (step_alts (hi - lo) m).
