(* Proofs about the tick list (Scale/Ticks.v drange, ticks): multiples of the
   step, evenly spaced, inside the domain, complete, counted. *)
From Coq Require Import ZArith QArith Qround Qpower Lqa Lia Bool List.
From Labella Require Import Scale.Ticks Scale.IlogProofs Scale.TickStepProofs.
Import ListNotations.
Open Scope Q_scope.

(* ---------- floor and ceiling -------------------------------------------- *)
Lemma floor_ge : forall x k, inject_Z k <= x -> (k <= Qfloor x)%Z.
Proof. intros x k H. rewrite <- (Qfloor_Z k). apply Qfloor_resp_le. assumption. Qed.

Lemma ceil_le : forall x k, x <= inject_Z k -> (Qceiling x <= k)%Z.
Proof. intros x k H. rewrite <- (Qceiling_Z k). apply Qceiling_resp_le. assumption. Qed.

Lemma floor_lt_succ : forall x, x < inject_Z (Qfloor x) + 1.
Proof.
  intro x. pose proof (Qlt_floor x) as H. rewrite inject_Z_plus in H. exact H.
Qed.

Lemma ceil_gt_pred : forall x, inject_Z (Qceiling x) - 1 < x.
Proof.
  intro x. pose proof (Qceiling_lt x) as H.
  unfold Z.sub in H. rewrite inject_Z_plus in H. exact H.
Qed.

Lemma div_mul_le : forall x s k, 0 < s -> (x / s <= inject_Z k <-> x <= inject_Z k * s).
Proof.
  intros x s k Hs. assert (E : x / s * s == x) by (field; lra). split; intro H.
  - rewrite <- E. nra.
  - destruct (Qlt_le_dec (inject_Z k) (x / s)); [exfalso; nra|assumption].
Qed.

Lemma mul_div_le : forall x s k, 0 < s -> (inject_Z k <= x / s <-> inject_Z k * s <= x).
Proof.
  intros x s k Hs. assert (E : x / s * s == x) by (field; lra). split; intro H.
  - rewrite <- E. nra.
  - destruct (Qlt_le_dec (x / s) (inject_Z k)); [exfalso; nra|assumption].
Qed.

Lemma inj_lt_succ : forall f c, (f < c)%Z -> inject_Z f + 1 <= inject_Z c.
Proof.
  intros f c H. assert (L : inject_Z (f + 1) <= inject_Z c) by (rewrite <- Zle_Qle; lia).
  rewrite inject_Z_plus in L. exact L.
Qed.

(* ---------- the extent --------------------------------------------------- *)
Lemma extent_spec : forall a b, ~ a == b ->
  fst (extent a b) < snd (extent a b) /\
  ((fst (extent a b) = a /\ snd (extent a b) = b) \/ (fst (extent a b) = b /\ snd (extent a b) = a)).
Proof.
  intros a b H. unfold extent. destruct (Qlt_le_dec a b) as [L|L]; simpl.
  - split; [assumption|left; auto].
  - split; [|right; auto]. destruct (Qlt_le_dec b a); [assumption|]. exfalso. apply H. lra.
Qed.

Lemma span_pos : forall a b, ~ a == b -> 0 < span_of a b.
Proof. intros a b H. unfold span_of. destruct (extent_spec a b H) as [L _]. lra. Qed.

Lemma extent_sym : forall a b, ~ a == b -> extent a b = extent b a.
Proof.
  intros a b H. unfold extent.
  destruct (Qlt_le_dec a b), (Qlt_le_dec b a); try reflexivity; exfalso; try lra; try (apply H; lra).
Qed.

(* ---------- integer ranges ----------------------------------------------- *)
Fixpoint zrange (c : Z) (n : nat) : list Z :=
  match n with O => [] | S k => c :: zrange (c + 1) k end.

Lemma zrange_length : forall n c, length (zrange c n) = n.
Proof. induction n; intro c; simpl; auto. Qed.

Lemma zrange_nth : forall n c i, (i < n)%nat -> nth_error (zrange c n) i = Some (c + Z.of_nat i)%Z.
Proof.
  induction n as [|n IH]; intros c i H; [lia|]. destruct i; simpl.
  - f_equal. lia.
  - rewrite IH by lia. f_equal. lia.
Qed.

Lemma zrange_In : forall n c k, In k (zrange c n) <-> (c <= k < c + Z.of_nat n)%Z.
Proof.
  induction n as [|n IH]; intros c k; simpl; [lia|].
  rewrite IH. lia.
Qed.

Lemma F2_length : forall A B (R : A -> B -> Prop) l r, Forall2 R l r -> length l = length r.
Proof. intros A B R l r F. induction F; simpl; congruence. Qed.

Lemma F2_nth : forall A B (R : A -> B -> Prop) l r, Forall2 R l r ->
  forall i x y, nth_error l i = Some x -> nth_error r i = Some y -> R x y.
Proof.
  intros A B R l r F. induction F as [|x0 y0 l r H F IH]; intros i x y Hx Hy; destruct i; simpl in *; try discriminate.
  - injection Hx as Hx. injection Hy as Hy. subst. exact H.
  - eapply IH; eassumption.
Qed.

(* ---------- the generator loop ------------------------------------------- *)
Definition is_mult (step : Q) (t : Q) (k : Z) : Prop := t == inject_Z k * step.

Lemma drange_0 : forall r stop step,
  drange 0 r stop step = if Qlt_le_dec r stop then None else Some [].
Proof. reflexivity. Qed.

Lemma drange_S : forall f r stop step,
  drange (S f) r stop step =
  if Qlt_le_dec r stop
  then match drange f (Qred (r + step)) stop step with Some l => Some (r :: l) | None => None end
  else Some [].
Proof. reflexivity. Qed.

Lemma drange_spec : forall fuel r stop step c f,
  0 < step -> r == inject_Z c * step -> stop == inject_Z f * step + step * (1 # 2) ->
  (Z.to_nat (f - c + 1) <= fuel)%nat ->
  exists l, drange fuel r stop step = Some l /\
            Forall2 (is_mult step) l (zrange c (Z.to_nat (f - c + 1))).
Proof.
  induction fuel as [|fuel IH]; intros r stop step c f Hs Hr Hstop Hfuel.
  - assert (Z.to_nat (f - c + 1) = 0)%nat by lia. rewrite H.
    assert (f < c)%Z by lia.
    assert (inject_Z f + 1 <= inject_Z c) by (apply inj_lt_succ; assumption).
    rewrite drange_0. destruct (Qlt_le_dec r stop) as [L|L]; [exfalso; nra|].
    exists []. split; [reflexivity|constructor].
  - rewrite drange_S. destruct (Qlt_le_dec r stop) as [L|L].
    + assert (c <= f)%Z.
      { destruct (Z_lt_le_dec f c) as [X|X]; [|assumption]. exfalso.
        assert (inject_Z f + 1 <= inject_Z c) by (apply inj_lt_succ; assumption).
        nra. }
      assert (En : Z.to_nat (f - c + 1) = S (Z.to_nat (f - (c + 1) + 1))) by lia.
      destruct (IH (Qred (r + step)) stop step (c + 1)%Z f) as (l & El & Fl); try assumption.
      * rewrite Qred_correct, Hr, inject_Z_plus. ring.
      * lia.
      * rewrite El. exists (r :: l). split; [reflexivity|].
        rewrite En. simpl. constructor; assumption.
    + assert (f < c)%Z.
      { destruct (Z_lt_le_dec f c) as [X|X]; [assumption|]. exfalso.
        assert (inject_Z c <= inject_Z f) by (rewrite <- Zle_Qle; assumption). nra. }
      assert (Z.to_nat (f - c + 1) = 0)%nat by lia. rewrite H0.
      exists []. split; [reflexivity|constructor].
Qed.

(* ---------- the shape of the tick list ----------------------------------- *)
Section Ticks.
  Variables (a b : Q) (m : Z).
  Hypothesis Hab : ~ a == b.
  Hypothesis Hm : (0 < m)%Z.

  Let lo := fst (extent a b).
  Let hi := snd (extent a b).
  Let step := dom_step a b m.
  Let c := Qceiling (lo / step).
  Let f := Qfloor (hi / step).

  Lemma dom_step_pos : 0 < step.
  Proof. apply step_pos; [apply span_pos; assumption|assumption]. Qed.

  Lemma ticks_shape :
    exists l, ticks_opt a b m = Some l /\
              Forall2 (is_mult step) l (zrange c (Z.to_nat (f - c + 1))).
  Proof.
    pose proof dom_step_pos as Hs.
    unfold ticks_opt, tick_range, ticks_fuel.
    unfold c, f, lo, hi, step, dom_step, span_of in *.
    destruct (extent a b) as [l h] eqn:E. simpl in *.
    rewrite (Qeq_bool_neq_false (tick_step (h - l) m) 0) by lra.
    apply drange_spec; try assumption; try reflexivity. lia.
  Qed.

  Theorem ticks_fuel_enough : ticks_opt a b m <> None.
  Proof. destruct ticks_shape as (l & E & _). congruence. Qed.

  Lemma ticks_eq : forall l, ticks_opt a b m = Some l -> ticks a b m = l.
  Proof. intros l E. unfold ticks. rewrite E. reflexivity. Qed.

  Lemma ticks_shape' : Forall2 (is_mult step) (ticks a b m) (zrange c (Z.to_nat (f - c + 1))).
  Proof. destruct ticks_shape as (l & E & F). rewrite (ticks_eq l E). assumption. Qed.

  (* every tick is a multiple of the step *)
  Theorem ticks_multiples : Forall (fun t => exists k, t == inject_Z k * step) (ticks a b m).
  Proof.
    pose proof ticks_shape' as F. induction F as [|t k l ks H F IH]; constructor; [|assumption].
    exists k. exact H.
  Qed.

  (* consecutive ticks are exactly one (positive) step apart *)
  Theorem ticks_increasing : forall i x y,
    nth_error (ticks a b m) i = Some x -> nth_error (ticks a b m) (S i) = Some y ->
    y == x + step /\ x < y.
  Proof.
    intros i x y Hx Hy. pose proof ticks_shape' as F. pose proof dom_step_pos as Hs.
    assert (Hlen := F2_length _ _ _ _ _ F). rewrite zrange_length in Hlen.
    assert (Li : (S i < Z.to_nat (f - c + 1))%nat).
    { rewrite <- Hlen. apply nth_error_Some. congruence. }
    assert (Ex : x == inject_Z (c + Z.of_nat i) * step).
    { apply (F2_nth _ _ _ _ _ F i x _ Hx). apply zrange_nth. lia. }
    assert (Ey : y == inject_Z (c + Z.of_nat (S i)) * step).
    { apply (F2_nth _ _ _ _ _ F (S i) y _ Hy). apply zrange_nth. lia. }
    assert (E : y == x + step).
    { rewrite Ex, Ey. rewrite Nat2Z.inj_succ. unfold Z.succ. rewrite !inject_Z_plus. ring. }
    split; [assumption|lra].
  Qed.

  Lemma shape_In : forall t, In t (ticks a b m) ->
    exists k, (c <= k <= f)%Z /\ t == inject_Z k * step.
  Proof.
    intros t Hin. pose proof ticks_shape' as F.
    assert (G : forall l ks, Forall2 (is_mult step) l ks -> In t l -> exists k, In k ks /\ t == inject_Z k * step).
    { clear. intros l ks F. induction F as [|t' k l ks H F IH]; intro Hin; [contradiction|].
      destruct Hin as [E|Hin].
      - subst t'. exists k. split; [left; reflexivity|exact H].
      - destruct (IH Hin) as (k' & I & E). exists k'. split; [right; assumption|assumption]. }
    destruct (G _ _ F Hin) as (k & I & E). exists k. split; [|assumption].
    apply zrange_In in I. lia.
  Qed.

  (* all ticks lie inside the domain *)
  Theorem ticks_in_domain : Forall (fun t => lo <= t <= hi) (ticks a b m).
  Proof.
    apply Forall_forall. intros t Hin. destruct (shape_In t Hin) as (k & [Hc Hf] & E).
    pose proof dom_step_pos as Hs. rewrite E.
    pose proof (Qle_ceiling (lo / step)) as C. fold c in C.
    pose proof (Qfloor_le (hi / step)) as Fl. fold f in Fl.
    apply div_mul_le in C; [|assumption]. apply mul_div_le in Fl; [|assumption].
    assert (inject_Z c <= inject_Z k) by (rewrite <- Zle_Qle; assumption).
    assert (inject_Z k <= inject_Z f) by (rewrite <- Zle_Qle; assumption).
    split; nra.
  Qed.

  (* no multiple of the step inside the domain is missing *)
  Theorem ticks_complete : forall k, lo <= inject_Z k * step <= hi ->
    exists t, In t (ticks a b m) /\ t == inject_Z k * step.
  Proof.
    intros k [H1 H2]. pose proof dom_step_pos as Hs.
    assert (Hc : (c <= k)%Z) by (apply ceil_le; apply div_mul_le; assumption).
    assert (Hf : (k <= f)%Z) by (apply floor_ge; apply mul_div_le; assumption).
    pose proof ticks_shape' as F.
    assert (I : In k (zrange c (Z.to_nat (f - c + 1)))) by (apply zrange_In; lia).
    revert I. clear -F. induction F as [|t k' l ks H F IH]; intro I; [contradiction|].
    destruct I as [E|I].
    - subst k'. exists t. split; [left; reflexivity|exact H].
    - destruct (IH I) as (t' & I' & E'). exists t'. split; [right; assumption|assumption].
  Qed.

  Lemma ticks_length : length (ticks a b m) = Z.to_nat (f - c + 1).
  Proof. rewrite (F2_length _ _ _ _ _ ticks_shape'). apply zrange_length. Qed.

  (* between floor(0.57 m) and 1.43 m + 1 ticks *)
  Theorem ticks_count :
    (Qfloor ((57 # 100) * inject_Z m) <= Z.of_nat (length (ticks a b m)))%Z /\
    inject_Z (Z.of_nat (length (ticks a b m))) <= (143 # 100) * inject_Z m + 1.
  Proof.
    rewrite ticks_length. pose proof dom_step_pos as Hs.
    pose proof (span_pos a b Hab) as HS.
    destruct (step_span_bounds (span_of a b) m HS Hm) as [B1 B2].
    fold (dom_step a b m) in B1, B2. fold step in B1, B2.
    assert (ES : span_of a b == hi - lo) by reflexivity. rewrite ES in *.
    pose proof (inject_Z_pos m Hm) as Hmq.
    pose proof (Qle_ceiling (lo / step)) as C1. pose proof (ceil_gt_pred (lo / step)) as C2.
    pose proof (Qfloor_le (hi / step)) as F1. pose proof (floor_lt_succ (hi / step)) as F2.
    fold c in C1, C2. fold f in F1, F2.
    assert (Elo : lo / step * step == lo) by (field; lra).
    assert (Ehi : hi / step * step == hi) by (field; lra).
    set (x := lo / step) in *. set (y := hi / step) in *.
    (* rho = y - x is between 4m/7 and 10m/7 *)
    assert (R1 : (4 # 7) * inject_Z m <= y - x) by nra.
    assert (R2 : y - x < (10 # 7) * inject_Z m) by nra.
    assert (N0 : (0 <= f - c + 1)%Z).
    { assert (inject_Z c - 1 < inject_Z f + 1) by lra.
      assert (inject_Z (c - 1) < inject_Z (f + 1)).
      { unfold Z.sub. rewrite !inject_Z_plus. exact H. }
      rewrite <- Zlt_Qlt in H0. lia. }
    rewrite Z2Nat.id by assumption.
    split.
    - (* f - c + 1 > rho - 1 >= floor(rho) - 1, and floor is monotone *)
      assert (M : (Qfloor ((57 # 100) * inject_Z m) <= Qfloor (y - x))%Z).
      { apply Qfloor_resp_le. lra. }
      pose proof (Qfloor_le (y - x)) as G.
      assert (inject_Z (Qfloor (y - x)) - 1 < inject_Z (f - c + 1)).
      { unfold Z.sub. rewrite !inject_Z_plus, inject_Z_opp.
        change (inject_Z 1) with 1. lra. }
      assert (inject_Z (Qfloor (y - x) - 1) < inject_Z (f - c + 1)).
      { unfold Z.sub at 1. rewrite inject_Z_plus. exact H. }
      rewrite <- Zlt_Qlt in H0. lia.
    - unfold Z.sub. rewrite !inject_Z_plus, inject_Z_opp. change (inject_Z 1) with 1. lra.
  Qed.
End Ticks.

(* reversed domains: everything depends on the domain only through its extent *)
Theorem ticks_sym : forall a b m, ~ a == b ->
  ticks a b m = ticks b a m /\ dom_step a b m = dom_step b a m.
Proof.
  intros a b m H. unfold ticks, ticks_opt, tick_range, ticks_fuel, dom_step, span_of.
  rewrite (extent_sym a b H). split; reflexivity.
Qed.
