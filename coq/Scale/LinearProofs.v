(* Proofs about Scale/Linear.v (property C12, point-wise part). *)
From Coq Require Import QArith Lqa Bool.
From Labella Require Import Scale.Linear.
Open Scope Q_scope.

Lemma Qeq_bool_false_iff : forall x y, Qeq_bool x y = false <-> ~ x == y.
Proof.
  intros x y. split.
  - intros H E. apply Qeq_bool_iff in E. congruence.
  - intro H. destruct (Qeq_bool x y) eqn:E; [|reflexivity].
    apply Qeq_bool_iff in E. contradiction.
Qed.

Lemma qmin_spec : forall x y, (x <= y /\ qmin x y = x) \/ (y < x /\ qmin x y = y).
Proof. intros x y. unfold qmin. destruct (Qlt_le_dec y x); [right|left]; split; auto. Qed.
Lemma qmax_spec : forall x y, (y <= x /\ qmax x y = x) \/ (x < y /\ qmax x y = y).
Proof. intros x y. unfold qmax. destruct (Qlt_le_dec x y); [right|left]; split; auto. Qed.

(* the unclamped parameter on a non-degenerate domain *)
Lemma unint_nd : forall a b x, ~ a == b -> unint false a b x = (x - a) / (b - a).
Proof.
  intros a b x H. unfold unint.
  assert (E : Qeq_bool b a = false) by (apply Qeq_bool_false_iff; intro; apply H; symmetry; assumption).
  rewrite E. reflexivity.
Qed.

Lemma unint_clamp_nd : forall a b x, ~ a == b ->
  unint true a b x = qmax 0 (qmin 1 ((x - a) / (b - a))).
Proof.
  intros a b x H. unfold unint.
  assert (E : Qeq_bool b a = false) by (apply Qeq_bool_false_iff; intro; apply H; symmetry; assumption).
  rewrite E. reflexivity.
Qed.

Lemma unint_degenerate : forall c a b x, a == b -> unint c a b x = 0.
Proof.
  intros c a b x H. unfold unint.
  assert (E : Qeq_bool b a = true) by (apply Qeq_bool_iff; symmetry; assumption).
  rewrite E. reflexivity.
Qed.

Lemma lin_formula : forall a b r0 r1 x, ~ a == b ->
  lin a b r0 r1 x == r0 + (r1 - r0) * (x - a) / (b - a).
Proof.
  intros a b r0 r1 x H. unfold lin, lin_gen, interp. rewrite unint_nd by assumption.
  field. intro E. apply H. lra.
Qed.

Theorem lin_endpoints : forall a b r0 r1, ~ a == b ->
  lin a b r0 r1 a == r0 /\ lin a b r0 r1 b == r1.
Proof.
  intros a b r0 r1 H. split; rewrite lin_formula by assumption; field; intro E; apply H; lra.
Qed.

(* affine: convex (indeed any affine) combinations are preserved *)
Theorem lin_affine : forall a b r0 r1 x y t, ~ a == b ->
  lin a b r0 r1 (x * (1 - t) + y * t) ==
  lin a b r0 r1 x * (1 - t) + lin a b r0 r1 y * t.
Proof.
  intros a b r0 r1 x y t H. rewrite !lin_formula by assumption.
  field. intro E. apply H. lra.
Qed.

Lemma lin_diff : forall a b r0 r1 x y, ~ a == b ->
  lin a b r0 r1 y - lin a b r0 r1 x == (r1 - r0) / (b - a) * (y - x).
Proof.
  intros a b r0 r1 x y H. rewrite !lin_formula by assumption.
  field. intro E. apply H. lra.
Qed.

Lemma Qdiv_pos_sign : forall p q, 0 < p * q -> 0 < p / q.
Proof.
  intros p q H.
  assert (Hq : ~ q == 0) by (intro E; rewrite E in H; lra).
  assert (Hs : 0 < q * q) by nra.
  assert (E : p / q == (p * q) / (q * q)) by (field; assumption).
  rewrite E. apply Qlt_shift_div_l; [assumption|lra].
Qed.

(* strictly monotone; the direction is the sign of (b-a)*(r1-r0) *)
Theorem lin_strict_mono : forall a b r0 r1 x y, ~ a == b -> ~ r0 == r1 -> x < y ->
  (0 < (b - a) * (r1 - r0) -> lin a b r0 r1 x < lin a b r0 r1 y) /\
  ((b - a) * (r1 - r0) < 0 -> lin a b r0 r1 y < lin a b r0 r1 x).
Proof.
  intros a b r0 r1 x y Hab Hr Hxy.
  pose proof (lin_diff a b r0 r1 x y Hab) as D.
  split; intro Hs.
  - assert (0 < (r1 - r0) / (b - a)) by (apply Qdiv_pos_sign; lra). nra.
  - assert (0 < (r0 - r1) / (b - a)) by (apply Qdiv_pos_sign; lra).
    assert (E : (r0 - r1) / (b - a) == - ((r1 - r0) / (b - a))) by (field; intro; apply Hab; lra).
    nra.
Qed.

(* one of the two cases of lin_strict_mono always applies *)
Lemma lin_direction_total : forall a b r0 r1 : Q, ~ a == b -> ~ r0 == r1 ->
  0 < (b - a) * (r1 - r0) \/ (b - a) * (r1 - r0) < 0.
Proof.
  intros a b r0 r1 Hab Hr.
  destruct (Qlt_le_dec 0 ((b - a) * (r1 - r0))) as [L|L]; [left; assumption|right].
  destruct (Qlt_le_dec ((b - a) * (r1 - r0)) 0) as [L'|L']; [assumption|exfalso].
  assert (E : (b - a) * (r1 - r0) == 0) by lra.
  apply Qmult_integral in E. destruct E as [E|E]; [apply Hab|apply Hr]; lra.
Qed.

Theorem lin_inv_left : forall a b r0 r1 x, ~ a == b -> ~ r0 == r1 ->
  inv a b r0 r1 (lin a b r0 r1 x) == x.
Proof.
  intros a b r0 r1 x Hab Hr. unfold inv, inv_gen. fold (lin r0 r1 a b (lin a b r0 r1 x)).
  rewrite (lin_formula r0 r1 a b _ Hr).
  rewrite (lin_formula a b r0 r1 x Hab).
  field. split; intro E; [apply Hr|apply Hab]; lra.
Qed.

Theorem lin_inv_right : forall a b r0 r1 y, ~ a == b -> ~ r0 == r1 ->
  lin a b r0 r1 (inv a b r0 r1 y) == y.
Proof.
  intros a b r0 r1 y Hab Hr. unfold inv, inv_gen. fold (lin r0 r1 a b y).
  rewrite (lin_formula a b r0 r1 _ Hab).
  rewrite (lin_formula r0 r1 a b y Hr).
  field. split; intro E; [apply Hab|apply Hr]; lra.
Qed.

(* clamping: the parameter stays in [0,1] ... *)
Lemma unint_clamp_01 : forall a b x, 0 <= unint true a b x <= 1.
Proof.
  intros a b x. unfold unint. destruct (Qeq_bool b a); [lra|].
  destruct (qmin_spec 1 ((x - a) / (b - a))) as [[H1 E1]|[H1 E1]];
  destruct (qmax_spec 0 (qmin 1 ((x - a) / (b - a)))) as [[H2 E2]|[H2 E2]];
  rewrite E2; rewrite ?E1 in *; lra.
Qed.

(* ... so the output never leaves the range (either orientation, and also for
   a degenerate domain, where the output is r0) *)
Theorem clamp_in_range : forall a b r0 r1 x,
  qmin r0 r1 <= lin_clamp a b r0 r1 x <= qmax r0 r1.
Proof.
  intros a b r0 r1 x. unfold lin_clamp, lin_gen, interp.
  pose proof (unint_clamp_01 a b x) as H. set (u := unint true a b x) in *.
  destruct (qmin_spec r0 r1) as [[H1 E1]|[H1 E1]]; rewrite E1;
  destruct (qmax_spec r0 r1) as [[H2 E2]|[H2 E2]]; rewrite E2; nra.
Qed.

(* inside the domain (either orientation) clamping changes nothing *)
Theorem clamp_id_inside : forall a b r0 r1 x, ~ a == b ->
  qmin a b <= x <= qmax a b ->
  lin_clamp a b r0 r1 x == lin a b r0 r1 x.
Proof.
  intros a b r0 r1 x Hab Hx. unfold lin_clamp, lin, lin_gen.
  rewrite unint_clamp_nd, unint_nd by assumption.
  set (u := (x - a) / (b - a)).
  assert (Hu : 0 <= u <= 1).
  { unfold u.
    destruct (qmin_spec a b) as [[H1 E1]|[H1 E1]]; rewrite E1 in Hx;
    destruct (qmax_spec a b) as [[H2 E2]|[H2 E2]]; rewrite E2 in Hx.
    - exfalso. apply Hab. lra.
    - split.
      + apply Qle_shift_div_l; lra.
      + apply Qle_shift_div_r; lra.
    - assert (E : (x - a) / (b - a) == (a - x) / (a - b)) by (field; split; intro; apply Hab; lra).
      rewrite E. split.
      + apply Qle_shift_div_l; lra.
      + apply Qle_shift_div_r; lra.
    - exfalso. lra. }
  assert (Eu : qmax 0 (qmin 1 u) == u).
  { destruct (qmin_spec 1 u) as [[H1 E1]|[H1 E1]]; rewrite E1.
    - destruct (qmax_spec 0 1) as [[H2 E2]|[H2 E2]]; rewrite E2; lra.
    - destruct (qmax_spec 0 u) as [[H2 E2]|[H2 E2]]; rewrite E2; lra. }
  unfold interp. rewrite Eu. reflexivity.
Qed.

(* the clamped inverse stays in the domain, and equals the unclamped inverse
   for outputs inside the range *)
Theorem clamp_inv_in_domain : forall a b r0 r1 y,
  qmin a b <= inv_gen true a b r0 r1 y <= qmax a b.
Proof. intros. unfold inv_gen. apply (clamp_in_range r0 r1 a b y). Qed.

Theorem clamp_inv_id_inside : forall a b r0 r1 y, ~ r0 == r1 ->
  qmin r0 r1 <= y <= qmax r0 r1 ->
  inv_gen true a b r0 r1 y == inv a b r0 r1 y.
Proof. intros. unfold inv_gen, inv. apply (clamp_id_inside r0 r1 a b y); assumption. Qed.

(* degenerate domain: the repaired code maps everything to the start of the range *)
Theorem lin_degenerate : forall c a b r0 r1 x, a == b -> lin_gen c a b r0 r1 x == r0.
Proof.
  intros c a b r0 r1 x H. unfold lin_gen, interp. rewrite unint_degenerate by assumption. ring.
Qed.
