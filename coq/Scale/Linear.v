(* Model of the point-wise part of labella/scale.py LinearScale
   (scale.py:27-47 d3_scale_bilinear, d3_uninterpolateNumber/Clamp,
   d3_interpolateNumber; scale.py:319-337 rescale/scale/invert).
   Doubles are modelled by exact rationals.  Model only: no proofs here. *)
From Coq Require Import QArith.
Open Scope Q_scope.

(* Python's min/max on numbers, value-wise *)
Definition qmin (x y : Q) : Q := if Qlt_le_dec y x then y else x.
Definition qmax (x y : Q) : Q := if Qlt_le_dec x y then y else x.

(* d3_uninterpolateNumber(a, b) / d3_uninterpolateClamp(a, b), scale.py:33-42:
     if b == a: return lambda x: 0                       (the repaired code)
     return lambda x: (x - a) / (b - a)                  (Number)
     return lambda x: max(0, min(1, (x - a) / (b - a)))  (Clamp)           *)
Definition unint (clamp : bool) (a b x : Q) : Q :=
  if Qeq_bool b a then 0
  else let u := (x - a) / (b - a) in
       if clamp then qmax 0 (qmin 1 u) else u.

(* d3_interpolateNumber(a, b), scale.py:49-50:  lambda t: a*(1-t) + b*t *)
Definition interp (r0 r1 t : Q) : Q := r0 * (1 - t) + r1 * t.

(* d3_scale_bilinear(domain, range, uninterpolate, interpolate), scale.py:27-30,
   with domain = [a, b] and range = [r0, r1] *)
Definition lin_gen (clamp : bool) (a b r0 r1 x : Q) : Q :=
  interp r0 r1 (unint clamp a b x).

Definition lin : Q -> Q -> Q -> Q -> Q -> Q := lin_gen false.
Definition lin_clamp : Q -> Q -> Q -> Q -> Q -> Q := lin_gen true.

(* rescale(), scale.py:319-331: _input = bilinear(range, domain, the SAME
   uninterpolate (clamped or not), d3_interpolate) *)
Definition inv_gen (clamp : bool) (a b r0 r1 y : Q) : Q := lin_gen clamp r0 r1 a b y.
Definition inv : Q -> Q -> Q -> Q -> Q -> Q := inv_gen false.
