(* Model of LinearScale.nice(m): d3_scale_linearNice (scale.py:141-148),
   d3_scale_nice (67-86), d3_scale_niceStep (89-96).  A domain is the pair
   (a, b) = (domain[0], domain[-1]).  Model only: no proofs here. *)
From Coq Require Import ZArith QArith Qround.
From Labella Require Import Scale.Ticks.
Open Scope Q_scope.

(* d3_scale_niceStep(step): floor/ceil to a multiple of step; identity for step 0 *)
Definition step_floor (step x : Q) : Q :=
  if Qeq_bool step 0 then x else Qred (inject_Z (Qfloor (x / step)) * step).
Definition step_ceil (step x : Q) : Q :=
  if Qeq_bool step 0 then x else Qred (inject_Z (Qceiling (x / step)) * step).

(* d3_scale_nice(domain, nice): x0 = domain[0], x1 = domain[-1];
   if x1 < x0 the two indices (and values) are swapped, then
   domain[i0] = floor(x0), domain[i1] = ceil(x1) *)
Definition nice_with (step : Q) (a b : Q) : Q * Q :=
  if Qlt_le_dec b a
  then (step_ceil step a, step_floor step b)      (* reversed: i0 = last, i1 = first *)
  else (step_floor step a, step_ceil step b).

(* one pass: the step is the tick step of the CURRENT domain
   (d3_scale_linearTickRange(domain, m)[2]) *)
Definition nice_pass (m : Z) (d : Q * Q) : Q * Q :=
  let (a, b) := d in nice_with (dom_step a b m) a b.

(* d3_scale_linearNice: two passes *)
Definition nice (m : Z) (d : Q * Q) : Q * Q := nice_pass m (nice_pass m d).

(* the three steps the theorems speak about *)
Definition step1 (m : Z) (d : Q * Q) : Q := dom_step (fst d) (snd d) m.
Definition step2 (m : Z) (d : Q * Q) : Q := step1 m (nice_pass m d).
Definition step_result (m : Z) (d : Q * Q) : Q := step1 m (nice m d).

(* ---------- specification predicates (used by the theorems) --------------- *)
(* x is an integer multiple of s *)
Definition is_multiple (s x : Q) : Prop := exists k : Z, x == inject_Z k * s.
(* sr / s2 is 1, 2, 5/2, 5 or 10 *)
Definition ratio_ok (sr s2 : Q) : Prop :=
  sr == s2 \/ sr == 2 * s2 \/ 2 * sr == 5 * s2 \/ sr == 5 * s2 \/ sr == 10 * s2.
