(* Model of the linear tick machinery of labella/scale.py:
   drange (19-23), d3_scaleExtent (59-64), d3_scale_linearTickRange (96-121),
   d3_scale_linearTicks (124-125), d3_scale_linearTickFormat (128-134),
   d3_scale_linearPrecision (137-138).
   Doubles are modelled by exact rationals; math.floor(math.log(x)/math.log(10))
   by the exact ilog10.  Model only: no proofs here. *)
From Coq Require Import ZArith QArith Qround Qpower List.
Import ListNotations.
Open Scope Q_scope.

(* ---------- powers of ten and the exact decimal logarithm ----------------- *)
Definition pow10 (e : Z) : Q := Qpower 10 e.

(* q >= 1: largest e >= e0 with 10^e <= q; invariant p = 10^e <= q.
   None = out of fuel (never, see ilog10_fuel_enough). *)
Fixpoint ilog_up (fuel : nat) (q p : Q) (e : Z) : option Z :=
  match fuel with
  | O => None
  | S f => if Qlt_le_dec q (p * 10) then Some e else ilog_up f q (p * 10) (e + 1)%Z
  end.

(* q < 1: largest e < e0 with 10^e <= q; invariant p = 10^e > q *)
Fixpoint ilog_down (fuel : nat) (q p : Q) (e : Z) : option Z :=
  match fuel with
  | O => None
  | S f => if Qlt_le_dec q (p / 10) then ilog_down f q (p / 10) (e - 1)%Z else Some (e - 1)%Z
  end.

(* the number of binary digits bounds the number of decimal digits *)
Definition fuel_up (q : Q) : nat := Z.to_nat (Z.log2 (Qnum q) + 2).
Definition fuel_down (q : Q) : nat := Z.to_nat (Z.log2 (Zpos (Qden q)) + 2).

Definition ilog10_opt (q : Q) : option Z :=
  if Qlt_le_dec q 1 then ilog_down (fuel_down q) q 1 0
  else ilog_up (fuel_up q) q 1 0.

(* floor(log10 q) for q > 0 *)
Definition ilog10 (q : Q) : Z :=
  match ilog10_opt q with Some e => e | None => 0%Z end.

(* ---------- d3_scaleExtent, scale.py:59-64 ------------------------------- *)
Definition extent (a b : Q) : Q * Q := if Qlt_le_dec a b then (a, b) else (b, a).

(* ---------- the tick step, scale.py:100-113 ------------------------------
     span = extent[1] - extent[0]; if span == 0: step 0
     step = pow(10, floor(log(span / m) / log(10)));  err = m / span * step
     err <= .15: step *= 10;  elif err <= .35: step *= 5;  elif err <= .75: step *= 2
   m is the requested count (positive; None means 10).  The result is reduced
   (Qred) so that the extracted code stays fast. *)
Definition tick_step (span : Q) (m : Z) : Q :=
  if Qeq_bool span 0 then 0
  else
    let mq := inject_Z m in
    let step := pow10 (ilog10 (span / mq)) in
    let err := mq / span * step in
    Qred (if Qle_bool err (15 # 100) then step * 10
          else if Qle_bool err (35 # 100) then step * 5
          else if Qle_bool err (75 # 100) then step * 2
          else step).

Definition span_of (a b : Q) : Q := snd (extent a b) - fst (extent a b).
Definition dom_step (a b : Q) (m : Z) : Q := tick_step (span_of a b) m.

(* ---------- d3_scale_linearTickRange, scale.py:96-121 --------------------
   returns (start, stop, step); for span 0: (lo, hi, 0) *)
Definition tick_range (a b : Q) (m : Z) : Q * Q * Q :=
  let (lo, hi) := extent a b in
  let step := tick_step (hi - lo) m in
  if Qeq_bool step 0 then (lo, hi, 0)
  else (inject_Z (Qceiling (lo / step)) * step,
        inject_Z (Qfloor (hi / step)) * step + step * (1 # 2),
        step).

(* ---------- drange, scale.py:19-23 ---------------------------------------
     r = start; while r < stop: yield r; r += step
   with fuel; None = out of fuel.  r is kept reduced. *)
Fixpoint drange (fuel : nat) (r stop step : Q) : option (list Q) :=
  if Qlt_le_dec r stop then
    match fuel with
    | O => None
    | S f => match drange f (Qred (r + step)) stop step with
             | Some l => Some (r :: l)
             | None => None
             end
    end
  else Some [].

(* enough rounds for every multiple between start and stop (and one to spare) *)
Definition ticks_fuel (a b : Q) (m : Z) : nat :=
  let (lo, hi) := extent a b in
  let step := tick_step (hi - lo) m in
  if Qeq_bool step 0 then O
  else S (Z.to_nat (Qfloor (hi / step) - Qceiling (lo / step) + 1)%Z).

(* d3_scale_linearTicks(domain, m) *)
Definition ticks_opt (a b : Q) (m : Z) : option (list Q) :=
  match tick_range a b m with
  | (start, stop, step) => drange (ticks_fuel a b m) start stop step
  end.
Definition ticks (a b : Q) (m : Z) : list Q :=
  match ticks_opt a b m with Some l => l | None => [] end.

(* ---------- d3_scale_linearPrecision, scale.py:137-138 -------------------
     -floor(log(value)/log(10) + 0.01)
   exactly: floor(log10 v + 1/100) = e+1 if (v / 10^(e+1))^100 * 10 >= 1 else e,
   where e = floor(log10 v) *)
Definition precision (v : Q) : Z :=
  let e := ilog10 v in
  if Qle_bool 1 (Qpower (v / pow10 (e + 1)) 100 * 10) then (- (e + 1))%Z else (- e)%Z.

(* decimals = max(0, precision(step)) if step else 0, scale.py:131 *)
Definition decimals (step : Q) : Z :=
  if Qeq_bool step 0 then 0%Z else Z.max 0 (precision step).

(* ---------- "{:.nf}".format(x), scale.py:132-134 -------------------------
   Python formats the exact binary value of the double, rounding half to even
   at the n-th decimal: the text denotes pyround(x * 10^n) / 10^n. *)
Definition pyround (q : Q) : Z :=
  let f := Qfloor q in
  let r := q - inject_Z f in
  if Qlt_le_dec r (1 # 2) then f
  else if Qlt_le_dec (1 # 2) r then (f + 1)%Z
  else if Z.even f then f else (f + 1)%Z.

(* the integer whose decimal digits (with the point n places from the right)
   are the text *)
Definition fmt (n : Z) (q : Q) : Z := pyround (q * pow10 n).
(* the number the text denotes *)
Definition fmt_value (n : Z) (q : Q) : Q := inject_Z (fmt n q) / pow10 n.

(* tick texts of a domain: decimals and the formatted ticks *)
Definition tick_texts (a b : Q) (m : Z) : Z * list Z :=
  let n := decimals (dom_step a b m) in (n, map (fmt n) (ticks a b m)).
