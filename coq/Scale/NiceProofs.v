(* Proofs about LinearScale.nice (Scale/Nice.v): outward, orientation kept,
   less than two steps, round end points. *)
From Coq Require Import ZArith QArith Qround Qpower Qabs Lqa Lia Bool.
From Labella Require Import Scale.Ticks Scale.Nice Scale.IlogProofs Scale.TickStepProofs Scale.TicksProofs.
Open Scope Q_scope.

(* ---------- floor / ceil to a multiple of a positive step ---------------- *)
Lemma step_floor_spec : forall s x, 0 < s ->
  step_floor s x == inject_Z (Qfloor (x / s)) * s /\ x - s < step_floor s x /\ step_floor s x <= x.
Proof.
  intros s x Hs. unfold step_floor. rewrite (Qeq_bool_neq_false s 0) by lra.
  rewrite Qred_correct. split; [reflexivity|].
  pose proof (Qfloor_le (x / s)) as A. pose proof (floor_lt_succ (x / s)) as B.
  assert (E : x / s * s == x) by (field; lra). split; nra.
Qed.

Lemma step_ceil_spec : forall s x, 0 < s ->
  step_ceil s x == inject_Z (Qceiling (x / s)) * s /\ x <= step_ceil s x /\ step_ceil s x < x + s.
Proof.
  intros s x Hs. unfold step_ceil. rewrite (Qeq_bool_neq_false s 0) by lra.
  rewrite Qred_correct. split; [reflexivity|].
  pose proof (Qle_ceiling (x / s)) as A. pose proof (ceil_gt_pred (x / s)) as B.
  assert (E : x / s * s == x) by (field; lra). split; nra.
Qed.

(* a multiple of the step is a fixed point *)
Lemma step_floor_mult : forall s k, 0 < s -> step_floor s (inject_Z k * s) == inject_Z k * s.
Proof.
  intros s k Hs. destruct (step_floor_spec s (inject_Z k * s) Hs) as [E _]. rewrite E.
  assert (X : inject_Z k * s / s == inject_Z k) by (field; lra).
  rewrite X, Qfloor_Z. reflexivity.
Qed.

Lemma step_ceil_mult : forall s k, 0 < s -> step_ceil s (inject_Z k * s) == inject_Z k * s.
Proof.
  intros s k Hs. destruct (step_ceil_spec s (inject_Z k * s) Hs) as [E _]. rewrite E.
  assert (X : inject_Z k * s / s == inject_Z k) by (field; lra).
  rewrite X, Qceiling_Z. reflexivity.
Qed.

(* ---------- one pass ------------------------------------------------------ *)

(* d3_scale_nice with a positive step, increasing domain *)
Lemma nice_with_inc : forall s a b, 0 < s -> a < b ->
  let d := nice_with s a b in
  fst d <= a /\ a - s < fst d /\ b <= snd d /\ snd d < b + s /\
  is_multiple s (fst d) /\ is_multiple s (snd d).
Proof.
  intros s a b Hs L. unfold nice_with. destruct (Qlt_le_dec b a) as [X|X]; [lra|]. simpl.
  destruct (step_floor_spec s a Hs) as (E1 & A1 & A2).
  destruct (step_ceil_spec s b Hs) as (E2 & B1 & B2).
  repeat split; try assumption; eexists; eassumption.
Qed.

(* ... decreasing domain: the index swap of scale.py:73-79 *)
Lemma nice_with_dec : forall s a b, 0 < s -> b < a ->
  let d := nice_with s a b in
  a <= fst d /\ fst d < a + s /\ snd d <= b /\ b - s < snd d /\
  is_multiple s (fst d) /\ is_multiple s (snd d).
Proof.
  intros s a b Hs L. unfold nice_with. destruct (Qlt_le_dec b a) as [X|X]; [|lra]. simpl.
  destruct (step_ceil_spec s a Hs) as (E1 & A1 & A2).
  destruct (step_floor_spec s b Hs) as (E2 & B1 & B2).
  repeat split; try assumption; eexists; eassumption.
Qed.

Lemma span_of_inc : forall a b, a < b -> span_of a b = b - a.
Proof. intros a b L. unfold span_of, extent. destruct (Qlt_le_dec a b); [reflexivity|lra]. Qed.

Lemma span_of_dec : forall a b, b < a -> span_of a b = a - b.
Proof. intros a b L. unfold span_of, extent. destruct (Qlt_le_dec a b); [lra|reflexivity]. Qed.

Lemma tick_step_comp : forall S S' m, 0 < S -> (0 < m)%Z -> S == S' ->
  tick_step S m == tick_step S' m.
Proof.
  intros S S' m HS Hm E. apply Qle_antisym; apply step_monotone; try assumption; lra.
Qed.

Section Nice.
  Variables (m : Z).
  Hypothesis Hm : (0 < m)%Z.

  (* one pass on a non-degenerate domain: both ends move outward by less than
     the step of that domain, land on multiples of it, orientation is kept *)
  Lemma pass_inc : forall a b, a < b ->
    let s := dom_step a b m in let d := nice_pass m (a, b) in
    0 < s /\ fst d <= a /\ a - s < fst d /\ b <= snd d /\ snd d < b + s /\
    is_multiple s (fst d) /\ is_multiple s (snd d).
  Proof.
    intros a b L s d.
    assert (Hs : 0 < s).
    { unfold s, dom_step. apply step_pos; [|assumption]. rewrite span_of_inc by assumption. lra. }
    split; [assumption|]. unfold d, nice_pass. fold s. apply nice_with_inc; assumption.
  Qed.

  Lemma pass_dec : forall a b, b < a ->
    let s := dom_step a b m in let d := nice_pass m (a, b) in
    0 < s /\ a <= fst d /\ fst d < a + s /\ snd d <= b /\ b - s < snd d /\
    is_multiple s (fst d) /\ is_multiple s (snd d).
  Proof.
    intros a b L s d.
    assert (Hs : 0 < s).
    { unfold s, dom_step. apply step_pos; [|assumption]. rewrite span_of_dec by assumption. lra. }
    split; [assumption|]. unfold d, nice_pass. fold s. apply nice_with_dec; assumption.
  Qed.

  (* the step of a wider domain is at least as large *)
  Lemma dom_step_mono_inc : forall a b a' b', a < b -> a' <= a -> b <= b' ->
    dom_step a b m <= dom_step a' b' m.
  Proof.
    intros a b a' b' L La Lb. unfold dom_step.
    rewrite (span_of_inc a b) by assumption. rewrite (span_of_inc a' b') by lra.
    apply step_monotone; [lra|lra|assumption].
  Qed.

  Lemma dom_step_mono_dec : forall a b a' b', b < a -> a <= a' -> b' <= b ->
    dom_step a b m <= dom_step a' b' m.
  Proof.
    intros a b a' b' L La Lb. unfold dom_step.
    rewrite (span_of_dec a b) by assumption. rewrite (span_of_dec a' b') by lra.
    apply step_monotone; [lra|lra|assumption].
  Qed.

  (* ---------- the two passes, increasing domain -------------------------- *)
  Lemma nice_inc : forall a b, a < b ->
    let d := (a, b) in
    let s1 := step1 m d in let s2 := step2 m d in let sr := step_result m d in
    let r := nice m d in
    0 < s1 /\ s1 <= s2 /\ s2 <= sr /\
    fst r <= a /\ b <= snd r /\ fst r < snd r /\
    a - fst r < s1 + s2 /\ snd r - b < s1 + s2 /\
    is_multiple s2 (fst r) /\ is_multiple s2 (snd r).
  Proof.
    intros a b L d s1 s2 sr r.
    destruct (pass_inc a b L) as (P0 & P1 & P2 & P3 & P4 & _ & _).
    set (p := nice_pass m (a, b)) in *.
    assert (Ep : p = (fst p, snd p)) by (destruct p; reflexivity).
    assert (Lp : fst p < snd p) by lra.
    destruct (pass_inc (fst p) (snd p) Lp) as (Q0 & Q1 & Q2 & Q3 & Q4 & Q5 & Q6).
    rewrite <- Ep in Q1, Q2, Q3, Q4, Q5, Q6.
    assert (E1 : s1 = dom_step a b m) by reflexivity.
    assert (E2 : s2 = dom_step (fst p) (snd p) m) by reflexivity.
    assert (Er : r = nice_pass m p) by reflexivity.
    rewrite <- E1 in *. rewrite <- E2 in *. rewrite <- Er in *.
    assert (M1 : s1 <= s2) by (rewrite E1, E2; apply dom_step_mono_inc; assumption).
    assert (Lr : fst r < snd r) by lra.
    assert (M2 : s2 <= sr).
    { unfold sr, step_result, step1. fold r. rewrite E2. apply dom_step_mono_inc; assumption. }
    repeat split; try assumption; lra.
  Qed.

  Lemma nice_dec : forall a b, b < a ->
    let d := (a, b) in
    let s1 := step1 m d in let s2 := step2 m d in let sr := step_result m d in
    let r := nice m d in
    0 < s1 /\ s1 <= s2 /\ s2 <= sr /\
    a <= fst r /\ snd r <= b /\ snd r < fst r /\
    fst r - a < s1 + s2 /\ b - snd r < s1 + s2 /\
    is_multiple s2 (fst r) /\ is_multiple s2 (snd r).
  Proof.
    intros a b L d s1 s2 sr r.
    destruct (pass_dec a b L) as (P0 & P1 & P2 & P3 & P4 & _ & _).
    set (p := nice_pass m (a, b)) in *.
    assert (Ep : p = (fst p, snd p)) by (destruct p; reflexivity).
    assert (Lp : snd p < fst p) by lra.
    destruct (pass_dec (fst p) (snd p) Lp) as (Q0 & Q1 & Q2 & Q3 & Q4 & Q5 & Q6).
    rewrite <- Ep in Q1, Q2, Q3, Q4, Q5, Q6.
    assert (E1 : s1 = dom_step a b m) by reflexivity.
    assert (E2 : s2 = dom_step (fst p) (snd p) m) by reflexivity.
    assert (Er : r = nice_pass m p) by reflexivity.
    rewrite <- E1 in *. rewrite <- E2 in *. rewrite <- Er in *.
    assert (M1 : s1 <= s2) by (rewrite E1, E2; apply dom_step_mono_dec; assumption).
    assert (Lr : snd r < fst r) by lra.
    assert (M2 : s2 <= sr).
    { unfold sr, step_result, step1. fold r. rewrite E2. apply dom_step_mono_dec; assumption. }
    repeat split; try assumption; lra.
  Qed.

  (* ---------- the property's clauses ------------------------------------- *)
  (* never inward *)
  Theorem nice_outward : forall a b,
    (a < b -> fst (nice m (a, b)) <= a /\ b <= snd (nice m (a, b))) /\
    (b < a -> a <= fst (nice m (a, b)) /\ snd (nice m (a, b)) <= b).
  Proof.
    intros a b. split; intro L.
    - destruct (nice_inc a b L) as (_ & _ & _ & H1 & H2 & _). split; assumption.
    - destruct (nice_dec a b L) as (_ & _ & _ & H1 & H2 & _). split; assumption.
  Qed.

  (* the orientation is kept (and the result is not degenerate) *)
  Theorem nice_orientation : forall a b,
    (a < b -> fst (nice m (a, b)) < snd (nice m (a, b))) /\
    (b < a -> snd (nice m (a, b)) < fst (nice m (a, b))).
  Proof.
    intros a b. split; intro L.
    - destruct (nice_inc a b L) as (_ & _ & _ & _ & _ & H & _). assumption.
    - destruct (nice_dec a b L) as (_ & _ & _ & _ & _ & H & _). assumption.
  Qed.

  (* each end moves by less than step1 + step2 <= 2 * the step of the result *)
  Theorem nice_lt_two_steps : forall a b, ~ a == b ->
    let d := (a, b) in let r := nice m d in
    0 < step1 m d /\ step1 m d <= step2 m d /\ step2 m d <= step_result m d /\
    Qabs (fst r - a) < step1 m d + step2 m d /\ Qabs (snd r - b) < step1 m d + step2 m d /\
    Qabs (fst r - a) < 2 * step_result m d /\ Qabs (snd r - b) < 2 * step_result m d.
  Proof.
    intros a b Hab d r. unfold r, d. clear r d.
    destruct (Qlt_le_dec a b) as [L|L].
    - destruct (nice_inc a b L) as (H0 & H1 & H2 & H3 & H4 & _ & H5 & H6 & _).
      assert (A1 : Qabs (fst (nice m (a, b)) - a) == a - fst (nice m (a, b))).
      { etransitivity; [apply Qabs_neg; lra|ring]. }
      assert (A2 : Qabs (snd (nice m (a, b)) - b) == snd (nice m (a, b)) - b) by (apply Qabs_pos; lra).
      rewrite A1, A2. repeat split; try assumption; lra.
    - assert (L' : b < a).
      { destruct (Qlt_le_dec b a); [assumption|]. exfalso. apply Hab. lra. }
      destruct (nice_dec a b L') as (H0 & H1 & H2 & H3 & H4 & _ & H5 & H6 & _).
      assert (A1 : Qabs (fst (nice m (a, b)) - a) == fst (nice m (a, b)) - a) by (apply Qabs_pos; lra).
      assert (A2 : Qabs (snd (nice m (a, b)) - b) == b - snd (nice m (a, b))).
      { etransitivity; [apply Qabs_neg; lra|ring]. }
      rewrite A1, A2. repeat split; try assumption; lra.
  Qed.

  (* both ends are multiples of the second pass's step *)
  Theorem nice_round_step2 : forall a b, ~ a == b ->
    is_multiple (step2 m (a, b)) (fst (nice m (a, b))) /\
    is_multiple (step2 m (a, b)) (snd (nice m (a, b))).
  Proof.
    intros a b Hab. destruct (Qlt_le_dec a b) as [L|L].
    - destruct (nice_inc a b L) as (_ & _ & _ & _ & _ & _ & _ & _ & H1 & H2). split; assumption.
    - assert (L' : b < a).
      { destruct (Qlt_le_dec b a); [assumption|]. exfalso. apply Hab. lra. }
      destruct (nice_dec a b L') as (_ & _ & _ & _ & _ & _ & _ & _ & H1 & H2). split; assumption.
  Qed.
End Nice.
